#!/bin/bash
# MANIFEST.setup_cmd: build the Lean library, the proofs and the compiled driver from files on
# disk; validate the bitcoin.core shim against the upstream tests that record real-library outputs.
set -e
cd "$(dirname "$0")"
export REPO_ROOT="${REPO_ROOT:-/repo}"
/venv/bin/python translator/extract.py "$REPO_ROOT" lean/PowHsm/Generated
(cd lean && lake build driver PowHsm 2>&1 | tail -5)
PYTHONDONTWRITEBYTECODE=1 PYTHONPATH="/verif/shims" /venv/bin/python shims/selfcheck.py
(cd "$REPO_ROOT/middleware" && PYTHONDONTWRITEBYTECODE=1 PYTHONPATH="/verif/shims:$REPO_ROOT/middleware" \
  /venv/bin/python -m pytest -q -p no:cacheprovider tests/comm/test_bitcoin.py 2>&1 | tail -2)
echo setup-ok
