#!/bin/bash
# tools/seed_eval3.sh <worktree-name> <Cxx> : like seed_eval2.sh, but the check runs against the scratch worktree
# itself (REPO_ROOT=<worktree>, patch applied there) and /repo is never touched
set -u
W=$1; P=$2; WT=/tmp/wt/$W; OUT=/verif/seeded/$W
mkdir -p $OUT
cp $WT/patch.diff $WT/demo.py $OUT/ 2>/dev/null; cp $WT/NOTES.md $OUT/NOTES.md 2>/dev/null
cd $WT && git checkout -q -- . && git apply $OUT/patch.diff || { echo "patch does not apply"; exit 1; }
git -C /repo apply --check $OUT/patch.diff || { echo "patch does not apply to /repo"; exit 1; }
T1=$(cd $WT && /venv/bin/python -m pytest -q -p no:cacheprovider --timeout=900 --continue-on-collection-errors 2>&1 | tail -1)
T2=$(cd $WT/middleware && PYTHONDONTWRITEBYTECODE=1 PYTHONPATH=/tmp/pyshims:$WT/middleware /venv/bin/python -m pytest -q -p no:cacheprovider tests 2>&1 | tail -1)
(cd $WT/middleware && PYTHONDONTWRITEBYTECODE=1 PYTHONPATH=/tmp/pyshims:$WT/middleware timeout 600 /venv/bin/python $WT/demo.py >/dev/null 2>&1); D1=$?
(cd $WT && git checkout -q -- .)
(cd $WT/middleware && PYTHONDONTWRITEBYTECODE=1 PYTHONPATH=/tmp/pyshims:$WT/middleware timeout 600 /venv/bin/python $WT/demo.py >/dev/null 2>&1); D0=$?
(cd $WT && git apply $OUT/patch.diff)
echo "tests(pinned): $T1"; echo "tests(902): $T2"; echo "demo with change: exit $D1; without: exit $D0"
cd /verif && QUICK=$(REPO_ROOT=$WT ./check $P --tier quick 2>&1 | grep -v KNOWN-FINDING | tail -1 | cut -c1-160)
echo "check quick: $QUICK"
python3 - <<PY
import json
json.dump({"property":"$P","breaks":"$P","pinned_tests":"$T1","extended_tests":"$T2","demo_exit_with_change":$D1,"demo_exit_without_change":$D0,
 "check_quick":"""$QUICK""","needs":"see NOTES.md","detected_by":"./check $P --tier quick","ran":["pinned pytest","902-test pytest with bitcoin.core stand-in","demo.py with/without change","REPO_ROOT=<scratch worktree with the patch applied> ./check $P --tier quick"]},
 open("$OUT/meta.json","w"),indent=1)
PY
