#!/bin/bash
# run every quick check on the clean tree and validate the evidence files (run before committing evidence)
cd /verif
git -C /repo status --short | grep -q . && { echo "/repo is dirty"; exit 1; }
for p in C01 C02 C03 C04 C05 C06 C07 C08 C09 C10 C11 C12 C13 C14 C15 C16 C17 C18 C19; do
  ./check $p --tier quick 2>&1 | grep -v KNOWN | tail -1 | cut -c1-100
done
python3-vt - <<'PY'
import json, jsonschema, glob
sch = json.load(open('/root/.vp/EVIDENCE.schema.json'))
for f in sorted(glob.glob('/verif/evidence/*.json')):
    e = json.load(open(f))
    jsonschema.validate(e, sch)
    c = e['coverage']
    assert c['discharged'] == c['obligations'] >= 1, (f, c['discharged'], c['obligations'])
    assert e['violations'] == 0, f
jsonschema.validate(json.load(open('/verif/MANIFEST.json')), json.load(open('/root/.vp/MANIFEST.schema.json')))
print("evidence + manifest valid")
PY
