#!/bin/bash
# tools/refactor_eval.sh <worktree-name> <Cxx>... : run the given checks against a scratch worktree that carries a
# behaviour-preserving refactoring; every one of them must exit 0 (no VIOLATION line)
W=$1; shift
cd /verif
for p in "$@"; do
  out=$(REPO_ROOT=/tmp/wt/$W ./check $p --tier quick 2>&1 | grep -v KNOWN-FINDING | tail -1 | cut -c1-150)
  esc=$(python3 -c "import json;c=json.load(open('evidence/$p.json'))['coverage'];print(len(c.get('changed_functions',[])), c['evaluations'])")
  echo "$W $p: $out  [changed functions, cases: $esc]"
done
