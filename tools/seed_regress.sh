#!/bin/bash
# tools/seed_regress.sh [ids...] : apply every seeded change in turn, run the quick check of the property it breaks,
# expect a VIOLATION line, revert.  By default on /repo itself (left clean; committed evidence restored).  With
# REGRESS_WT=<dir> a scratch worktree of /repo at <dir> is used instead (REPO_ROOT=<dir>), so /repo is never touched.
set -u
cd "$(dirname "$0")/.."
R=/repo
if [ -n "${REGRESS_WT:-}" ]; then
  R=$REGRESS_WT
  [ -d "$R" ] || git -C /repo worktree add -q --detach "$R" HEAD
  export REPO_ROOT=$R
fi
git -C $R diff --quiet || { echo "$R is not clean"; exit 2; }
ids=${@:-$(ls seeded)}
rc=0
for id in $ids; do
  p=$(python3 -c "import json;print(json.load(open('seeded/$id/meta.json'))['property'])")
  git -C $R apply "$(pwd)/seeded/$id/patch.diff" || { echo "$id: patch does not apply"; rc=1; continue; }
  out=$(./check $p --tier quick 2>&1 | grep -v KNOWN-FINDING | tail -1 | cut -c1-120)
  git -C $R checkout -- .
  case "$out" in VIOLATION*) echo "$id: detected  ($out)";; *) echo "$id: MISSED  ($out)"; rc=1;; esac
done
git checkout -q evidence
if [ -n "${REGRESS_WT:-}" ]; then git -C /repo worktree remove --force "$R"; fi
exit $rc
