#!/bin/bash
# tools/seed_regress.sh [ids...] : apply every seeded change to /repo in turn, run the quick check of the property it
# breaks, expect a VIOLATION line, revert.  Leaves /repo clean and restores the committed evidence files.
set -u
cd /verif
git -C /repo diff --quiet || { echo "/repo is not clean"; exit 2; }
ids=${@:-$(ls seeded)}
rc=0
for id in $ids; do
  p=$(python3 -c "import json;print(json.load(open('seeded/$id/meta.json'))['property'])")
  git -C /repo apply /verif/seeded/$id/patch.diff || { echo "$id: patch does not apply"; rc=1; continue; }
  out=$(./check $p --tier quick 2>&1 | grep -v KNOWN-FINDING | tail -1 | cut -c1-120)
  git -C /repo checkout -- .
  case "$out" in VIOLATION*) echo "$id: detected  ($out)";; *) echo "$id: MISSED  ($out)"; rc=1;; esac
done
git checkout -q evidence
exit $rc
