#!/venv/bin/python
"""Records the normalised-AST fingerprints of every function of the anchored source files (run on the clean tree,
after every fix: commit to /repo)."""
import os
import subprocess
import sys
sys.path.insert(0, os.path.dirname(os.path.dirname(os.path.abspath(__file__))))
from harness import fingerprint  # noqa: E402

if subprocess.run(["git", "-C", "/repo", "status", "--short"], capture_output=True).stdout.strip():
    sys.exit("/repo is dirty")
print("recorded %d functions" % fingerprint.record())
