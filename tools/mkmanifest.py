#!/usr/bin/env python3
"""Regenerates /verif/MANIFEST.json from the table below (kept valid at all times)."""
import json
import os

V = os.path.dirname(os.path.dirname(os.path.abspath(__file__)))
BASE = ("cd /repo && /venv/bin/python -m pytest -ra -q -p no:cacheprovider --timeout=900 "
        "--continue-on-collection-errors")

CLAIMED = {
    "C01": ("Lean theorems for every device behaviour (every script, any length): during an authorized signature "
            "the manager sends only SIGN messages, in this order: the path with the input index, then messages "
            "of the transaction part whose payloads form a prefix of LE32 length || mode || LE16 || unsigned tx "
            "|| extra data, then a prefix of the receipt, then a prefix of the framed merkle proof - nothing "
            "else, nothing reordered - and whenever a signature is returned every part was sent in full "
            "(sign_relays_exactly, composed from the per-step specification of the chunked transfer); an "
            "unauthorized signature sends exactly one message, path || hash (sign_hash_relays_exactly); a signature "
            "returned is the (r, s) of the DER signature in the device's answer to the LAST message sent, and that "
            "answer names the SUCCESS operation (sign_returns_device_signature, sign_hash_returns_device_signature: "
            "Proofs/SignLast.lean, through all four steps); and conversely, for the same decomposition of the trace, the "
            "signature (r, s) is returned IF AND ONLY IF all three parts went out in full and the device's answer to the "
            "last message names SUCCESS and carries the DER signature (r, s) (sign_succeeds_exactly_when: "
            "Proofs/SignConverse.lean — a failed step leaves the later parts empty, and a framed proof is never empty); per "
            "transfer: prefix / completeness-on-success / chunk independence. The oracle Spec.C01.c01 recomputes "
            "the expected parts (path/input, BTC payload layout with unsigned tx and extra data, receipt, proof "
            "framing) from the request independently of the model's encoders and checks prefix/order/"
            "completeness and success-iff-consumed-and-DER on the implementation's APDU trace.",
            "the theorems are about the model of sign_authorized / sign_unauthorized and the chunked transfer; the "
            "reply's JSON fields and the transaction clearing before relaying are C13's / C14's; python-bitcoinlib is "
            "represented by the shim"),
    "C02": ("Lean theorems: non-objects get the format error; everything the generic gate or a command's validator "
            "refuses is answered with that code with no event at all in every world (rejected_no_contact); "
            "accepted requests are handed to the operation; udValue/keyId validators agree with the documented "
            "zones; for EVERY JSON object and both modes the refusals of the generic gate (missing command / "
            "version, wrong version, unknown command) carry exactly the code Spec.C02.judge allows and satisfy the "
            "oracle (gate_refusals_conform), and every version-1 command and the seven version-5 commands that "
            "carry no transaction or block are classified as the documents prescribe - a validator refusal "
            "carries an allowed code for a field the documents do not call valid and reaches no device, an "
            "acceptance is not forbidden (simple_commands_conform; Proofs/Classify.lean, incl. parsePath => the "
            "documents' path grammar); version-5 sign is classified as the documents prescribe through BOTH "
            "validation stages (comm/protocol.py _validate_sign, ledger/protocol.py _sign) for every JSON object: "
            "a refusal carries -103/-102/-101 for a field the documents do not call valid, emits no event and "
            "satisfies the oracle, and what passes both stages is not forbidden (sign_v5_conform; "
            "Proofs/ClassifySign.lean); for advanceBlockchain / updateAncestorBlock every refusal is the documents' "
            "and the ONLY acceptances they forbid are those of the known finding F-02b - a blocks member that is "
            "a non-empty string but not hex (blocks_commands_conform; Proofs/ClassifyBlocks.lean) - so the "
            "classification of every request of both protocol versions is proved up to that one recorded "
            "finding; the counterexample F-02b itself is proved. Spec/C02.lean formalises docs/protocol*.md as Valid / "
            "Unspecified / Invalid zones per field; the oracle allowedObs is evaluated on the implementation's "
            "verdict (code, device contacted) for the full single-field mutation matrix.",
            "partial: the theorems are about the gate and the validators (both stages for sign); that an accepted request then contacts the device is C03/C11's; "
            "Spec/C02.lean is a trusted reading of the documents; the model's tie to the code is the mutation matrix"),
    "C03": ("Lean theorems, full statement for the model of the whole manager (comm/server.py line handling, "
            "comm/protocol.py gate + validators, ledger/protocol*.py handlers, ledger/hsm2dongle.py operations): with "
            "no link repair pending and a device that keeps to its protocol (Spec.deviceConforms: per-(APDU, answer) "
            "predicate), no Python exception leaves handle_request, the reply is a JSON object with an integer "
            "errorcode, the server is not shut down and no repair is pending afterwards - for every JSON value, both "
            "protocol modes, every script (request_answered, line_answered), and by induction for every sequence of "
            "lines over one manager lifetime (histories_answered); line_meets_oracle: the model's observation always "
            "satisfies the oracle Spec.c03 that the check evaluates on the implementation. Proof: a program logic "
            "over the scripted-environment monad (Proofs/Conform*.lean: Tracks = one script entry per APDU, for every "
            "computation of the model; Safe = returns or raises only what the caller handles), induction over the "
            "script for chunked transfers and over block / brother lists. Unconditional theorems kept: "
            "handle_request always returns an object with an integer errorcode; every line is answered. The model is "
            "tied to the real server/protocol/dongle code by the differential runs (per line, hostile lines, whole "
            "lifetimes) with the same oracle on the implementation's output.",
            "side condition Bounded: a `blocks` array has fewer than 2^32 members; that CPython raises no exception "
            "the model does not know of is validated by the correspondence streams, not derived from CPython's "
            "semantics; JSON grammar and python-bitcoinlib (shim) are trusted"),
    "C04": ("Lean theorems. For the whole manager model, whatever the request (any JSON), the protocol mode and the "
            "device's behaviour (every script: any status word, time-out, link error or malformed answer at any "
            "step): a reply of handle_request carries an integer result code which, for a request naming one of "
            "the ten commands, is one docs/protocol*.md lists for that command or a generic 9xx code "
            "(reply_code_documented: codes of the gate, of each validator and of each handler read off the model's "
            "control flow in Proofs/Codes.lean, then command_codes_documented by decide over the generated code and "
            "document tables); an error status inside the device's own range at any step - and every other "
            "behaviour the device protocol allows - never stops the manager (error_range_never_stops, from the C03 "
            "program logic). Over the tables the translator regenerates from the source on every run: every "
            "result of the advance / update / sign translations is a documented code (for every status word and "
            "every result, via a lookup-with-default lemma); for every status whose cause the documentation names, "
            "at the step where the firmware raises it, the tables yield that very code (named_cause_tables, by "
            "decide over the generated tables); Python enums equal the firmware headers; opcode and range "
            "constants as specified. The oracle Spec.C04.c04 (documented code, 0/1 only on device success, named "
            "cause, error-range status never stops the manager) is evaluated on the implementation's output for "
            "the status x step matrix, also after the same manager served another command.",
            "partial: '0/1 exactly on the device's total/partial success' and 'the named cause reaches the table "
            "lookup at step k of the real exchange' are the model's control flow, tied to the code by the "
            "correspondence matrix (pages 0x69-0x6D complete at every step kind, all 65536 words for one step kind "
            "of sign and of advance, in thorough); namedCause is a trusted reading of firmware headers and docs"),
    "C05": ("Lean theorems for every device behaviour (every script): the block operation announces the client's "
            "block count and then, for a prefix of the client's blocks in the client's order, sends each block's "
            "metadata message (operation, BE16 merge-mining payload size, coinbase hash for advance) followed by "
            "chunk messages whose payloads are a prefix of that block's own bytes; what lies between two blocks "
            "(brother exchanges) contains no message of the main stream (block_operation_trace, blocks_in_order: "
            "nothing skipped, repeated or reordered); the brothers of a block go out in the order of the list "
            "handed over, each as metadata + prefix of its bytes (brothers_in_order), and that list is a "
            "permutation of the client's brothers, pairwise ascending by hash key (brothers_sorted: total + "
            "transitive byte order, core mergeSort lemmas, stable); length/count fields round-trip; the RLP codec of the model (pyrlp strict decode / raw encode) round-trips for every item shorter than 2^64 bytes (rlp_roundtrip, induction on the decoder fuel), the announced merge-mining size is the payload length of the field list without the merge-mining fields on both sides of every length-form boundary (announced_size_is_payload_length), and the form sent for an ancestor update is a fixed point of the removal, so its block hash equals that of the client's block for any keccak (mm_removal_keeps_hash). The oracle "
            "Spec.C05.c05 re-parses the implementation's APDU trace into (metadata, header, brothers) segments and "
            "checks announced count, byte-exact in-order headers (mm fields removed for ancestor updates), "
            "metadata = BE16(mm payload length) || coinbase hash (hash recomputed independently from the full "
            "coinbase), brother count/sorting/permutation, and 0/1 exactly on total/partial success.",
            "the RLP model is tied to pyrlp by the correspondence streams (incl. headers on the length-form "
            "boundaries); the 'only when' half of '0/1 exactly on total/partial success' is a theorem (success_only_with_ok_codes, reply_zero_one_iff), the 'always when' half is decided by correspondence + oracle; "
            "keccak/SHA-256 uninterpreted"),
    "C06": ("Lean theorems about the chain walk for paths of any length: the target is reported valid iff every "
            "link on its path verifies against its certifier (root of trust for the topmost one); otherwise the "
            "element named is the first one from the root down that does not verify and everything above it does; "
            "the verdict depends on the target's own path only; and link by link (valid_iff_conditions, "
            "linkValid_iff): the model of the element's is_valid (Admin/CertLinks.lean) makes a link valid exactly "
            "when its signature verifies under the certifier's key - under the key tweaked by HMAC-SHA256(tweak, "
            "key) whenever the element declares a tweak, and then only under that one. In the correspondence runs "
            "the primitive facts of each link (tweak declared, signature verifies under the plain key, under the "
            "tweaked key) are computed with an independent implementation (python-ecdsa + explicit point "
            "addition for the HMAC tweak) while the code under test uses the secp256k1 binding, the Lean model "
            "combines them, and the verdicts are compared with "
            "HSMCertificate.validate_and_get_values on real-key certificates and all single-point corruptions.",
            "partial: ECDSA/HMAC/SHA-256 are uninterpreted (unforgeability is not a theorem); key extraction "
            "from the certifier's message is done by the independent fact provider, not proved"),
    "C07": ("The chain theorems of C06 (valid iff every link verifies, first failing element named, path-only "
            "dependence) hold for version-2 certificates, which use the same walk; report-data offsets (320 in a "
            "report body, 368 in a quote) are checked. The per-link conditions are modelled (Admin/CertLinks.lean: "
            "the is_valid of the X.509, attestation-key and quote elements over primitive library facts) and "
            "proved equivalent to the property's wording (linkValid_iff, quote_valid_iff_conditions): the quote is "
            "reported valid iff every X.509 element has an X.509 certifier, lies inside its validity period "
            "(notBefore <= now <= notAfter, at the clock's resolution) and is signed by it, the attestation key is "
            "bound to its report data and signed by a certifier that has a P-256 key, and the quote is bound to its "
            "custom data and signed by the attestation key. The primitive facts (signature verifies, SHA-256 "
            "binding matches, validity bounds in microseconds, certifier has a key) are computed per case by an "
            "independent implementation that uses the two crypto libraries the other way round than the code "
            "under test, the Lean model combines them, and the verdicts are compared with "
            "HSMCertificateV2.validate_and_get_values on freshly generated chains, all corruption classes and "
            "clocks frozen at the edges of each validity period.",
            "partial: cryptographic soundness is an assumption; the primitive facts come from the independent "
            "fact provider (harness/sgxgen.py), not from a proof; `now` is a parameter"),
    "C08": ("Lean theorems about the decision functions of both verify commands: the powHSM message is accepted "
            "only with its header and exactly header+115 bytes and its fields are the slices at the documented "
            "offsets; the SGX command finishes without error only if (and if) the quote target is valid, the "
            "message well-formed and its keys hash equals the operator's; the Ledger command finishes only if the "
            "BTC path key is present and equals the UI-attested key at its offset, both targets are valid, and "
            "the signer message (legacy: nothing after the hash; current: exact length) reports the operator's "
            "keys hash, and conversely it does finish, printing exactly those slices, whenever these conditions hold "
            "(ledger_ok_if_current, ledger_ok_if_legacy); printed values are the slices. Tied to the real do_verify_attestation (files in a temp "
            "dir, stdout parsed) by correspondence over genuine triples and the listed variants.",
            "certificate verdicts come from the chain model + independent link table; SHA-256 uninterpreted"),
    "C09": ("Lean theorems about the bring-up model for EVERY device behaviour (every script of answers, any "
            "length, all three platforms): no message that carries PIN material (SEND_PIN, UNLOCK, CHANGE_PIN, "
            "SGX_UNLOCK, SGX_CHANGE_PASSWORD) is emitted while the start-up and bootloader checks run "
            "(no_pin_during_checks); when the checks hand over, the device had reported onboarded, a supported UI "
            "version, a matching echo and >= 2 retries (checks_establish); hence any PIN-bearing message in a "
            "bring-up implies exactly those facts, as reported in that very run (pin_only_after_checks); the unlock "
            "command is sent at most once (unlock_at_most_once, by counting over the monadic structure); serving "
            "starts only from signer mode with a supported signer version (served_only_if); conversely a device that "
            "answers as an onboarded one in signer mode with a supported signer version and well-formed parameters "
            "is served (serves_from_signer, any platform), and so is one in bootloader mode with a supported UI, a "
            "correct echo, enough retries and an accepted PIN of any length that needs no change and lands in such "
            "a signer after the reconnection, whatever became of the exit command (serves_after_unlock, Ledger / "
            "TCP platforms; serves_after_unlock_sgx with the SGX echo / retries / one-message unlock; "
            "Proofs/BringUpServe*.lean evaluate the bring-up on the symbolic answers); the version relation is "
            "characterised for all naturals and equals the property's; constants 5.4.1 / two retries as specified. "
            "The model (initialize_device, _handle_bootloader, PIN object, three platforms, TCPServer.run's "
            "exception map) is tied to the real TCPServer.run by correspondence; the oracle Spec.C09.c09 checks on "
            "the implementation's trace: unlock at most once, PIN only after establishing answers, served exactly "
            "when the simulated device's actual state makes it safe (ground truth), over the full state product.",
            "'stops without serving in every other case' beyond served_only_if is decided by the exhaustive grid "
            "(correspondence + oracle), not by a theorem"),
    "C10": ("Lean theorems about an explicit machine over (PIN file, device PIN, default) with faults and crash "
            "points at every step boundary of the change protocol: the file changes only after the device's ack "
            "and then holds that PIN; refused/failed/aborted changes leave everything untouched; the manager "
            "carries on only when no change was needed; PIN policy; recoverability is preserved by every life "
            "(and history, by induction) outside the ack-to-file window, and the counterexample inside it "
            "(F-10a) is proved. The machine is tied to ledger/pin.py + ledger/protocol.py + both dongle classes "
            "by running the real code in a forked child with os._exit / OSError injected at the same points, "
            "exhaustively over the start-state x life product; the same protocol reached through a link repair is "
            "run through the real _RequestHandler (op line.C10: change attempted => shutdown; file written => "
            "device acknowledged).",
            "known findings F-10a-*; OS-level atomicity below open/write/close not modelled"),
    "C11": ("Lean theorems: for the whole manager model, for every request line (any JSON, any command, both modes) "
            "and every script in which each exchange is answered as the device protocol allows OR ends in a "
            "time-out, write error or read error - at any position, any number of times - the line is answered "
            "with an integer errorcode, no exception leaves the handler and the manager keeps running "
            "(link_faults_never_stop: the C03 program logic with link faults admitted, Proofs/Conform*.lean `lf`); "
            "transport classification; ensure_connection is a no-op without a pending repair; "
            "under the common handler guard a communication error yields the device-error code and raises the "
            "repair flag, a time-out yields the same code and leaves the flag; with a repair pending and a failing "
            "connect the request gets the device-error code, nothing reaches the device, and the flag stays up "
            "(reconnect_failure_retries, any number of attempts); with a repair pending the trace of any guarded "
            "command is: disconnect, then the complete bring-up (which starts by re-opening the connection), and "
            "the command's own events follow only if the bring-up succeeded - otherwise nothing of the command is "
            "sent (repair_precedes_command, bringup_opens_first; every device behaviour). The oracle Spec.C11.c11 is evaluated on the "
            "implementation for every fault position x kind x command x mode and on repair follow-ups / real "
            "two-request histories; it also requires that the repair flag is cleared only by a bring-up that ran to "
            "its end.",
            "that the code after a link fault is exactly the device-error code, and the flag exactly for write / "
            "read errors, are theorems per guard (guard_comm, guard_timeout, device_code_reply) composed per handler by "
            "the correspondence streams; TCP-transport faults are out of scope (the property's quantifier is over "
            "the HID link)"),
    "C12": ("Lean theorems: the server class instantiated by comm/server.py (extracted from the source by the "
            "translator on every run) is socketserver.TCPServer, i.e. the `sequential` kind of the scheduler model, "
            "and its handler class processes the request inline and starts no thread / process / task on the way "
            "(also extracted); "
            "for that kind, for any number of clients and EVERY schedule (arbitrary list of accept/step choices), "
            "the device log stays in contiguous per-request blocks (invariant: at most one running handler; "
            "induction over the schedule); for the handler-per-connection kind the interleaving counter-schedule "
            "is proved, so switching the class breaks the obligation. Tied to the real TCPServer.run on an "
            "ephemeral port with 2..16 simultaneous client threads and random device-side delays; the oracle "
            "checks contiguous blocks, reply routing, and equality with the model under the observed accept order.",
            "partial by nature: CPython's socketserver/kernel sequential semantics are assumed; the real-socket "
            "runs are schedule sampling, not proof; when an obligation breaks, the search also runs slow-request "
            "schedules longer than every numeric constant of comm/server.py"),
    "C13": ("Lean theorems: for every script, when the hash queries of blockchainState succeed the device was "
            "asked, in order, for the selector of each name, each answer echoed that selector and carried 32 "
            "bytes, and the value returned under the name is exactly those bytes (state_hashes_exact, "
            "state_hash_exact); the public key returned is the device's whole answer to the query for exactly "
            "the requested path (pubkey_verbatim); the total difficulty is the big-endian value of the difficulty "
            "answer after its header and the three flags are the three flag bytes in the documented order "
            "(blockchain_state_verbatim); checkpoint, minimum difficulty and network are the three fields of the "
            "69-byte parameters answer (parameters_verbatim); a heartbeat carries the answers to the five queries "
            "sent in order - UD value first - with r, s the components of the DER signature answered "
            "(heartbeat_verbatim); over generated tables: state selectors, flag offsets and "
            "network names are those of firmware bc_state.h / docs/protocol.md; big-endian difficulty read-back "
            "ignores leading zeros and round-trips below 2^288; and the last step: with no repair pending, getPubKey, "
            "blockchainParameters, blockchainState and signerHeartbeat answer errorcode 0 with exactly the documented "
            "field names holding exactly the device layer's values (*_reply_fields; Proofs/QueryReply.lean). The oracle Spec.C13.c13 recomputes the documented reply from the simulated "
            "genuine device's state and requires the implementation's reply to equal it field by field, and a "
            "uiHeartbeat to end in signer mode or report -905.",
            "the reply fields of uiHeartbeat (whose mode dance precedes them) and the device mode after it are tied "
            "by correspondence + oracle; the simulated device stands for a genuine "
            "one; known finding F-13a"),
    "C15": ("Lean theorems about the framing between the device and the attestation file: the SGX quote envelope "
            "(fixed structs, u16-prefixed QE auth data, u16+u32-prefixed certification data, custom message) is "
            "parsed back field by field for every well-formed envelope with auth / cert data of any admissible "
            "length (parse (build e) = e); a message cut into any pages within the limit is reassembled exactly and "
            "more pages than allowed are refused; the base64 codec round-trips every byte string "
            "(x509_message_roundtrip) and from_pem - collapse white space, delete both markers, strip, decode - "
            "applied to the PEM text of any certificate at any line width yields exactly its DER bytes "
            "(pem_text_roundtrip). Acceptance with exactly the device's values is the composition "
            "with C06/C07/C08 under the hypothesis that signatures verify. Tied to the code end to end: simulated "
            "genuine Ledger and SGX devices (real keys) are driven through the real DongleAdmin endorsement calls, "
            "ledger_attestation / sgx_attestation do_attestation, save+load and the real verify commands; the "
            "printed values must equal the model's; every single-point alteration of the device's answers or the "
            "root must end in an error; PEM loading of the root / chain (Admin/Pem.lean) is run against "
            "get_root_of_trust on files whose base64 body ends in every alphabet character.",
            "partial: 'any alteration is refused' rests on unforgeability — exercised with real keys (a test), "
            "not proved; the interactive part of do_onboard is covered by C18"),
    "C16": ("Lean theorems: the sanity walk of _parse (the unbounded `while True` with a visited list) never needs "
            "more than |elements|+1 steps (pigeonhole on distinct names) — the Python loop terminates on every "
            "input; an accepted target has a finite, duplicate-free chain ending at an element signed by the root, "
            "found by the validation walk with the same fuel; saving and loading again yields the same verdicts "
            "(save_load_same_verdicts: what to_dict writes - one entry per name, in first-appearance order, with "
            "the last value - denotes the same dictionary as the list first loaded (saved_same_dictionary), and "
            "every verdict is a function of that dictionary, whatever the list's length, for every outcome of "
            "the signature checks; the X.509 bodies survive by the base64 round trip of C15). The parse model (v1 and v2 factories, dict-key "
            "semantics) is tied to from_jsonfile / validate_and_get_values / save+load by correspondence on "
            "mutated certificate-shaped documents, run under a wall-clock alarm.",
            "base64 acceptance of X.509 messages is an input of the model; signature checks stubbed by a link table"),
    "C14": ("Lean theorems about the model of get_unsigned_tx (python-bitcoinlib's transaction and script codec "
            "re-modelled): version, outputs, lock time, witness, and per input outpoint and sequence are carried "
            "over; each input script becomes n-1 empty pushes followed by its last operation re-encoded "
            "canonically and decodes to exactly those operations (script_shape, any push encoding, any length "
            "below 2^32); clearing is idempotent on scripts and on transactions; two scripts with the same number "
            "of operations and the same last operation clear to the same bytes (signature independence); a "
            "transaction is refused exactly when some input script is undecodable or empty; and on the wire: "
            "what is relayed for a decodable transaction with at least one input is a fixed point of the whole "
            "byte-level transformation (relayed_fixed_point, via the proved serialize/deserialize round trip of "
            "the codec for legacy and segwit forms and 'a parsed transaction is well-formed'); the sign handler "
            "answers -102 with no event at all when the transaction cannot be cleared (undecodable_tx_refused). "
            "Tied to the code by differential correspondence (get_unsigned_tx, and the relay path through the real "
            "manager incl. a pending link repair) and the oracle Spec.c14 evaluated on the implementation's output.",
            "python-bitcoinlib is represented by the validated shim; theorems are about the model"),
    "C17": ("Lean theorems: the text to be signed is exactly RSK_powHSM_signer_<hash>_iteration_<n> wrapped as an "
            "Ethereum personal message with the decimal length; str(n) is injective (decimal read-back) and so is "
            "the message in (hash, iteration); iterations are accepted iff 0 <= n < 65536, malformed hashes are "
            "refused; authorize_signer sends the SIGN messages of a prefix of the file's signatures in file "
            "order for every device behaviour, and fails without a single signature. Tied to SignerVersion / "
            "SignerAuthorization save+load / HSM2Dongle.authorize_signer by correspondence; real sign-then-verify "
            "of `signapp key` with the independent secp256k1 binding over the Keccak digest of the specified "
            "message is part of the C19 stream.",
            "Keccak-256 uninterpreted; int() leniencies on iteration strings not modelled"),
    "C18": ("Lean theorems, for every device behaviour and every operator script: if do_onboard sends any of SEED, "
            "SEND_PIN, WIPE or SGX_ONBOARD then the device checks had handed over with bootloader mode, a matching "
            "echo and 'not onboarded' (as reported in that run), the operator had said yes, and the PIN sent is "
            "policy-compliant (onboard_destructive_only_after_checks); if do_unlock sends any PIN-bearing message "
            "then the checks had handed over with bootloader mode, onboarded and a matching echo "
            "(unlock_pin_only_after_checks); if do_changepin sends the change-PIN command (CHANGE_PIN / SGX "
            "change-password) at any point, it does so for a PIN that satisfies the policy - relaxed only when "
            "any-PIN was allowed - and nothing before the new-PIN step, the unlock included, sends it "
            "(changepin_only_policy_pin); whenever do_get_pubkeys ends normally its last exchanges are GET_PUBLIC_KEY "
            "for the six documented paths in the documented order followed only by the disconnection, and the keys "
            "handed to the output files are the device's answers to exactly those six messages "
            "(pubkeys_are_device_keys); the model's PIN policy is the property's (8 alphanumerics with a "
            "letter; alphanumerics only when any-PIN is allowed); a policy-violating PIN given to onboard stops "
            "it before the device is contacted; the confirmation loop proceeds only on an explicit yes. The models of do_onboard (up to "
            "the device being onboarded), do_unlock, do_changepin and do_get_pubkeys with both dongle classes are "
            "tied to the real functions (Platform.set, scripted stdin/getpass/os.urandom) by correspondence over "
            "the exhaustive state x operator grid; the oracle Spec.C18.c18 checks on the implementation's trace: "
            "seed/PIN/wipe only after answers establishing bootloader + echo + not onboarded and an operator yes; "
            "the seed messages carry exactly the generator's 32 bytes, indexed, once; unlock only for an onboarded "
            "bootloader; PIN policy unless any-PIN; public keys asked for the six documented paths and written "
            "as the device returned them; the output files of `pubkeys -o` are part of the model (World.pubkeyFiles: "
            "opened only after every key has been gathered) and observed on disk, with a link fault / timeout / error "
            "status injected at every exchange of an export over an earlier one: each file is untouched or lists "
            "the six documented paths (Spec.C18.filesOk).",
            "'when the preconditions hold the operation is carried out' is a theorem for onboarding on a Ledger "
            "(onboard_carried_out: exact message sequence - the random source's 32 seed bytes, the length-prefixed "
            "PIN, the wipe - and a normal end); for unlock / change-PIN / public keys 'carried out' and the change-PIN "
            "mode preconditions are decided by the exhaustive grid with faults at every exchange (correspondence + "
            "oracle: unlock acknowledged => the command ends normally; output files whole); seed "
            "freshness (that os.urandom is random) is not a theorem"),
    "C19": ("Lean theorems about ledgerblue's Intel-HEX parser as used by compute_app_hash: for every file the "
            "parser accepts, the areas it returns are sorted by start address (sorted insertion invariant, by "
            "induction over the records), so the hash is over the data areas in address order whatever the order "
            "in the file; a run of consecutive data records appends exactly the concatenation of its payloads and "
            "flushes nothing, so two cuttings of the same bytes into records give the same area "
            "(splitting_independent). Tied to IntelHexParser / compute_app_hash / signapp hash by correspondence "
            "on images rendered by an independent writer; the oracle compares the hashed bytes with the "
            "generator's own area list. One-time signing (real signonetime.main): signatures verify under the "
            "written key over SHA-256 of the generator's areas, key written nowhere, fresh per run — tests, "
            "labelled as such.",
            "partial: the one-time signing half is validated by test with real crypto, not proved; SHA-256/ECDSA "
            "uninterpreted"),
}
NOT_YET = "check not built yet (work in progress; see DESIGN.md §11)"


def main():
    props = [json.loads(l) for l in open(os.path.join(V, "properties.jsonl"))]
    m = {"version": 1, "setup_cmd": "./setup.sh",
         "hooks": {"guard": "RSK_POWHSM_VERIF",
                   "enable": "none needed: observation is by monkeypatching from /verif/harness (getDongle, "
                             "disconnect wrappers, time.sleep, ledger.pin.open); no source hooks in /repo",
                   "baseline_off_cmd": BASE, "source_commits": [], "add_only": True},
         "engines": [{"name": "lean4+differential", "path": "lean/ harness/ translator/",
                      "serves_properties": sorted(CLAIMED),
                      "kind_free_text": "Lean 4 model + theorems (lake build, #print axioms audit), "
                      "translator-generated tables, differential correspondence of the compiled Lean driver "
                      "against the real Python code, property oracle evaluated on the implementation's output"}],
         "checks": [], "not_applicable": [],
         "notes": "see DESIGN.md; fixes of genuine defects are the 'fix:' commits of /repo listed in known_findings.json"}
    for p in props:
        pid = p["id"]
        if pid in CLAIMED:
            text, note = CLAIMED[pid]
            m["checks"].append({
                "property_id": pid, "quick_cmd": "./check %s --tier quick" % pid,
                "thorough_cmd": "./check %s --tier thorough" % pid,
                "evidence_file": "/verif/evidence/%s.json" % pid,
                "replay_cmd_template": "./check %s --replay {path}" % pid,
                "engine": "lean4+differential",
                "level_claimed": {"category": "proof", "text": text, "design_ref": "DESIGN.md §5 " + pid},
                "level_note": note, "technique": "Lean 4 proof + translator/differential correspondence"})
        else:
            m["not_applicable"].append({"property_id": pid, "reason": NOT_YET})
    json.dump(m, open(os.path.join(V, "MANIFEST.json"), "w"), indent=1)


if __name__ == "__main__":
    main()
