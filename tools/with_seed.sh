#!/bin/bash
# tools/with_seed.sh <seeded-id> <Cxx> [tier] : apply a seeded change to /repo, run the check, revert
set -u
cd /verif
git -C /repo diff --quiet || { echo "/repo is not clean"; exit 2; }
git -C /repo apply /verif/seeded/$1/patch.diff || exit 2
./check $2 --tier ${3:-quick} 2>&1 | grep -v KNOWN-FINDING | tail -2 | cut -c1-200
git -C /repo checkout -- . ; git -C /repo status --short
