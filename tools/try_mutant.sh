#!/bin/bash
# tools/try_mutant.sh '<sed expr>' <file relative to /repo> <Cxx> [tier]  -- apply a one-line mutation, run the check, undo
set -u
cd /repo && sed -i "$1" "$2" && git diff --stat | tail -1
cd /verif && ./check "$3" --tier "${4:-quick}" | cut -c1-220
git -C /repo checkout -- . && git -C /repo status --short
