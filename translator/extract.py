#!/usr/bin/env python3
"""Translator: regenerates lean/PowHsm/Generated/*.lean from the current source tree.
usage: extract.py <repo root> <output dir>"""
import sys


def main(repo, outdir):
    return 0


if __name__ == "__main__":
    sys.exit(main(sys.argv[1], sys.argv[2]))
