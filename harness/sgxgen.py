"""Genuine SGX attestation material built with `cryptography` (P-256 X.509 chains, QE report,
quote), and an independent per-link oracle: the X.509 links are checked with python-ecdsa
(the code under test uses `cryptography` for them), the attestation-key and quote links with
`cryptography` (the code under test uses python-ecdsa for those)."""
import base64
import datetime
import hashlib
import struct

import ecdsa
from cryptography import x509
from cryptography.hazmat.primitives import hashes, serialization
from cryptography.hazmat.primitives.asymmetric import ec, utils as asym_utils
from cryptography.x509.oid import NameOID
from cryptography.exceptions import InvalidSignature

UTC = datetime.timezone.utc


def new_key(rng, curve=None):
    d = rng.randrange(1, 2 ** 255)
    return ec.derive_private_key(d, curve or ec.SECP256R1())


def make_cert(rng, subject_cn, subject_key, issuer_cn, issuer_key, not_before=None, not_after=None):
    now = datetime.datetime.now(UTC)
    nb = not_before or now - datetime.timedelta(days=10)
    na = not_after or now + datetime.timedelta(days=3650)
    b = x509.CertificateBuilder().subject_name(x509.Name([x509.NameAttribute(NameOID.COMMON_NAME, subject_cn)])) \
        .issuer_name(x509.Name([x509.NameAttribute(NameOID.COMMON_NAME, issuer_cn)])) \
        .public_key(subject_key.public_key()).serial_number(rng.getrandbits(64) | 1) \
        .not_valid_before(nb).not_valid_after(na)
    return b.sign(issuer_key, hashes.SHA256())


def pem_body(cert):
    """the `message` of an x509_pem element: base64 of the DER, as from_pem produces it"""
    pem = cert.public_bytes(serialization.Encoding.PEM).decode()
    import re
    return re.sub(r"[\s\n\r]+", " ", pem).replace("-----END CERTIFICATE-----", "") \
        .replace("-----BEGIN CERTIFICATE-----", "").strip()


def raw_xy(key):
    n = key.public_key().public_numbers()
    return n.x.to_bytes(32, "big") + n.y.to_bytes(32, "big")


def sign_der(key, msg):
    return key.sign(msg, ec.ECDSA(hashes.SHA256()))


def report_body(rng, report_data):
    rb = bytes(rng.getrandbits(8) for _ in range(320)) + report_data.ljust(64, b"\x00")
    assert len(rb) == 384
    return rb


def quote(rng, custom_data, mrenclave=None, mrsigner=None):
    hdr = struct.pack("<HHIHH", 3, 2, 0, rng.getrandbits(16), rng.getrandbits(16)) + \
        bytes(rng.getrandbits(8) for _ in range(36))
    assert len(hdr) == 48
    rb = bytearray(report_body(rng, hashlib.sha256(custom_data).digest() + bytes(rng.getrandbits(8) for _ in range(32))))
    if mrenclave:
        rb[64:96] = mrenclave
    if mrsigner:
        rb[128:160] = mrsigner
    return hdr + bytes(rb)


class Material:
    """root CA -> (intermediates) -> leaf (PCK) -> attestation key -> quote"""

    def __init__(self, rng, depth=None, custom=None, auth_len=None, validity=None):
        self.rng = rng
        depth = depth if depth is not None else rng.choice([1, 2, 3])
        self.keys = [new_key(rng) for _ in range(depth + 1)]       # [root, ..., leaf]
        self.certs = [make_cert(rng, "root", self.keys[0], "root", self.keys[0])]
        for i in range(1, depth + 1):
            nb = na = None
            if validity and validity[0] == i:
                now = datetime.datetime.now(UTC)
                if validity[1] == "expired":
                    nb, na = now - datetime.timedelta(days=20), now - datetime.timedelta(days=1)
                else:
                    nb, na = now + datetime.timedelta(days=1), now + datetime.timedelta(days=20)
            self.certs.append(make_cert(rng, "ca%d" % i, self.keys[i], "root" if i == 1 else "ca%d" % (i - 1),
                                        self.keys[i - 1], nb, na))
        self.att_key = new_key(rng)
        self.auth_data = bytes(rng.getrandbits(8) for _ in range(auth_len if auth_len is not None
                                                                 else rng.choice([1, 32, 100, 1000])))
        self.qe_report = report_body(rng, hashlib.sha256(raw_xy(self.att_key) + self.auth_data).digest())
        self.qe_sig = sign_der(self.keys[-1], self.qe_report)
        self.custom = custom if custom is not None else bytes(rng.getrandbits(8) for _ in range(rng.choice([10, 50, 122])))
        self.quote = quote(rng, self.custom)
        self.quote_sig = sign_der(self.att_key, self.quote)

    def elements(self):
        """bottom-up, as admin/sgx_attestation.py writes them"""
        els = [{"name": "quote", "type": "sgx_quote", "message": self.quote.hex(), "custom_data": self.custom.hex(),
                "signature": self.quote_sig.hex(), "signed_by": "attestation"},
               {"name": "attestation", "type": "sgx_attestation_key", "message": self.qe_report.hex(),
                "key": (b"\x04" + raw_xy(self.att_key)).hex(), "auth_data": self.auth_data.hex(),
                "signature": self.qe_sig.hex(), "signed_by": "cert%d" % (len(self.certs) - 1)}]
        for i in range(len(self.certs) - 1, 0, -1):
            els.append({"name": "cert%d" % i, "type": "x509_pem", "message": pem_body(self.certs[i]),
                        "signed_by": "sgx_root" if i == 1 else "cert%d" % (i - 1)})
        return els

    def certificate(self, targets=("quote",)):
        return {"version": 2, "targets": list(targets), "elements": self.elements()}

    def root_pem(self):
        return self.certs[0].public_bytes(serialization.Encoding.PEM).decode()


# ------------------------------------------------------------------ independent link oracle

def _x509_from_element(e):
    der = base64.b64decode(e["message"])
    return x509.load_der_x509_certificate(der)


def _ecdsa_vk_of_cert(cert):
    pk = cert.public_key()
    if not isinstance(pk, ec.EllipticCurvePublicKey) or not isinstance(pk.curve, ec.SECP256R1):
        return None
    n = pk.public_numbers()
    return ecdsa.VerifyingKey.from_string(n.x.to_bytes(32, "big") + n.y.to_bytes(32, "big"), curve=ecdsa.NIST256p)


def _crypto_pub_of(kind, obj):
    """certifier public key as a `cryptography` key; None if the certifier cannot provide a P-256 key"""
    try:
        if kind == "x509":
            pk = obj.public_key()
            if not isinstance(pk, ec.EllipticCurvePublicKey) or not isinstance(pk.curve, ec.SECP256R1):
                return None
            return pk
        if kind == "attkey":
            raw = bytes.fromhex(obj["key"])
            if len(raw) == 64:
                raw = b"\x04" + raw
            return ec.EllipticCurvePublicKey.from_encoded_point(ec.SECP256R1(), raw)
    except Exception:
        return None
    return None


def _verify_crypto(pub, sig_der, msg):
    try:
        pub.verify(sig_der, msg, ec.ECDSA(hashes.SHA256()))
        return True
    except Exception:
        return False


def link_valid(e, certifier, now=None):
    """`certifier`: element dict, or ('root', x509 cert)"""
    now = now or datetime.datetime.now(UTC)
    try:
        t = e.get("type")
        if isinstance(certifier, tuple):
            ckind, cobj = "x509", certifier[1]
        elif certifier.get("type") == "x509_pem":
            ckind, cobj = "x509", _x509_from_element(certifier)
        elif certifier.get("type") == "sgx_attestation_key":
            ckind, cobj = "attkey", certifier
        else:
            ckind, cobj = "other", certifier
        if t == "x509_pem":
            if ckind != "x509":
                return False
            subject = _x509_from_element(e)
            if subject.not_valid_before_utc > now or subject.not_valid_after_utc < now:
                return False
            # issuer signature over the TBS bytes, checked with python-ecdsa
            ipk = cobj.public_key()
            if not isinstance(ipk, ec.EllipticCurvePublicKey):
                return False
            n = ipk.public_numbers()
            curve = {"secp256r1": ecdsa.NIST256p, "secp384r1": ecdsa.NIST384p, "secp256k1": ecdsa.SECP256k1}.get(ipk.curve.name)
            if curve is None:
                return False
            size = (ipk.curve.key_size + 7) // 8
            vk = ecdsa.VerifyingKey.from_string(n.x.to_bytes(size, "big") + n.y.to_bytes(size, "big"), curve=curve)
            h = {"sha256": hashlib.sha256, "sha384": hashlib.sha384}.get(subject.signature_hash_algorithm.name)
            if h is None:
                return False
            return vk.verify(subject.signature, subject.tbs_certificate_bytes, hashfunc=h,
                             sigdecode=ecdsa.util.sigdecode_der)
        if t == "sgx_attestation_key":
            msg = bytes.fromhex(e["message"])
            key = bytes.fromhex(e["key"])
            pub = _crypto_pub_of("attkey", e)
            if pub is None or len(msg) < 384:
                return False
            n = pub.public_numbers()
            raw = n.x.to_bytes(32, "big") + n.y.to_bytes(32, "big")
            if hashlib.sha256(raw + bytes.fromhex(e["auth_data"])).digest() != msg[320:352]:
                return False
            cpub = _crypto_pub_of(ckind, cobj)
            return cpub is not None and _verify_crypto(cpub, bytes.fromhex(e["signature"]), msg)
        if t == "sgx_quote":
            msg = bytes.fromhex(e["message"])
            if len(msg) < 432:
                return False
            if hashlib.sha256(bytes.fromhex(e["custom_data"])).digest() != msg[48 + 320:48 + 352]:
                return False
            cpub = _crypto_pub_of(ckind, cobj)
            return cpub is not None and _verify_crypto(cpub, bytes.fromhex(e["signature"]), msg)
        return False
    except Exception:
        return False


def _us(dt):
    epoch = datetime.datetime.fromtimestamp(0, UTC)
    return (dt - epoch) // datetime.timedelta(microseconds=1)


def link_facts(e, certifier, now=None):
    """the primitive facts about one link, for the Lean model `Cert.linkValid` to combine: which kind of
    element and certifier, whether their material parses, the clock and the validity period (microseconds),
    whether the report data is bound, whether the certifier can provide a key, whether the signature verifies.
    `certifier`: element dict, or ('root', x509 cert).  Independent of admin/certificate_v2.py."""
    now = now or datetime.datetime.now(UTC)
    t = e.get("type")
    f = {"kind": {"x509_pem": "x509", "sgx_attestation_key": "attkey", "sgx_quote": "quote"}.get(t, "other"),
         "certifier_is_x509": False, "loads": False, "now": _us(now), "not_before": 0, "not_after": 0,
         "bound": False, "certifier_has_key": False, "sig_ok": False}
    try:
        if isinstance(certifier, tuple):
            ckind, cobj = "x509", certifier[1]
        elif certifier.get("type") == "x509_pem":
            ckind, cobj = "x509", None
        elif certifier.get("type") == "sgx_attestation_key":
            ckind, cobj = "attkey", certifier
        else:
            ckind, cobj = "other", certifier
        f["certifier_is_x509"] = ckind == "x509"
        if t == "x509_pem":
            if ckind != "x509":
                return f
            subject = _x509_from_element(e)
            if cobj is None:
                cobj = _x509_from_element(certifier)
            f["loads"] = True
            f["not_before"] = _us(subject.not_valid_before_utc)
            f["not_after"] = _us(subject.not_valid_after_utc)
            ipk = cobj.public_key()
            if isinstance(ipk, ec.EllipticCurvePublicKey):
                n = ipk.public_numbers()
                curve = {"secp256r1": ecdsa.NIST256p, "secp384r1": ecdsa.NIST384p,
                         "secp256k1": ecdsa.SECP256k1}.get(ipk.curve.name)
                h = {"sha256": hashlib.sha256, "sha384": hashlib.sha384}.get(subject.signature_hash_algorithm.name)
                if curve is not None and h is not None:
                    size = (ipk.curve.key_size + 7) // 8
                    vk = ecdsa.VerifyingKey.from_string(n.x.to_bytes(size, "big") + n.y.to_bytes(size, "big"),
                                                        curve=curve)
                    try:
                        f["sig_ok"] = bool(vk.verify(subject.signature, subject.tbs_certificate_bytes, hashfunc=h,
                                                     sigdecode=ecdsa.util.sigdecode_der))
                    except Exception:
                        f["sig_ok"] = False
            return f
        if t in ("sgx_attestation_key", "sgx_quote"):
            msg = bytes.fromhex(e["message"])
            if t == "sgx_attestation_key":
                pub = _crypto_pub_of("attkey", e)
                if pub is None or len(msg) < 384:
                    return f
                n = pub.public_numbers()
                raw = n.x.to_bytes(32, "big") + n.y.to_bytes(32, "big")
                f["loads"] = True
                f["bound"] = hashlib.sha256(raw + bytes.fromhex(e["auth_data"])).digest() == msg[320:352]
            else:
                if len(msg) < 432:
                    return f
                f["loads"] = True
                f["bound"] = hashlib.sha256(bytes.fromhex(e["custom_data"])).digest() == msg[48 + 320:48 + 352]
            if ckind == "x509" and cobj is None:
                cobj = _x509_from_element(certifier)
            cpub = _crypto_pub_of(ckind, cobj)
            f["certifier_has_key"] = cpub is not None
            f["sig_ok"] = cpub is not None and _verify_crypto(cpub, bytes.fromhex(e["signature"]), msg)
            return f
        return f
    except Exception:
        return f
