"""Running one request line through the real manager (`_RequestHandler.handle` on top of
`HSM2ProtocolLedger` / `HSM1ProtocolLedger` and `HSM2Dongle*`) against the simulated device,
and building the model's input from what was observed."""
import io
import json
import logging
import os
import random
import shutil
import tempfile

from . import simdev, powdev

logging.disable(logging.CRITICAL)

EXC_NAMES = {"HSM2ProtocolError", "HSM2ProtocolInterrupt", "IndexError", "ValueError", "OverflowError",
             "TypeError", "AttributeError", "KeyError", "HSM2DongleErrorResult", "HSM2DongleTimeoutError",
             "HSM2DongleCommError", "HSM2DongleError", "RecursionError", "NotImplementedError", "PinError",
             "Exception"}


def classify_line(raw):
    """what `line.decode('utf-8')` and `json.loads` make of the line (CPython's JSON grammar is
    not re-modelled; the outcome class is an input of the model)"""
    line = raw.split(b"\n")[0].strip() if b"\n" in raw else raw.strip()
    try:
        data = line.decode("utf-8")
    except UnicodeDecodeError:
        return "notutf8", None
    try:
        return "ok", json.loads(data)
    except (ValueError, RecursionError):
        return "notjson", None


def to_wire_json(v, depth=0):
    """JSON value -> value the wire codec can carry (identity; floats handled by the codec)"""
    return v


def build_device(spec):
    rng = random.Random(spec.get("seed", 0))
    st = powdev.DevState(rng)
    for k, v in spec.get("state", {}).items():
        if k in ("ui_version", "app_version"):
            v = tuple(v)
        if k in ("pin",):
            v = bytes.fromhex(v)
        setattr(st, k, v)
    pol = dict(spec.get("policy", {}))
    faults = {int(k): tuple(bytes.fromhex(x) if isinstance(x, str) and i == 1 and e[0] == "d" else x
                            for i, x in enumerate(e))
              for k, e in pol.pop("faults", {}).items()}
    if "wrong_next" in pol and pol["wrong_next"] is not None:
        pol["wrong_next"] = tuple(pol["wrong_next"])
    policy = powdev.Policy(rng, faults=faults, **pol)
    return powdev.PowDevice(st, policy, sgx=spec.get("sgx", False))


def parse_script(entries):
    out = []
    for e in entries:
        k = e[0]
        if k == "d":
            out.append(("d", bytes.fromhex(e[1])))
        elif k == "w":
            out.append(("w", int(e[1])) if len(e) == 2 else ("w", int(e[1]), bytes.fromhex(e[2])))
        else:
            out.append((k,))
    return out


class _PinFiles:
    """real FileBasedPin over a temporary directory, with `open` and `generate_pin` of
    ledger.pin instrumented from the outside (events F1/F0, scripted generator, fs failures)"""

    def __init__(self):
        self.dir = None


def make_pin(pinspec, gen_pins, fs_ok):
    import ledger.pin as lp
    d = tempfile.mkdtemp(prefix="verif-pin-", dir=os.environ.get("VERIF_TMP", None))
    path = os.path.join(d, "pin.txt")
    pin = bytes.fromhex(pinspec["pin"])
    if pinspec["needs_change"]:
        obj = lp.FileBasedPin(path, default_pin=pin)
    else:
        with open(path, "wb") as f:
            f.write(pin)
        obj = lp.FileBasedPin(path, default_pin=None)
    gens = [bytes.fromhex(g) for g in gen_pins]
    fs = list(fs_ok)

    def gen(cls=None):
        return gens.pop(0) if gens else b""
    obj.generate_pin = gen

    real_open = open

    def fake_open(p, mode="r", *a, **k):
        if p == path and "w" in mode:
            ok = fs.pop(0) if fs else True
            data = obj._new_pin if obj._new_pin is not None else b""
            simdev.CTX.events.append(("F1" if ok else "F0") + bytes(data).hex())
            if not ok:
                raise OSError("simulated write failure")
        return real_open(p, mode, *a, **k)
    lp.open = fake_open
    return obj, d


def hash_tables(request, full_coinbases=None):
    """oracle tables for the model's uninterpreted hash functions, for the blocks of a request"""
    import rlp
    from Crypto.Hash import keccak as _k
    keccak, cbhash = {}, {}
    hash_tables.too_deep = []
    if not isinstance(request, dict):
        return keccak, cbhash
    items = []
    bl = request.get("blocks")
    if isinstance(bl, list):
        items += [x for x in bl if isinstance(x, str)]
    br = request.get("brothers")
    if isinstance(br, list):
        for l in br:
            if isinstance(l, list):
                items += [x for x in l if isinstance(x, str)]
    too_deep = []
    for h in items:
        try:
            raw = bytes.fromhex(h)
        except Exception:
            continue
        try:
            item = rlp.decode(raw)
            rlp.encode(item)
        except RecursionError:
            # pyrlp's recursion hit the interpreter's limit: an outcome class handed to the model
            too_deep.append(raw.hex())
            continue
        except Exception:
            continue
        n = len(item)
        if n in (17, 18, 19, 20):
            enc = rlp.encode(item[:-2] if n in (19, 20) else item)
            keccak[enc.hex()] = _k.new(digest_bits=256).update(enc).digest().hex()
        if n in (19, 20) and isinstance(item, list) and isinstance(item[-1], bytes) and len(item[-1]) >= 40:
            cb = item[-1]
            full = (full_coinbases or {}).get(cb.hex())
            if full is not None:
                cbhash[cb.hex()] = powdev.coinbase_hash(bytes.fromhex(full)).hex()
            else:
                from comm.pow import coinbase_tx_get_hash
                try:
                    cbhash[cb.hex()] = coinbase_tx_get_hash(cb.hex())
                except Exception:
                    pass
    hash_tables.too_deep = too_deep
    return keccak, cbhash


def run_line(inp):
    from comm.platform import Platform
    from comm.server import _RequestHandler, RequestHandlerError, RequestHandlerShutdown
    from ledger.protocol import HSM2ProtocolLedger
    from ledger.protocol_v1 import HSM1ProtocolLedger
    plat = inp.get("platform", "ledger")
    Platform.set({"ledger": Platform.LEDGER, "sgx": Platform.SGX, "tcp": Platform.X86}[plat])
    simdev.install()
    device = None
    if "dev" in inp:
        devspec = dict(inp["dev"])
        devspec["sgx"] = plat == "sgx"
        dev = build_device(devspec)
        device = dev.exchange
    mode_before = dev.s.mode if device is not None else None
    simdev.reset(parse_script(inp.get("script", [])), inp.get("conns", []), device)
    dongle = simdev.connected_dongle(plat)
    pin, pindir = None, None
    if inp.get("pin") is not None:
        pin, pindir = make_pin(inp["pin"], inp.get("gen_pins", []), inp.get("fs_ok", []))
    try:
        v1 = inp.get("mode", "v5") == "v1"
        proto = (HSM1ProtocolLedger if v1 else HSM2ProtocolLedger)(pin, dongle)
        p2 = proto.protocol_v2 if v1 else proto
        p2._comm_issue = bool(inp.get("comm_issue", False))
        line = inp["line"]
        if line["kind"] == "json":
            raw = json.dumps(line["request"]).encode("utf-8") + b"\n"
        else:
            raw = bytes.fromhex(line["hex"])
        kind, request = classify_line(raw)
        escaped = []
        orig = proto.handle_request

        def spy(req):
            try:
                return orig(req)
            except BaseException as e:
                escaped.append(type(e).__name__)
                raise
        proto.handle_request = spy
        if "prelude" in inp and device is not None:
            # a real history: first another request on the same manager and device (with its own
            # injected faults); only the state it leaves behind matters for the request under test
            pre = inp["prelude"]
            main_faults = dev.p.faults
            dev.p.faults = {int(k): tuple(e) for k, e in pre.get("faults", {}).items()}
            praw = json.dumps(pre["request"]).encode("utf-8") + b"\n"
            try:
                _RequestHandler(proto, logging.getLogger("verif")).handle("client", io.BytesIO(praw), io.BytesIO())
            except BaseException:
                pass
            dev.p.faults = main_faults
            dev.n = 0
            if "reseed" in pre:
                # the device behind the link is no longer the one the prelude talked to (swapped, re-flashed):
                # nothing the manager remembers about the first one may show in the answer
                dev.s = build_device(dict(devspec, seed=pre["reseed"])).s
                mode_before = dev.s.mode
            simdev.CTX.events = []
            simdev.CTX.recorded = []
            escaped.clear()
            inp = dict(inp)
            inp["comm_issue"] = bool(p2._comm_issue)
            inp["conns"] = list(simdev.CTX.conns)
        w = io.BytesIO()
        shutdown, outer = False, ""
        log_handler = None
        if inp.get("log_handler"):
            # as in production (logging.cfg): a handler that formats every record down to DEBUG
            log_handler = logging.StreamHandler(io.StringIO())
            log_handler.setLevel(logging.DEBUG)
            logging.getLogger().addHandler(log_handler)
            saved_level = logging.getLogger().level
            logging.getLogger().setLevel(logging.DEBUG)
            logging.disable(logging.NOTSET)
        try:
            _RequestHandler(proto, logging.getLogger("verif")).handle("client", io.BytesIO(raw), w)
        except (RequestHandlerError, RequestHandlerShutdown):
            shutdown = True
        except BaseException as e:      # would be logged by the TCP handler; server continues
            outer = type(e).__name__
        finally:
            if log_handler is not None:
                logging.disable(logging.CRITICAL)
                logging.getLogger().removeHandler(log_handler)
                logging.getLogger().setLevel(saved_level)
        out_bytes = w.getvalue()
        lines = out_bytes.split(b"\n")
        if len(lines) == 2 and lines[1] == b"":
            try:
                reply = json.loads(lines[0].decode("utf-8"))
            except Exception:
                reply = {"__unparsable__": lines[0].hex()}
        else:
            reply = {"__lines__": len(lines) - 1, "__raw__": out_bytes.hex()[:200]}
        exc = escaped[0] if escaped else ""
        if exc and exc not in EXC_NAMES:
            exc = "UNMAPPED:" + exc
        if outer:
            exc = "OUTER:" + outer
        out = {"reply": reply, "shutdown": shutdown, "events": list(simdev.CTX.events),
               "comm_issue": bool(p2._comm_issue), "exc": exc}
        if inp.get("deep_boundary") and kind == "ok" and isinstance(reply, dict) and not shutdown \
                and reply.get("errorcode") == -901 and not simdev.CTX.events:
            # within reach of CPython's recursion limit, whether this nesting depth still parses (and can be
            # handled) depends on the depth of the call stack: an input of the model, observed
            kind, request = "notjson", None
            if out["exc"] == "RecursionError":
                out["exc"] = ""     # the same outcome one frame later: the server answers it as a format error
        if inp.get("drop_member") and isinstance(request, dict):
            # a member no command looks at, too deeply nested for the wire codec to carry to the model
            request = {k: v for k, v in request.items() if k != inp["drop_member"]}
        keccak, cbhash = hash_tables(request, inp.get("full_coinbases"))
        minp = {"mode": inp.get("mode", "v5"), "platform": plat, "parsed": kind,
                "script": [simdev.norm_entry(e) for e in simdev.CTX.recorded] if device is not None
                else [simdev.norm_entry(e) for e in parse_script(inp.get("script", []))],
                "conns": list(inp.get("conns", [])), "comm_issue": bool(inp.get("comm_issue", False)),
                "keccak": keccak, "cbhash": cbhash, "rlp_too_deep": list(hash_tables.too_deep)}
        if kind == "ok":
            minp["request"] = request
        if inp.get("pin") is not None:
            minp["pin"] = inp["pin"]
            minp["gen_pins"] = inp.get("gen_pins", [])
            minp["fs_ok"] = inp.get("fs_ok", [])
        if inp.get("want_devstate") and device is not None:
            st = dev.s
            minp["devstate"] = {
                "keys": {p: k.hex() for p, k in st.keys.items()},
                "hashes": {str(sel): h.hex() for sel, h in st.hashes.items()},
                "difficulty": st.difficulty, "flags": list(st.flags), "checkpoint": st.checkpoint.hex(),
                "min_difficulty": st.min_difficulty, "network": st.network,
                "hb_sig": st.hb["sig"].hex(), "hb_msg": st.hb["msg"].hex(), "hb_hash": st.hb["hash"].hex(),
                "hb_pub": st.hb["pub"].hex(),
                "ui_hb_sig": st.ui_hb["sig"].hex(), "ui_hb_msg": st.ui_hb["msg"].hex(),
                "ui_hb_hash": st.ui_hb["hash"].hex(), "ui_hb_pub": st.ui_hb["pub"].hex(), "mode_before": mode_before, "mode_after": st.mode}
        for k in ("tag",):
            if k in inp:
                minp[k] = inp[k]
        return {"__model_input__": minp, "out": out}
    finally:
        if pindir:
            shutil.rmtree(pindir, ignore_errors=True)
            import ledger.pin as lp
            if "open" in lp.__dict__:
                del lp.__dict__["open"]


def run_history(inp):
    """one manager lifetime: the lines of inp["lines"] through the real _RequestHandler one after the other, on
    one protocol object and one simulated device, until the handler asks for a shutdown"""
    from comm.platform import Platform
    from comm.server import _RequestHandler, RequestHandlerError, RequestHandlerShutdown
    from ledger.protocol import HSM2ProtocolLedger
    from ledger.protocol_v1 import HSM1ProtocolLedger
    plat = inp.get("platform", "ledger")
    Platform.set({"ledger": Platform.LEDGER, "sgx": Platform.SGX, "tcp": Platform.X86}[plat])
    simdev.install()
    devspec = dict(inp["dev"])
    devspec["sgx"] = plat == "sgx"
    dev = build_device(devspec)
    simdev.reset([], inp.get("conns", []), dev.exchange)
    dongle = simdev.connected_dongle(plat)
    pin, pindir = None, None
    if inp.get("pin") is not None:
        pin, pindir = make_pin(inp["pin"], inp.get("gen_pins", []), inp.get("fs_ok", []))
    try:
        v1 = inp.get("mode", "v5") == "v1"
        proto = (HSM1ProtocolLedger if v1 else HSM2ProtocolLedger)(pin, dongle)
        p2 = proto.protocol_v2 if v1 else proto
        escaped = []
        orig = proto.handle_request

        def spy(req):
            try:
                return orig(req)
            except BaseException as e:
                escaped.append(type(e).__name__)
                raise
        proto.handle_request = spy
        out_lines, mlines = [], []
        keccak, cbhash, too_deep = {}, {}, []
        for line in inp["lines"]:
            raw = (json.dumps(line["request"]).encode("utf-8") + b"\n") if line["kind"] == "json" \
                else bytes.fromhex(line["hex"])
            kind, request = classify_line(raw)
            del escaped[:]
            w = io.BytesIO()
            shutdown, outer = False, ""
            try:
                _RequestHandler(proto, logging.getLogger("verif")).handle("client", io.BytesIO(raw), w)
            except (RequestHandlerError, RequestHandlerShutdown):
                shutdown = True
            except BaseException as e:
                outer = type(e).__name__
            ob = w.getvalue().split(b"\n")
            if len(ob) == 2 and ob[1] == b"":
                try:
                    reply = json.loads(ob[0].decode("utf-8"))
                except Exception:
                    reply = {"__unparsable__": ob[0].hex()}
            else:
                reply = {"__lines__": len(ob) - 1}
            exc = escaped[0] if escaped else ""
            if exc and exc not in EXC_NAMES:
                exc = "UNMAPPED:" + exc
            if outer:
                exc = "OUTER:" + outer
            out_lines.append({"reply": reply, "shutdown": shutdown, "exc": exc})
            ml = {"parsed": kind}
            if kind == "ok":
                ml["request"] = request
            mlines.append(ml)
            k2, c2 = hash_tables(request, inp.get("full_coinbases"))
            keccak.update(k2), cbhash.update(c2)
            too_deep += list(hash_tables.too_deep)
            if shutdown:
                break
        out = {"lines": out_lines, "events": list(simdev.CTX.events), "comm_issue": bool(p2._comm_issue)}
        minp = {"mode": inp.get("mode", "v5"), "platform": plat, "lines": mlines,
                "script": [simdev.norm_entry(e) for e in simdev.CTX.recorded], "conns": list(inp.get("conns", [])),
                "comm_issue": False, "keccak": keccak, "cbhash": cbhash, "rlp_too_deep": too_deep}
        if inp.get("pin") is not None:
            minp["pin"] = inp["pin"]
            minp["gen_pins"] = inp.get("gen_pins", [])
            minp["fs_ok"] = inp.get("fs_ok", [])
        return {"__model_input__": minp, "out": out}
    finally:
        if pindir:
            shutil.rmtree(pindir, ignore_errors=True)
            import ledger.pin as lp
            if "open" in lp.__dict__:
                del lp.__dict__["open"]


class _FakeTCPServer:
    """stands for socketserver.TCPServer: reaching serve_forever is the observation 'served'"""
    allow_reuse_address = True
    served = []

    def __init__(self, addr, handler):
        pass

    def serve_forever(self):
        _FakeTCPServer.served.append(True)

    def server_close(self):
        pass

    def shutdown(self):
        pass


def run_bringup(inp):
    """the real TCPServer.run() (initialize_device + exception map) up to serve_forever"""
    from comm.platform import Platform
    import comm.server as cs
    from ledger.protocol import HSM2ProtocolLedger
    from ledger.protocol_v1 import HSM1ProtocolLedger
    plat = inp.get("platform", "ledger")
    Platform.set({"ledger": Platform.LEDGER, "sgx": Platform.SGX, "tcp": Platform.X86}[plat])
    simdev.install()
    devspec = dict(inp["dev"])
    devspec["sgx"] = plat == "sgx"
    dev = build_device(devspec)
    st0 = dev.s
    truth = None
    if not dev.p.faults:
        truth = {"onboarded": st0.onboarded, "mode": st0.mode, "ui_version": list(st0.ui_version),
                 "app_version": list(st0.app_version), "retries": st0.retries, "echo_ok": bool(st0.echo_ok),
                 "unlock_ok": bool(st0.unlock_ok), "after_exit_mode": st0.after_exit_mode,
                 "has_pin": inp.get("pin") is not None, "network": st0.network}
    simdev.reset([], inp.get("conns", []), dev.exchange)
    if plat == "sgx":
        from sgx.hsm2dongle import HSM2DongleSGX
        dongle = HSM2DongleSGX("sim", 0, False)
    elif plat == "tcp":
        from ledger.hsm2dongle_tcp import HSM2DongleTCP
        dongle = HSM2DongleTCP("sim", 0, False)
    else:
        from ledger.hsm2dongle import HSM2Dongle
        dongle = HSM2Dongle(False)
    pin, pindir = None, None
    if inp.get("pin") is not None:
        pin, pindir = make_pin(inp["pin"], inp.get("gen_pins", []), inp.get("fs_ok", []))
    try:
        proto = (HSM1ProtocolLedger if inp.get("mode") == "v1" else HSM2ProtocolLedger)(pin, dongle)

        class _SS:
            TCPServer = _FakeTCPServer
        real_ss = cs.socketserver
        cs.socketserver = _SS
        _FakeTCPServer.served = []
        try:
            try:
                cs.TCPServer("localhost", 0, proto).run()
                outcome = "served" if _FakeTCPServer.served else "interrupted"
            except cs.TCPServerError:
                outcome = "error"
            except BaseException as e:
                n = type(e).__name__
                outcome = "crash:" + (n if n in EXC_NAMES else "UNMAPPED:" + n)
        finally:
            cs.socketserver = real_ss
        out = {"events": list(simdev.CTX.events), "outcome": outcome,
               "pin": pin.get_pin().hex() if pin is not None else None}
        minp = {"platform": plat, "script": [simdev.norm_entry(e) for e in simdev.CTX.recorded],
                "conns": list(inp.get("conns", []))}
        if truth is not None:
            minp["truth"] = truth
        if inp.get("pin") is not None:
            minp["pin"] = inp["pin"]
            minp["gen_pins"] = inp.get("gen_pins", [])
            minp["fs_ok"] = inp.get("fs_ok", [])
        return {"__model_input__": minp, "out": out}
    finally:
        if pindir:
            shutil.rmtree(pindir, ignore_errors=True)
            import ledger.pin as lp
            if "open" in lp.__dict__:
                del lp.__dict__["open"]
