"""Simulated transport installed at the observation points the properties name:
`ledger.hsm2dongle.getDongle`, `hid.hidapi_exit` (one call per disconnect()), `time.sleep`
of ledger.protocol.  Reproduces ledgerblue's status rule: data is returned for
0x9000 / 0x61xx / 0x6Cxx, anything else raises CommException(msg, sw, data)."""
import types

from ledgerblue.commException import CommException


class Ctx:
    def __init__(self, script=(), conns=()):
        self.script = list(script)
        self.conns = list(conns)
        self.events = []


CTX = Ctx()


def sw_ok(sw):
    return sw == 0x9000 or (sw & 0xFF00) in (0x6100, 0x6C00)


def norm_entry(e):
    """script entry -> model wire string.  ('d', bytes) ('w', sw[, data]) ('t',) ('W',) ('r',) ('x',)"""
    k = e[0]
    if k == "d":
        return "d" + bytes(e[1]).hex()
    if k == "w":
        sw = e[1]
        if sw_ok(sw):
            return "d" + bytes(e[2] if len(e) > 2 else b"").hex()
        return "w%04x" % sw
    return {"t": "t", "W": "W", "r": "r", "x": "x"}[k]


class SimDongle:
    def __init__(self, ctx):
        self.ctx = ctx
        self.opened = True

    def exchange(self, apdu, timeout=20000):
        ctx = self.ctx
        ctx.events.append("A" + bytes(apdu).hex())
        if not ctx.script:
            raise RuntimeError("simulated device script exhausted")
        e = ctx.script.pop(0)
        k = e[0]
        if k == "d":
            return bytearray(e[1])
        if k == "w":
            sw = e[1]
            data = bytearray(e[2] if len(e) > 2 else b"")
            if sw_ok(sw):
                return data
            raise CommException("Invalid status %04x" % sw, sw, data)
        if k == "t":
            raise CommException("Timeout", 0x6F00)
        if k == "W":
            raise BaseException("Error while writing")
        if k == "r":
            raise OSError("read error")
        raise RuntimeError("simulated unexpected transport exception")

    def close(self):
        self.opened = False


def _get_dongle(debug=False):
    ctx = CTX
    ok = ctx.conns.pop(0) if ctx.conns else True
    ctx.events.append("C1" if ok else "C0")
    if not ok:
        raise CommException("No dongle found")
    return SimDongle(ctx)


class _Hid:
    @staticmethod
    def hidapi_exit():
        CTX.events.append("D")


class _Time:
    @staticmethod
    def sleep(_n):
        CTX.events.append("Z")


_installed = False


def install():
    """monkeypatch the observation points (idempotent)"""
    global _installed
    if _installed:
        return
    import ledger.hsm2dongle as h
    import ledger.protocol as p
    h.getDongle = _get_dongle
    h.hid = _Hid
    p.time = _Time
    _installed = True


def reset(script=(), conns=()):
    global CTX
    CTX.script = list(script)
    CTX.conns = list(conns)
    CTX.events = []
    return CTX


def connected_dongle(cls=None):
    """an HSM2Dongle that is already connected to the simulated device (no event emitted)"""
    install()
    from ledger.hsm2dongle import HSM2Dongle
    d = (cls or HSM2Dongle)(False)
    d.dongle = SimDongle(CTX)
    return d
