"""Simulated transport installed at the observation points the properties name:
`ledger.hsm2dongle.getDongle`, `hid.hidapi_exit` (one call per disconnect()), `time.sleep`
of ledger.protocol.  Reproduces ledgerblue's status rule: data is returned for
0x9000 / 0x61xx / 0x6Cxx, anything else raises CommException(msg, sw, data)."""
import types

from ledgerblue.commException import CommException


class Ctx:
    def __init__(self, script=(), conns=()):
        self.script = list(script)
        self.conns = list(conns)
        self.events = []
        self.device = None      # optional callable(apdu) -> script entry (on-the-fly simulator)
        self.recorded = []      # entries actually served (the script handed to the model)
        self.conns_used = []


CTX = Ctx()


def sw_ok(sw):
    return sw == 0x9000 or (sw & 0xFF00) in (0x6100, 0x6C00)


def norm_entry(e):
    """script entry -> model wire string.  ('d', bytes) ('w', sw[, data]) ('t',) ('W',) ('r',) ('x',)"""
    k = e[0]
    if k == "d":
        return "d" + bytes(e[1]).hex()
    if k == "w":
        sw = e[1]
        if sw_ok(sw):
            return "d" + bytes(e[2] if len(e) > 2 else b"").hex()
        return "w%04x" % sw
    return {"t": "t", "W": "W", "r": "r", "x": "x"}[k]


class SimDongle:
    def __init__(self, ctx):
        self.ctx = ctx
        self.opened = True

    def exchange(self, apdu, timeout=20000):
        ctx = self.ctx
        ctx.events.append("A" + bytes(apdu).hex())
        if ctx.device is not None:
            e = ctx.device(bytes(apdu))
        elif not ctx.script:
            raise RuntimeError("simulated device script exhausted")
        else:
            e = ctx.script.pop(0)
        ctx.recorded.append(e)
        k = e[0]
        if k == "d":
            return bytearray(e[1])
        if k == "w":
            sw = e[1]
            data = bytearray(e[2] if len(e) > 2 else b"")
            if sw_ok(sw):
                return data
            raise CommException("Invalid status %04x" % sw, sw, data)
        if k == "t":
            raise CommException("Timeout", 0x6F00)
        if k == "W":
            raise BaseException("Error while writing")
        if k == "r":
            raise OSError("read error")
        raise RuntimeError("simulated unexpected transport exception")

    def close(self):
        self.opened = False


def _get_dongle(debug=False):
    ctx = CTX
    ok = ctx.conns.pop(0) if ctx.conns else True
    ctx.conns_used.append(ok)
    ctx.events.append("C1" if ok else "C0")
    if not ok:
        raise CommException("No dongle found")
    return SimDongle(ctx)


class _Hid:
    @staticmethod
    def hidapi_exit():
        pass


def _wrap_disconnect(cls):
    orig = cls.__dict__["disconnect"]

    def disconnect(self):
        CTX.events.append("D")
        return orig(self)
    cls.disconnect = disconnect


class _Time:
    @staticmethod
    def sleep(_n):
        CTX.events.append("Z")


_installed = False


def install():
    """monkeypatch the observation points (idempotent)"""
    global _installed
    if _installed:
        return
    import ledger.hsm2dongle as h
    import ledger.hsm2dongle_tcp as ht
    import ledger.protocol as p
    h.getDongle = _get_dongle
    ht.getDongle = lambda host, port, debug=False: _get_dongle(debug)
    h.hid = _Hid
    p.time = _Time
    _wrap_disconnect(h.HSM2Dongle)
    _wrap_disconnect(ht.HSM2DongleTCP)
    _installed = True


def reset(script=(), conns=(), device=None):
    global CTX
    CTX.script = list(script)
    CTX.conns = list(conns)
    CTX.conns_used = []
    CTX.events = []
    CTX.device = device
    CTX.recorded = []
    return CTX


def connected_dongle(platform="ledger"):
    """an HSM2Dongle that is already connected to the simulated device (no event emitted)"""
    install()
    if platform == "sgx":
        from sgx.hsm2dongle import HSM2DongleSGX
        d = HSM2DongleSGX("sim", 0, False)
    elif platform == "tcp":
        from ledger.hsm2dongle_tcp import HSM2DongleTCP
        d = HSM2DongleTCP("sim", 0, False)
    else:
        from ledger.hsm2dongle import HSM2Dongle
        d = HSM2Dongle(False)
    d.dongle = SimDongle(CTX)
    return d
