"""Structured generators for BTC transactions and scripts, with an *independent* serializer
(does not use the shim or the code under test)."""
import struct


def varint(n):
    if n < 0xfd:
        return bytes([n])
    if n <= 0xffff:
        return b"\xfd" + struct.pack("<H", n)
    if n <= 0xffffffff:
        return b"\xfe" + struct.pack("<I", n)
    return b"\xff" + struct.pack("<Q", n)


def noncanon_varint(n, rng):
    forms = [b"\xfd" + struct.pack("<H", n)] if n <= 0xffff else []
    if n <= 0xffffffff:
        forms.append(b"\xfe" + struct.pack("<I", n))
    forms.append(b"\xff" + struct.pack("<Q", n))
    return rng.choice(forms)


def push(data, form=None):
    """form: None (minimal), 'd' direct, 1, 2, 4 (PUSHDATAn, possibly non-minimal)"""
    n = len(data)
    if form is None:
        form = 'd' if n < 0x4c else 1 if n <= 0xff else 2 if n <= 0xffff else 4
    if form == 'd':
        assert n < 0x4c
        return bytes([n]) + data
    if form == 1:
        return b"\x4c" + bytes([n]) + data
    if form == 2:
        return b"\x4d" + struct.pack("<H", n) + data
    return b"\x4e" + struct.pack("<I", n) + data


def rand_bytes(rng, n):
    return bytes(rng.getrandbits(8) for _ in range(n))


def rand_op(rng, big=False):
    """one script operation (bytes) from every encoding class"""
    k = rng.randrange(12)
    if k == 0:
        return b"\x00"
    if k == 1:
        return bytes([0x50 + rng.randrange(1, 17)])
    if k == 2:
        return b"\x4f"
    if k == 3:
        return bytes([rng.choice([0x50, 0x61, 0x75, 0xac, 0xae, 0xab, 0xff, 0x87, 0xa9])])
    if k in (4, 5, 6):
        return push(rand_bytes(rng, rng.choice([1, 1, 2, 20, 32, 33, 71, 72, 73, 75])), 'd')
    if k == 7:
        return push(rand_bytes(rng, rng.choice([0, 1, 5, 75, 76, 105, 200, 255])), 1)
    if k == 8:
        return push(rand_bytes(rng, rng.choice([0, 3, 255, 256, 300, 520] + ([4000] if big else []))), 2)
    if k == 9:
        return push(rand_bytes(rng, rng.choice([0, 7, 256, 300] + ([70000] if big else []))), 4)
    if k == 10:  # redeem script push (multisig-like)
        m = rng.randrange(1, 4)
        rs = bytes([0x50 + m]) + b"".join(push(rand_bytes(rng, 33), 'd') for _ in range(m + 1)) + \
            bytes([0x50 + m + 1, 0xae])
        return push(rs)
    return push(rand_bytes(rng, rng.randrange(1, 0x4c)), 'd')


def rand_script(rng, nops=None, big=False):
    n = nops if nops is not None else rng.choice([1, 1, 2, 3, 3, 4, 5, 8])
    return b"".join(rand_op(rng, big) for _ in range(n))


def txin(rng, script, seq=None):
    return {"hash": rand_bytes(rng, 32), "n": rng.choice([0, 1, 2, 0xffffffff, rng.getrandbits(32)]),
            "script": script, "seq": seq if seq is not None else rng.choice([0xffffffff, 0xfffffffe, 0, rng.getrandbits(32)])}


def txout(rng):
    return {"value": rng.choice([0, 1, 5000, 2 ** 63 - 1, -1, rng.getrandbits(48)]),
            "script": rand_bytes(rng, rng.choice([0, 22, 23, 25, 34, 80]))}


def ser_tx(tx, force_segwit=False, vi=varint):
    b = struct.pack("<i", tx["version"])
    wit = tx.get("wit")
    segwit = wit is not None and (force_segwit or any(len(s) for s in wit))
    if segwit:
        b += b"\x00\x01"
    b += vi(len(tx["vin"]))
    for i in tx["vin"]:
        b += i["hash"] + struct.pack("<I", i["n"]) + vi(len(i["script"])) + i["script"] + struct.pack("<I", i["seq"])
    b += vi(len(tx["vout"]))
    for o in tx["vout"]:
        b += struct.pack("<q", o["value"]) + vi(len(o["script"])) + o["script"]
    if segwit:
        for st in wit:
            b += vi(len(st))
            for item in st:
                b += vi(len(item)) + item
    b += struct.pack("<I", tx["lock"])
    return b


def rand_tx(rng, nin=None, nout=None, segwit=None, big=False):
    nin = nin if nin is not None else rng.choice([1, 1, 2, 3, 5, 20])
    nout = nout if nout is not None else rng.choice([0, 1, 2, 3, 20])
    tx = {"version": rng.choice([1, 2, 2, -1, rng.getrandbits(31)]),
          "vin": [txin(rng, rand_script(rng, big=big)) for _ in range(nin)],
          "vout": [txout(rng) for _ in range(nout)],
          "lock": rng.choice([0, 0, 1, 499999999, 500000000, 0xffffffff, rng.getrandbits(32)])}
    if segwit if segwit is not None else rng.random() < 0.3:
        tx["wit"] = [[rand_bytes(rng, rng.choice([0, 1, 71, 72, 105])) for _ in range(rng.choice([0, 0, 1, 2, 3]))]
                     for _ in range(nin)]
    return tx
