"""Check runner (DESIGN §3.3): obligations (lake build + axiom audit) + correspondence
(implementation vs the Lean driver on the same cases) + property oracle + violation protocol
+ evidence."""
import hashlib
import importlib
import json
import multiprocessing as mp
import os
import random
import re
import subprocess
import sys
import time
import traceback

from . import wire
from . import fingerprint

VERIF = os.path.dirname(os.path.dirname(os.path.abspath(__file__)))
LEAN = os.path.join(VERIF, "lean")
REPO = os.environ.get("REPO_ROOT", "/repo")
WORK = os.path.join(VERIF, ".work")
ALLOWED_AXIOMS = {"propext", "Classical.choice", "Quot.sound"}
FORBIDDEN = re.compile(r"\bsorry\b|\badmit\b|^axiom |native_decide|bv_decide|implemented_by|"
                       r"\bunsafe |maxHeartbeats 0", re.M)


class Case:
    __slots__ = ("op", "input", "meta")

    def __init__(self, op, input, **meta):
        self.op = op
        self.input = input
        self.meta = meta

    def key(self):
        return hashlib.sha1((self.op + " " + wire.enc(self.input)).encode()).hexdigest()


# ---------------------------------------------------------------- Lean side

def sh(cmd, cwd=None, timeout=3600, env=None):
    p = subprocess.run(cmd, cwd=cwd, shell=isinstance(cmd, str), stdout=subprocess.PIPE,
                       stderr=subprocess.STDOUT, timeout=timeout, env=env)
    return p.returncode, p.stdout.decode("utf-8", "replace")


def strip_comments(src):
    src = re.sub(r"/-.*?-/", "", src, flags=re.S)
    return re.sub(r"--.*", "", src)


def theorem_names(path):
    """fully qualified names of the theorems stated in a Props file"""
    src = strip_comments(open(path).read())
    names, ns = [], []
    for m in re.finditer(r"^(namespace|end|theorem)\s+([\w.']+)", src, re.M):
        kind, name = m.group(1), m.group(2)
        if kind == "namespace":
            ns.append(name)
        elif kind == "end":
            if ns and ns[-1] == name:
                ns.pop()
        else:
            names.append(".".join(ns + [name]))
    return names


def translate():
    """regenerate lean/PowHsm/Generated/*.lean from the current source tree"""
    rc, out = sh([sys.executable, os.path.join(VERIF, "translator", "extract.py"), REPO,
                  os.path.join(LEAN, "PowHsm", "Generated")], timeout=300)
    return rc == 0, out


def lean_obligations(pid, tier):
    """build Props/<pid> and the driver, audit axioms.  Returns a dict describing which
    obligations are discharged."""
    res = {"theorems": [], "discharged": [], "failed": [], "axioms": {}, "log": "",
           "driver_ok": False, "tables_ok": True}
    ok, out = translate()
    if not ok:
        res["tables_ok"] = False
        res["failed"].append("translator: " + out.strip().splitlines()[-1] if out.strip() else
                             "translator failed")
        res["log"] += out
    props = os.path.join(LEAN, "PowHsm", "Props", pid + ".lean")
    names = theorem_names(props) if os.path.exists(props) else []
    res["theorems"] = names
    rc, out = sh(["lake", "build", "driver"], cwd=LEAN, timeout=3000)
    res["driver_ok"] = rc == 0
    if rc != 0:
        res["log"] += out
        res["failed"].append("model does not build")
    # forbidden constructs in the sources this property depends on (all of the library)
    bad = []
    for root, _d, files in os.walk(os.path.join(LEAN, "PowHsm")):
        for f in files:
            if f.endswith(".lean"):
                src = strip_comments(open(os.path.join(root, f)).read())
                m = FORBIDDEN.search(src)
                if m:
                    bad.append("%s: %s" % (f, m.group(0).strip()))
    if bad:
        res["failed"].append("forbidden constructs: " + "; ".join(bad))
    rc, out = sh(["lake", "build", "PowHsm.Props." + pid], cwd=LEAN, timeout=3000)
    if rc != 0:
        res["log"] += out
        # which theorems fail?  errors carry file:line; map to the enclosing theorem
        failing = set()
        for m in re.finditer(r"error: (\S+?\.lean):(\d+):\d+", out):
            failing.add(_enclosing_decl(os.path.join(LEAN, m.group(1)), int(m.group(2))))
        res["failed"].extend(sorted(x for x in failing if x) or ["Props/%s.lean does not build" % pid])
        return res
    # axiom audit
    os.makedirs(os.path.join(LEAN, "Audit"), exist_ok=True)
    audit = os.path.join(LEAN, "Audit", pid + ".lean")
    with open(audit, "w") as f:
        f.write("import PowHsm.Props.%s\n" % pid)
        for n in names:
            f.write("#print axioms %s\n" % n)
    rc, out = sh(["lake", "env", "lean", audit], cwd=LEAN, timeout=1200)
    if rc != 0:
        res["log"] += out
        res["failed"].append("axiom audit failed")
        return res
    for m in re.finditer(r"'([^']+)' (does not depend on any axioms|depends on axioms: \[([^\]]*)\])",
                         out, re.S):
        axs = [a.strip() for a in (m.group(3) or "").replace("\n", " ").split(",") if a.strip()]
        res["axioms"][m.group(1)] = axs
    for n in names:
        axs = res["axioms"].get(n)
        if axs is None:
            res["failed"].append(n + " (not audited)")
        elif set(axs) - ALLOWED_AXIOMS:
            res["failed"].append(n + " (axioms: %s)" % ",".join(sorted(set(axs) - ALLOWED_AXIOMS)))
        else:
            res["discharged"].append(n)
    if tier == "thorough":
        rc, out = sh(["lake", "env", "leanchecker", "PowHsm.Props." + pid], cwd=LEAN, timeout=3000)
        res["leanchecker"] = "ok" if rc == 0 else "failed"
        if rc != 0:
            res["log"] += out
            res["failed"].append("leanchecker rejected PowHsm.Props." + pid)
    return res


def _enclosing_decl(path, line):
    try:
        lines = open(path).read().splitlines()
    except OSError:
        return os.path.basename(path)
    for i in range(min(line, len(lines)) - 1, -1, -1):
        m = re.match(r"\s*(?:@\[[^\]]*\]\s*)?(?:private\s+|protected\s+)?(theorem|lemma|def|example|instance)\s*([\w.']*)",
                     lines[i])
        if m:
            return "%s:%s %s" % (os.path.basename(path), m.group(1), m.group(2))
    return os.path.basename(path)


def run_driver(lines):
    exe = os.path.join(LEAN, ".lake", "build", "bin", "driver")
    p = subprocess.run([exe], input=("\n".join(lines) + "\n").encode(), stdout=subprocess.PIPE,
                       stderr=subprocess.PIPE, timeout=3000)
    if p.returncode != 0:
        raise RuntimeError("driver failed: " + p.stderr.decode()[-2000:])
    out = p.stdout.decode().splitlines()
    if len(out) != len(lines):
        raise RuntimeError("driver answered %d lines for %d cases" % (len(out), len(lines)))
    res = []
    for o in out:
        parts = o.split(" ", 2)
        if parts[0] == "ERR":
            res.append(("ERR", "ERR", o))
        else:
            res.append((parts[0], parts[1], parts[2] if len(parts) > 2 else ""))
    return res


# ---------------------------------------------------------------- implementation side

_MOD = None


def _worker_init(modname):
    global _MOD
    _MOD = importlib.import_module(modname)
    if hasattr(_MOD, "worker_init"):
        _MOD.worker_init()


def _worker_run(args):
    op, inp = args
    try:
        return _MOD.run_impl(op, inp)
    except BaseException as e:  # harness bug or an exception class the harness does not map
        return {"harness_exception": type(e).__name__ + ": " + str(e)[:300],
                "tb": traceback.format_exc()[-1500:]}


def run_impl_all(modname, cases, procs):
    args = [(c.op, c.input) for c in cases]
    mod = importlib.import_module(modname)
    if procs <= 1 or len(cases) < 64 or getattr(mod, "SERIAL", False):
        _worker_init(modname)
        return [_worker_run(a) for a in args]
    ctx = mp.get_context("fork")
    with ctx.Pool(procs, initializer=_worker_init, initargs=(modname,)) as pool:
        return pool.map(_worker_run, args, chunksize=max(1, len(args) // (procs * 8)))


# ---------------------------------------------------------------- findings

def load_findings(pid):
    path = os.path.join(VERIF, "known_findings.json")
    if not os.path.exists(path):
        return []
    data = json.load(open(path))
    return [f for f in data.get("findings", []) if f.get("property") == pid]


def match_finding(findings, sig):
    if sig is None:
        return None
    for f in findings:
        if f.get("status") == "finding" and f.get("signature") == sig:
            return f
    return None


# ---------------------------------------------------------------- main check

def evaluate(mod, cases, procs):
    """runs the implementation and the model driver on `cases`, in chunks so that the wire lines (the bulk of
    the memory: request + recorded script + output per case) never exist for more than one chunk"""
    chunk = int(os.environ.get("VERIF_CHUNK", "40000"))
    impl, drv = [], []
    for start in range(0, len(cases), chunk):
        part = cases[start:start + chunk]
        pimpl = run_impl_all(mod.__name__, part, procs)
        lines = []
        for i, (c, o) in enumerate(zip(part, pimpl)):
            minp = c.input
            if isinstance(o, dict) and "__model_input__" in o:
                # the case is a *specification* (request + simulated device); the implementation run
                # recorded what the device answered, and that record is the model's script
                minp = o["__model_input__"]
                pimpl[i] = o = o["out"]
            lines.append(c.op + " " + wire.enc(minp) + " " + wire.enc(o))
        pdrv = run_driver(lines)
        del lines
        if len(cases) > chunk:
            # keep the model's output only where it matters (disagreement or oracle failure)
            pdrv = [d if (d[0] != "EQ" or d[1] != "OK") else (d[0], d[1], "") for d in pdrv]
        impl += pimpl
        drv += pdrv
    return impl, drv, None


def check(pid, tier, seed, replay=None):
    t0 = time.time()
    os.makedirs(WORK, exist_ok=True)
    os.makedirs(os.path.join(VERIF, "evidence"), exist_ok=True)
    os.makedirs(os.path.join(VERIF, "replays"), exist_ok=True)
    mod = importlib.import_module("harness.props." + pid.lower())
    if not replay:
        for fn in os.listdir(os.path.join(VERIF, "replays")):
            if fn.startswith(pid + "-") and fn.endswith(".json"):
                os.remove(os.path.join(VERIF, "replays", fn))
    procs = int(os.environ.get("VERIF_PROCS", "0")) or (os.cpu_count() or 4)
    rng = random.Random(seed)

    obl = lean_obligations(pid, tier)
    if not obl["driver_ok"]:
        # the model itself cannot be built: nothing can be compared.  Report as broken machinery
        # unless the tables are what broke it (then it is a broken obligation).
        path = write_replay(pid, seed, 0, {"kind": "no-failing-input", "broken": obl["failed"],
                                           "log": obl["log"][-4000:]})
        write_evidence(pid, tier, seed, mod, obl, [], [], [], t0, violations=1)
        print("VIOLATION property=%s replay=%s no-failing-input-found" % (pid, path))
        return 1

    if replay:
        return do_replay(pid, mod, replay)

    # source fingerprints: a change in the anchored functions is not a violation, but makes the run look harder
    diffs, palette = fingerprint.changed(pid)
    obl["changed_functions"] = ["%s:%s (%s)" % d for d in diffs]
    if diffs:
        try:
            from . import reqgen
            reqgen.EXTRA_VALUES[:] = palette
        except Exception:
            pass
    # corpus first, then generated cases
    cases = load_corpus(pid) + list(mod.gen(tier, rng))
    if diffs and not os.environ.get("VERIF_NO_ESCALATE"):
        seen = {c.key() for c in cases}
        for k in range(1, 4):
            for c in mod.gen(tier, random.Random(seed * 104729 + k)):
                if c.key() not in seen:
                    seen.add(c.key())
                    cases.append(c)
    impl, drv, lines = evaluate(mod, cases, procs)
    findings = load_findings(pid)

    failing, mismatching, errors, known = [], [], [], {}
    for i, (c, o, d) in enumerate(zip(cases, impl, drv)):
        eq, verdict, mout = d
        if eq == "ERR" or (isinstance(o, dict) and "harness_exception" in o):
            errors.append(i)
            continue
        if verdict == "FAIL":
            sig = mod.finding_signature(c, o) if hasattr(mod, "finding_signature") else None
            f = match_finding(findings, sig)
            if f is not None:
                known.setdefault(f["id"], []).append(i)
            else:
                failing.append(i)
        elif eq == "NE":
            mismatching.append(i)

    searched = 0
    if (mismatching or obl["failed"] or errors) and not failing:
        # a proof obligation or the correspondence broke: look harder for a failing input
        extra = []
        if hasattr(mod, "search"):
            extra = list(mod.search([cases[i] for i in mismatching + errors], rng))
        else:
            for k in range(4):
                extra += list(mod.gen("thorough" if k == 0 else tier, random.Random(seed * 7919 + k + 1)))
        extra = extra[: int(os.environ.get("VERIF_SEARCH_MAX", "60000"))]
        if extra:
            impl2, drv2, _l2 = evaluate(mod, extra, procs)
            searched = len(extra)
            for j, (c, o, d) in enumerate(zip(extra, impl2, drv2)):
                if d[1] == "FAIL":
                    sig = mod.finding_signature(c, o) if hasattr(mod, "finding_signature") else None
                    if match_finding(findings, sig) is None:
                        cases.append(c), impl.append(o), drv.append(d)
                        failing.append(len(cases) - 1)
                        break

    rc = 0
    out_lines = []
    for fid, idxs in sorted(known.items()):
        f = [x for x in findings if x["id"] == fid][0]
        out_lines.append("KNOWN-FINDING: property=%s %s: %s (%d cases)" % (pid, fid, f["what"], len(idxs)))
    nviol = 0
    if failing:
        i = shrink_pick(mod, cases, impl, drv, failing)
        c, o, d = cases[i], impl[i], drv[i]
        path = write_replay(pid, seed, i, {
            "kind": "failing-input", "op": c.op, "input": wire.enc(c.input), "meta": c.meta,
            "impl_output": o, "model_output": safe_dec(d[2]), "oracle": d[1],
            "correspondence": d[0], "broken": obl["failed"]})
        out_lines.append("VIOLATION property=%s replay=%s" % (pid, path))
        nviol, rc = len(failing), 1
    elif mismatching or obl["failed"] or errors:
        i = (mismatching or errors or [None])[0]
        rep = {"kind": "no-failing-input", "broken": list(obl["failed"]), "searched_cases": searched}
        if i is not None:
            c, o, d = cases[i], impl[i], drv[i]
            rep["broken"].append("correspondence stream %s/%s" % (pid, c.meta.get("stream", c.op)))
            rep.update({"op": c.op, "input": wire.enc(c.input), "meta": c.meta, "impl_output": o,
                        "model_output": safe_dec(d[2]) if d[0] != "ERR" else d[2], "oracle": d[1],
                        "n_mismatching": len(mismatching), "n_errors": len(errors)})
        if obl["log"]:
            rep["log"] = obl["log"][-3000:]
        path = write_replay(pid, seed, i or 0, rep)
        out_lines.append("VIOLATION property=%s replay=%s no-failing-input-found" % (pid, path))
        nviol, rc = 1, 1
    write_evidence(pid, tier, seed, mod, obl, cases, impl, drv, t0, violations=nviol,
                   known={k: len(v) for k, v in known.items()}, searched=searched)
    for l in out_lines:
        print(l)
    if rc == 0:
        print("OK property=%s tier=%s cases=%d obligations=%d/%d wall=%.1fs" % (
            pid, tier, len(cases), len(obl["discharged"]), len(obl["theorems"]), time.time() - t0))
    return rc


def safe_dec(s):
    try:
        return wire.dec(s)
    except Exception:
        return s


def shrink_pick(mod, cases, impl, drv, failing):
    """prefer the smallest failing case (by encoded size); property modules may shrink further"""
    return min(failing, key=lambda i: len(wire.enc(cases[i].input)))


def load_corpus(pid):
    d = os.path.join(VERIF, "corpus", pid)
    out = []
    if os.path.isdir(d):
        for fn in sorted(os.listdir(d)):
            for line in open(os.path.join(d, fn)):
                line = line.strip()
                if line:
                    j = json.loads(line)
                    out.append(Case(j["op"], wire.dec(j["input"]), stream="corpus", **j.get("meta", {})))
    return out


def write_replay(pid, seed, n, obj):
    obj = dict(obj)
    obj["property"] = pid
    path = os.path.join(VERIF, "replays", "%s-%d-%d.json" % (pid, seed, n))
    with open(path, "w") as f:
        json.dump(obj, f, indent=1, sort_keys=True, default=repr)
    return path


def do_replay(pid, mod, path):
    rep = json.load(open(path))
    if "input" not in rep:
        print("replay names broken obligations only: %s" % rep.get("broken"))
        return 1
    c = Case(rep["op"], wire.dec(rep["input"]))
    impl, drv, _ = evaluate(mod, [c], 1)
    eq, verdict, mout = drv[0]
    print("replay %s: correspondence=%s oracle=%s impl=%s model=%s" % (
        path, eq, verdict, json.dumps(impl[0], default=repr)[:500], mout[:300]))
    if verdict == "FAIL":
        print("VIOLATION property=%s replay=%s" % (pid, path))
        return 1
    if eq != "EQ":
        print("VIOLATION property=%s replay=%s no-failing-input-found" % (pid, path))
        return 1
    return 0


def write_evidence(pid, tier, seed, mod, obl, cases, impl, drv, t0, violations=0, known=None,
                   searched=0):
    dist, nontriv = {}, set()
    for c, o, d in zip(cases, impl, drv):
        for t in (mod.tags(c, o) if hasattr(mod, "tags") else [c.meta.get("stream", c.op)]):
            dist[t] = dist.get(t, 0) + 1
        try:
            if mod.nontrivial(c, o):
                nontriv.add(c.key())
        except Exception:
            pass
    samples = []
    step = max(1, len(cases) // 5)
    for i in range(0, len(cases), step):
        c = cases[i]
        samples.append({"op": c.op, "input": json.loads(json.dumps(c.input, default=repr))
                        if len(wire.enc(c.input)) < 1500 else wire.enc(c.input)[:1500] + "...",
                        "impl_output": impl[i] if len(json.dumps(impl[i], default=repr)) < 1500
                        else json.dumps(impl[i], default=repr)[:1500] + "...",
                        "meta": c.meta})
        if len(samples) >= 5:
            break
    if not samples:
        samples = [{"obligation": n} for n in obl["theorems"][:5]] or [{"note": "no cases run"}]
    ev = {
        "property_id": pid, "tier": tier, "seed": seed, "level": "proof",
        "coverage": {
            "obligations": max(1, len(obl["theorems"]) + (0 if obl["tables_ok"] else 1)),
            "discharged": len(obl["discharged"]),
            "obligation_names": obl["theorems"],
            "failed_obligations": obl["failed"],
            "axioms_used": sorted({a for v in obl["axioms"].values() for a in v}),
            "checker_cmd": "cd lean && lake build PowHsm.Props.%s && lake env lean Audit/%s.lean"
                           "  (#print axioms for every theorem; %s)" % (
                               pid, pid, "leanchecker: " + obl.get("leanchecker", "thorough tier only")),
            "trusted_base": getattr(mod, "TRUSTED", []) + [
                "Lean 4.33.0 kernel; axioms ⊆ {propext, Classical.choice, Quot.sound}",
                "translator/extract.py (generated tables)",
                "harness/ (simulated transport, generators, diff) and lean/Driver.lean",
                "statements in lean/PowHsm/Props/%s.lean and lean/PowHsm/Spec/" % pid],
            "evaluations": len(cases),
            "distinct_nontrivial": len(nontriv),
            "rule": getattr(mod, "RULE", ""),
            "samples": samples,
            "traces_validated_against_impl": sum(1 for d in drv if d[0] == "EQ"),
            "correspondence_mismatches": sum(1 for d in drv if d[0] == "NE"),
            "oracle_failures": sum(1 for d in drv if d[1] == "FAIL"),
            "known_findings_hit": known or {},
            "search_cases": searched,
            "changed_functions": obl.get("changed_functions", []),
            "escalated": bool(obl.get("changed_functions")),
            "distribution": dict(sorted(dist.items())),
            "exhaustive": bool(getattr(mod, "EXHAUSTIVE", {}).get(tier, False)),
        },
        "assumptions": getattr(mod, "ASSUMPTIONS", []),
        "wall_s": round(time.time() - t0, 2),
        "violations": violations,
    }
    with open(os.path.join(VERIF, "evidence", pid + ".json"), "w") as f:
        json.dump(ev, f, indent=1, sort_keys=True, default=repr)


def main(argv):
    import argparse
    ap = argparse.ArgumentParser()
    ap.add_argument("pid")
    ap.add_argument("--tier", default=os.environ.get("VERIF_TIER", "quick"))
    ap.add_argument("--replay")
    a = ap.parse_args(argv)
    seed = int(os.environ.get("VERIF_SEED", "1"))
    try:
        return check(a.pid, a.tier, seed, a.replay)
    except subprocess.TimeoutExpired as e:
        print("TIMEOUT %s" % e)
        return 2
