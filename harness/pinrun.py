"""One manager life of the PIN protocol on the real code (ledger/pin.py FileBasedPin +
ledger/protocol.py initialize_device/_handle_bootloader + HSM2Dongle / HSM2DongleSGX) in a forked
child, with write faults and process crashes (os._exit) injected at the step boundaries.
A raised exception would be swallowed by `_send_command`'s `except BaseException`, hence fork."""
import json
import logging
import os
import shutil
import tempfile


def _child(inp, path, wfd):
    logging.disable(logging.CRITICAL)
    from comm.platform import Platform
    from . import simdev
    plat = inp.get("platform", "ledger")
    Platform.set(Platform.SGX if plat == "sgx" else Platform.LEDGER)
    simdev.install()
    import ledger.pin as lp
    from ledger.protocol import HSM2ProtocolLedger
    from comm.protocol import HSM2ProtocolError, HSM2ProtocolInterrupt

    def log(**kw):
        os.write(wfd, (json.dumps(kw) + "\n").encode())

    crash = inp["crash"]
    state = {"pin": bytes.fromhex(inp["device_pin"]), "buf": {}, "mode": 2}

    def device(apdu):
        cmd = apdu[1]
        if cmd == 0x43:
            return ("d", bytes([0x80, state["mode"]]))
        if cmd == 0x06:
            return ("d", bytes([0x80, 1, 5, 4, 1]))
        if cmd in (0x02, 0xA4):
            return ("d", apdu)
        if cmd in (0x45, 0xA2):
            return ("d", bytes([0x80, cmd, 3]))
        if cmd == 0x41:
            state["buf"][apdu[2]] = apdu[3]
            return ("d", bytes([0x80, 0x41, apdu[2]]))
        if cmd in (0xFE, 0xA3):
            sent = bytes(state["buf"][k] for k in sorted(state["buf"])) if cmd == 0xFE else apdu[3:]
            state["buf"] = {}
            ok = sent == state["pin"]
            log(ev="unlock", sent=sent.hex(), ok=ok)
            if ok and crash == "afterUnlock":
                os._exit(0)
            return ("d", bytes([0x80, cmd, 1 if ok else 0]))
        if cmd in (0x08, 0xA5):
            newp = bytes(state["buf"][k] for k in sorted(state["buf"]))[1:] if cmd == 0x08 else apdu[3:]
            state["buf"] = {}
            if inp["dev"] == "accept":
                state["pin"] = newp
                log(ev="devpin", pin=newp.hex())
                if crash == "afterAck":
                    os._exit(0)
                return ("d", bytes([0x80, cmd, 1]))
            if inp["dev"] == "refuse":
                return ("w", 0x69A0) if cmd == 0x08 else ("d", bytes([0x80, cmd, 0]))
            if inp["dev"] in ("linkW", "linkR", "timeout"):
                # the link fails on the exchange that carries the new PIN: nothing is acknowledged
                return {"linkW": ("W",), "linkR": ("r",), "timeout": ("t",)}[inp["dev"]]
            return ("w", 0x6A01)
        if cmd in (0xFF, 0xFA):
            state["mode"] = 3
            return ("W",)
        if cmd == 0x11:
            return ("d", bytes([0x80, 0x11, 0]) + bytes(32) + (1).to_bytes(36, "big") + bytes([1]))
        return ("w", 0x6D00)

    simdev.reset([], [], device)
    real_open = open

    class _F:
        def __init__(self, f):
            self.f = f

        def __enter__(self):
            return self

        def write(self, data):
            if not inp["write_ok"]:
                raise OSError("simulated write failure")
            return self.f.write(data)

        def __exit__(self, *a):
            self.f.close()
            if crash == "afterWrite" and a[0] is None:
                os._exit(0)
            return False

    def fake_open(p, mode="r", *a, **k):
        if p == path and "w" in mode:
            if not inp["open_ok"]:
                raise OSError("simulated open failure")
            f = real_open(p, mode, *a, **k)
            if crash == "afterOpen":
                f.close()
                os._exit(0)
            return _F(f)
        return real_open(p, mode, *a, **k)
    lp.open = fake_open
    try:
        default = bytes.fromhex(inp["default"]) if inp.get("default") is not None else None
        pin = lp.FileBasedPin(path, default, force_change=inp["force"])
    except lp.PinError:
        log(ev="outcome", outcome="pinError")
        return
    pin.generate_pin = lambda: bytes.fromhex(inp["new_pin"])
    if plat == "sgx":
        from sgx.hsm2dongle import HSM2DongleSGX
        dongle = HSM2DongleSGX("sim", 0, False)
    else:
        from ledger.hsm2dongle import HSM2Dongle
        dongle = HSM2Dongle(False)
    proto = HSM2ProtocolLedger(pin, dongle)
    try:
        proto.initialize_device()
        log(ev="outcome", outcome="continued")
    except HSM2ProtocolInterrupt:
        log(ev="outcome", outcome="stopped")
    except HSM2ProtocolError as e:
        log(ev="outcome", outcome="unlockFailed" if "unlock" in str(e).lower() else "error:" + str(e)[:60])
    except BaseException as e:
        log(ev="outcome", outcome="exc:" + type(e).__name__)


def run_life(inp):
    d = tempfile.mkdtemp(prefix="verif-pinrun-")
    path = os.path.join(d, "pin.txt")
    try:
        if inp.get("file") is not None:
            with open(path, "wb") as f:
                f.write(bytes.fromhex(inp["file"]))
        rfd, wfd = os.pipe()
        pid = os.fork()
        if pid == 0:
            try:
                os.close(rfd)
                _child(inp, path, wfd)
            except BaseException as e:   # harness bug inside the child
                try:
                    os.write(wfd, (json.dumps({"ev": "outcome", "outcome": "harness:" + repr(e)[:200]}) + "\n").encode())
                except Exception:
                    pass
            finally:
                os._exit(0)
        os.close(wfd)
        data = b""
        while True:
            chunk = os.read(rfd, 65536)
            if not chunk:
                break
            data += chunk
        os.close(rfd)
        os.waitpid(pid, 0)
        devpin = inp["device_pin"]
        outcome = "crashed"
        sent = None
        for line in data.decode().splitlines():
            j = json.loads(line)
            if j["ev"] == "devpin":
                devpin = j["pin"]
            elif j["ev"] == "unlock":
                sent = j["sent"]
            elif j["ev"] == "outcome":
                outcome = j["outcome"]
        file_after = None
        if os.path.isfile(path):
            with open(path, "rb") as f:
                file_after = f.read().hex()
        return {"file": file_after, "device_pin": devpin, "outcome": outcome, "sent": sent}
    finally:
        shutil.rmtree(d, ignore_errors=True)
