"""A protocol-level simulated powHSM device (Ledger UI + signer, SGX variants) answering APDUs
on the fly.  What it answers is *recorded*; the recorded answers are the script handed to
the Lean model, so the simulator needs to be plausible, not exact: it generates the device
side of the quantifiers (chunk policies, early/late termination, states, faults)."""
import hashlib
import struct

MODE_BOOTLOADER, MODE_SIGNER, MODE_UI_HB = 2, 3, 4

AUTH_PATHS = ["m/44'/0'/0'/0/0", "m/44'/1'/0'/0/0"]
NOAUTH_PATHS = ["m/44'/137'/0'/0/0", "m/44'/137'/1'/0/0", "m/44'/1'/1'/0/0", "m/44'/1'/2'/0/0"]
ALL_PATHS = AUTH_PATHS + NOAUTH_PATHS


def path_bytes(path):
    els = path[2:].split("/")
    b = bytes([len(els)])
    for e in els:
        h = e.endswith("'")
        v = int(e[:-1] if h else e) + (0x80000000 if h else 0)
        b += struct.pack("<I", v)
    return b


def der(r, s, tag=0x30, junk=b""):
    body = b"\x02" + bytes([len(r)]) + r + b"\x02" + bytes([len(s)]) + s
    return bytes([tag, len(body)]) + body + junk


class Policy:
    """device-side choices; every choice comes from the rng so a case replays exactly"""

    def __init__(self, rng, sizes=None, faults=None, stop_after=None, stop_kind="success",
                 ask_brothers=True, late=False, wrong_next=None, der_tag=0x30, der_junk=0):
        self.rng = rng
        self.sizes = sizes          # None: random 1..255; int: fixed; list: cycle
        self.faults = faults or {}  # exchange index -> script entry
        self.stop_after = stop_after
        self.stop_kind = stop_kind
        self.ask_brothers = ask_brothers
        self.late = late            # keeps asking for data past the end once
        self.wrong_next = wrong_next
        self.der_tag = der_tag
        self.der_junk = der_junk
        self._i = 0

    def size(self):
        if self.sizes is None:
            return self.rng.choice([1, 2, 7, 32, 80, 100, 254, 255, self.rng.randrange(1, 256)])
        if isinstance(self.sizes, int):
            return self.sizes
        v = self.sizes[self._i % len(self.sizes)]
        self._i += 1
        return v


class DevState:
    def __init__(self, rng):
        rb = lambda n: bytes(rng.getrandbits(8) for _ in range(n))  # noqa: E731
        self.mode = MODE_SIGNER
        self.onboarded = 1
        self.ui_version = (5, 4, 1)
        self.app_version = (5, 4, 1)
        self.retries = 3
        self.pin = b"1234567a"
        self.echo_ok = True
        self.unlock_ok = True
        self.newpin_result = "ok"         # ok | invalid | error
        self.after_exit_mode = MODE_SIGNER  # mode after exiting the bootloader
        self.exit_drops_link = True
        self.keys = {p: b"\x04" + rb(64) for p in ALL_PATHS}
        self.hashes = {sel: rb(32) for sel in (0x01, 0x02, 0x03, 0x05, 0x81, 0x82, 0x84)}
        self.difficulty = rng.choice([0, 1, 2 ** 288 - 1, rng.getrandbits(rng.randrange(1, 288))])
        self.flags = [rng.randrange(2) for _ in range(3)]
        self.checkpoint = rb(32)
        self.min_difficulty = rng.choice([0, 1, 2 ** 288 - 1, rng.getrandbits(rng.randrange(1, 288))])
        self.network = rng.choice([1, 2, 3])
        self.hb = {"sig": der(rb(rng.randrange(1, 34)), rb(rng.randrange(1, 34)),
                              tag=rng.choice([0x30, 0x30, 0x31]), junk=rb(rng.choice([0, 0, 3]))),
                   "msg": rb(rng.randrange(20, 120)), "hash": rb(32), "pub": b"\x04" + rb(64)}
        self.sig = (rb(rng.randrange(1, 34)), rb(rng.randrange(1, 34)))
        # the UI holds a heartbeat of its own (its own key, message and signature)
        self.ui_hb = {"sig": der(rb(rng.randrange(1, 34)), rb(rng.randrange(1, 34)),
                                 tag=rng.choice([0x30, 0x30, 0x31]), junk=rb(rng.choice([0, 0, 3]))),
                      "msg": rb(rng.randrange(20, 120)), "hash": rb(32), "pub": b"\x04" + rb(64)}


def strip_zeros(b):
    i = 0
    while i < len(b) - 1 and b[i] == 0:
        i += 1
    return b[i:]


class PowDevice:
    """call `exchange(apdu)` -> script entry ('d', bytes) / ('w', sw) / ('t',) / ('W',) ..."""

    def __init__(self, state, policy, sgx=False):
        self.s = state
        self.p = policy
        self.sgx = sgx
        self.n = 0
        self.pinbuf = {}
        self.sign = None
        self.blk = None
        self.received = []   # what the device ends up holding, per part

    def exchange(self, apdu):
        i = self.n
        self.n += 1
        if i > 20000:
            raise KeyboardInterrupt("simulated device: runaway exchange loop")
        if i in self.p.faults:
            e = self.p.faults[i]
            if e[0] in ("W", "r") and self.s.mode is not None:
                pass
            return e
        try:
            return self.dispatch(bytes(apdu))
        except IndexError:
            return ("w", 0x6A87)

    # ------------------------------------------------------------------
    def dispatch(self, a):
        s = self.s
        cmd = a[1]
        if cmd == 0x43:
            return ("d", bytes([0x80, s.mode]))
        if cmd == 0x06:
            v = s.ui_version if s.mode == MODE_BOOTLOADER else s.app_version
            return ("d", bytes([0x80, s.onboarded, v[0], v[1], v[2]]))
        if s.mode in (MODE_BOOTLOADER, MODE_UI_HB) and cmd == 0x60:
            return self.heartbeat(a)
        if s.mode == MODE_BOOTLOADER or s.mode == MODE_UI_HB:
            return self.ui(a)
        return self.signer(a)

    def switch_on_exit(self):
        s = self.s
        if s.mode == MODE_BOOTLOADER:
            s.mode = s.after_exit_mode
        elif s.mode == MODE_SIGNER:
            s.mode = getattr(s, "after_signer_exit", MODE_UI_HB)
        elif s.mode == MODE_UI_HB:
            s.mode = getattr(s, "after_uihb_exit", MODE_SIGNER)

    def ui(self, a):
        s = self.s
        cmd = a[1]
        if cmd in (0x02, 0xA4):
            return ("d", a if s.echo_ok else a[:-1] + b"\x00")
        if cmd in (0x45, 0xA2):
            return ("d", bytes([0x80, cmd, s.retries]))
        if cmd == 0x41:
            self.pinbuf[a[2]] = a[3]
            return ("d", bytes([0x80, 0x41, a[2]]))
        if cmd == 0xFE:
            pin = bytes(self.pinbuf[k] for k in sorted(self.pinbuf))
            self.pinbuf = {}
            self.received.append(("unlock", pin))
            return ("d", bytes([0x80, 0xFE, 1 if s.unlock_ok else 0]))
        if cmd == 0xA3:
            self.received.append(("unlock", a[3:]))
            return ("d", bytes([0x80, 0xA3, 1 if s.unlock_ok else 0]))
        if cmd == 0x08:
            raw = bytes(self.pinbuf[k] for k in sorted(self.pinbuf))
            self.pinbuf = {}
            self.received.append(("newpin", raw[1:]))
            if s.newpin_result == "ok":
                s.pin = raw[1:]
                return ("d", bytes([0x80, 0x08]))
            return ("w", 0x69A0 if s.newpin_result == "invalid" else 0x6A01)
        if cmd == 0xA5:
            self.received.append(("newpin", a[3:]))
            if s.newpin_result == "ok":
                s.pin = a[3:]
                return ("d", bytes([0x80, 0xA5, 1]))
            if s.newpin_result == "invalid":
                return ("d", bytes([0x80, 0xA5, 0]))
            return ("w", 0x6A01)
        if cmd in (0xFF, 0xFA):
            self.switch_on_exit()
            return ("W",) if s.exit_drops_link else ("d", bytes([0x80, cmd]))
        if cmd == 0x44:
            self.received.append(("seed", a[2], a[3]))
            return ("d", bytes([0x80, 0x44, a[2]]))
        if cmd == 0x07:
            pin = bytes(self.pinbuf[k] for k in sorted(self.pinbuf))
            self.pinbuf = {}
            self.received.append(("wipe", pin))
            ok = getattr(s, "onboard_ok", True)
            if ok:
                s.onboarded = 1
            return ("d", bytes([0x80, 2 if ok else 1]))
        if cmd == 0xA0:
            self.received.append(("sgx-onboard", a[3:]))
            ok = getattr(s, "onboard_ok", True)
            if ok:
                s.onboarded = 1
            return ("d", bytes([0x80, 0xA0, 1 if ok else 0]))
        return ("w", 0x6D00)

    def heartbeat(self, a):
        hb = self.s.ui_hb if self.s.mode in (MODE_BOOTLOADER, MODE_UI_HB) else self.s.hb
        op = a[2]
        if op == 0x01:
            self.received.append(("ud", a[3:]))
            return ("d", bytes([0x80, 0x60, 0x01]))
        data = {0x02: hb["sig"], 0x03: hb["msg"], 0x04: hb["hash"], 0x05: hb["pub"]}.get(op)
        if data is None:
            return ("w", 0x6B10)
        return ("d", bytes([0x80, 0x60, op]) + data)

    def signer(self, a):
        s = self.s
        cmd = a[1]
        if cmd == 0x04:
            pb = a[2:]
            for p in ALL_PATHS:
                if path_bytes(p) == pb:
                    return ("d", s.keys[p])
            return ("w", 0x6A8F if len(pb) == 21 else 0x6A87)
        if cmd == 0x02:
            return self.do_sign(a)
        if cmd == 0x20:
            op = a[2]
            if op == 0x01:
                if a[3] not in s.hashes:
                    return ("w", 0x6B87)
                return ("d", bytes([0x80, 0x20, 0x01, a[3]]) + s.hashes[a[3]])
            if op == 0x02:
                return ("d", bytes([0x80, 0x20, 0x02]) + strip_zeros(s.difficulty.to_bytes(36, "big")))
            if op == 0x03:
                return ("d", bytes([0x80, 0x20, 0x03] + s.flags))
            return ("w", 0x6B87)
        if cmd == 0x21:
            return ("d", bytes([0x80, 0x21, 0x02]))
        if cmd == 0x11:
            return ("d", bytes([0x80, 0x11, 0x00]) + s.checkpoint + s.min_difficulty.to_bytes(36, "big")
                    + bytes([s.network]))
        if cmd == 0x60:
            return self.heartbeat(a)
        if cmd in (0x10, 0x30):
            return self.do_blocks(a)
        if cmd in (0xFF, 0xFA):
            self.switch_on_exit()
            return ("W",) if s.exit_drops_link else ("d", bytes([0x80, cmd]))
        return ("w", 0x6D00)

    # ---------------------------------------------------------------- sign
    def sig_answer(self):
        r, s_ = self.s.sig
        rb = self.p.rng
        junk = bytes(rb.getrandbits(8) for _ in range(self.p.der_junk))
        return ("d", bytes([0x80, 0x02, 0x81]) + der(r, s_, self.p.der_tag, junk))

    def do_sign(self, a):
        op = a[2]
        data = a[3:]
        if op == 0x01:
            pb = data[:21]
            path = None
            for p in ALL_PATHS:
                if path_bytes(p) == pb:
                    path = p
            if path is None:
                return ("w", 0x6A8F)
            if path in AUTH_PATHS:
                if len(data) != 25:
                    return ("w", 0x6A90)
                self.sign = {"part": 2, "buf": {2: b"", 4: b"", 8: b""}, "need": None}
                self.received.append(("path", data))
                return ("d", bytes([0x80, 0x02, 0x02, 4]))   # asks for the 4-byte payload length first
            if len(data) != 21 + 32:
                return ("w", 0x6A91)
            self.received.append(("path+hash", data))
            return self.sig_answer()
        st = self.sign
        if st is None or op != st["part"]:
            return ("w", 0x6A89)
        if len(data) == 0:
            self.sign = None
            return ("w", 0x6A87)     # the host has nothing more to send: wrong data size
        st["buf"][op] += data
        buf = st["buf"][op]
        # how long is this part?  (the device learns it from the data itself)
        total = None
        if op == 2:
            if len(buf) >= 7:
                total = struct.unpack("<I", buf[:4])[0] + struct.unpack("<H", buf[5:7])[0]
        elif op == 4:
            total = st.get("receipt_len")
            if total is None and len(buf) >= 1:
                total = rlp_total_len(buf)
        elif op == 8:
            total = proof_total_len(buf)
        done = total is not None and len(buf) >= total
        if self.p.stop_after is not None and st.get("count", 0) >= self.p.stop_after:
            done = True   # early termination
        st["count"] = st.get("count", 0) + 1
        if done and self.p.late and not st.get("lated"):
            st["lated"] = True
            done = False
        if not done:
            remaining = (total - len(buf)) if total is not None else 255
            n = min(self.p.size(), max(1, remaining)) if not st.get("lated") else self.p.size()
            return ("d", bytes([0x80, 0x02, op, max(1, min(255, n))]))
        self.received.append((op, buf))
        nxt = {2: 4, 4: 8, 8: 0x81}[op]
        if self.p.wrong_next is not None and op == self.p.wrong_next[0]:
            nxt = self.p.wrong_next[1]
        st["part"] = nxt
        st.pop("count", None)
        st.pop("lated", None)
        if nxt == 0x81:
            self.sign = None
            return self.sig_answer()
        return ("d", bytes([0x80, 0x02, nxt, max(1, min(255, self.p.size()))]))

    # ---------------------------------------------------------------- blocks
    def do_blocks(self, a):
        cmd, op, data = a[1], a[2], a[3:]
        adv = cmd == 0x10
        OP_INIT, OP_META, OP_CHUNK = 2, 3, 4
        OP_PARTIAL, OP_SUCCESS = (5, 6) if adv else (None, 5)
        OP_BLM, OP_BM, OP_BC = 7, 8, 9
        b = self.blk
        if op == OP_INIT:
            n = struct.unpack(">I", data[:4])[0]
            self.blk = {"n": n, "i": 0, "cur": None, "bros": 0, "kind": None}
            self.received.append(("init", n))
            return ("d", bytes([0x80, cmd, OP_META]))
        if b is None:
            return ("w", 0x6B87)
        if op in (OP_META, OP_BM):
            b["kind"] = "block" if op == OP_META else "brother"
            b["cur"] = b""
            b["len"] = None
            self.received.append((b["kind"] + "-meta", data))
            return ("d", bytes([0x80, cmd, OP_CHUNK if op == OP_META else OP_BC, self.p.size()]))
        if op in (OP_CHUNK, OP_BC):
            b["cur"] += data
            if b["len"] is None and len(b["cur"]) >= 1:
                b["len"] = rlp_total_len(b["cur"])
            if b["len"] is None or len(b["cur"]) < b["len"]:
                if len(data) == 0:
                    return ("w", 0x6B88)   # the host ran out of data: RLP invalid
                rem = (b["len"] - len(b["cur"])) if b["len"] is not None else 255
                return ("d", bytes([0x80, cmd, op, max(1, min(255, self.p.size(), rem))]))
            self.received.append((b["kind"], b["cur"]))
            if b["kind"] == "brother":
                b["bros"] -= 1
                if b["bros"] > 0:
                    return ("d", bytes([0x80, cmd, OP_BM]))
                return self.next_block(cmd, OP_META, OP_PARTIAL, OP_SUCCESS)
            ask = self.p.ask_brothers
            if isinstance(ask, (list, tuple)):        # per-block policy
                ask = bool(ask[b["i"] % len(ask)]) if ask else False
            if adv and ask:
                return ("d", bytes([0x80, cmd, OP_BLM]))
            return self.next_block(cmd, OP_META, OP_PARTIAL, OP_SUCCESS)
        if op == OP_BLM and adv:
            cnt = data[0]
            self.received.append(("brother-count", cnt))
            if cnt > 10:
                return ("w", 0x6B9E)
            b["bros"] = cnt
            if cnt > 0:
                return ("d", bytes([0x80, cmd, OP_BM]))
            return self.next_block(cmd, OP_META, OP_PARTIAL, OP_SUCCESS)
        return ("w", 0x6B87)

    def next_block(self, cmd, OP_META, OP_PARTIAL, OP_SUCCESS):
        b = self.blk
        b["i"] += 1
        if self.p.stop_after is not None and b["i"] >= self.p.stop_after:
            self.blk = None
            if self.p.stop_kind == "partial" and OP_PARTIAL is not None:
                return ("d", bytes([0x80, cmd, OP_PARTIAL]))
            return ("d", bytes([0x80, cmd, OP_SUCCESS]))
        if b["i"] >= b["n"]:
            self.blk = None
            if self.p.stop_kind == "partial" and OP_PARTIAL is not None:
                return ("d", bytes([0x80, cmd, OP_PARTIAL]))
            return ("d", bytes([0x80, cmd, OP_SUCCESS]))
        return ("d", bytes([0x80, cmd, OP_META]))


def rlp_total_len(buf):
    """total encoded length of the RLP item starting at buf[0], or None if not yet known"""
    b0 = buf[0]
    if b0 < 0x80:
        return 1
    if b0 < 0xB8:
        return 1 + b0 - 0x80
    if b0 < 0xC0:
        ll = b0 - 0xB7
        if len(buf) < 1 + ll:
            return None
        return 1 + ll + int.from_bytes(buf[1:1 + ll], "big")
    if b0 < 0xF8:
        return 1 + b0 - 0xC0
    ll = b0 - 0xF7
    if len(buf) < 1 + ll:
        return None
    return 1 + ll + int.from_bytes(buf[1:1 + ll], "big")


def proof_total_len(buf):
    if len(buf) < 1:
        return None
    n = buf[0]
    off = 1
    for _ in range(n):
        if len(buf) < off + 1:
            return None
        off += 1 + buf[off]
    return off


def sha256_compress_state(data):
    """SHA-256 state after hashing `data` (a multiple of 64 bytes), independent of the code
    under test: returns the 32-byte big-endian state"""
    assert len(data) % 64 == 0
    K = [0x428a2f98, 0x71374491, 0xb5c0fbcf, 0xe9b5dba5, 0x3956c25b, 0x59f111f1, 0x923f82a4, 0xab1c5ed5,
         0xd807aa98, 0x12835b01, 0x243185be, 0x550c7dc3, 0x72be5d74, 0x80deb1fe, 0x9bdc06a7, 0xc19bf174,
         0xe49b69c1, 0xefbe4786, 0x0fc19dc6, 0x240ca1cc, 0x2de92c6f, 0x4a7484aa, 0x5cb0a9dc, 0x76f988da,
         0x983e5152, 0xa831c66d, 0xb00327c8, 0xbf597fc7, 0xc6e00bf3, 0xd5a79147, 0x06ca6351, 0x14292967,
         0x27b70a85, 0x2e1b2138, 0x4d2c6dfc, 0x53380d13, 0x650a7354, 0x766a0abb, 0x81c2c92e, 0x92722c85,
         0xa2bfe8a1, 0xa81a664b, 0xc24b8b70, 0xc76c51a3, 0xd192e819, 0xd6990624, 0xf40e3585, 0x106aa070,
         0x19a4c116, 0x1e376c08, 0x2748774c, 0x34b0bcb5, 0x391c0cb3, 0x4ed8aa4a, 0x5b9cca4f, 0x682e6ff3,
         0x748f82ee, 0x78a5636f, 0x84c87814, 0x8cc70208, 0x90befffa, 0xa4506ceb, 0xbef9a3f7, 0xc67178f2]
    H = [0x6a09e667, 0xbb67ae85, 0x3c6ef372, 0xa54ff53a, 0x510e527f, 0x9b05688c, 0x1f83d9ab, 0x5be0cd19]
    M = 0xFFFFFFFF

    def rotr(x, n):
        return ((x >> n) | (x << (32 - n))) & M
    for off in range(0, len(data), 64):
        w = list(struct.unpack(">16I", data[off:off + 64])) + [0] * 48
        for i in range(16, 64):
            s0 = rotr(w[i - 15], 7) ^ rotr(w[i - 15], 18) ^ (w[i - 15] >> 3)
            s1 = rotr(w[i - 2], 17) ^ rotr(w[i - 2], 19) ^ (w[i - 2] >> 10)
            w[i] = (w[i - 16] + s0 + w[i - 7] + s1) & M
        a, b, c, d, e, f, g, h = H
        for i in range(64):
            S1 = rotr(e, 6) ^ rotr(e, 11) ^ rotr(e, 25)
            ch = (e & f) ^ (~e & M & g)
            t1 = (h + S1 + ch + K[i] + w[i]) & M
            S0 = rotr(a, 2) ^ rotr(a, 13) ^ rotr(a, 22)
            mj = (a & b) ^ (a & c) ^ (b & c)
            t2 = (S0 + mj) & M
            h, g, f, e, d, c, b, a = g, f, e, (d + t1) & M, c, b, a, (t1 + t2) & M
        H = [(x + y) & M for x, y in zip(H, [a, b, c, d, e, f, g, h])]
    return struct.pack(">8I", *H)


def compress_coinbase(full, nblocks):
    """the 'compressed' coinbase the RSK header carries: 8-byte count ‖ midstate ‖ tail"""
    head = full[:64 * nblocks]
    return struct.pack(">Q", len(head)) + sha256_compress_state(head) + full[len(head):]


def coinbase_hash(full):
    return hashlib.sha256(hashlib.sha256(full).digest()).digest()[::-1]
