"""Prefix-token wire codec shared with lean/PowHsm/Basic/Json.lean (DESIGN Appendix C)."""


def _s(s):
    return "S" + s.encode("utf-8", errors="replace").hex()


def enc(v, out=None):
    top = out is None
    if top:
        out = []
    if v is None:
        out.append("N")
    elif v is True:
        out.append("T")
    elif v is False:
        out.append("F")
    elif isinstance(v, int):
        out.append("I%d" % v)
    elif isinstance(v, float):
        if v == v and v not in (float("inf"), float("-inf")) and v.is_integer():
            out.append("R%d" % int(v))
        else:
            out.append("Rx")
    elif isinstance(v, str):
        out.append(_s(v))
    elif isinstance(v, (bytes, bytearray)):
        out.append(_s(bytes(v).hex()))
    elif isinstance(v, (list, tuple)):
        out.append("L%d" % len(v))
        for x in v:
            enc(x, out)
    elif isinstance(v, dict):
        out.append("O%d" % len(v))
        for k in sorted(v.keys()):
            out.append(_s(k))
            enc(v[k], out)
    else:
        raise TypeError("cannot encode %r" % type(v))
    if top:
        return " ".join(out)


def dec_tokens(toks, i=0):
    t = toks[i]
    c = t[0]
    if t == "N":
        return None, i + 1
    if t == "T":
        return True, i + 1
    if t == "F":
        return False, i + 1
    if c == "I":
        return int(t[1:]), i + 1
    if c == "R":
        return (float("nan") if t == "Rx" else float(int(t[1:]))), i + 1
    if c == "S":
        return bytes.fromhex(t[1:]).decode("utf-8"), i + 1
    if c == "L":
        n = int(t[1:])
        i += 1
        xs = []
        for _ in range(n):
            v, i = dec_tokens(toks, i)
            xs.append(v)
        return xs, i
    if c == "O":
        n = int(t[1:])
        i += 1
        d = {}
        for _ in range(n):
            k, i = dec_tokens(toks, i)
            v, i = dec_tokens(toks, i)
            d[k] = v
        return d, i
    raise ValueError("bad token %r" % t)


def dec(s):
    v, _ = dec_tokens(s.split())
    return v


def canon(v):
    """canonical form used for equality/hashing of cases (sorted keys, bytes as hex)"""
    return enc(v)
