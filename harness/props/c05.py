"""C05 — advance / ancestor update hand the device the client's blocks intact."""
from ..core import Case
from .. import reqgen, btcgen as g
from . import linegen

PROPERTY = "C05"
OP = "line.C05"
RULE = ("advanceBlockchain / updateAncestorBlock requests with headers built field-wise (17..20 RLP fields; "
        "field sizes 0, 1 (<0x80 and >=0x80), 55, 56, 255, 256, 65535+; coinbase transactions 64..4000 bytes "
        "with the midstate split at every 64-byte boundary), 0..10 brothers per block, lists of 1..40 blocks; "
        "device policies: chunk sizes, stops after k blocks with partial / total success, asks / does not ask "
        "for brothers, errors.  keccak and the coinbase hash are per-case oracle tables; the coinbase hash is "
        "computed independently (reversed double SHA-256 of the full coinbase the generator built).  "
        "non-trivial = at least one whole block header was relayed; distinct by hash of the canonical case")
ASSUMPTIONS = ["keccak-256 and SHA-256 are uninterpreted in the theorems; their use is checked against "
               "independent computations by the harness"]
TRUSTED = ["harness/powdev.py (simulated device, independent SHA-256 midstate)", "pyrlp / pycryptodome as oracles "
           "for the keccak table"]


def worker_init():
    from .. import mgr  # noqa


def run_impl(op, inp):
    from .. import mgr
    return mgr.run_line(inp)


def policy(rng):
    p = {}
    k = rng.randrange(6)
    if k == 0:
        p["sizes"] = rng.choice([1, 255, 32, 100])
    elif k == 1:
        p["sizes"] = [rng.randrange(1, 256) for _ in range(rng.randrange(1, 6))]
    r0 = rng.random()
    if r0 < 0.2:
        p["ask_brothers"] = False
    elif r0 < 0.6:
        # per-block: the device asks for the brothers of some blocks only
        p["ask_brothers"] = [rng.random() < 0.5 for _ in range(rng.randrange(2, 6))]
    r = rng.random()
    if r < 0.25:
        p["stop_after"] = rng.randrange(1, 4)
        p["stop_kind"] = rng.choice(["success", "partial"])
    elif r < 0.35:
        p["stop_kind"] = "partial"
    elif r < 0.45:
        p["faults"] = {str(rng.randrange(0, 20)): list(rng.choice(linegen.FAULTS))}
    return p


def gen(tier, rng):
    out = []
    n = 220 if tier == "quick" else 8000
    for i in range(n):
        big = (i % 25 == 24)
        # every fifth case draws its headers mostly from the RLP length-form boundaries of the announced size
        bnd = 0.6 if i % 5 == 3 else 0.0
        if rng.random() < 0.55:
            nb = rng.choice([1, 2, 3, 3, 4, 5] + ([40] if big else []))
            req, fulls = reqgen.advance_request(rng, nblocks=nb, maxbros=rng.choice([0, 2, 3, 10]), big=big, boundary=bnd)
            if rng.random() < 0.1:
                # a 17/18-field header in an advance (no coinbase), or a duplicate brother
                raw, _ = reqgen.rand_header(rng, nfields=rng.choice([17, 18]))
                req["blocks"][rng.randrange(len(req["blocks"]))] = raw.hex()
            if rng.random() < 0.1 and req["brothers"][0]:
                req["brothers"][0].append(req["brothers"][0][0])
        else:
            req, fulls = reqgen.update_request(rng, nblocks=rng.choice([1, 2, 3, 5] + ([40] if big else [])), big=big, boundary=bnd)
        c = linegen.line_case(rng, req, fulls, policy=policy(rng), stream=req["command"] + ("-boundary" if bnd else ""))
        c.op = OP
        out.append(c)
    return out


def tags(c, o):
    t = [c.meta.get("stream", "?")]
    if isinstance(o, dict) and isinstance(o.get("reply"), dict):
        t.append("code:%s" % o["reply"].get("errorcode"))
        ev = o["events"]
        t.append("brothers-sent" if any(e.startswith("A801008") for e in ev) else "no-brothers")
    return t


def nontrivial(c, o):
    if not isinstance(o, dict):
        return False
    return sum(1 for e in o["events"] if e.startswith("A801003") or e.startswith("A803003")) >= 1
