"""C08 — verify commands vouch only for the operator's keys and a well-formed message."""
import contextlib
import copy
import hashlib
import io
import json
import os
import re
import shutil
import struct
import tempfile
import types

from ..core import Case
from .. import certgen, sgxgen
from . import c06, c07

PROPERTY = "C08"
OP = "verify"
RULE = ("(attestation file, public-keys file, root of trust) triples for the Ledger and the SGX verify commands: "
        "genuine ones over random keys and message contents (legacy and current signer formats), and variants "
        "with another key set / order / path names, a missing BTC path, truncated or extended messages, foreign "
        "headers, missing targets, corrupted signatures, another root; real do_verify_attestation on files in a "
        "temporary directory, stdout parsed into the printed fields.  non-trivial = both files load; distinct "
        "by hash of the canonical case")
ASSUMPTIONS = ["certificate verdicts are computed by the chain model from an independently computed link table "
               "(C06/C07); SHA-256 of the operator's keys is computed by the harness with hashlib over python-ecdsa "
               "serialisations"]
TRUSTED = ["harness/certgen.py, harness/sgxgen.py (independent oracles)"]
PATHS = ["m/44'/0'/0'/0/0", "m/44'/1'/0'/0/0", "m/44'/1'/1'/0/0", "m/44'/1'/2'/0/0", "m/44'/137'/0'/0/0",
         "m/44'/137'/1'/0/0"]


def worker_init():
    import admin.verify_ledger_attestation, admin.verify_sgx_attestation  # noqa


LABELS = {
    "UD value": "ud", "Derived public key (m/44'/0'/0'/0/0)": "ui_pubkey", "Authorized signer hash": "signer_hash_auth",
    "Authorized signer iteration": "iteration", "Installed UI hash": "ui_hash", "Installed UI version": "ui_version",
    "Hash": "hash", "Installed Signer hash": "signer_hash", "Installed Signer version": "signer_version",
    "Platform": "platform", "Best block": "best_block", "Last transaction signed": "last_tx", "Timestamp": "timestamp",
    "Installed powHSM MRENCLAVE": "mrenclave", "Installed powHSM MRSIGNER": "mrsigner",
    "Installed powHSM version": "version",
}


def parse_stdout(text, platform):
    out = {}
    seen_ud = 0
    for line in text.splitlines():
        m = re.match(r"^([^:]+(?:\([^)]*\))?): (.*)$", line)
        if not m:
            continue
        label, val = m.group(1).strip(), m.group(2).strip()
        if label.startswith("m/"):
            continue
        key = LABELS.get(label)
        if key is None:
            continue
        if key == "ud":
            seen_ud += 1
            if platform == "ledger" and seen_ud == 2:
                key = "ud2"
            if platform == "sgx":
                key = "ud2"
        if key in ("iteration", "timestamp"):
            val = int(val)
        out[key] = val
    return out


def run_impl(op, inp):
    from admin.misc import AdminError
    d = tempfile.mkdtemp(prefix="verif-c08-")
    try:
        cpath, kpath = os.path.join(d, "att.json"), os.path.join(d, "keys.json")
        with open(cpath, "w") as f:
            f.write(json.dumps(inp["cert"]))
        with open(kpath, "w") as f:
            f.write(inp["pubkeys_text"])
        if inp["platform"] == "sgx":
            import admin.verify_sgx_attestation as v
            rpath = os.path.join(d, "root.pem")
            with open(rpath, "w") as f:
                f.write(inp["root_pem"])
            opts = types.SimpleNamespace(attestation_certificate_file_path=cpath, pubkeys_file_path=kpath,
                                         root_authority=rpath)
        else:
            import admin.verify_ledger_attestation as v
            opts = types.SimpleNamespace(attestation_certificate_file_path=cpath, pubkeys_file_path=kpath,
                                         root_authority=inp["root_pub"])
        buf = io.StringIO()
        try:
            with contextlib.redirect_stdout(buf):
                v.do_verify_attestation(opts)
        except Exception:
            return {"ok": False}
        return {"ok": True, "printed": parse_stdout(buf.getvalue(), inp["platform"])}
    finally:
        shutil.rmtree(d, ignore_errors=True)


def rb(rng, n):
    return bytes(rng.getrandbits(8) for _ in range(n))


def odd_path(rng):
    """a path name whose place in the (code-point) order is decided by a character next to '/': hardened and
    non-hardened siblings, steps that are prefixes of one another, names outside the BIP32 grammar (the file
    format does not restrict them)"""
    if rng.random() < 0.7:
        steps = rng.choice(PATHS).split("/")
        i = rng.randrange(1, len(steps))
        steps[i] = steps[i][:-1] if steps[i].endswith("'") else steps[i] + "'"
        if rng.random() < 0.3:
            steps[rng.randrange(1, len(steps))] += rng.choice("0123456789")
        return "/".join(steps)
    return "m/" + "".join(rng.choice("'-.+ !0/19aZ~") for _ in range(rng.randrange(1, 8)))


def keyset(rng, odd=False):
    keys = {p: certgen.rand_key(rng) for p in PATHS}
    if odd:
        for _ in range(rng.randrange(1, 5)):
            keys[odd_path(rng)] = certgen.rand_key(rng)
    return keys


def comp(sk):
    p = certgen.pub65(sk)
    return bytes([2 + (p[-1] & 1)]) + p[1:33]


def pubkeys_hash(keys):
    h = hashlib.sha256()
    for p in sorted(keys.keys()):
        h.update(certgen.pub65(keys[p]))
    return h.digest()


def powhsm_msg(rng, pkhash, platform=b"led", header=b"POWHSM:5.4::", ud=None):
    return header + platform + (rb(rng, 32) if ud is None else ud) + pkhash + rb(rng, 32) + rb(rng, 8) + struct.pack(">Q", rng.getrandbits(40))


def mutate_msg(rng, msg, hlen):
    k = rng.randrange(7)
    if k == 0:
        return msg[:-rng.randrange(1, 20)]
    if k == 1:
        return msg + rb(rng, rng.randrange(1, 5))
    if k == 2:
        return rng.choice([b"HSM:UI:1.0", b"POWHSM:4.1::", b"POWHSM:5.4:", b"HSM:SIGNER:6.0", b"XSM:UI:5.4", b""]) + msg[hlen:]
    if k == 3:
        b = bytearray(msg)
        b[hlen + rng.randrange(0, len(msg) - hlen)] ^= 0x01
        return bytes(b)
    if k == 4:
        return msg[:hlen]
    if k == 5:
        return msg[:5] + b"\n" + msg[6:]
    return msg[:hlen - 2] + b"9" + msg[hlen - 1:]


def ledger_case(rng, variant):
    keys = keyset(rng, variant == "odd-paths")
    filekeys = dict(keys)
    pkh = pubkeys_hash(keys)
    ui_hash = rb(rng, 32)
    signer_hash = rb(rng, 32)
    ui_msg = b"HSM:UI:5." + bytes([48 + rng.randrange(10)]) + rb(rng, 32) + comp(keys[PATHS[0]]) + rb(rng, 32) + \
        struct.pack(">H", rng.getrandbits(16))
    legacy = rng.random() < 0.4
    s_msg = (b"HSM:SIGNER:5." + bytes([48 + rng.randrange(10)]) + pkh) if legacy else powhsm_msg(rng, pkh)
    targets = ["ui", "signer"]
    if variant == "other-keys":
        filekeys[rng.choice(PATHS)] = certgen.rand_key(rng)
    elif variant == "path-names":
        k = filekeys.pop(rng.choice(PATHS[1:]))
        filekeys["m/44'/2'/0'/0/%d" % rng.randrange(9)] = k
    elif variant == "no-btc-path":
        filekeys.pop(PATHS[0])
    elif variant == "ui-msg":
        ui_msg = mutate_msg(rng, ui_msg, 10)
    elif variant == "signer-msg":
        s_msg = mutate_msg(rng, s_msg, 14 if legacy else 12)
    elif variant == "missing-target":
        targets = rng.choice([["ui"], ["signer"], []])
    root = certgen.rand_key(rng)
    dev, att = certgen.rand_key(rng), certgen.rand_key(rng)
    els = []
    dm = rb(rng, 5) + certgen.pub65(dev)
    els.append({"name": "device", "message": dm.hex(), "signature": certgen.sign(root, dm, rng).hex(), "signed_by": "root"})
    am = b"\xff" + certgen.pub65(att)
    els.append({"name": "attestation", "message": am.hex(), "signature": certgen.sign(dev, am, rng).hex(), "signed_by": "device"})
    for name, msg, tw in (("ui", ui_msg, ui_hash), ("signer", s_msg, signer_hash)):
        e = {"name": name, "message": msg.hex() if msg else "00", "signed_by": "attestation", "tweak": tw.hex()}
        e["signature"] = certgen.sign(certgen.tweaked_priv(att, e["tweak"]), bytes.fromhex(e["message"]), rng).hex()
        els.append(e)
    root_pub = certgen.pub65(root)
    if variant == "bad-signature":
        e = rng.choice(els)
        b = bytearray(bytes.fromhex(e["signature"]))
        b[-1] ^= 1
        e["signature"] = bytes(b).hex()
    elif variant == "other-root":
        root_pub = certgen.pub65(certgen.rand_key(rng))
    elif variant == "no-tweak":
        del els[rng.choice([2, 3])]["tweak"]
    cert = {"version": 1, "targets": targets, "elements": els}
    enc = (lambda sk: comp(sk).hex()) if rng.random() < 0.5 else (lambda sk: certgen.pub65(sk).hex())
    items = list(filekeys.items())
    if variant == "order":
        rng.shuffle(items)
    text = json.dumps({p: enc(k) for p, k in items})
    inp = {"platform": "ledger", "cert": cert, "pubkeys_text": text, "root_pub": root_pub.hex(),
           "loaded_ok": True, "pubkeys": [[p, comp(k).hex()] for p, k in filekeys.items()],
           "pubkeys_hash": pubkeys_hash(filekeys).hex()}
    inp.update(c06.model_input(cert, root_pub))
    return Case(OP, inp, stream="ledger-" + variant)


def sgx_case(rng, variant):
    keys = keyset(rng, variant == "odd-paths")
    filekeys = dict(keys)
    pkh = pubkeys_hash(keys)
    msg = powhsm_msg(rng, pkh, platform=b"sgx")
    targets = ["quote"]
    if variant == "other-keys":
        filekeys[rng.choice(PATHS)] = certgen.rand_key(rng)
    elif variant == "path-names":
        k = filekeys.pop(rng.choice(PATHS))
        filekeys["m/44'/2'/0'/0/%d" % rng.randrange(9)] = k
    elif variant == "signer-msg":
        msg = mutate_msg(rng, msg, 12)
    elif variant == "missing-target":
        targets = []
    m = sgxgen.Material(rng, custom=msg if msg else b"\x00")
    cert = m.certificate(targets=targets)
    root = m.certs[0]
    if variant == "bad-signature":
        e = rng.choice([x for x in cert["elements"] if x["type"] != "x509_pem"])
        e["signature"] = c07.flip(rng, e["signature"])
    elif variant == "other-root":
        root = sgxgen.Material(rng, depth=1).certs[0]
    from cryptography.hazmat.primitives import serialization
    enc = (lambda sk: comp(sk).hex()) if rng.random() < 0.5 else (lambda sk: certgen.pub65(sk).hex())
    items = list(filekeys.items())
    if variant == "order":
        rng.shuffle(items)
    inp = {"platform": "sgx", "cert": cert, "pubkeys_text": json.dumps({p: enc(k) for p, k in items}),
           "root_pem": root.public_bytes(serialization.Encoding.PEM).decode(), "loaded_ok": True,
           "pubkeys": [[p, comp(k).hex()] for p, k in filekeys.items()], "pubkeys_hash": pubkeys_hash(filekeys).hex()}
    inp.update(c07.model_input(cert, root))
    return Case(OP, inp, stream="sgx-" + variant)


VARIANTS = ["genuine", "genuine", "odd-paths", "odd-paths", "other-keys", "order", "path-names", "no-btc-path", "ui-msg", "signer-msg",
            "missing-target", "bad-signature", "other-root", "no-tweak"]


def gen(tier, rng):
    out = []
    n = 14 if tier == "quick" else 400
    for _ in range(n):
        for v in VARIANTS:
            out.append(ledger_case(rng, v))
            if v not in ("no-btc-path", "ui-msg", "no-tweak"):
                out.append(sgx_case(rng, v))
    return out


def tags(c, o):
    return [c.meta.get("stream", "?"), "ok" if isinstance(o, dict) and o.get("ok") else "error"]


def nontrivial(c, o):
    return True
