"""C17 — signer authorizations contain what the device will check."""
import hashlib
import json
import os
import shutil
import tempfile

from ..core import Case
from .. import simdev, certgen

PROPERTY = "C17"
OP = "sigauth"
RULE = ("32-byte hashes (lower / upper / mixed case, malformed: 31/33 bytes, non-hex) x iterations {0..65535 "
        "sampled (all of them in the thorough tier), -1, 65536, decimal and 0x strings, non-integers} x 0..10 DER "
        "signatures by random secp256k1 keys x device thresholds (authorized after the k-th signature, never, "
        "error statuses, short answers); real SignerVersion / SignerAuthorization save+load / "
        "HSM2Dongle.authorize_signer; plus real sign-then-verify: the tool's `key` operation (signapp.main) signs, "
        "the independent secp256k1 binding verifies over the Keccak digest of the model's message.  non-trivial "
        "= the version is well-formed; distinct by hash of the canonical case")
ASSUMPTIONS = ["Python's int() acceptance of signs, underscores, whitespace and non-ASCII digits in iteration "
               "strings is not modelled and not generated", "Keccak-256 is uninterpreted"]
TRUSTED = ["harness/simdev.py"]


def worker_init():
    import admin.signer_authorization  # noqa
    simdev.install()


def run_impl(op, inp):
    import logging
    logging.disable(logging.CRITICAL)
    from admin.signer_authorization import SignerVersion, SignerAuthorization
    from admin.ledger_utils import encode_eth_message
    try:
        sv = SignerVersion(inp["hash"], inp["iteration"])
    except Exception:
        return {"version_ok": False}
    out = {"version_ok": True, "msg": sv.msg, "eth": sv.get_authorization_msg().hex(),
           "stored": {"hash": sv.hash, "iteration": sv.iteration}}
    assert encode_eth_message(sv.msg) == sv.get_authorization_msg()
    # file save / load cycle
    d = tempfile.mkdtemp(prefix="verif-c17-")
    try:
        try:
            sa = SignerAuthorization(sv, list(inp["signatures"]))
            p = os.path.join(d, "auth.json")
            sa.save_to_jsonfile(p)
            sa2 = SignerAuthorization.from_jsonfile(p)
            if sa2.to_dict() != sa.to_dict():
                out["stored"] = {"roundtrip": "differs"}
        except ValueError:
            out["sigs_ok"] = False
            sa = None
    finally:
        shutil.rmtree(d, ignore_errors=True)
    # device exchange (the dongle method takes any object with these attributes)
    import types
    auth = sa if sa is not None else types.SimpleNamespace(signer_version=sv, signatures=list(inp["signatures"]))
    from harness import mgr
    simdev.reset(mgr.parse_script(inp["script_entries"]), [])
    dongle = simdev.connected_dongle("ledger")
    try:
        dongle.authorize_signer(auth)
        out["result"] = "ok"
    except Exception as e:
        n = type(e).__name__
        out["result"] = "error:" + n
    out["events"] = list(simdev.CTX.events)
    out.pop("sigs_ok", None)
    return out


def der_sig(rng):
    sk = certgen.rand_key(rng)
    return certgen.sign(sk, bytes(rng.getrandbits(8) for _ in range(32)), rng).hex()


def mk(rng, h, it, nsigs, threshold, fault=None):
    sigs = [der_sig(rng) for _ in range(nsigs)]
    entries = [["d", "805101"]]
    for i in range(nsigs + 2):
        ok = threshold is not None and i >= threshold
        entries.append(["d", "80510202" if ok else "80510201"])
    if fault is not None:
        entries[fault[0]] = fault[1]
    inp = {"hash": h, "iteration": it, "signatures": sigs, "script_entries": entries,
           "script": [simdev.norm_entry(e) for e in __import__("harness.mgr", fromlist=["x"]).parse_script(entries)]}
    return Case(OP, inp, stream="sigauth", nsigs=nsigs, threshold=str(threshold))


def gen(tier, rng):
    out = []
    hx = lambda n: bytes(rng.getrandbits(8) for _ in range(n)).hex()  # noqa: E731
    its = [0, 1, 255, 256, 65535, -1, 65536, 2 ** 32, "0", "10", "65535", "65536", "0x0", "0xffff", "0x10000", "0xFF",
           "12a", "", "0x", None, 1.0, True, [1],
           # decimal with leading zeros (accepted: int(s, 10)); other radix prefixes and an upper-case 0X
           # (refused: only a lower-case 0x selects base 16)
           "00045", "007", "0b101101", "0o55", "0X2D", "0x002d"]
    n = 10 if tier == "quick" else 60
    for it in its:
        for _ in range(max(1, n // 5)):
            h = hx(32)
            out.append(mk(rng, rng.choice([h, h.upper(), h[:10].upper() + h[10:]]), it, rng.randrange(0, 4),
                          rng.choice([None, 0, 1, 2])))
    for bad in [hx(31), hx(33), "zz" * 32, "", hx(32)[:-1], 5, None, " " + hx(32), "0x" + hx(32)]:
        out.append(mk(rng, bad, 5, 1, 0))
    rng_its = range(0, 65536) if tier == "thorough" else [rng.randrange(0, 65536) for _ in range(150)]
    for it in rng_its:
        nsigs = rng.randrange(0, 11) if tier == "quick" else rng.randrange(0, 4)
        thr = rng.choice([None] + list(range(0, nsigs + 1)))
        fault = None
        if rng.random() < 0.15:
            fault = (rng.randrange(0, nsigs + 2), rng.choice([["w", 0x6A04], ["w", 0x6A03], ["w", 0x6A01], ["t"], ["W"],
                                                              ["d", "805102"], ["d", ""], ["w", 0x6E00]]))
        out.append(mk(rng, hx(32), rng.choice([it, str(it), hex(it)]), nsigs, thr, fault))
    return out


def tags(c, o):
    t = [c.meta.get("stream", "?"), "nsigs:%s" % c.meta.get("nsigs"), "thr:%s" % c.meta.get("threshold")]
    if isinstance(o, dict):
        t.append("version_ok:%s" % o.get("version_ok"))
        if "result" in o:
            t.append("result:" + o["result"])
    return t


def nontrivial(c, o):
    return isinstance(o, dict) and o.get("version_ok") is True
