"""C10 — the PIN kept on disk always opens the device."""
import itertools

from ..core import Case

PROPERTY = "C10"
OP = "pinrun"
SERIAL = False
RULE = ("one manager life of the PIN protocol on the real FileBasedPin + initialize_device/_handle_bootloader + "
        "HSM2Dongle / HSM2DongleSGX, in a forked child: start {file absent / holds the device PIN (with and "
        "without trailing newline) / holds another PIN / invalid / empty} x default {the device PIN, another, "
        "none} x forced change {y,n} x device answer to the new PIN {accepts, refuses, errors, link write / read failure or time-out on that exchange} x open failure x "
        "write failure x crash (os._exit) at {after unlock, after the device's ack, after open-truncate, after "
        "close} x platform {Ledger, SGX}; exhaustive over this product in both tiers; the thorough tier adds "
        "two-life histories (the second life starts from the world the first one left); plus the same protocol "
        "reached through a link repair (request on a manager with a pending change whose device came back locked) "
        "through the real _RequestHandler: after a change attempt the request must end in a shutdown.  non-trivial = the "
        "device was unlocked; distinct by hash of the canonical case")
ASSUMPTIONS = ["OS-level write atomicity below Python's open/write/close is not modelled: the crash points are "
               "'after open(…, \"wb\") truncated the file' and 'after close'"]
TRUSTED = ["harness/pinrun.py (fork + fault injection)"]
EXHAUSTIVE = {"quick": True, "thorough": True}

DEV = b"1234567a"
OTHER = b"zzzz9999"
NEW = b"newpin9z"


def worker_init():
    from .. import pinrun, simdev  # noqa
    import logging
    logging.disable(logging.CRITICAL)
    import comm.platform, ledger.protocol, ledger.pin, sgx.hsm2dongle, ledger.hsm2dongle  # noqa  (inherited by the forked children)
    simdev.install()


def run_genpin(inp):
    """the real BasePin.generate_pin with ledger.pin's random source scripted: successive 8-character draws"""
    import ledger.pin as lp
    chars = [c for d in inp["draws"] for c in bytes.fromhex(d).decode("latin-1")]

    class _R:
        def seed(self, *a):
            pass

        def choice(self, seq):
            if not chars:
                raise RuntimeError("random source exhausted")
            c = chars.pop(0)
            if c not in seq:
                raise RuntimeError("scripted character not among the possible ones")
            return c
    saved = lp.random
    lp.random = _R()
    try:
        return {"pin": lp.BasePin.generate_pin().hex()}
    except RuntimeError as e:
        return {"pin": None, "why": str(e)}
    finally:
        lp.random = saved


def genpin_cases(tier, rng):
    import string
    out = []
    alnum = string.ascii_letters + string.digits
    for k in range(0, 7 if tier == "quick" else 40):
        for rep in range(3 if tier == "quick" else 20):
            draws = ["".join(rng.choice(string.digits) for _ in range(8)) for _ in range(k)]
            good = "".join(rng.choice(alnum) for _ in range(7)) + rng.choice(string.ascii_letters)
            good = "".join(rng.sample(good, 8))
            draws.append(good)
            draws.append("".join(rng.choice(alnum) for _ in range(8)))
            out.append(Case("genpin", {"draws": [d.encode().hex() for d in draws]}, stream="genpin",
                            crash="none", dev="n/a"))
    return out


def run_impl(op, inp):
    if op == "genpin":
        return run_genpin(inp)
    if op == "line.C10":
        from .. import mgr
        return mgr.run_line(inp)
    from .. import pinrun
    return pinrun.run_life(inp)


def repair_cases(tier, rng):
    """the PIN protocol reached through a link repair instead of a start: the manager holds a pending change,
    the link broke, the device comes back locked; the next request unlocks it and attempts the change"""
    from . import linegen
    from .. import reqgen
    out = []
    reqs = [lambda: reqgen.simple_request(rng, "getPubKey"), lambda: reqgen.simple_request(rng, "blockchainState"),
            lambda: reqgen.sign_hash_request(rng), lambda: reqgen.simple_request(rng, "blockchainParameters")]
    faults = [None] + [("w", 0x69A0), ("w", 0x6F01), ("t",), ("r",), ("W",), ("w", 0x6A01)]
    for plat in ("ledger", "sgx"):
        for newpin in ("ok", "invalid", "error"):
            for needs in (True, False):
                for fs in ([], [False]):
                    for k, mkreq in enumerate(reqs):
                        for f in (faults if tier == "thorough" else [None, rng.choice(faults[1:])]):
                            pol = {}
                            if f is not None:
                                pol["faults"] = {str(rng.randrange(4, 22)): list(f)}
                            c = linegen.line_case(rng, mkreq(), None, policy=pol, stream="repair-" + plat,
                                                  comm_issue=True, conns=[True], platform=plat,
                                                  pin={"pin": DEV.hex(), "needs_change": needs},
                                                  gen_pins=[NEW.hex()], fs_ok=fs)
                            c.input["dev"]["state"] = {"mode": 2, "onboarded": 1, "newpin_result": newpin,
                                                       "exit_drops_link": rng.random() < 0.5}
                            c.op = "line.C10"
                            c.meta.update(crash="none", dev=newpin)
                            out.append(c)
    return out


def worlds():
    files = [None, DEV, DEV + b"\n", b"  " + DEV + b"\r\n", OTHER, b"", b"short", b"12345678", b"bad pin!",
             # too long: the first 8 bytes alone would be a valid PIN
             DEV + b"9", DEV + b"wxyz", DEV + b"\n" + OTHER]
    defaults = [DEV, OTHER, None]
    for f, d in itertools.product(files, defaults):
        yield f, d


def lives():
    for force, dev, open_ok, write_ok, crash in itertools.product(
            (False, True), ("accept", "refuse", "error", "linkW", "linkR", "timeout"), (True, False), (True, False),
            ("none", "afterUnlock", "afterAck", "afterOpen", "afterWrite")):
        if (not open_ok or not write_ok or crash in ("afterAck", "afterOpen", "afterWrite")) and dev != "accept":
            continue
        if not open_ok and (not write_ok or crash in ("afterOpen", "afterWrite")):
            continue
        if not write_ok and crash == "afterWrite":
            continue
        yield force, dev, open_ok, write_ok, crash


def mk(f, d, devpin, life, plat):
    force, dev, open_ok, write_ok, crash = life
    inp = {"file": f.hex() if f is not None else None, "default": d.hex() if d is not None else None,
           "device_pin": devpin.hex(), "force": force, "new_pin": NEW.hex(), "dev": dev, "open_ok": open_ok,
           "write_ok": write_ok, "crash": crash, "platform": plat}
    return Case(OP, inp, stream="life-" + plat, crash=crash, dev=dev)


def gen(tier, rng):
    out = []
    for plat in ("ledger", "sgx"):
        for f, d in worlds():
            for life in lives():
                out.append(mk(f, d, DEV, life, plat))
    out += repair_cases(tier, rng)
    out += genpin_cases(tier, rng)
    if tier == "thorough":
        # two-life histories: replay the first life in the model-free way (the implementation itself)
        from .. import pinrun
        for plat in ("ledger", "sgx"):
            for f, d in [(None, DEV), (DEV, DEV), (DEV, None), (None, OTHER)]:
                for l1 in lives():
                    first = mk(f, d, DEV, l1, plat)
                    w1 = pinrun.run_life(first.input)
                    for l2 in lives():
                        f2 = bytes.fromhex(w1["file"]) if w1["file"] is not None else None
                        c = mk(f2, d, bytes.fromhex(w1["device_pin"]), l2, plat)
                        c.meta["stream"] = "history2-" + plat
                        out.append(c)
    return out


def tags(c, o):
    t = [c.meta.get("stream", "?"), "crash:" + c.meta.get("crash", "?"), "dev:" + c.meta.get("dev", "?")]
    if isinstance(o, dict) and c.op == "line.C10":
        t.append("shutdown:%s" % o.get("shutdown"))
        t.append("change-attempted" if any(e[1:5] in ("8008", "80a5") for e in o.get("events", []) if e[:1] == "A") else "no-change")
    elif isinstance(o, dict):
        t.append("outcome:" + str(o.get("outcome")))
    return t


def nontrivial(c, o):
    if c.op == "genpin":
        return True
    if c.op == "line.C10":
        return isinstance(o, dict) and any(e.startswith("A") for e in o.get("events", []))
    return isinstance(o, dict) and o.get("sent") is not None


def finding_signature(c, o):
    i = c.input
    if c.op in ("line.C10", "genpin"):
        return None
    if i["dev"] == "accept" and (i["crash"] in ("afterAck", "afterOpen") or not i["open_ok"] or not i["write_ok"]):
        fault = i["crash"] if i["crash"] in ("afterAck", "afterOpen") else ("open-fails" if not i["open_ok"] else "write-fails")
        return {"call_site": "ledger/pin.py:commit_change / ledger/protocol.py:_handle_bootloader",
                "window": "device-ack .. file-written", "fault": fault}
    return None
