"""C07 — an SGX attestation is accepted only if the whole quote-to-root chain verifies."""
import copy

from ..core import Case
from .. import sgxgen

PROPERTY = "C07"
OP = "certvalidate"
RULE = ("version-2 certificates built from freshly generated P-256 X.509 chains (depth 1..3; valid / expired / "
        "not-yet-valid), attestation keys, auth data, QE report bodies and quotes, with every single-point "
        "corruption class: a byte of any message / signature / key / auth data / custom data, re-parenting, "
        "signature by another key, a non-P-256 certificate key, a wrong root, an element named like the root of trust "
        "embedded in the file (with the verifier trusting another root); the link table given to the Lean "
        "model is computed independently (python-ecdsa for X.509 links, `cryptography` for the others — the "
        "code under test uses them the other way round).  non-trivial = the quote target has a path of at least "
        "three elements; distinct by hash of the canonical case")
ASSUMPTIONS = ["ECDSA / SHA-256 / X.509 parsing are uninterpreted in the theorems; `now` is the wall clock of the run"]
TRUSTED = ["harness/sgxgen.py (independent link oracle)"]
SERIAL = False


def worker_init():
    import admin.certificate  # noqa


def run_impl(op, inp):
    from admin.certificate import HSMCertificate
    from admin.certificate_v2 import HSMCertificateV2ElementX509
    import admin.certificate_v2 as v2mod
    import datetime as _dt
    off = inp.get("clock_offset_s", 0)
    fixed = inp.get("clock_abs_us")

    class _Clock(_dt.datetime):
        """the wall clock as the verification sees it (`now` is a parameter of the property)"""
        @classmethod
        def now(cls, tz=None):
            if fixed is not None:
                # a frozen instant, microseconds since the epoch (validity edges)
                return cls.fromtimestamp(0, tz or _dt.timezone.utc) + _dt.timedelta(microseconds=fixed)
            return _dt.datetime.now(tz) + _dt.timedelta(seconds=off)
    real_dt = v2mod.datetime
    v2mod.datetime = _Clock
    try:
        return _run(inp)
    finally:
        v2mod.datetime = real_dt


def _run(inp):
    from admin.certificate_v2 import HSMCertificateV2ElementX509
    try:
        cert = HSMCertificate(inp["cert"]) if False else __import__("admin.certificate", fromlist=["x"]).HSMCertificateV2(inp["cert"])
        root = HSMCertificateV2ElementX509.from_pem(inp["root_pem"], "sgx_root", "sgx_root")
        if inp.get("earlier_root_pem"):
            # the same loaded certificate was validated before, against another root of trust (and clock):
            # nothing of that verdict may survive into this one
            try:
                cert.validate_and_get_values(
                    HSMCertificateV2ElementX509.from_pem(inp["earlier_root_pem"], "sgx_root", "sgx_root"))
            except Exception:
                pass
        res = cert.validate_and_get_values(root)
        out = {}
        for t, v in res.items():
            if v[0]:
                q = v[1]["sgx_quote"]
                rb = q.report_body
                # the quote's numeric fields as the verify command will read them off the returned object
                fields = {"version": q.version, "sign_type": q.sign_type, "tee_type": q.tee_type, "qe_svn": q.qe_svn,
                          "pce_svn": q.pce_svn, "miscselect": rb.miscselect, "flags": rb.attributes.flags,
                          "xfrm": rb.attributes.xfrm, "isvprodid": rb.isvprodid, "isvsvn": rb.isvsvn,
                          "configsvn": rb.configsvn}
                out[t] = [True, {"message": v[1]["message"], "quote": q.get_raw_data().hex(), "fields": fields}]
            else:
                out[t] = [False, v[1]]
        return out
    except Exception:
        return "error"


def model_input(cert, root_cert, clock_offset_s=0, clock_abs_us=None):
    import datetime as _dt
    now = _dt.datetime.now(_dt.timezone.utc) + _dt.timedelta(seconds=clock_offset_s)
    if clock_abs_us is not None:
        now = _dt.datetime.fromtimestamp(0, _dt.timezone.utc) + _dt.timedelta(microseconds=clock_abs_us)
    els = cert["elements"]
    bymap = {e["name"]: e for e in els}
    links, values, facts = {}, {}, {}
    for e in bymap.values():
        sb = e["signed_by"]
        if sb == "sgx_root":
            links["%s|" % e["name"]] = sgxgen.link_valid(e, ("root", root_cert), now=now)
            facts["%s|" % e["name"]] = sgxgen.link_facts(e, ("root", root_cert), now=now)
        elif sb in bymap:
            links["%s|%s" % (e["name"], sb)] = sgxgen.link_valid(e, bymap[sb], now=now)
            facts["%s|%s" % (e["name"], sb)] = sgxgen.link_facts(e, bymap[sb], now=now)
        if e.get("type") == "sgx_quote":
            raw = bytes.fromhex(e["message"])[:432]
            fields = None
            if len(raw) == 432:
                # sgx_quote_t / sgx_report_body_t, little endian, read at the documented offsets
                import struct as _st
                ver, st_, tee, qe, pce = _st.unpack_from("<HHIHH", raw, 0)
                fields = {"version": ver, "sign_type": st_, "tee_type": tee, "qe_svn": qe, "pce_svn": pce,
                          "miscselect": _st.unpack_from("<I", raw, 48 + 16)[0],
                          "flags": _st.unpack_from("<Q", raw, 48 + 48)[0], "xfrm": _st.unpack_from("<Q", raw, 48 + 56)[0],
                          "isvprodid": _st.unpack_from("<H", raw, 48 + 256)[0],
                          "isvsvn": _st.unpack_from("<H", raw, 48 + 258)[0],
                          "configsvn": _st.unpack_from("<H", raw, 48 + 260)[0]}
            values[e["name"]] = {"message": e["custom_data"], "quote": e["message"][:432 * 2], "fields": fields}
    return {"root": "sgx_root", "targets": cert["targets"],
            "elements": [{"name": e["name"], "signed_by": e["signed_by"]} for e in els], "links": links,
            "facts": facts, "values": values}


def flip(rng, hexs):
    b = bytearray(bytes.fromhex(hexs))
    i = rng.randrange(len(b))
    b[i] ^= 1 << rng.randrange(8)
    return bytes(b).hex()


def corrupt(rng, m, cert, k=None):
    import base64
    c = copy.deepcopy(cert)
    root = m.certs[0]
    k = rng.randrange(12) if k is None else k
    e = rng.choice(c["elements"])
    if k in (0, 1, 6):
        e = rng.choice([x for x in c["elements"] if x["type"] != "x509_pem"])
    if k == 0 and e["type"] != "x509_pem":
        e["message"] = flip(rng, e["message"])
    elif k == 1 and e["type"] != "x509_pem":
        e["signature"] = flip(rng, e["signature"])
    elif k == 2:
        a = [x for x in c["elements"] if x["type"] == "sgx_attestation_key"][0]
        a[rng.choice(["key", "auth_data"])] = flip(rng, a[rng.choice(["key", "auth_data"])])
    elif k == 3:
        q = [x for x in c["elements"] if x["type"] == "sgx_quote"][0]
        q["custom_data"] = flip(rng, q["custom_data"])
    elif k == 4:
        x = [x for x in c["elements"] if x["type"] == "x509_pem"]
        if x:
            xe = rng.choice(x)
            der = bytearray(base64.b64decode(xe["message"]))
            i = rng.randrange(len(der) - 80, len(der))
            der[i] ^= 1 << rng.randrange(8)
            xe["message"] = base64.b64encode(bytes(der)).decode()
    elif k == 5:
        e["signed_by"] = rng.choice([x["name"] for x in c["elements"]] + ["sgx_root"])
    elif k == 6:
        other = sgxgen.new_key(rng)
        if e["type"] != "x509_pem":
            e["signature"] = sgxgen.sign_der(other, bytes.fromhex(e["message"])).hex()
    elif k == 7:
        other = sgxgen.Material(rng, depth=1)
        root = other.certs[0]
    elif k == 8:
        # the leaf certificate carries a non-P-256 key
        from cryptography.hazmat.primitives.asymmetric import ec
        i = len(m.certs) - 1
        bad = sgxgen.new_key(rng, ec.SECP384R1())
        newleaf = sgxgen.make_cert(rng, "ca%d" % i, bad, "root" if i == 1 else "ca%d" % (i - 1), m.keys[i - 1])
        for x in c["elements"]:
            if x["name"] == "cert%d" % i:
                x["message"] = sgxgen.pem_body(newleaf)
    elif k == 9:
        # the file itself carries an element named like the root of trust (the chain's own root, self-signed);
        # half of the time the verifier trusts another root: nothing inside the file may stand in for it
        c["elements"].append({"name": "sgx_root", "type": "x509_pem", "message": sgxgen.pem_body(m.certs[0]),
                              "signed_by": "sgx_root"})
        if rng.random() < 0.7:
            root = sgxgen.Material(rng, depth=1).certs[0]
    elif k in (10, 11):
        # a VALIDLY SIGNED report body whose report data holds the binding digest, but not at its beginning
        # (shifted by 1..32 bytes): the property requires the report data to BEGIN with the digest
        import hashlib
        shift = rng.choice([1, 1, 2, 16, 31, 32])
        pad = bytes(rng.getrandbits(8) for _ in range(shift))
        if k == 10:
            a = [x for x in c["elements"] if x["type"] == "sgx_attestation_key"][0]
            digest = hashlib.sha256(sgxgen.raw_xy(m.att_key) + m.auth_data).digest()
            rb = bytearray(m.qe_report)
            rb[320:384] = (pad + digest + bytes(64))[:64]
            a["message"] = bytes(rb).hex()
            a["signature"] = sgxgen.sign_der(m.keys[-1], bytes(rb)).hex()
        else:
            q = [x for x in c["elements"] if x["type"] == "sgx_quote"][0]
            digest = hashlib.sha256(m.custom).digest()
            qb = bytearray(m.quote)
            qb[48 + 320:48 + 384] = (pad + digest + bytes(64))[:64]
            q["message"] = bytes(qb).hex()
            q["signature"] = sgxgen.sign_der(m.att_key, bytes(qb)).hex()
    return c, root


def gen(tier, rng):
    out = []
    n = 200 if tier == "quick" else 4000
    for i in range(n):
        validity = None
        r = rng.random()
        depth = rng.choice([1, 2, 3])
        if r < 0.15:
            validity = (rng.randrange(1, depth + 1), rng.choice(["expired", "future"]))
        m = sgxgen.Material(rng, depth=depth, validity=validity)
        cert = m.certificate(targets=rng.choice([["quote"], ["quote"], ["quote", "attestation"], ["attestation"], []]))
        root = m.certs[0]
        kind = "genuine" if validity is None else "validity-" + validity[1]
        if rng.random() < 0.55:
            cert, root = corrupt(rng, m, cert, k=i % 12)
            kind = "corrupted"
        from cryptography.hazmat.primitives import serialization
        # the verification's clock: now, far in the future (everything expired), in the past (nothing valid yet)
        off = rng.choice([0, 0, 0, 3600 * 24 * 4000, -3600 * 24 * 30, 3600 * 24 * 3649, 3600 * 24 * 3651])
        if off:
            kind += "+clock"
        inp = {"cert": cert, "root_pem": root.public_bytes(serialization.Encoding.PEM).decode(), "clock_offset_s": off}
        abs_us = None
        if i % 4 == 3:
            # the clock frozen at an edge of one chain certificate's validity period, to the microsecond
            import datetime as _dt
            xc = rng.choice(m.certs[1:] or m.certs)
            edge = rng.choice([xc.not_valid_before_utc, xc.not_valid_after_utc, xc.not_valid_after_utc])
            epoch = _dt.datetime.fromtimestamp(0, _dt.timezone.utc)
            abs_us = (edge - epoch) // _dt.timedelta(microseconds=1) + \
                rng.choice([-1000000, -1, 0, 1, 2, 500000, 999999, 1000000, 1000001])
            inp["clock_abs_us"] = abs_us
            inp["clock_offset_s"] = 0
            kind += "+edge"
        if i % 7 == 5:
            # validated twice: first against the chain's own root, then against the root under test
            # (for a genuine chain: a foreign root, which must not be accepted)
            inp["earlier_root_pem"] = m.certs[0].public_bytes(serialization.Encoding.PEM).decode()
            if kind.startswith("genuine"):
                root = sgxgen.Material(rng, depth=1).certs[0]
                inp["root_pem"] = root.public_bytes(serialization.Encoding.PEM).decode()
            kind += "+revalidated"
        try:
            inp.update(model_input(cert, root, inp["clock_offset_s"], abs_us))
        except Exception:
            continue
        out.append(Case(OP, inp, stream=kind))
    return out


def tags(c, o):
    t = [c.meta.get("stream", "?")]
    if isinstance(o, dict):
        t += ["%s:%s" % (k, "valid" if v[0] else "invalid:" + str(v[1])) for k, v in o.items()]
    else:
        t.append("error")
    return t


def nontrivial(c, o):
    return "quote" in c.input["cert"]["targets"]
