"""C11 — link failures get a device-error reply and are repaired on the next request."""
from ..core import Case
from .. import reqgen
from . import linegen

PROPERTY = "C11"
OP = "line.C11"
RULE = ("10 commands x both protocol modes x every exchange index of a happy-path run x {write error, read "
        "error, timeout}; follow-up requests on a manager whose link is flagged broken (artificially and, in the "
        "'history' stream, by a real preceding request that hit the fault) x reconnection outcome {ok, connect "
        "fails k<=3 times} x device state found after reconnecting (signer, bootloader with/without PIN change, "
        "not onboarded, unsupported version, wrong mode); non-trivial = a fault was injected or a repair was "
        "pending; distinct by hash of the canonical case")
ASSUMPTIONS = ["ledgerblue's HID exceptions ('Error while writing' / 'read error' / CommException('Timeout', "
               "0x6F00)) are reproduced by the simulated transport; TCP-transport faults are outside the "
               "property's quantifier"]
TRUSTED = ["harness/powdev.py (simulated device)", "shims/bitcoin"]
EXHAUSTIVE = {"quick": True, "thorough": True}


def worker_init():
    from .. import mgr  # noqa


def run_impl(op, inp):
    from .. import mgr
    return mgr.run_line(inp)


def templates(rng):
    out = []
    for cmd in reqgen.COMMANDS + ["sign-hash"]:
        req, fulls = reqgen.valid_request(rng, cmd)
        out.append((req, fulls, "v5"))
    out.append((reqgen.sign_v1_request(rng), {}, "v1"))
    out.append(({"command": "getPubKey", "version": 1, "keyId": rng.choice(reqgen.PATHS)}, {}, "v1"))
    out.append(({"command": "version"}, {}, "v1"))
    return out


PIN = {"pin": b"1234567a".hex(), "needs_change": False}
STATES = [
    {},                                                                  # signer, all fine
    {"mode": 2},                                                         # bootloader: unlock, exit, signer
    {"mode": 2, "unlock_ok": False}, {"mode": 2, "echo_ok": False}, {"mode": 2, "retries": 1},
    {"mode": 2, "ui_version": [5, 5, 0]}, {"mode": 2, "after_exit_mode": 2}, {"mode": 2, "exit_drops_link": False},
    {"onboarded": 0}, {"mode": 4}, {"mode": 255}, {"app_version": [5, 5, 0]}, {"app_version": [4, 0, 0]},
    {"app_version": [5, 3, 9]}, {"network": 9},
]


def gen(tier, rng):
    from .c04 import happy_len
    out = []
    rounds = 1 if tier == "quick" else 4
    for _ in range(rounds):
        for req, fulls, mode in templates(rng):
            devseed = rng.getrandbits(32)
            policy = {"sizes": rng.choice([255, 64])}
            n, _s = happy_len(req, fulls, mode, devseed, policy)
            base = {"mode": mode, "line": {"kind": "json", "request": req}}
            if fulls:
                base["full_coinbases"] = fulls
            for i in range(n):
                for f in (("W",), ("r",), ("t",)):
                    inp = dict(base)
                    inp["dev"] = {"seed": devseed, "state": {}, "policy": dict(policy, faults={str(i): list(f)})}
                    out.append(Case(OP, inp, stream="fault", command=req.get("command"), kind=f[0], index=i))
            # follow-up on a flagged manager
            for k in range(0, 4):
                for st in STATES if k == 0 else STATES[:2]:
                    inp = dict(base)
                    inp["dev"] = {"seed": devseed, "state": dict(st), "policy": dict(policy)}
                    inp["comm_issue"] = True
                    inp["conns"] = [False] * k
                    inp["pin"] = dict(PIN, needs_change=(rng.random() < 0.2 and st.get("mode") == 2))
                    inp["gen_pins"] = [b"abcd1234".hex()]
                    out.append(Case(OP, inp, stream="repair", command=req.get("command"), fails=k,
                                    state=str(sorted(st.items()))))
            # a real two-request history: the same request first hits a fault, then is repeated
            for f in (("W",), ("r",), ("t",)):
                for i in sorted(set([0, n // 2, max(0, n - 1)])):
                    if n == 0:
                        continue
                    inp = dict(base)
                    inp["dev"] = {"seed": devseed, "state": {}, "policy": dict(policy)}
                    inp["prelude"] = {"request": req, "faults": {str(i): list(f)}}
                    inp["pin"] = dict(PIN)
                    inp["conns"] = [rng.random() < 0.7 for _ in range(2)]
                    out.append(Case(OP, inp, stream="history", command=req.get("command"), kind=f[0], index=i))
    return out


def tags(c, o):
    t = [c.meta.get("stream", "?"), "cmd:%s" % c.meta.get("command")]
    if isinstance(o, dict) and isinstance(o.get("reply"), dict):
        t.append("code:%s" % o["reply"].get("errorcode"))
        t.append("flag:%s" % o.get("comm_issue"))
        if o.get("shutdown"):
            t.append("shutdown")
    return t


def nontrivial(c, o):
    return True
