"""C15 — attestations gathered from a genuine device verify end to end."""
import contextlib
import copy
import hashlib
import io
import json
import os
import shutil
import struct
import sys
import tempfile
import types

from ..core import Case
from .. import certgen, sgxgen, simdev
from . import c08

PROPERTY = "C15"
OP = "e2e"
RULE = ("simulated genuine devices with real keys: Ledger (root, device, endorsement-scheme-two attestation key, six "
        "wallet keys, UI and signer hashes, UD value, blockchain state; UI message in 1..4 pages; legacy and "
        "current signer message framing) driven through the real DongleAdmin.get_device_key / "
        "setup_endorsement_key (as do_onboard assembles the certificate), the real "
        "admin.ledger_attestation.do_attestation and the real verify command; SGX (X.509 chain of two "
        "certificates + root, QE report, quote envelope with QE auth data 0..1000 bytes, PEM chains of 2..3 "
        "certificates, message / envelope pages) through the real admin.sgx_attestation.do_attestation and verify; "
        "then every single-point alteration class of the device's answers (a byte of a signed message, of a "
        "signature, of a certificate, another root); plus the root of trust / chain certificates read from PEM text "
        "(admin.attestation_utils.get_root_of_trust on a file): DER-shaped bytes of every length residue so that the "
        "base64 body ends in every alphabet character, line widths 1..4096, LF / CRLF / blank lines.  non-trivial = the gathering command reached the device")
ASSUMPTIONS = ["'any alteration makes gathering or verification fail' rests on ECDSA/SHA-2 unforgeability: exercised "
               "with real keys (a test), not proved", "the attestation part of do_onboard is exercised through the "
               "DongleAdmin calls it makes and its certificate assembly, not through the interactive onboarding"]
TRUSTED = ["harness (genuine-device simulators built on python-ecdsa / cryptography)"]


def worker_init():
    import logging
    logging.disable(logging.CRITICAL)
    import admin.ledger_attestation, admin.sgx_attestation, admin.verify_ledger_attestation  # noqa
    import admin.verify_sgx_attestation, admin.dongle_admin  # noqa
    simdev.install()


def rb(rng, n):
    return bytes(rng.getrandbits(8) for _ in range(n))


def pages(rng, msg, n):
    """cut `msg` into n pages -> list of (more, chunk)"""
    if n <= 1 or len(msg) < n:
        return [(0, msg)]
    cuts = sorted(rng.sample(range(1, len(msg)), n - 1))
    parts = [msg[a:b] for a, b in zip([0] + cuts, cuts + [len(msg)])]
    return [(1 if i < len(parts) - 1 else 0, p) for i, p in enumerate(parts)]


class LedgerGenuine:
    """UI (bootloader) + signer of a genuine Ledger powHSM, answering the attestation commands"""

    def __init__(self, rng, inp):
        self.rng = rng
        self.i = inp
        self.mode = 2
        self.pinbuf = {}
        self.ud = None
        self.alter = inp.get("alter")
        self.n = 0

    def exchange(self, apdu):
        apdu = bytes(apdu)
        cla, cmd = apdu[0], apdu[1]
        if cla == 0xE0:
            return self.admin(cmd, apdu)
        if cmd == 0x43:
            return ("d", bytes([0x80, self.mode]))
        if cmd == 0x06:
            return ("d", bytes([0x80, 1, 5, 4, 1]))
        if self.mode == 2:
            return self.ui(cmd, apdu)
        return self.signer(cmd, apdu)

    def admin(self, cmd, a):
        i = self.i
        if cmd == 0x04:
            return ("d", b"")
        if cmd == 0x50:
            return ("d", rb(self.rng, 4) + rb(self.rng, 8))
        if cmd == 0x51:
            return ("d", b"")
        if cmd == 0x52:
            if a[2] == 0x00:
                hdr = bytes.fromhex(i["dev_hdr"])
                pub = bytes.fromhex(i["dev_pub"])
                sig = bytes.fromhex(i["dev_sig"])
                return ("d", bytes([len(hdr)]) + hdr + bytes([len(pub)]) + pub + bytes([len(sig)]) + sig)
            return ("d", rb(self.rng, 10))
        if cmd == 0xC0:
            return ("d", bytes.fromhex(i["att_pub"]) + bytes.fromhex(i["att_sig"]))
        if cmd == 0xC2:
            return ("d", b"")
        return ("w", 0x6D00)

    def ui(self, cmd, a):
        i = self.i
        if cmd == 0x02:
            return ("d", a)
        if cmd == 0x41:
            return ("d", bytes([0x80, 0x41, a[2]]))
        if cmd == 0xFE:
            return ("d", bytes([0x80, 0xFE, 1]))
        if cmd in (0xFF, 0xFA):
            self.mode = 3
            return ("W",)
        if cmd == 0x50:
            op = a[2]
            if op == 4:
                return ("d", bytes([0x80, 0x50, 4]) + bytes.fromhex(i["ui_hash"]))
            if op == 1:
                self.ud = a[3:]
                return ("d", bytes([0x80, 0x50, 1]))
            if op == 2:
                pg = i["ui_pages"][a[3]] if a[3] < len(i["ui_pages"]) else [0, ""]
                return ("d", bytes([0x80, 0x50, 2, pg[0]]) + bytes.fromhex(pg[1]))
            if op == 3:
                return ("d", bytes([0x80, 0x50, 3]) + bytes.fromhex(i["ui_sig"]))
        return ("w", 0x6D00)

    def signer(self, cmd, a):
        i = self.i
        if cmd == 0x50:
            op = a[2]
            if op == 1:
                return ("d", bytes([0x80, 0x50, 1]) + bytes.fromhex(i["signer_sig"]))
            if op in (2, 4):
                if i["legacy"]:
                    return ("d", bytes([0x80, 0x50, op]) + bytes.fromhex(i["signer_msg"]))
                pgs = i["signer_pages"]
                pg = pgs[a[3]] if a[3] < len(pgs) else [0, ""]
                return ("d", bytes([0x80, 0x50, op, pg[0]]) + bytes.fromhex(pg[1]))
            if op == 3:
                return ("d", bytes([0x80, 0x50, 3]) + bytes.fromhex(i["signer_hash"]))
        return ("w", 0x6D00)


class SgxGenuine:
    def __init__(self, rng, inp):
        self.rng = rng
        self.i = inp

    def exchange(self, apdu):
        a = bytes(apdu)
        i = self.i
        cmd = a[1]
        if cmd == 0x43:
            return ("d", bytes([0x80, 3]))
        if cmd == 0x50:
            op = a[2]
            if op == 1:
                return ("d", bytes([0x80, 0x50, 1]) + bytes.fromhex(i["quote_sig_raw"]))
            if op in (2, 4):
                pgs = i["msg_pages"] if op == 2 else i["env_pages"]
                pg = pgs[a[3]] if a[3] < len(pgs) else [0, ""]
                return ("d", bytes([0x80, 0x50, op, pg[0]]) + bytes.fromhex(pg[1]))
            if op == 3:
                return ("d", bytes([0x80, 0x50, 3]) + rb(self.rng, 32))
        return ("w", 0x6D00)


def _silence():
    return contextlib.redirect_stdout(io.StringIO())


def pem_text(rng, der):
    import base64
    body = base64.b64encode(der).decode()
    w = rng.choice([64, 64, 64, 76, 1, 7, 4096])
    nl = rng.choice(["\n", "\n", "\r\n", "\n\n", " \n", "\t\n"])
    lines = [body[i:i + w] for i in range(0, len(body), w)]
    return (rng.choice(["", "", "\n", "  "]) + "-----BEGIN CERTIFICATE-----" + nl + nl.join(lines)
            + (nl if lines else "") + "-----END CERTIFICATE-----" + rng.choice(["\n", "", "\r\n", "\n\n"]))


def pem_case(rng, n=None):
    """DER-shaped bytes (a SEQUENCE header followed by random content) of every residue modulo 3, so that the
    base64 body ends in every alphabet character, with and without padding"""
    n = rng.choice([0, 1, 2, 3, 30, 299, 300, 301, 600, 601, 602, rng.randrange(1, 1200)]) if n is None else n
    body = bytes(rng.getrandbits(8) for _ in range(n))
    der = (b"\x30\x82" + len(body).to_bytes(2, "big") + body) if rng.random() < 0.8 else body
    return Case("pem", {"text": pem_text(rng, der), "der": der.hex()}, stream="pem")


def run_pem(inp):
    import os as _os
    import tempfile as _tf
    from admin.attestation_utils import get_root_of_trust
    fd, path = _tf.mkstemp(prefix="verif-c15-", suffix=".pem")
    try:
        with _os.fdopen(fd, "w", newline="") as f:
            f.write(inp["text"])
        try:
            return get_root_of_trust(path)._message.hex()
        except ValueError:
            return "error"
    finally:
        _os.unlink(path)


def run_impl(op, inp):
    if op == "pem":
        return run_pem(inp)
    import logging
    import random
    logging.disable(logging.CRITICAL)
    from comm.platform import Platform
    from admin.misc import AdminError
    import admin.misc as misc
    import admin.dongle_admin as da
    rng = random.Random(inp["seed"])
    plat = inp["platform"]
    Platform.set(Platform.SGX if plat == "sgx" else Platform.LEDGER, {"sgx_host": "sim", "sgx_port": 0})
    simdev.install()
    d = tempfile.mkdtemp(prefix="verif-c15-")
    saved_sleep = misc.time.sleep
    misc.time.sleep = lambda n: None
    saved_gd = da.getDongle
    da.getDongle = simdev._get_dongle
    try:
        kpath = os.path.join(d, "keys.json")
        with open(kpath, "w") as f:
            f.write(inp["pubkeys_text"])
        out_path = os.path.join(d, "att.json")
        try:
            if plat == "ledger":
                dev = LedgerGenuine(rng, inp)
                simdev.reset([], [], dev.exchange)
                # 1. endorsement set-up as do_onboard does it after onboarding
                from admin.dongle_admin import DongleAdmin
                from admin.certificate import HSMCertificate, HSMCertificateElement
                hsm = DongleAdmin(False)
                hsm.connect()
                hsm.handshake()
                dki = hsm.get_device_key()
                aki = hsm.setup_endorsement_key(DongleAdmin.ENDORSEMENT_SCHEME.SCHEME_TWO, b"RSK_ENDORSEMENT_OK")
                hsm.disconnect()
                ac = HSMCertificate()
                ac.add_element(HSMCertificateElement({"name": "attestation", "message": aki["message"],
                                                      "signature": aki["signature"], "signed_by": "device"}))
                ac.add_element(HSMCertificateElement({"name": "device", "message": dki["message"],
                                                      "signature": dki["signature"], "signed_by": "root"}))
                ac.add_target("attestation")
                first = os.path.join(d, "onboard.json")
                ac.save_to_jsonfile(first)
                # 2. attestation gathering
                import admin.ledger_attestation as la
                if inp.get("stale"):
                    old = dict(inp)
                    old.update(inp["stale"])
                    simdev.reset([], [], LedgerGenuine(rng, old).exchange)
                    earlier = os.path.join(d, "earlier.json")
                    with _silence():
                        la.do_attestation(types.SimpleNamespace(
                            output_file_path=earlier, attestation_certificate_file_path=first,
                            attestation_ud_source=old["ud"], pin="1234567a", any_pin=False, no_exec=False,
                            verbose=False))
                    first = earlier
                    simdev.reset([], [], LedgerGenuine(rng, inp).exchange)
                opts = types.SimpleNamespace(output_file_path=out_path, attestation_certificate_file_path=first,
                                             attestation_ud_source=inp["ud"], pin="1234567a", any_pin=False,
                                             no_exec=False, verbose=False)
                with _silence():
                    la.do_attestation(opts)
                import admin.verify_ledger_attestation as v
                vopts = types.SimpleNamespace(attestation_certificate_file_path=out_path, pubkeys_file_path=kpath,
                                              root_authority=inp["root_pub"])
            else:
                dev = SgxGenuine(rng, inp)
                simdev.reset([], [], dev.exchange)
                import admin.sgx_attestation as sa
                opts = types.SimpleNamespace(output_file_path=out_path, attestation_ud_source=inp["ud"], no_unlock=True,
                                             pin=None, any_pin=False, verbose=False)
                with _silence():
                    sa.do_attestation(opts)
                import admin.verify_sgx_attestation as v
                rpath = os.path.join(d, "root.pem")
                with open(rpath, "w") as f:
                    f.write(inp["root_pem"])
                vopts = types.SimpleNamespace(attestation_certificate_file_path=out_path, pubkeys_file_path=kpath,
                                              root_authority=rpath)
            # the file must load back without loss
            from admin.certificate import HSMCertificate
            c1 = HSMCertificate.from_jsonfile(out_path)
            p2 = os.path.join(d, "again.json")
            c1.save_to_jsonfile(p2)
            if json.load(open(p2)) != json.load(open(out_path)):
                return {"ok": False, "why": "save/load changed the certificate"}
            buf = io.StringIO()
            with contextlib.redirect_stdout(buf):
                v.do_verify_attestation(vopts)
            return {"ok": True, "printed": c08.parse_stdout(buf.getvalue(), plat)}
        except (AdminError, Exception):
            return {"ok": False}
    finally:
        misc.time.sleep = saved_sleep
        da.getDongle = saved_gd
        shutil.rmtree(d, ignore_errors=True)


def flip(rng, hexs, lo=0, hi=None):
    b = bytearray(bytes.fromhex(hexs))
    hi = len(b) if hi is None else hi
    i = rng.randrange(lo, hi)
    b[i] ^= 1 << rng.randrange(8)
    return bytes(b).hex()


def raw_sig(der):
    from ecdsa.util import sigdecode_der, sigencode_string
    import ecdsa
    r, s = sigdecode_der(der, ecdsa.NIST256p.order)
    return sigencode_string(r, s, ecdsa.NIST256p.order)


def ledger_case(rng, alter, ud_marker=None):
    keys = c08.keyset(rng)
    pkh = c08.pubkeys_hash(keys)
    root, dev, att = certgen.rand_key(rng), certgen.rand_key(rng), certgen.rand_key(rng)
    ud = rb(rng, 32)
    if ud_marker is not None or rng.random() < 0.25:
        # an operator-chosen UD value that looks like protocol text: a message header, a digit right after
        # the version, the legacy header in the middle of a page
        marker = ud_marker or rng.choice([b"HSM:SIGNER:", b"HSM:SIGNER:5.4", b"HSM:UI:5.4", b"POWHSM:5.4::", b"7", b"00"])
        at = rng.choice([0, 0, rng.randrange(0, 32 - len(marker) + 1)])
        ud = ud[:at] + marker + ud[at + len(marker):]
    ui_hash, signer_hash = rb(rng, 32), rb(rng, 32)
    ui_msg = b"HSM:UI:5." + bytes([48 + rng.randrange(10)]) + ud + c08.comp(keys[c08.PATHS[0]]) + signer_hash + \
        struct.pack(">H", rng.getrandbits(16))
    legacy = rng.random() < 0.4 and ud_marker is None
    s_msg = (b"HSM:SIGNER:5." + bytes([48 + rng.randrange(10)]) + pkh) if legacy else c08.powhsm_msg(rng, pkh, ud=ud)
    hdr = rb(rng, rng.choice([0, 4, 9]))
    dev_signed = b"\x02" + hdr + certgen.pub65(dev)
    att_signed = b"\xff" + certgen.pub65(att)
    inp = {"platform": "ledger", "seed": rng.getrandbits(32), "ud": ud.hex(), "legacy": legacy,
           "dev_hdr": hdr.hex(), "dev_pub": certgen.pub65(dev).hex(), "dev_sig": certgen.sign(root, dev_signed, rng).hex(),
           "att_pub": certgen.pub65(att).hex(), "att_sig": certgen.sign(dev, att_signed, rng).hex(),
           "ui_hash": ui_hash.hex(), "ui_msg": ui_msg.hex(),
           "ui_sig": certgen.sign(certgen.tweaked_priv(att, ui_hash.hex()), ui_msg, rng).hex(),
           "signer_hash": signer_hash.hex(), "signer_msg": s_msg.hex(),
           "signer_sig": certgen.sign(certgen.tweaked_priv(att, signer_hash.hex()), s_msg, rng).hex(),
           "root_pub": certgen.pub65(root).hex(),
           "pubkeys_text": json.dumps({p: certgen.pub65(k).hex() for p, k in keys.items()}),
           "pubkeys": [[p, c08.comp(k).hex()] for p, k in keys.items()], "pubkeys_hash": pkh.hex(), "altered": False}
    if alter is not None:
        inp["altered"] = True
        inp["alter"] = alter
        if alter == "ui_msg":
            inp["ui_msg_sent"] = flip(rng, inp["ui_msg"], 10)
        elif alter == "signer_msg":
            inp["signer_msg_sent"] = flip(rng, inp["signer_msg"], 14)
        elif alter in ("ui_sig", "signer_sig", "dev_sig", "att_sig"):
            inp[alter] = flip(rng, inp[alter], 4)
        elif alter == "dev_pub":
            inp["dev_pub"] = certgen.pub65(certgen.rand_key(rng)).hex()
        elif alter == "att_pub":
            inp["att_pub"] = certgen.pub65(certgen.rand_key(rng)).hex()
        elif alter in ("ui_hash", "signer_hash"):
            inp[alter] = flip(rng, inp[alter])
        elif alter == "root":
            inp["root_pub"] = certgen.pub65(certgen.rand_key(rng)).hex()
    if alter is None and rng.random() < 0.5:
        # the same device attested earlier, in another state (other UD value, blockchain state): the file of that
        # run is what this run starts from (refreshing an attestation)
        ud0 = rb(rng, 32)
        ui0 = ui_msg[:10] + ud0 + ui_msg[42:]
        s0 = (b"HSM:SIGNER:5." + bytes([48 + rng.randrange(10)]) + pkh) if legacy else c08.powhsm_msg(rng, pkh, ud=ud)
        inp["stale"] = {"ud": ud0.hex(), "ui_msg": ui0.hex(), "signer_msg": s0.hex(),
                        "ui_sig": certgen.sign(certgen.tweaked_priv(att, ui_hash.hex()), ui0, rng).hex(),
                        "signer_sig": certgen.sign(certgen.tweaked_priv(att, signer_hash.hex()), s0, rng).hex(),
                        "ui_pages": [[m, c.hex()] for m, c in pages(rng, ui0, rng.choice([1, 2, 3]))],
                        "signer_pages": [[m, c.hex()] for m, c in pages(rng, s0, rng.choice([1, 2]))]}
    um = bytes.fromhex(inp.get("ui_msg_sent", inp["ui_msg"]))
    sm = bytes.fromhex(inp.get("signer_msg_sent", inp["signer_msg"]))
    inp["ui_pages"] = [[m, c.hex()] for m, c in pages(rng, um, rng.choice([1, 1, 2, 3, 4]))]
    inp["signer_pages"] = [[m, c.hex()] for m, c in pages(rng, sm, rng.choice([1, 2, 3]))]
    if legacy:
        inp["signer_msg"] = inp["signer_msg"]
        if "signer_msg_sent" in inp:
            inp["signer_msg"], inp["signer_msg_genuine"] = inp["signer_msg_sent"], inp["signer_msg"]
    return Case(OP, inp, stream="ledger-" + (("refresh" if "stale" in inp else "genuine") if alter is None else "altered:" + alter))


def sgx_case(rng, alter):
    from cryptography.hazmat.primitives import serialization
    keys = c08.keyset(rng)
    pkh = c08.pubkeys_hash(keys)
    ud = rb(rng, 32)
    msg = c08.powhsm_msg(rng, pkh, platform=b"sgx")
    m = sgxgen.Material(rng, depth=2, custom=msg, auth_len=rng.choice([0, 1, 32, 500, 1000]))
    pem = lambda c: c.public_bytes(serialization.Encoding.PEM)  # noqa: E731
    chain = [m.certs[2], m.certs[1]] + ([m.certs[0]] if rng.random() < 0.5 else [])
    cert_data = b"".join(pem(c) for c in chain)
    quote_sig, qe_sig = raw_sig(m.quote_sig), raw_sig(m.qe_sig)
    q = m.quote
    att_xy = sgxgen.raw_xy(m.att_key)
    qe_report = m.qe_report
    root = m.certs[0]
    altered = alter is not None
    if alter == "quote":
        q = bytes.fromhex(flip(rng, q.hex()))
    elif alter == "quote_sig":
        quote_sig = bytes.fromhex(flip(rng, quote_sig.hex()))
    elif alter == "att_key":
        att_xy = sgxgen.raw_xy(sgxgen.new_key(rng))
    elif alter == "qe_report":
        qe_report = bytes.fromhex(flip(rng, qe_report.hex()))
    elif alter == "qe_sig":
        qe_sig = bytes.fromhex(flip(rng, qe_sig.hex()))
    elif alter == "auth_data" and len(m.auth_data) > 0:
        m.auth_data = bytes.fromhex(flip(rng, m.auth_data.hex()))
    elif alter == "auth_data":
        m.auth_data = b"\x01"
    elif alter == "cert":
        other = sgxgen.Material(rng, depth=2)
        cert_data = pem(other.certs[2]) + b"".join(pem(c) for c in chain[1:])
    elif alter == "message":
        msg = bytes.fromhex(flip(rng, msg.hex(), 12))
    elif alter == "root":
        root = sgxgen.Material(rng, depth=1).certs[0]
    env = q + struct.pack("<I", 64 + 64 + 384 + 64 + 2 + len(m.auth_data) + 6 + len(cert_data)) + quote_sig + att_xy + \
        qe_report + qe_sig + struct.pack("<H", len(m.auth_data)) + m.auth_data + struct.pack("<HI", 5, len(cert_data)) + \
        cert_data + msg
    inp = {"platform": "sgx", "seed": rng.getrandbits(32), "ud": ud.hex(), "altered": altered,
           "quote_sig_raw": quote_sig.hex(), "message": msg.hex(), "quote": m.quote.hex(),
           "msg_pages": [[mm, c.hex()] for mm, c in pages(rng, msg, rng.choice([1, 2, 3]))],
           "env_pages": [[mm, c.hex()] for mm, c in pages(rng, env, rng.choice([1, 4, 9, 20]))],
           "root_pem": pem(root).decode(),
           "pubkeys_text": json.dumps({p: certgen.pub65(k).hex() for p, k in keys.items()}),
           "pubkeys": [[p, c08.comp(k).hex()] for p, k in keys.items()], "pubkeys_hash": pkh.hex()}
    if altered:
        inp["alter"] = alter
    return Case(OP, inp, stream="sgx-" + ("genuine" if alter is None else "altered:" + alter))


L_ALTER = ["ui_msg", "signer_msg", "ui_sig", "signer_sig", "dev_sig", "att_sig", "dev_pub", "att_pub", "ui_hash",
           "signer_hash", "root"]
S_ALTER = ["quote", "quote_sig", "att_key", "qe_report", "qe_sig", "auth_data", "cert", "message", "root"]


def gen(tier, rng):
    out = []
    n = 3 if tier == "quick" else 60
    for _ in range(n):
        for _k in range(4):
            out.append(ledger_case(rng, None))
            out.append(sgx_case(rng, None))
        for a in L_ALTER:
            out.append(ledger_case(rng, a))
        for a in S_ALTER:
            out.append(sgx_case(rng, a))
    # genuine devices attested with a UD value that looks like protocol text
    for marker in (b"HSM:SIGNER:", b"HSM:SIGNER:5.4", b"HSM:UI:5.4", b"POWHSM:5.4::", b"7", b"00"):
        for _k in range(2 if tier == "quick" else 10):
            c = ledger_case(rng, None, ud_marker=marker)
            c.meta["stream"] = c.meta.get("stream", "ledger") + "+ud-text"
            out.append(c)
    # the root of trust / chain certificates as read from PEM text (every last base64 character)
    for i in range(400 if tier == "quick" else 20000):
        out.append(pem_case(rng))
    return out


def tags(c, o):
    return [c.meta.get("stream", "?"), "accepted" if isinstance(o, dict) and o.get("ok") else "refused"]


def nontrivial(c, o):
    return True
