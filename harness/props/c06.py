"""C06 — a Ledger attestation is accepted only if every link up to the root key verifies."""
import copy

from ..core import Case
from .. import certgen

PROPERTY = "C06"
OP = "certvalidate"
RULE = ("version-1 certificates over {device, attestation, ui, signer} with real secp256k1 keys (built with the "
        "`ecdsa` package): genuine chains with and without tweaks, re-parented elements, shared ancestors, any "
        "target subset, and every single-point corruption class (bit flips in a message / signature / tweak / "
        "embedded key, DER framing bytes of a signature (tag 0x30 -> 0x31 etc.), swapped signatures, signature by another key, wrong root, dropped / added tweak); the "
        "per-link validity table handed to the Lean model is computed by an implementation independent of the "
        "code under test (ecdsa + explicit point addition vs the secp256k1 binding).  non-trivial = at least one "
        "target has a path of two or more elements; distinct by hash of the canonical case")
ASSUMPTIONS = ["ECDSA / SHA-256 / HMAC are uninterpreted in the theorems (linkValid); unforgeability is not a "
               "theorem", "libsecp256k1 only accepts low-S DER signatures: the oracle follows it"]
TRUSTED = ["harness/certgen.py (independent link oracle: python-ecdsa)"]


def worker_init():
    import admin.certificate  # noqa


def run_impl(op, inp):
    from admin.certificate import HSMCertificate, HSMCertificateRoot
    try:
        cert = HSMCertificate(inp["cert"])
        root = HSMCertificateRoot(inp["root_pub"])
        res = cert.validate_and_get_values(root)
        out = {}
        for t, v in res.items():
            out[t] = [True, {"value": v[1], "tweak": v[2]}] if v[0] else [False, v[1]]
        return out
    except Exception as e:
        return "error"


def model_input(cert, root_pub65):
    els = cert["elements"]
    bymap = {}
    for e in els:
        bymap[e["name"]] = e
    links, values, facts = {}, {}, {}
    for e in bymap.values():
        certifier = e["signed_by"]
        if certifier == "root":
            cpub = root_pub65
            cname = ""
        elif certifier in bymap:
            cname = certifier
            try:
                cpub = certgen.EXTRACT[certifier](bytes.fromhex(bymap[certifier]["message"]))
            except Exception:
                cpub = b""
        else:
            continue
        links["%s|%s" % (e["name"], cname)] = certgen.link_valid(e, cpub)
        facts["%s|%s" % (e["name"], cname)] = certgen.link_facts(e, cpub)
        values[e["name"]] = {"value": certgen.EXTRACT[e["name"]](bytes.fromhex(e["message"])).hex(),
                             "tweak": e.get("tweak")}
    return {"root": "root", "targets": cert["targets"],
            "elements": [{"name": e["name"], "signed_by": e["signed_by"]} for e in els],
            "links": links, "facts": facts, "values": values}


def corrupt(rng, cert, root_sk):
    """one single-point corruption; returns (cert, root_pub65)"""
    c = copy.deepcopy(cert)
    root_pub = certgen.pub65(root_sk)
    k = rng.randrange(13)
    e = rng.choice(c["elements"])

    def flip(hexs):
        b = bytearray(bytes.fromhex(hexs))
        i = rng.randrange(len(b))
        b[i] ^= 1 << rng.randrange(8)
        return bytes(b).hex()
    if k == 0:
        e["message"] = flip(e["message"])
    elif k == 1:
        e["signature"] = flip(e["signature"])
    elif k == 2 and "tweak" in e:
        e["tweak"] = flip(e["tweak"])
    elif k == 3:
        a, b = rng.sample(c["elements"], 2)
        a["signature"], b["signature"] = b["signature"], a["signature"]
    elif k == 4:
        other = certgen.rand_key(rng)
        e["signature"] = certgen.sign(other, bytes.fromhex(e["message"]), rng).hex()
    elif k == 5:
        root_pub = certgen.pub65(certgen.rand_key(rng))
    elif k == 6 and "tweak" in e:
        del e["tweak"]
    elif k == 7 and "tweak" not in e:
        e["tweak"] = bytes(rng.getrandbits(8) for _ in range(32)).hex()
    elif k == 8:
        e["signed_by"] = rng.choice(["root", "device", "attestation"])
    elif k == 9:
        # flip inside the embedded key of device / attestation
        t = [x for x in c["elements"] if x["name"] in ("device", "attestation")]
        x = rng.choice(t)
        b = bytearray(bytes.fromhex(x["message"]))
        i = len(b) - 1 - rng.randrange(64)
        b[i] ^= 1 << rng.randrange(8)
        x["message"] = bytes(b).hex()
    elif k in (11, 12):
        # DER framing of the signature: tag / length / integer headers (a lenient parser would let these through)
        b = bytearray(bytes.fromhex(e["signature"]))
        lr = b[3]
        pos = rng.choice([0, 0, 1, 2, 3, 4 + lr, 5 + lr])
        if pos == 0:
            b[0] = rng.choice([0x31, 0x31, 0x32, 0x20, 0xb0])
        else:
            b[pos] ^= 1 << rng.randrange(8)
        if rng.random() < 0.15:
            b = b + bytes([rng.getrandbits(8)])
        e["signature"] = bytes(b).hex()
    else:
        root_pub = root_pub[:1] + bytes(64)
    return c, root_pub


def gen(tier, rng):
    out = []
    n = 120 if tier == "quick" else 4000
    for i in range(n):
        root_sk, els, _keys = certgen.genuine_chain(rng)
        targets = rng.sample(["ui", "signer", "attestation", "device"], rng.randrange(1, 5))
        if rng.random() < 0.3:
            rng.shuffle(els)
        cert = {"version": 1, "targets": targets, "elements": els}
        kind = "genuine"
        root_pub = certgen.pub65(root_sk)
        if rng.random() < 0.6:
            cert, root_pub = corrupt(rng, cert, root_sk)
            kind = "corrupted"
        try:
            minp = model_input(cert, root_pub)
        except Exception:
            continue
        minp_full = dict(minp)
        inp = {"cert": cert, "root_pub": root_pub.hex(), "root_ok": certgen.parse_pub(root_pub) is not None}
        inp.update(minp_full)
        out.append(Case(OP, inp, stream=kind))
    # systematic: the first byte of each element's signature replaced by every neighbouring DER tag
    for i in range(6 if tier == "quick" else 60):
        root_sk, els, _keys = certgen.genuine_chain(rng)
        root_pub = certgen.pub65(root_sk)
        for idx in range(len(els)):
            for tag in (0x31, 0x32, 0x20):
                c2 = {"version": 1, "targets": ["device", "attestation", "ui", "signer"], "elements": copy.deepcopy(els)}
                sig = bytearray(bytes.fromhex(c2["elements"][idx]["signature"]))
                sig[0] = tag
                c2["elements"][idx]["signature"] = bytes(sig).hex()
                inp = {"cert": c2, "root_pub": root_pub.hex(), "root_ok": True}
                inp.update(model_input(c2, root_pub))
                out.append(Case(OP, inp, stream="der-tag"))
    if tier == "thorough":
        # exhaustive single-bit flips of one certificate's ui signature and message
        root_sk, els, _k = certgen.genuine_chain(rng)
        base = {"version": 1, "targets": ["ui", "signer"], "elements": els}
        for field in ("message", "signature"):
            for idx, e in enumerate(els):
                raw = bytes.fromhex(e[field])
                for bit in range(len(raw) * 8):
                    c = copy.deepcopy(base)
                    b = bytearray(raw)
                    b[bit // 8] ^= 1 << (bit % 8)
                    c["elements"][idx][field] = bytes(b).hex()
                    inp = {"cert": c, "root_pub": certgen.pub65(root_sk).hex()}
                    inp.update(model_input(c, certgen.pub65(root_sk)))
                    out.append(Case(OP, inp, stream="bitflip"))
    return out


def tags(c, o):
    t = [c.meta.get("stream", "?")]
    if isinstance(o, dict):
        t += ["target:" + ("valid" if v[0] else "invalid:" + str(v[1])) for v in o.values()]
    else:
        t.append("error")
    return t


def nontrivial(c, o):
    return isinstance(o, dict) and any(t in ("ui", "signer", "attestation") for t in c.input["cert"]["targets"])
