"""C16 — loading an attestation file always terminates with a usable verdict."""
import base64
import copy
import json
import os
import signal
import tempfile

from ..core import Case

PROPERTY = "C16"
OP = "certload"
RULE = ("certificate-shaped JSON documents of version 1 and 2 with up to 12 elements: valid ones, and every "
        "mutation of the shape — missing / mistyped / duplicated fields, unknown versions and element types, "
        "self-signed and mutually-signed elements (cycles of length 1..4), dangling signers and targets, "
        "non-string / unhashable names, non-list containers; the real from_jsonfile + validate_and_get_values + "
        "to_dict/save/load run under a wall-clock alarm (a hang is a failure).  Signature checks are replaced "
        "by a random per-link table (the same table is given to the model).  non-trivial = the document is an "
        "object with a version, targets and elements; distinct by hash of the canonical case")
ASSUMPTIONS = ["base64.b64decode's acceptance of an X.509 `message` is an input of the model (outcome class), "
               "like the JSON grammar", "signature checks are stubbed by a link table in this stream (C06/C07 "
               "exercise the real ones)"]
TRUSTED = ["harness (is_valid stub, alarm)"]


def worker_init():
    import admin.certificate  # noqa


def key_of(v):
    if isinstance(v, bool):
        return "n:%d" % int(v)
    if isinstance(v, str):
        return "s:" + v
    if isinstance(v, int):
        return "n:%d" % v
    if isinstance(v, float) and v == v and v.is_integer():
        return "n:%d" % int(v)
    if v is None:
        return "null"
    return "<unhashable>"


class _Timeout(BaseException):
    pass


def _alarm(*_a):
    raise _Timeout()


def run_impl(op, inp):
    from admin.certificate import HSMCertificate
    links = inp["links"]
    d = tempfile.mkdtemp(prefix="verif-cert-")
    path = os.path.join(d, "c.json")
    signal.signal(signal.SIGALRM, _alarm)
    try:
        with open(path, "w") as f:
            f.write(json.dumps(inp["doc"]))
        signal.alarm(5)
        try:
            cert = HSMCertificate.from_jsonfile(path)
        except _Timeout:
            return "HANG-load"
        except Exception:
            return "error"
        finally:
            signal.alarm(0)
        els = list(cert._elements.values())

        class _Root:
            name = ""
        names = {id(e): key_of(e.name) for e in els}

        def stub(e):
            def is_valid(certifier, _e=e):
                cn = "" if isinstance(certifier, _Root) else key_of(certifier.name)
                return bool(links.get("%s|%s" % (key_of(_e.name), cn), False))
            e.is_valid = is_valid
            e.get_value = lambda: None
            e.get_tweak = lambda: None
        orig = {id(e): (e.__dict__.get("is_valid"), e.__dict__.get("get_value"), e.__dict__.get("get_tweak")) for e in els}
        for e in els:
            stub(e)
        signal.alarm(5)
        try:
            res = cert.validate_and_get_values(_Root())
            verdicts = {key_of(t): ([True, None] if v[0] else [False, key_of(v[1])]) for t, v in res.items()}
        except _Timeout:
            return "HANG-validate"
        except Exception as e:
            verdicts = "no-verdict"
        finally:
            signal.alarm(0)
        for e in els:
            for k in ("is_valid", "get_value", "get_tweak"):
                e.__dict__.pop(k, None)
        # save / load
        rt = "same"
        try:
            path2 = os.path.join(d, "c2.json")
            cert.save_to_jsonfile(path2)
            cert2 = HSMCertificate.from_jsonfile(path2)

            def content(c):
                out = []
                for e in c._elements.values():
                    fields = {k: (v.hex() if isinstance(v, (bytes, bytearray)) else v) for k, v in e.__dict__.items()
                              if k in ("_name", "_signed_by", "_tweak", "_message", "_signature", "_custom_data",
                                       "_auth_data", "_key")}
                    out.append((type(e).__name__, fields))
                return (list(c._targets), out)
            if content(cert) != content(cert2):
                rt = "differs"
        except Exception as e:
            rt = "save-load-failed:" + type(e).__name__
        return {"targets": [key_of(t) for t in cert._targets],
                "elements": [[key_of(e.name), key_of(e.signed_by)] for e in els],
                "verdicts": verdicts, "roundtrip": rt}
    finally:
        import shutil
        shutil.rmtree(d, ignore_errors=True)


HEX = "ab" * 20


def elem_v1(name, signed_by, rng):
    e = {"name": name, "signed_by": signed_by, "message": HEX, "signature": "3006020101020101"}
    if rng.random() < 0.3:
        e["tweak"] = "cd" * 32
    return e


def elem_v2(name, signed_by, rng, typ=None):
    typ = typ or rng.choice(["sgx_quote", "sgx_attestation_key", "x509_pem"])
    e = {"name": name, "signed_by": signed_by, "type": typ}
    if typ == "sgx_quote":
        e.update({"message": "aa" * 432, "custom_data": "bb" * 10, "signature": "30060201010201" + "01"})
    elif typ == "sgx_attestation_key":
        e.update({"message": "aa" * rng.choice([384, 384, 500, 100, 385]),
                  "key": rng.choice(["04" + "11" * 64, "aabbccdd",
                                     "046b17d1f2e12c4247f8bce6e563a440f277037d812deb33a0f4a13945d898c2964fe342e2fe1a7f9b8ee7eb4a7c0f9e162bce33576b315ececbb6406837bf51f5",
                                     "036b17d1f2e12c4247f8bce6e563a440f277037d812deb33a0f4a13945d898c296"]),
                  "auth_data": rng.choice(["cc" * 32, "cc" * 32, "", "zz"]), "signature": "3006020101020101"})
    else:
        e["message"] = base64.b64encode(bytes(rng.getrandbits(8) for _ in range(60))).decode()
    return e


WEIRD = [None, True, False, 0, 1, 2, 3, 1.0, 2.0, "", "1", "root", "sgx_root", [], ["device"], {}, {"name": "device"},
         "device", "attestation", "ui", "signer", "zz", "ab", 5]


def mutate(rng, doc):
    d = copy.deepcopy(doc)
    k = rng.randrange(14)
    els = d.get("elements")
    if k == 0:
        d["version"] = rng.choice(WEIRD)
    elif k == 1:
        d.pop(rng.choice(list(d.keys())))
    elif k == 2:
        d["targets"] = rng.choice(WEIRD + [["nope"], [1], [None], [[]], ["ui", "ui"]])
    elif k == 3:
        d["elements"] = rng.choice(WEIRD + ["name", {"name": 1}])
    elif isinstance(els, list) and [x for x in els if isinstance(x, dict)]:
        e = rng.choice([x for x in els if isinstance(x, dict)])
        if k == 4 and e:
            e.pop(rng.choice(list(e.keys())))
        elif k == 5 and e:
            e[rng.choice(list(e.keys()))] = rng.choice(WEIRD)
        elif k == 6:
            e["signed_by"] = e.get("name")                   # self-signed
        elif k == 7 and len([x for x in els if isinstance(x, dict)]) >= 2:
            a, b = rng.sample([x for x in els if isinstance(x, dict)], 2)
            a["signed_by"], b["signed_by"] = b.get("name"), a.get("name")   # mutual
        elif k == 8:
            e["signed_by"] = rng.choice(["nobody", 7, None, ["x"]])
        elif k == 9:
            els.append(copy.deepcopy(e))        # duplicate name
            els[-1]["signed_by"] = rng.choice([x.get("name") for x in els if isinstance(x, dict)] + ["root", "sgx_root"])
        elif k == 10:
            els[rng.randrange(len(els))] = rng.choice(WEIRD)
        elif k == 11:
            e["type"] = rng.choice(["sgx_quote", "x509", "X509_pem", None, 3, ["x509_pem"]])
        elif k == 12:
            e["message"] = rng.choice(["", "zz", "a", "ab cd", "====", "YWJj", "YWJ", None, 5])
        else:
            # longer cycle
            names = [x.get("name") for x in els if isinstance(x, dict)]
            for i, x in enumerate(els):
                if isinstance(x, dict):
                    x["signed_by"] = names[(i + 1) % len(names)]
    return d


def b64_flags(doc):
    flags = []
    els = doc.get("elements") if isinstance(doc, dict) else None
    if isinstance(els, list):
        for e in els:
            ok = True
            if isinstance(e, dict) and e.get("type") == "x509_pem":
                try:
                    base64.b64decode(e.get("message"))
                except Exception:
                    ok = False
            flags.append(ok)
    return flags


def gen(tier, rng):
    out = []
    n = 400 if tier == "quick" else 20000
    for i in range(n):
        if rng.random() < 0.5:
            chain = ["device", "attestation", rng.choice(["ui", "signer"])]
            els = [elem_v1("device", "root", rng), elem_v1("attestation", "device", rng),
                   elem_v1("ui", "attestation", rng), elem_v1("signer", rng.choice(["attestation", "device", "root"]), rng)]
            doc = {"version": 1, "targets": rng.sample(["ui", "signer", "attestation", "device"], rng.randrange(0, 4)),
                   "elements": els}
        else:
            m = rng.randrange(1, 12)
            names = ["e%d" % j for j in range(m)] if rng.random() < 0.8 else [rng.choice([j, str(j), None, True]) for j in range(m)]
            if rng.random() < 0.15:
                # an element carrying the name of the root of trust itself (v2 names are unrestricted)
                names[rng.randrange(m)] = rng.choice(["sgx_root", "sgx_root", "root"])
            els = []
            for j, nm in enumerate(names):
                sb = "sgx_root" if j == 0 or rng.random() < 0.15 else names[rng.randrange(0, j)]
                els.append(elem_v2(nm, sb, rng))
            doc = {"version": 2, "targets": rng.sample(names, rng.randrange(0, min(3, m) + 1)), "elements": els}
        nm = rng.choice([0, 0, 1, 1, 2, 3])
        for _ in range(nm):
            doc = mutate(rng, doc)
        if rng.random() < 0.06 and isinstance(doc.get("elements"), list):
            # the root's name given to an element: self-signed, signed by a path element, dangling
            ds = [x for x in doc["elements"] if isinstance(x, dict)]
            if ds:
                rootname = "root" if doc.get("version") == 1 else "sgx_root"
                e = rng.choice(ds)
                e["name"] = rootname
                e["signed_by"] = rng.choice([rootname, "nobody"] + [x.get("name") for x in ds])
                if rng.random() < 0.5 and isinstance(doc.get("targets"), list):
                    doc["targets"] = doc["targets"] + [rootname]
        links = {}
        if isinstance(doc, dict) and isinstance(doc.get("elements"), list):
            keys = [key_of(e.get("name")) for e in doc["elements"] if isinstance(e, dict)]
            for a in keys:
                for b in keys + [""]:
                    links["%s|%s" % (a, b)] = rng.random() < 0.8
        out.append(Case(OP, {"doc": doc, "links": links, "b64ok": b64_flags(doc)}, stream="mutated-%d" % nm))
    for v in [None, 1, "x", [], [1], {}, {"version": 1}, {"version": 1, "targets": []},
              {"version": 1, "targets": [], "elements": []}, {"version": 2, "targets": [], "elements": {}},
              {"version": 3, "targets": [], "elements": []}, {"version": [1], "targets": [], "elements": []},
              {"version": True, "targets": [], "elements": ""}, {"version": 2.0, "targets": [], "elements": []}]:
        out.append(Case(OP, {"doc": v, "links": {}, "b64ok": []}, stream="degenerate"))
    return out


def tags(c, o):
    t = [c.meta.get("stream", "?")]
    if isinstance(o, dict):
        t.append("loaded")
        t.append("roundtrip:" + str(o.get("roundtrip")))
        if isinstance(o.get("verdicts"), dict):
            t.append("verdicts:%d" % len(o["verdicts"]))
    else:
        t.append(str(o))
    return t


def nontrivial(c, o):
    d = c.input["doc"]
    return isinstance(d, dict) and "version" in d and "targets" in d and "elements" in d


def finding_signature(c, o):
    return None
