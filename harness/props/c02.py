"""C02 — requests are classified exactly as the protocol specification prescribes."""
from ..core import Case
from .. import reqgen
from . import linegen

PROPERTY = "C02"
OP = "line.C02"
RULE = ("for each of the ten commands (three in v1) a valid template built from the documented format, then the "
        "single-field mutation matrix: every field path x {absent, null, booleans, boundary integers, floats, "
        "empty / non-hex / odd / spaced / 15..33-byte hex strings, lists, objects, extra keys, key-id variants}; "
        "the same mutations while a link repair is pending (sampled in quick); pairs of mutations in the thorough tier; non-objects.  The verdict is observed as (errorcode, number "
        "of APDUs the recording device saw).  non-trivial = the mutated value differs from the template's; "
        "distinct by hash of the canonical case")
ASSUMPTIONS = ["Spec/C02.lean is a hand formalisation of docs/protocol.md and docs/protocol-v1.md "
               "(zones Valid / Unspecified / Invalid per field, DESIGN Appendix D)"]
TRUSTED = ["harness/powdev.py (simulated device)", "shims/bitcoin"]
EXHAUSTIVE = {"quick": False, "thorough": True}


def worker_init():
    from .. import mgr  # noqa


def run_impl(op, inp):
    from .. import mgr
    return mgr.run_line(inp)


def templates(rng, mode):
    if mode == "v1":
        yield reqgen.sign_v1_request(rng), {}
        yield {"command": "getPubKey", "version": 1, "keyId": rng.choice(reqgen.PATHS)}, {}
        yield {"command": "version"}, {}
        yield {"command": "version", "version": 1}, {}
    else:
        for cmd in reqgen.COMMANDS + ["sign-hash"]:
            yield reqgen.valid_request(rng, cmd)
        yield reqgen.sign_auth_request(rng, segwit=True), {}
        yield reqgen.sign_auth_request(rng, segwit=False), {}


def gen(tier, rng):
    out = []
    for mode in ("v5", "v1"):
        for req, fulls in templates(rng, mode):
            out.append(linegen.line_case(rng, req, fulls, mode=mode, policy={}, stream="template"))
            muts = list(reqgen.mutations(req, rng, per_path=(10 if tier == "quick" else None)))
            for path, val, mreq in muts:
                out.append(linegen.line_case(rng, mreq, fulls, mode=mode, policy={}, stream="mutation",
                                             field="/".join(map(str, path)), value=repr(val)[:40]))
            # the same refusals while a link repair is pending: a refused request must not trigger it either
            # (all of them for sign, whose second-stage validation runs after the generic one; a sample otherwise)
            pend = muts if (tier == "thorough" or req.get("command") == "sign") else rng.sample(muts, min(25, len(muts)))
            for path, val, mreq in pend:
                out.append(linegen.line_case(rng, mreq, fulls, mode=mode, policy={}, stream="mutation-pending",
                                             field="/".join(map(str, path)), value=repr(val)[:40],
                                             comm_issue=True, conns=rng.choice([[True], [True], [False], []]),
                                             pin={"pin": b"1234567a".hex(), "needs_change": False}))
            if tier == "thorough":
                for _ in range(300):
                    (p1, v1, r1) = rng.choice(muts)
                    m2 = list(reqgen.mutations(r1, rng, per_path=1))
                    if m2:
                        (p2, v2, r2) = rng.choice(m2)
                        out.append(linegen.line_case(rng, r2, fulls, mode=mode, policy={}, stream="mutation-pair"))
        for v in reqgen.NON_OBJECTS:
            out.append(linegen.line_case(rng, v, None, mode=mode, policy={}, stream="non-object"))
    # v5 requests sent to a v1 manager and vice versa
    for cmd in reqgen.COMMANDS:
        req, fulls = reqgen.valid_request(rng, cmd)
        out.append(linegen.line_case(rng, req, fulls, mode="v1", policy={}, stream="cross-mode"))
    out.append(linegen.line_case(rng, reqgen.sign_v1_request(rng), None, mode="v5", policy={}, stream="cross-mode"))
    for c in out:
        c.op = OP
    return out


def tags(c, o):
    t = [c.meta.get("stream", "?"), "cmd:%s" % c.meta.get("command")]
    if isinstance(o, dict) and isinstance(o.get("reply"), dict):
        t.append("code:%s" % o["reply"].get("errorcode"))
        t.append("contacted" if any(e.startswith("A") for e in o["events"]) else "no-contact")
    return t


def nontrivial(c, o):
    return c.meta.get("stream") in ("mutation", "mutation-pending", "mutation-pair", "non-object", "cross-mode")


def _bad_block_member(req):
    bl = req.get("blocks") if isinstance(req, dict) else None
    if not isinstance(bl, list):
        return False
    for b in bl:
        if isinstance(b, str) and b != "":
            try:
                if len(bytes.fromhex(b)) == 0:
                    return True
            except ValueError:
                return True
    return False


def finding_signature(c, o):
    req = c.input["line"].get("request")
    if isinstance(req, dict) and req.get("command") in ("advanceBlockchain", "updateAncestorBlock") \
            and _bad_block_member(req) and isinstance(o, dict) \
            and o.get("events") \
            and isinstance(o.get("reply"), dict) and o["reply"].get("errorcode") in (-204, -905):
        # -905 instead of -204 only when the contact was a pending link repair that failed
        return {"call_site": "comm/protocol.py:_validate_%s" % (
            "advance_blockchain" if req["command"] == "advanceBlockchain" else "update_ancestor_block"),
            "field": "blocks", "defect": "member is a string but not hex"}
    return None
