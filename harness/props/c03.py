"""C03 — no client request can take the manager down or go unanswered."""
import json

from ..core import Case
from .. import reqgen, btcgen as g
from . import linegen

PROPERTY = "C03"
OP = "line.C03"
RULE = ("request lines through the real _RequestHandler.handle + HSM2ProtocolLedger/HSM1ProtocolLedger + "
        "HSM2Dongle against the simulated device: valid requests of all ten commands (both protocol "
        "modes), the single-field mutation matrix, a hostile stream (raw bytes, invalid UTF-8, 30000-deep "
        "arrays, 5000-digit integers, NaN, duplicate keys, wrong-typed command, out-of-range integers, "
        "brothers that are hex but not RLP / RLP strings / nested lists, >255 brothers, >64 KiB witness "
        "scripts, oversized proofs and blocks) with conforming and status-word-injecting device policies; "
        "valid JSON nested 100..1350 levels deep, and every depth 1400..1560 around CPython's recursion limit "
        "with a log handler attached as in production (the deeply nested member is dropped from the model's "
        "input; whether such a depth still parses is an observed input); "
        "plus whole manager lifetimes (2..8 mixed lines on one manager and one device, link / status faults anywhere "
        "in the exchange sequence, repairs) against the model's `serve`; non-trivial = the line decodes to a JSON object naming one of the ten commands and the device "
        "conformed; distinct by hash of the canonical case")
ASSUMPTIONS = ["within reach of CPython's recursion limit the outcome class of json.loads / of handling the parsed value "
               "(accepted, or refused as a format error) depends on the depth of the call stack and is taken from "
               "the run (deep-json-boundary stream); the property itself - one JSON reply with an errorcode, the "
               "server goes on - is still checked on those runs",
               "the set of Python exception sources is validated by this differential run, not derived from "
               "CPython's semantics", "CPython's JSON grammar is not re-modelled: the decode outcome class "
               "(not UTF-8 / not JSON / value) is an input of the model",
               "python-bitcoinlib is represented by /verif/shims/bitcoin"]
TRUSTED = ["harness/powdev.py (simulated device)", "shims/bitcoin"]


def worker_init():
    from .. import mgr  # noqa


def run_impl(op, inp):
    from .. import mgr
    if op == "history":
        return mgr.run_history(inp)
    return mgr.run_line(inp)


def history_case(rng, n):
    """one manager lifetime: n lines (valid, mutated, hostile, raw) on one manager and one device, with link /
    status faults sprinkled over the whole exchange sequence and a PIN for the repairs"""
    lines, fulls = [], {}
    hostile = list(hostile_requests(rng))
    for _ in range(n):
        k = rng.random()
        if k < 0.55:
            req, f = reqgen.valid_request(rng)
            fulls.update(f)
            lines.append({"kind": "json", "request": req})
        elif k < 0.75:
            req, f = reqgen.valid_request(rng)
            fulls.update(f)
            muts = list(reqgen.mutations(req, rng, per_path=1))
            lines.append({"kind": "json", "request": rng.choice(muts)[2]})
        elif k < 0.9:
            lines.append({"kind": "json", "request": rng.choice(hostile)})
        else:
            lines.append({"kind": "raw", "hex": (rng.choice(RAW) if rng.random() < 0.5
                                                 else g.rand_bytes(rng, rng.randrange(0, 40)) + b"\n").hex()})
    pol = conforming_policy(rng)
    faults = dict(pol.get("faults", {}))
    for _ in range(rng.randrange(0, 4)):
        faults[str(rng.randrange(0, 40))] = list(rng.choice(linegen.FAULTS))
    pol["faults"] = faults
    inp = {"mode": rng.choice(["v5", "v5", "v5", "v1"]), "lines": lines, "dev": linegen.dev_spec(rng, **pol),
           "full_coinbases": fulls, "conns": rng.choice([[], [], [True, False, True], [False]]),
           "pin": {"pin": b"1234567a".hex(), "needs_change": False}}
    return Case("history", inp, stream="history", command="history", nlines=n)


def raw_case(rng, raw, stream="hostile-raw"):
    return Case(OP, {"mode": rng.choice(["v5", "v5", "v1"]), "line": {"kind": "raw", "hex": raw.hex()},
                     "dev": linegen.dev_spec(rng)}, stream=stream, command="?")


def conforming_policy(rng):
    p = {}
    if rng.random() < 0.5:
        p["sizes"] = rng.choice([1, 7, 255, [rng.randrange(1, 256) for _ in range(3)]])
    if rng.random() < 0.3:
        p["ask_brothers"] = False
    if rng.random() < 0.2:
        p["stop_after"] = rng.randrange(1, 3)
        p["stop_kind"] = rng.choice(["success", "partial"])
    if rng.random() < 0.25:
        p["faults"] = {str(rng.randrange(0, 10)): ["w", rng.choice([0x6A87, 0x6A8F, 0x6B87, 0x6B9B, 0x6A01,
                                                                    0x69A0, 0x6BFF, 0x6D00, 0x6A99, 0x6B10])]}
    return p


def _nest(depth):
    return reqgen.nest_bytes(depth)


def hostile_requests(rng):
    P = "m/44'/0'/0'/0/0"
    yield {"command": [], "version": 5}
    yield {"command": {}, "version": 5}
    yield {"command": None, "version": 5}
    yield {"command": 5, "version": 5}
    yield {"command": 5.5, "version": 5}
    yield {"command": True, "version": 5}
    yield {"command": ["sign"], "version": 5}
    yield {"command": "sign", "version": [5]}
    yield {"command": "sign", "version": 5.0, "keyId": P, "message": {"hash": "aa" * 32}}
    yield {"command": "sign", "version": True}
    yield {"command": "version", "version": True}
    yield {"command": "sign", "version": 5, "keyId": "m/" + "9" * 5000 + "/0/0/0/0", "message": {"hash": "aa" * 32}}
    yield {"command": "sign", "version": 5, "keyId": "m/\u0664\u0664'/0'/0'/0/0", "message": {"hash": "aa" * 32}}
    yield {"command": "sign", "version": 5, "keyId": "m/4\ud8004'/0'/0'/0/0", "message": {"hash": "aa" * 32}}
    base = reqgen.sign_auth_request(rng, segwit=True)
    for v in [-1, 2 ** 32, 2 ** 64, -2 ** 70, True, 1.0, None, "1"]:
        r = json.loads(json.dumps(base))
        r["message"]["input"] = v
        yield r
    for v in [0, -1, 2 ** 64, 2 ** 64 - 1, True, 1.0]:
        r = json.loads(json.dumps(base))
        r["message"]["outpointValue"] = v
        yield r
    r = json.loads(json.dumps(base))
    r["message"]["witnessScript"] = "ab" * 65530
    yield r
    r = json.loads(json.dumps(base))
    r["message"]["witnessScript"] = "ab" * 70000
    yield r
    r = json.loads(json.dumps(base))
    r["auth"]["receipt_merkle_proof"] = ["ab"] * 256
    yield r
    r = json.loads(json.dumps(base))
    r["auth"]["receipt_merkle_proof"] = ["ab" * 256]
    yield r
    r = json.loads(json.dumps(base))
    r["message"]["tx"] = "ab cd"
    yield r
    hdr, _ = reqgen.rand_header(rng, nfields=19)
    hdr20, _ = reqgen.rand_header(rng, nfields=20)
    fields17 = [b"\x01"] * 17
    weird = [
        "aa", "05", "c0", "c101", reqgen.rlp_enc(b"\x01" * 17).hex(), reqgen.rlp_enc(b"\x01" * 19).hex(),
        reqgen.rlp_enc(b"\x01" * 20).hex(), reqgen.rlp_enc(fields17).hex(),
        reqgen.rlp_enc([b"\x01"] * 18 + [[b"\x02", [b"\x03"]]]).hex(),          # coinbase field is a list
        reqgen.rlp_enc([b"\x01"] * 18 + [b"\x02" * 10]).hex(),                   # coinbase too short
        reqgen.rlp_enc([[b"\x01"]] * 19).hex(),
        reqgen.rlp_enc([b"\x01"] * 16 + [g.rand_bytes(rng, 70000)] + [b"\x02"] * 2 + [g.rand_bytes(rng, 100)]).hex(),
        reqgen.rlp_enc([b"\x01"] * 16 + [_nest(400)] + [b"\x02" * 80, b"", g.rand_bytes(rng, 100)]).hex(),   # deep field
        reqgen.rlp_enc([b"\x01"] * 16 + [_nest(600)]).hex(), reqgen.rlp_enc([b"\x01"] * 16 + [_nest(3000)]).hex(),
        hdr.hex() + "00", hdr.hex()[:-2], "f9ffff" + "00" * 10, "b90001aa", "8100", "zz", "", " ", "0x" + hdr.hex(),
    ]
    for wb in weird:
        yield {"command": "advanceBlockchain", "version": 5, "blocks": [hdr.hex()], "brothers": [[wb]]}
        yield {"command": "advanceBlockchain", "version": 5, "blocks": [wb], "brothers": [[]]}
        yield {"command": "updateAncestorBlock", "version": 5, "blocks": [wb]}
        yield {"command": "updateAncestorBlock", "version": 5, "blocks": [hdr20.hex(), wb]}
    yield {"command": "advanceBlockchain", "version": 5, "blocks": [hdr.hex()], "brothers": [[hdr20.hex()] * 256]}
    yield {"command": "advanceBlockchain", "version": 5, "blocks": [hdr.hex()], "brothers": [[hdr20.hex()] * 11]}
    yield {"command": "advanceBlockchain", "version": 5, "blocks": [hdr.hex()] * 3, "brothers": [[]] * 3}
    yield {"command": "advanceBlockchain", "version": 5, "blocks": [hdr.hex()], "brothers": [[[]]]}
    yield {"command": "advanceBlockchain", "version": 5, "blocks": [hdr.hex()], "brothers": [{}]}


RAW = [b"", b"\n", b"   \n", b"\xff\xfe\n", b"{\n", b"nope\n", b"[" * 30000 + b"\n", b"{\"a\":" * 20000 + b"\n",
       b"{\"command\":\"version\",\"version\":" + b"9" * 5000 + b"}\n", b"NaN\n", b"Infinity\n", b"-Infinity\n",
       b"{\"command\":\"version\",\"command\":\"sign\"}\n", b"{\"command\":\"version\",\"version\":NaN}\n",
       b"{\"command\":\"version\",\"version\":5e0}\n", b"{\"command\":\"version\",\"version\":1e400}\n",
       b"{\"command\":\"version\"}garbage\n", b"\"\\ud800\"\n", b"{\"command\":\"\\ud800\",\"version\":5}\n",
       b"{\"command\":\"version\"}\n{\"command\":\"version\"}\n", b"\x00\n", b"{\"command\":\"version\"}",
       b"\xc3\x28\n", b"[1,2,3]\n", b"null\n", b"true\n", b"5\n", b"\"sign\"\n",
       b"{\"command\":\"blockchainState\",\"version\":5,\"version\":4}\n"]


def gen(tier, rng):
    out = []
    nv = 250 if tier == "quick" else 6000
    for i in range(nv):
        req, fulls = reqgen.valid_request(rng, big=(i % 40 == 39))
        out.append(linegen.line_case(rng, req, fulls, policy=conforming_policy(rng), stream="valid"))
    for c in linegen.v1_cases(rng, nv // 5):
        out.append(c)
    # mutation matrix (sampled in quick, full in thorough)
    per = 6 if tier == "quick" else None
    for cmd in reqgen.COMMANDS + ["sign-hash"]:
        req, fulls = reqgen.valid_request(rng, cmd)
        for path, val, mreq in reqgen.mutations(req, rng, per_path=per):
            out.append(linegen.line_case(rng, mreq, fulls, policy={}, stream="mutation",
                                         field="/".join(map(str, path))))
    for req in hostile_requests(rng):
        out.append(linegen.line_case(rng, req, None, policy={}, stream="hostile"))
        out.append(linegen.line_case(rng, req, None, policy=conforming_policy(rng), stream="hostile"))
    for raw in RAW:
        out.append(raw_case(rng, raw))
    # valid JSON nested deeper and deeper: far below CPython's recursion limit (whatever copies, logs or walks
    # the request must cope), and every depth around the limit, with a log handler attached as in production
    for d in range(100, 1400, 50):
        line = b'{"command":"version","version":5,"x":' + b"[" * d + b"]" * d + b"}\n"
        c = raw_case(rng, line, "deep-json")
        c.input["mode"] = "v5"
        c.input["drop_member"] = "x"
        out.append(c)
    for d in range(1400, 1560, (1 if tier == "thorough" else 2)):
        line = b'{"command":"version","version":5,"x":' + b"[" * d + b"]" * d + b"}\n"
        c = raw_case(rng, line, "deep-json-boundary")
        c.input["mode"] = "v5"
        c.input["log_handler"] = True
        c.input["deep_boundary"] = True
        c.input["drop_member"] = "x"
        out.append(c)
    for i in range(60 if tier == "quick" else 3000):
        n = rng.randrange(0, 60)
        out.append(raw_case(rng, g.rand_bytes(rng, n) + b"\n", "random-bytes"))
    for c in linegen.fault_cases(rng, 150 if tier == "quick" else 5000):
        out.append(c)
    for c in out:
        c.op = OP
    # whole manager lifetimes (the model's `serve`): several requests on one manager and one device
    for i in range(120 if tier == "quick" else 3000):
        out.append(history_case(rng, rng.choice([2, 3, 5, 8])))
    return out


def tags(c, o):
    t = [c.meta.get("stream", "?")]
    if c.op == "history":
        if isinstance(o, dict):
            t.append("lines:%d" % len(o.get("lines", [])))
            t.append("repairs:%d" % sum(1 for e in o.get("events", []) if e == "D"))
            if any(l.get("shutdown") for l in o.get("lines", [])):
                t.append("shutdown")
        return t
    if isinstance(o, dict):
        rep = o.get("reply")
        code = rep.get("errorcode") if isinstance(rep, dict) else None
        t.append("code:%s" % code)
        if o.get("shutdown"):
            t.append("shutdown")
        if o.get("exc"):
            t.append("exc:" + o["exc"])
        t.append("apdus:%s" % ("0" if not any(e.startswith("A") for e in o["events"]) else ">0"))
    return t


def nontrivial(c, o):
    if c.op == "history":
        return isinstance(o, dict) and len(o.get("lines", [])) >= 2
    line = c.input["line"]
    if line["kind"] != "json":
        return False
    r = line["request"]
    return isinstance(r, dict) and r.get("command") in reqgen.COMMANDS and not o.get("shutdown")


def finding_signature(c, o):
    return None
