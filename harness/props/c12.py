"""C12 — concurrent clients never interleave on the device."""
import json
import logging
import socket
import threading
import time

from ..core import Case

PROPERTY = "C12"
OP = "conc"
SERIAL = True          # each case starts a real server and 2..16 client threads
RULE = ("the real TCPServer.run (real socketserver, ephemeral port) with 2..16 client threads connecting at once, "
        "each sending one multi-APDU request (getPubKey, sign hash, blockchainState, signerHeartbeat, "
        "blockchainParameters) carrying its own identity; the simulated device sleeps a random few hundred "
        "microseconds in every exchange to widen every window and logs (pid, thread, request identity) per APDU; "
        "checked: per-request contiguous blocks, every client got the reply to its own request, and equality "
        "with the model's log under the observed accept order.  non-trivial = at least two clients had their "
        "first APDU within the run; distinct by hash of the canonical case + observed order")
ASSUMPTIONS = ["the sequential semantics of CPython's socketserver.TCPServer.serve_forever and of the kernel's "
               "accept queue are assumed by the theorem (the manager adds no concurrency of its own); schedule "
               "exploration on the real server is sampling, not proof"]
TRUSTED = ["harness (device log, client threads)"]


def worker_init():
    pass


def run_impl(op, inp):
    import os
    import random
    logging.disable(logging.CRITICAL)
    from comm.platform import Platform
    Platform.set(Platform.LEDGER)
    from .. import simdev
    simdev.install()
    import comm.server as cs
    from ledger.protocol import HSM2ProtocolLedger
    from ledger.hsm2dongle import HSM2Dongle
    rng = random.Random(inp["seed"])
    local = threading.local()
    log = []
    lock = threading.Lock()
    keys = {}

    def key_for(path_bytes):
        import hashlib
        return b"\x04" + hashlib.sha512(path_bytes).digest()

    def device(apdu):
        who = getattr(local, "client", None)
        with lock:
            log.append((os.getpid(), threading.get_ident(), who))
        time.sleep(rng.random() * 0.0006)
        slow = inp.get("slow")
        if slow and who == slow[0]:
            time.sleep(slow[1])
        cmd = apdu[1]
        if who is not None and who == inp.get("fault") and not getattr(local, "faulted", False):
            # the link drops on this client's first exchange — or, with `fault_at`, its n-th exchange times out
            local.seen = getattr(local, "seen", 0) + 1
            if local.seen > inp.get("fault_at", 0):
                local.faulted = True
                return ("t",) if "fault_at" in inp else ("r",)
        if cmd == 0x04:
            return ("d", key_for(apdu[2:]))
        if cmd == 0x02:
            h = apdu[-32:]
            from ..powdev import der
            return ("d", bytes([0x80, 0x02, 0x81]) + der(h[:16], h[16:]))
        if cmd == 0x20:
            op = apdu[2]
            if op == 1:
                # what the device holds is stamped with the client it is being read for: a reply built from
                # what was read for someone else shows
                return ("d", bytes([0x80, 0x20, 1, apdu[3]]) + bytes([apdu[3]]) * 31 + bytes([(who or 0) & 0xFF]))
            if op == 2:
                return ("d", bytes([0x80, 0x20, 2, 5]))
            return ("d", bytes([0x80, 0x20, 3, 0, 1, 0]))
        if cmd == 0x11:
            return ("d", bytes([0x80, 0x11, 0]) + bytes(32) + (7).to_bytes(36, "big") + bytes([1]))
        if cmd == 0x60:
            from ..powdev import der
            op = apdu[2]
            if op == 1:
                local.ud = apdu[3:]
                return ("d", bytes([0x80, 0x60, 1]))
            if op == 2 and who is not None and who == inp.get("poison"):
                # this client's heartbeat signature is not DER: its handler ends in the unknown-exception path
                return ("d", bytes([0x80, 0x60, 2]) + b"\x00\x01\x02")
            data = {2: der(b"\x01" * 8, b"\x02" * 8), 3: getattr(local, "ud", b"") + b"msg", 4: b"\x09" * 32,
                    5: b"\x04" + b"\x05" * 64}[op]
            return ("d", bytes([0x80, 0x60, op]) + data)
        if cmd == 0x06:
            return ("d", bytes([0x80, 1, 5, 4, 1]))
        if cmd == 0x43:
            return ("d", bytes([0x80, 3]))
        return ("w", 0x6D00)
    simdev.reset([], [], device)
    dongle = HSM2Dongle(False)
    proto = HSM2ProtocolLedger(None, dongle)
    orig = proto.handle_request

    def tagged(req):
        local.client = req.get("client") if isinstance(req, dict) else None
        try:
            return orig(req)
        finally:
            local.client = None
    proto.handle_request = tagged
    srv = cs.TCPServer("127.0.0.1", 0, proto)
    t = threading.Thread(target=srv.run, daemon=True)
    t.start()
    for _ in range(500):
        if srv.server is not None:
            break
        time.sleep(0.01)
    port = srv.server.server_address[1]
    with lock:
        del log[:]          # forget the bring-up exchanges
    replies = {}
    patience = (inp["slow"][1] * 12 + 30) if inp.get("slow") else 0

    def client(i, req):
        try:
            s = socket.create_connection(("127.0.0.1", port), timeout=20 + patience)
            s.sendall(json.dumps(req).encode() + b"\n")
            buf = b""
            while not buf.endswith(b"\n"):
                chunk = s.recv(65536)
                if not chunk:
                    break
                buf += chunk
            s.close()
            replies[i] = json.loads(buf.decode())
        except Exception as e:
            replies[i] = {"client-error": repr(e)}
    threads = []
    barrier = threading.Barrier(len(inp["requests"]))

    def go(i, req):
        barrier.wait()
        client(i, req)
    if inp.get("sequential"):
        # one client after the other (the order of the requests is the order of service)
        for i, req in enumerate(inp["requests"]):
            th = threading.Thread(target=client, args=(i, dict(req, client=i)))
            th.start()
            th.join(30 + patience)
    else:
        for i, req in enumerate(inp["requests"]):
            th = threading.Thread(target=go, args=(i, dict(req, client=i)))
            threads.append(th)
            th.start()
        for th in threads:
            th.join(30 + patience)
    srv.server.shutdown()
    t.join(10)
    # replies: each client must have got the answer to its own request
    ok = True
    for i, req in enumerate(inp["requests"]):
        r = replies.get(i, {})
        if i == inp.get("fault"):
            ok &= r.get("errorcode") == -905
        elif i == inp.get("poison"):
            # the handler of this request died: the client gets the empty object — never another client's reply
            ok &= r == {}
        elif req["command"] == "getPubKey":
            from ..powdev import path_bytes
            ok &= r.get("pubKey") == key_for(path_bytes(req["keyId"])).hex()
        elif req["command"] == "sign":
            h = bytes.fromhex(req["message"]["hash"])
            ok &= r.get("signature") == {"r": h[:16].hex(), "s": h[16:].hex()}
        elif req["command"] == "signerHeartbeat":
            ok &= r.get("message") == req["udValue"] + b"msg".hex()
        elif req["command"] == "blockchainState":
            st = r.get("state", {}) if isinstance(r.get("state"), dict) else {}
            ok &= r.get("errorcode") == 0 and str(st.get("best_block", ""))[-2:] == "%02x" % (i & 0xFF)
        else:
            ok &= r.get("errorcode") == 0
    ids = [w for (_p, _t, w) in log]
    order = []
    for w in ids:
        if w not in order:
            order.append(w)
    counts = {"getPubKey": 1, "sign": 1, "blockchainState": 9, "signerHeartbeat": 5, "blockchainParameters": 1}
    minp = {"clients": [[w, counts[inp["requests"][w]["command"]]] for w in order if w is not None]}
    if inp.get("fault") is not None:
        # after a link failure the next request repairs the link first: the length of each block is not fixed;
        # what is checked is contiguity, that every exchange belongs to a request, and the replies
        minp = {"clients": [[w, sum(1 for x in ids if x == w)] for w in order if w is not None]}
    # an exchange outside every request (None) is logged as client 999
    return {"__model_input__": minp, "out": {"log": [(999 if w is None else w) + 0 for w in ids], "replies_ok": bool(ok)}}


def gen(tier, rng):
    out = []
    paths = ["m/44'/0'/0'/0/0", "m/44'/1'/0'/0/0", "m/44'/137'/0'/0/0", "m/44'/137'/1'/0/0", "m/44'/1'/1'/0/0", "m/44'/1'/2'/0/0"]
    n = 12 if tier == "quick" else 300
    for i in range(n):
        k = rng.randrange(2, 17)
        reqs = []
        for _ in range(k):
            c = rng.choice(["getPubKey", "sign", "blockchainState", "blockchainState", "signerHeartbeat", "signerHeartbeat",
                            "blockchainParameters"])
            r = {"command": c, "version": 5}
            if c == "getPubKey":
                r["keyId"] = rng.choice(paths)
            elif c == "sign":
                r["keyId"] = rng.choice(paths[2:])
                r["message"] = {"hash": bytes(rng.getrandbits(8) for _ in range(32)).hex()}
            elif c == "signerHeartbeat":
                r["udValue"] = bytes(rng.getrandbits(8) for _ in range(16)).hex()
            reqs.append(r)
        out.append(Case(OP, {"requests": reqs, "seed": rng.getrandbits(32)}, stream="sockets", clients=k))
    out += poison_cases(rng, 2 if tier == "quick" else 20)
    out += fault_cases(rng, 2 if tier == "quick" else 20)
    return out


def fault_cases(rng, n, k=8):
    """one client's first exchange hits a link failure while the others are queued: the repair belongs to the next
    request's block — nothing may talk to the device outside a request"""
    out = []
    for _ in range(n):
        reqs = []
        for _i in range(k):
            c = rng.choice(["getPubKey", "sign", "blockchainState", "signerHeartbeat", "blockchainParameters"])
            r = {"command": c, "version": 5}
            if c == "getPubKey":
                r["keyId"] = "m/44'/0'/0'/0/0"
            elif c == "sign":
                r["keyId"] = "m/44'/137'/0'/0/0"
                r["message"] = {"hash": bytes(rng.getrandbits(8) for _ in range(32)).hex()}
            elif c == "signerHeartbeat":
                r["udValue"] = bytes(rng.getrandbits(8) for _ in range(16)).hex()
            reqs.append(r)
        f = rng.randrange(k)
        if reqs[f]["command"] not in ("sign", "getPubKey"):
            reqs[f] = {"command": "getPubKey", "version": 5, "keyId": "m/44'/0'/0'/0/0"}
        out.append(Case(OP, {"requests": reqs, "seed": rng.getrandbits(32), "fault": f}, stream="fault", clients=k))
    # a timeout in the middle of a multi-exchange request served after others of its kind: the client gets the
    # device error of ITS request, never something kept from an earlier one
    for _ in range(n):
        reqs = [{"command": "blockchainState", "version": 5}, {"command": "blockchainParameters", "version": 5},
                {"command": "signerHeartbeat", "version": 5, "udValue": bytes(rng.getrandbits(8) for _ in range(16)).hex()},
                {"command": "blockchainState", "version": 5}]
        last = rng.choice([{"command": "blockchainState", "version": 5}, {"command": "blockchainState", "version": 5},
                           {"command": "signerHeartbeat", "version": 5,
                            "udValue": bytes(rng.getrandbits(8) for _ in range(16)).hex()}])
        reqs.append(last)
        out.append(Case(OP, {"requests": reqs, "seed": rng.getrandbits(32), "fault": len(reqs) - 1,
                             "fault_at": rng.randrange(0, 5), "sequential": True}, stream="fault-timeout",
                        clients=len(reqs)))
    return out


def poison_cases(rng, n):
    """clients served one after the other; the LAST one's handler dies (its heartbeat signature is not DER): it must get
    the empty object, not what an earlier client got"""
    out = []
    for _ in range(n):
        reqs = [{"command": "sign", "version": 5, "keyId": "m/44'/137'/0'/0/0",
                 "message": {"hash": bytes(rng.getrandbits(8) for _ in range(32)).hex()}},
                {"command": "getPubKey", "version": 5, "keyId": "m/44'/0'/0'/0/0"}][:rng.choice([1, 2])]
        reqs.append({"command": "signerHeartbeat", "version": 5,
                     "udValue": bytes(rng.getrandbits(8) for _ in range(16)).hex()})
        out.append(Case(OP, {"requests": reqs, "seed": rng.getrandbits(32), "sequential": True,
                             "poison": len(reqs) - 1}, stream="poison", clients=len(reqs)))
    return out


def search(bad_cases, rng):
    """the obligation about the handler broke (or a run disagreed with the model): look for a failing
    schedule with one slow request — its total device time beyond every numeric constant of comm/server.py
    (a join / socket time-out there is the window a hand-over to a helper thread would open)"""
    import ast
    import os
    consts = [1.0]
    try:
        src = open(os.path.join(os.environ["REPO_ROOT"], "middleware", "comm", "server.py")).read()
        for n in ast.walk(ast.parse(src)):
            if isinstance(n, ast.Constant) and isinstance(n.value, (int, float)) and not isinstance(n.value, bool) \
                    and 0 < n.value <= 120:
                consts.append(float(n.value))
    except Exception:
        pass
    out = poison_cases(rng, 3) + fault_cases(rng, 12, k=10) + list(gen("quick", rng))
    for total in sorted(set(consts)):
        reqs = [{"command": "blockchainState", "version": 5},
                {"command": "blockchainParameters", "version": 5},
                {"command": "blockchainState", "version": 5}]
        out.insert(0, Case(OP, {"requests": reqs, "seed": rng.getrandbits(32), "slow": [0, (total + 4.0) / 9]},
                           stream="slow-request", clients=3))
    return out


def tags(c, o):
    t = ["clients:%d" % c.meta.get("clients", 0)]
    if isinstance(o, dict):
        t.append("apdus:%d" % len(o.get("log", [])))
    return t


def nontrivial(c, o):
    return isinstance(o, dict) and len(set(o.get("log", []))) >= 2
