"""C14 — clearing of signature placeholders (comm/bitcoin.py:get_unsigned_tx)."""
import copy

from ..core import Case
from .. import btcgen as g

PROPERTY = "C14"
RULE = ("structured transactions built field-wise by an independent serializer (1..20 inputs, scripts of "
        "1..8 operations over every push encoding, legacy and segwit form) plus a malformed stream "
        "(every-offset truncations, trailing bytes, non-canonical varints, empty / truncated scripts); "
        "non-trivial = the transaction decodes and at least one input script has two or more operations "
        "or a non-minimal final push; distinct by hash of the canonical input")
ASSUMPTIONS = ["python-bitcoinlib is represented by /verif/shims/bitcoin (validated against the recorded "
               "vectors of the upstream test-suite)"]
TRUSTED = ["shims/bitcoin (python-bitcoinlib subset)"]


def worker_init():
    import comm.bitcoin  # noqa


def run_impl(op, inp):
    if op == "line.C14":
        from .. import mgr
        return mgr.run_line(inp)
    import comm.bitcoin as cb
    try:
        return cb.get_unsigned_tx(inp["tx"])
    except Exception:
        return None


def gen(tier, rng):
    n = 1500 if tier == "quick" else 40000
    out = []
    for i in range(n):
        tx = g.rand_tx(rng, big=(i % 200 == 0))
        raw = g.ser_tx(tx, force_segwit=rng.random() < 0.1)
        out.append(Case("unsign", {"tx": raw.hex()}, stream="structured", nin=len(tx["vin"])))
        if i % 3 == 0:
            # pair differing only in non-final pushes (same op counts)
            tx2 = copy.deepcopy(tx)
            for inp in tx2["vin"]:
                ops = rng.randrange(1, 6)
                last = g.rand_op(rng)
                inp["script"] = b"".join(g.rand_op(rng) for _ in range(ops - 1)) + last
            out.append(Case("unsign", {"tx": g.ser_tx(tx2).hex()}, stream="structured-pair"))
        if i % 5 == 0:
            k = rng.randrange(8)
            if k == 0:
                bad = raw[: rng.randrange(len(raw))]
            elif k == 1:
                bad = raw + g.rand_bytes(rng, rng.randrange(1, 5))
            elif k == 2:
                bad = g.ser_tx(tx, vi=lambda n: g.noncanon_varint(n, rng))
            elif k == 3:
                tx3 = copy.deepcopy(tx)
                tx3["vin"][rng.randrange(len(tx3["vin"]))]["script"] = b""
                bad = g.ser_tx(tx3)
            elif k == 4:
                tx3 = copy.deepcopy(tx)
                s = tx3["vin"][0]["script"]
                tx3["vin"][0]["script"] = s + rng.choice([b"\x4c", b"\x4d\x01", b"\x4e\x01\x00", b"\x05\x01", b"\x4c\x05\x01"])
                bad = g.ser_tx(tx3)
            elif k == 5:
                tx3 = copy.deepcopy(tx)
                tx3["vin"] = []
                bad = g.ser_tx(tx3)
            elif k == 6:
                bad = g.rand_bytes(rng, rng.randrange(0, 80))
            else:
                b = bytearray(raw)
                b[rng.randrange(len(b))] ^= 1 << rng.randrange(8)
                bad = bytes(b)
            out.append(Case("unsign", {"tx": bad.hex()}, stream="malformed-%d" % k))
    # the relay path: malformed transactions inside sign requests, also while a link repair is pending
    from .. import reqgen
    from . import linegen
    bad = [c for c in out if c.meta.get("stream", "").startswith("malformed")]
    for c in bad[: (60 if tier == "quick" else 2000)]:
        req = reqgen.sign_auth_request(rng)
        req["message"]["tx"] = c.input["tx"] or "00"
        for pending in (False, True):
            lc = linegen.line_case(rng, req, None, policy={}, stream="relay-pending" if pending else "relay",
                                   comm_issue=pending, conns=rng.choice([[], [False], [True]]),
                                   pin={"pin": b"1234567a".hex(), "needs_change": False})
            lc.op = "line.C14"
            out.append(lc)
    if tier == "thorough":
        for i in range(200):
            raw = g.ser_tx(g.rand_tx(rng, nin=rng.choice([1, 2, 3]), nout=rng.choice([0, 1, 2])))
            for cut in range(len(raw)):
                out.append(Case("unsign", {"tx": raw[:cut].hex()}, stream="truncation"))
    return out


def tags(c, o):
    if c.op == "line.C14":
        return [c.meta.get("stream", "?"), "code:%s" % (o.get("reply", {}).get("errorcode") if isinstance(o, dict) else "?")]
    return [c.meta.get("stream", "?"), "impl:" + ("ok" if o is not None else "rejected")]


def nontrivial(c, o):
    if c.op == "line.C14":
        return True
    return o is not None and o != c.input["tx"]
