"""C01 — signing relays to the device exactly what the client asked to have signed."""
from ..core import Case
from .. import reqgen, powdev, btcgen as g
from . import linegen

PROPERTY = "C01"
OP = "line.C01"
RULE = ("sign requests = 6 documented key paths (+ foreign ones) x {legacy, segwit, hash} x transactions built "
        "structurally (1..20 inputs/outputs, every push encoding) x receipts 1..2000 bytes x proofs 1..255 nodes "
        "x 1..255 bytes x input index {0,1,2^32-1,random} x outpoint {1,2^64-1,random}; device policies = "
        "random request sizes 1..255 per answer, fixed sizes 1 / 255, early finish, late finish (keeps asking "
        "past the end), wrong next op, status words, 0x30/0x31/other DER tags with trailing bytes; both "
        "protocol modes.  Compared: the full APDU list and the reply; the oracle recomputes the expected "
        "parts from the request.  non-trivial = the request reached the second message of the exchange "
        "(authorized) or was answered by the device (hash); distinct by hash of the canonical case")
ASSUMPTIONS = ["python-bitcoinlib is represented by /verif/shims/bitcoin", "the device's *use* of the bytes "
               "(firmware) is out of scope"]
TRUSTED = ["harness/powdev.py (simulated device)", "shims/bitcoin"]


def worker_init():
    from .. import mgr  # noqa


def run_impl(op, inp):
    from .. import mgr
    return mgr.run_line(inp)


def policy(rng):
    p = {}
    k = rng.randrange(8)
    if k == 0:
        p["sizes"] = 1
    elif k == 1:
        p["sizes"] = 255
    elif k == 2:
        p["sizes"] = [rng.randrange(1, 256) for _ in range(rng.randrange(1, 8))]
    elif k == 3:
        p["sizes"] = rng.choice([2, 3, 50, 128, 254])
    r = rng.random()
    if r < 0.10:
        p["stop_after"] = rng.randrange(0, 5)
    elif r < 0.18:
        p["late"] = True
    elif r < 0.26:
        p["wrong_next"] = [rng.choice([2, 4, 8]), rng.choice([1, 2, 4, 8, 0x81, 0x55, 0])]
    elif r < 0.34:
        p["faults"] = {str(rng.randrange(0, 14)): list(rng.choice(linegen.FAULTS))}
    if rng.random() < 0.25:
        p["der_tag"] = rng.choice([0x31, 0x31, 0x32, 0x00])
    if rng.random() < 0.25:
        p["der_junk"] = rng.randrange(1, 6)
    return p


def gen(tier, rng):
    out = []
    n = 260 if tier == "quick" else 12000
    foreign = ["m/44'/0'/0'/0/1", "m/44'/137'/0'/0/1", "m/0/0/0/0/0", "m/2147483647'/0'/0'/0/4294967"]
    for i in range(n):
        big = (i % 37 == 36)
        k = rng.randrange(10)
        path = rng.choice(foreign) if rng.random() < 0.08 else None
        if k < 6:
            req = reqgen.sign_auth_request(rng, path=path, big=big)
            mode = "v5"
        elif k < 8:
            req = reqgen.sign_hash_request(rng, path=path)
            mode = "v5"
        else:
            req = reqgen.sign_v1_request(rng, path=path)
            mode = "v1"
        if rng.random() < 0.03 and "auth" in req:
            req["auth"]["receipt_merkle_proof"] = [g.rand_bytes(rng, 255).hex()] * 255
        if rng.random() < 0.05 and mode == "v5" and "hash" in req["message"]:
            req["message"]["hash"] = " ".join(req["message"]["hash"][j:j + 2] for j in range(0, 64, 2))
        c = linegen.line_case(rng, req, None, mode=mode, policy=policy(rng), stream="sign-" + ("auth" if k < 6 else "hash" if k < 8 else "v1"))
        c.op = OP
        out.append(c)
    return out


def tags(c, o):
    t = [c.meta.get("stream", "?")]
    if isinstance(o, dict) and isinstance(o.get("reply"), dict):
        t.append("code:%s" % o["reply"].get("errorcode"))
        na = sum(1 for e in o["events"] if e.startswith("A"))
        t.append("apdus:%s" % ("0" if na == 0 else "1" if na == 1 else "2-9" if na < 10 else "10-99" if na < 100 else "100+"))
    return t


def nontrivial(c, o):
    if not isinstance(o, dict):
        return False
    na = sum(1 for e in o["events"] if e.startswith("A"))
    return na >= 2 or (na == 1 and c.meta.get("stream") != "sign-auth")
