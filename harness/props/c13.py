"""C13 — query replies report the device's data verbatim."""
import json

from ..core import Case
from .. import reqgen
from . import linegen

PROPERTY = "C13"
OP = "line.C13"
RULE = ("getPubKey / blockchainState / blockchainParameters / signerHeartbeat / uiHeartbeat against genuine "
        "simulated devices in random states (32-byte hashes, 36-byte difficulties incl. 0 and 2^288-1, all 8 "
        "flag combinations, 3 networks, DER signatures with lengths 8..72 and the 0x31 prefix, all key paths) "
        "and every device mode transition pattern during uiHeartbeat; the oracle recomputes the documented "
        "reply from the device state.  non-trivial = the command reached the device; distinct by hash of the "
        "canonical case")
ASSUMPTIONS = ["the simulated device stands for a genuine one: its answers follow firmware bc_state.c / hsm.c / "
               "heartbeat.c as read by the harness author (leading-zero-stripped big-endian difficulty etc.)"]
TRUSTED = ["harness/powdev.py (simulated device)"]
EXHAUSTIVE = {"quick": False, "thorough": False}


def worker_init():
    from .. import mgr  # noqa


def run_impl(op, inp):
    from .. import mgr
    return mgr.run_line(inp)


def gen(tier, rng):
    out = []
    n = 60 if tier == "quick" else 3000
    cmds = ["getPubKey", "blockchainState", "blockchainParameters", "signerHeartbeat", "uiHeartbeat"]
    for i in range(n):
        for cmd in cmds:
            req = reqgen.simple_request(rng, cmd)
            st = {}
            r = rng.random()
            if r < 0.15:
                st["difficulty"] = rng.choice([0, 1, 255, 256, 2 ** 288 - 1, 2 ** 287, 2 ** 8 - 1, 2 ** 280])
                st["min_difficulty"] = rng.choice([0, 1, 2 ** 288 - 1, 2 ** 256])
            if rng.random() < 0.3:
                st["flags"] = [(i >> k) & 1 for k in range(3)]
            if rng.random() < 0.3:
                st["flags"] = [rng.choice([0, 1, 2, 255]) for _ in range(3)]
            st["network"] = rng.choice([1, 2, 3])
            if cmd == "uiHeartbeat":
                k = rng.randrange(8)
                if k == 0:
                    st["after_signer_exit"] = rng.choice([2, 3, 255])   # never reaches UI heartbeat mode
                elif k == 1:
                    st["after_uihb_exit"] = rng.choice([2, 4, 255])     # does not come back to the signer
                elif k == 2:
                    st["mode"] = 4                                       # already in UI heartbeat mode
                elif k == 3:
                    st["mode"] = rng.choice([2, 255])
                elif k == 4:
                    st["exit_drops_link"] = False
            inp = {"mode": "v5", "line": {"kind": "json", "request": req},
                   "dev": {"seed": rng.getrandbits(32), "state": st, "policy": {}}, "want_devstate": True}
            out.append(Case(OP, inp, stream=cmd, state=str(sorted(st.items()))[:80]))
            if i % 3 == 0 and not any(k in st for k in ("after_signer_exit", "after_uihb_exit", "mode", "exit_drops_link")):
                # a history: the same manager first served a request (this one or another) from a device
                # holding other data; the reply must be about the device that is connected now
                pre_cmd = cmd if rng.random() < 0.6 else rng.choice(cmds[:4])
                inp2 = json.loads(json.dumps(inp))
                inp2["prelude"] = {"request": reqgen.simple_request(rng, pre_cmd), "faults": {},
                                   "reseed": rng.getrandbits(32)}
                out.append(Case(OP, inp2, stream=cmd + "-after-other-device"))
    # all six paths for getPubKey
    for p in reqgen.PATHS:
        inp = {"mode": "v5", "line": {"kind": "json", "request": {"command": "getPubKey", "version": 5, "keyId": p}},
               "dev": {"seed": rng.getrandbits(32), "state": {}, "policy": {}}, "want_devstate": True}
        out.append(Case(OP, inp, stream="getPubKey"))
        inp = dict(inp, mode="v1", line={"kind": "json", "request": {"command": "getPubKey", "version": 1, "keyId": p}})
        out.append(Case(OP, inp, stream="getPubKey-v1"))
    return out


def tags(c, o):
    t = [c.meta.get("stream", "?")]
    if isinstance(o, dict) and isinstance(o.get("reply"), dict):
        t.append("code:%s" % o["reply"].get("errorcode"))
    return t


def nontrivial(c, o):
    return isinstance(o, dict) and any(e.startswith("A") for e in o["events"])


def finding_signature(c, o):
    req = c.input["line"]["request"]
    st = c.input["dev"]["state"]
    if req.get("command") == "uiHeartbeat" and st.get("mode") == 4 and isinstance(o.get("reply"), dict) \
            and o["reply"].get("errorcode") == 0:
        return {"call_site": "ledger/protocol.py:_ui_heartbeat", "initial_mode": "UI_HEARTBEAT", "reply": 0}
    return None
