"""Shared case generators for the `line` operation (one request line through the manager)."""
import random

from ..core import Case
from .. import reqgen, powdev, btcgen as g


def dev_spec(rng, **policy):
    return {"seed": rng.getrandbits(32), "state": {}, "policy": policy}


def rand_policy(rng):
    p = {}
    k = rng.randrange(10)
    if k == 0:
        p["sizes"] = rng.choice([1, 2, 255, 100])
    elif k == 1:
        p["sizes"] = [rng.randrange(1, 256) for _ in range(rng.randrange(1, 6))]
    if rng.random() < 0.15:
        p["stop_after"] = rng.randrange(0, 4)
        p["stop_kind"] = rng.choice(["success", "partial"])
    if rng.random() < 0.1:
        p["late"] = True
    if rng.random() < 0.1:
        p["wrong_next"] = [rng.choice([2, 4, 8]), rng.choice([1, 2, 4, 8, 0x81, 0x55])]
    if rng.random() < 0.3:
        p["ask_brothers"] = rng.choice([False, [True, False], [False, True], [False, False, True]])
    if rng.random() < 0.2:
        p["der_tag"] = rng.choice([0x31, 0x30, 0x32])
    if rng.random() < 0.2:
        p["der_junk"] = rng.randrange(1, 5)
    return p


FAULTS = [("t",), ("W",), ("r",), ("x",), ("w", 0x6A87), ("w", 0x6A8F), ("w", 0x6B87), ("w", 0x6B9B),
          ("w", 0x6A01), ("w", 0x6985), ("w", 0x6F00), ("w", 0x6D00), ("w", 0x6BFF), ("w", 0x6C00),
          ("w", 0x699F), ("w", 0x69A0), ("d", "")]


def line_case(rng, request, fulls=None, mode="v5", policy=None, stream="valid", **extra):
    inp = {"mode": mode, "line": {"kind": "json", "request": request},
           "dev": dev_spec(rng, **(policy if policy is not None else rand_policy(rng)))}
    if fulls:
        inp["full_coinbases"] = fulls
    inp.update(extra)
    cmd = request.get("command") if isinstance(request, dict) else None
    return Case("line", inp, stream=stream, command=cmd if isinstance(cmd, str) else repr(type(cmd)))


def valid_cases(rng, n, big_every=50):
    for i in range(n):
        req, fulls = reqgen.valid_request(rng, big=(i % big_every == big_every - 1))
        yield line_case(rng, req, fulls)


def v1_cases(rng, n):
    for i in range(n):
        k = rng.randrange(3)
        if k == 0:
            req = reqgen.sign_v1_request(rng)
        elif k == 1:
            req = {"command": "getPubKey", "version": 1, "keyId": rng.choice(reqgen.PATHS)}
        else:
            req = {"command": "version"}
        yield line_case(rng, req, mode="v1", stream="valid-v1")


def fault_cases(rng, n):
    for i in range(n):
        req, fulls = reqgen.valid_request(rng)
        pol = rand_policy(rng)
        f = rng.choice(FAULTS)
        pol["faults"] = {str(rng.randrange(0, 12)): list(f)}
        yield line_case(rng, req, fulls, policy=pol, stream="fault")
