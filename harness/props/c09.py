"""C09 — bring-up never endangers the device and never serves from an unsafe state."""
import itertools

from ..core import Case

PROPERTY = "C09"
OP = "bringup"
RULE = ("the real TCPServer.run() (initialize_device and its exception map) against simulated devices over the "
        "product: mode {bootloader, signer, ui-heartbeat, unknown 0xFF, undefined 7} x onboarded {1, 0, error "
        "status} x UI / signer version grid 4..6 x 3..5 x 0..2 around 5.4.1 (+ random) x retries {0,1,2,3,255} x "
        "echo {ok, bad} x unlock {ok, bad} x PIN needs change {y, n} x new-PIN outcome {ok, invalid, error} x "
        "post-unlock mode x platform {Ledger, SGX, TCP without PIN} x connect failure; quick samples the grid, "
        "thorough enumerates it.  non-trivial = the device was asked for its mode; distinct by hash of the case")
ASSUMPTIONS = ["socketserver.TCPServer is replaced by a stub: reaching serve_forever is the observation 'served'"]
TRUSTED = ["harness/powdev.py (simulated device)"]
EXHAUSTIVE = {"quick": False, "thorough": True}


def worker_init():
    from .. import mgr  # noqa


def run_impl(op, inp):
    from .. import mgr
    return mgr.run_bringup(inp)


VERS = [[a, b, c] for a in (4, 5, 6) for b in (3, 4, 5) for c in (0, 1, 2)] + [[5, 4, 1]] * 6 + [[5, 4, 0], [5, 3, 2]] * 3


def grid():
    for mode in (2, 3, 4, 255, 7):
        for onboarded in (1, 1, 1, 0):
            for plat in ("ledger", "sgx", "tcp"):
                if mode != 2:
                    for av in VERS:
                        yield {"mode": mode, "onboarded": onboarded, "app_version": av}, plat, False, "ok"
                else:
                    for uv in VERS:
                        yield {"mode": 2, "onboarded": onboarded, "ui_version": uv}, plat, False, "ok"
                    for retries, echo, unlock, needs, newpin, after, drops in itertools.product(
                            (0, 1, 2, 3, 255), (True, False), (True, False), (True, False),
                            ("ok", "invalid", "error"), (3, 2, 4), (True, False)):
                        if (not needs) and newpin != "ok":
                            continue
                        yield {"mode": 2, "onboarded": onboarded, "retries": retries, "echo_ok": echo,
                               "unlock_ok": unlock, "newpin_result": newpin, "after_exit_mode": after,
                               "exit_drops_link": drops}, plat, needs, newpin
                    for av in VERS:
                        yield {"mode": 2, "onboarded": onboarded, "app_version": av}, plat, False, "ok"


def mk(rng, st, plat, needs, faults=None, conns=None):
    inp = {"platform": plat, "dev": {"seed": rng.getrandbits(32), "state": dict(st), "policy": {}}}
    if faults:
        inp["dev"]["policy"]["faults"] = faults
    if conns:
        inp["conns"] = conns
    if plat != "tcp":
        inp["pin"] = {"pin": b"1234567a".hex(), "needs_change": needs}
        inp["gen_pins"] = [b"newpin9z".hex()]
        if rng.random() < 0.1:
            inp["fs_ok"] = [False]
    return Case(OP, inp, stream="grid-" + plat, mode=st.get("mode"))


def gen(tier, rng):
    cells = list(grid())
    if tier == "quick":
        cells = rng.sample(cells, 1500)
    out = [mk(rng, st, plat, needs) for st, plat, needs, _n in cells]
    # onboard check / mode check answered with errors; connect failures; random versions
    for _ in range(200 if tier == "quick" else 3000):
        st, plat, needs, _n = rng.choice(cells)
        f = {str(rng.randrange(0, 10)): list(rng.choice([("w", 0x6A01), ("w", 0x6E00), ("t",), ("W",), ("r",), ("x",),
                                                         ("d", ""), ("d", "80"), ("d", "8001")]))}
        out.append(mk(rng, st, plat, needs, faults=f))
    for _ in range(50 if tier == "quick" else 500):
        st, plat, needs, _n = rng.choice(cells)
        out.append(mk(rng, st, plat, needs, conns=[rng.random() < 0.5, rng.random() < 0.5]))
    for _ in range(100 if tier == "quick" else 2000):
        st = {"mode": rng.choice([2, 3]), "ui_version": [rng.randrange(0, 8), rng.randrange(0, 9), rng.randrange(0, 5)],
              "app_version": [rng.randrange(0, 8), rng.randrange(0, 9), rng.randrange(0, 5)]}
        out.append(mk(rng, st, rng.choice(["ledger", "sgx"]), False))
    return out


def tags(c, o):
    t = [c.meta.get("stream", "?"), "mode:%s" % c.meta.get("mode")]
    if isinstance(o, dict):
        t.append("outcome:" + str(o.get("outcome")))
        ev = o.get("events", [])
        t.append("unlock-sent" if any(e.startswith("A80fe") or e.startswith("A80a3") for e in ev) else "no-unlock")
    return t


def nontrivial(c, o):
    return isinstance(o, dict) and any(e.startswith("A8043") for e in o.get("events", []))
