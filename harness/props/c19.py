"""C19 — app hashing and one-time signing bind to the application's actual code."""
import hashlib
import io
import contextlib
import os
import shutil
import sys
import tempfile

from ..core import Case

PROPERTY = "C19"
OP = "hexhash"
RULE = ("Intel-HEX images: 1..8 data areas in one or several 64 KiB zones, with gaps, rendered by an independent "
        "writer with record lengths 1..255 (fixed, random, 16/32), areas written in and out of address order, "
        "areas crossing a zone boundary, redundant zone records, CR/LF and blank lines, plus malformed files "
        "(record types 02/03, data before any zone record, short lines); `signapp hash`, compute_app_hash and "
        "the parser's areas are compared with the model, and the hashed bytes with the generator's own area "
        "list in address order.  One-time signing: the real signonetime.main in a temporary directory with 1..4 "
        "images; every .sig is verified with python-ecdsa against the written public key over SHA-256 of the "
        "generator's areas, the private key must appear in no file, two runs give different keys (a test, "
        "labelled as such).  non-trivial = at least two areas or two records per area")
ASSUMPTIONS = ["freshness of the one-time key (two runs differ) is a statistical test, not a theorem",
               "SHA-256 and ECDSA are uninterpreted; record checksums are not verified by ledgerblue's parser"]
TRUSTED = ["harness (independent Intel-HEX writer)"]


def worker_init():
    import admin.ledger_utils  # noqa


def rec_line(count_bytes, addr, typ, payload):
    body = bytes([len(payload) if count_bytes is None else count_bytes, (addr >> 8) & 0xFF, addr & 0xFF, typ]) + payload
    cs = (-sum(body)) & 0xFF
    return ":" + (body + bytes([cs])).hex().upper()


def render(rng, areas, order=None, chunk=None):
    """areas: list of (start, data); returns (lines, records-as-bytes)"""
    idx = list(range(len(areas)))
    if order == "shuffled":
        rng.shuffle(idx)
    elif order == "reversed":
        idx.reverse()
    lines = []
    zone = None
    for i in idx:
        start, data = areas[i]
        off = 0
        while off < len(data):
            addr = start + off
            z, a16 = addr >> 16, addr & 0xFFFF
            if z != zone or (off == 0 and rng.random() < 0.2):
                lines.append(rec_line(None, 0, 4, bytes([(z >> 8) & 0xFF, z & 0xFF])))
                zone = z
            n = chunk if isinstance(chunk, int) else rng.choice([1, 2, 16, 32, 255, rng.randrange(1, 256)])
            n = min(n, len(data) - off, 0x10000 - a16)
            lines.append(rec_line(None, a16, 0, data[off:off + n]))
            off += n
    if rng.random() < 0.5:
        lines.append(rec_line(None, 0, 5, bytes(4)))
    lines.append(rec_line(None, 0, 1, b""))
    return lines


def lines_to_records(lines):
    recs = []
    for l in lines:
        l = l.rstrip("\r\n")
        if not l:
            continue
        recs.append(bytes.fromhex(l[1:]).hex())
    return recs


def rand_image(rng, big=False):
    n = rng.randrange(1, 9)
    areas, pos = [], rng.choice([0, 0x1000, 0xFF00, 0x0004_0000, 0xC0D0_0000])
    for _ in range(n):
        pos += rng.choice([1, 16, 300, 0x8000, 0x12345])      # a gap of at least one byte
        ln = rng.choice([1, 5, 16, 100, 255, 256, 1000] + ([70000] if big else []))
        areas.append((pos, bytes(rng.getrandbits(8) for _ in range(ln))))
        pos += ln
    return areas


def split_at_zones(areas):
    out = []
    for s, d in areas:
        while d:
            n = min(len(d), 0x10000 - (s & 0xFFFF))
            out.append((s, d[:n]))
            s, d = s + n, d[n:]
    return out


def run_impl(op, inp):
    import logging
    logging.disable(logging.CRITICAL)
    from ledgerblue.hexParser import IntelHexParser
    from admin.ledger_utils import compute_app_hash
    d = tempfile.mkdtemp(prefix="verif-c19-")
    try:
        p = os.path.join(d, "app.hex")
        with open(p, "w", newline="") as f:
            f.write(inp["text"])
        try:
            areas = IntelHexParser(p).getAreas()
            h = compute_app_hash(p)
        except Exception:
            return "error"
        hashed = b"".join(bytes(a.data) for a in areas)
        if hashlib.sha256(hashed).digest() != h:
            return {"areas": "compute_app_hash does not hash the parser's areas"}
        out = {"areas": [[a.start, bytes(a.data).hex()] for a in areas], "hashed": hashed.hex()}
        if inp.get("tools"):
            # the tools on top: `signapp hash`, `signapp message`, `signapp key`, `signonetime`
            res = tools_check(d, p, inp, h)
            if res is not True:
                return {"areas": "tool check failed: %s" % res}
        return out
    finally:
        shutil.rmtree(d, ignore_errors=True)


def _run_main(mod, argv):
    old = sys.argv
    sys.argv = argv
    buf = io.StringIO()
    code = None
    try:
        with contextlib.redirect_stdout(buf):
            try:
                mod.main()
            except SystemExit as e:
                code = e.code
    finally:
        sys.argv = old
    return code, buf.getvalue()


def tools_check(d, hexpath, inp, h):
    import json
    import ecdsa
    import secp256k1
    from Crypto.Hash import keccak
    import signapp
    import signonetime
    code, out = _run_main(signapp, ["signapp.py", "hash", "-a", hexpath])
    if code != 0 or h.hex() not in out:
        return "signapp hash: %r %r" % (code, out[-200:])
    it = inp["iteration"]
    auth = os.path.join(d, "auth.json")
    code, out = _run_main(signapp, ["signapp.py", "message", "-a", hexpath, "-i", str(it), "-o", auth])
    if code != 0:
        return "signapp message failed"
    j = json.load(open(auth))
    if j["signer"] != {"hash": h.hex(), "iteration": it}:
        return "authorization file does not carry the image hash / iteration: %r" % j["signer"]
    # an output file left over from ANOTHER image must not leak into this image's authorization
    other = os.path.join(d, "other.hex")
    with open(other, "w") as f:
        f.write(":020000040000FA\n:0400100001020304E2\n:00000001FF\n")
    reused = os.path.join(d, "reused.json")
    code, out = _run_main(signapp, ["signapp.py", "message", "-a", other, "-i", str((it + 1) % 65536), "-o", reused])
    if code != 0:
        return "signapp message (other image) failed"
    code, out = _run_main(signapp, ["signapp.py", "message", "-a", hexpath, "-i", str(it), "-o", reused])
    j2 = json.load(open(reused)) if code == 0 else None
    if code != 0 or j2["signer"] != {"hash": h.hex(), "iteration": it} or j2["signatures"] != []:
        return "authorization written over an existing file does not bind to the image given: %r" % (j2 and j2["signer"],)
    key = inp["key"]
    code, out = _run_main(signapp, ["signapp.py", "key", "-k", key, "-o", auth])
    if code != 0:
        return "signapp key failed: " + out[-200:]
    j = json.load(open(auth))
    msg = "RSK_powHSM_signer_%s_iteration_%d" % (h.hex(), it)
    eth = ("\x19Ethereum Signed Message:\n%d%s" % (len(msg), msg)).encode("ascii")
    digest = keccak.new(digest_bits=256).update(eth).digest()
    sk = ecdsa.SigningKey.from_string(bytes.fromhex(key), curve=ecdsa.SECP256k1)
    pub = secp256k1.PublicKey(b"\x04" + sk.get_verifying_key().to_string(), raw=True)
    sig = pub.ecdsa_deserialize(bytes.fromhex(j["signatures"][-1]))
    sig = pub.ecdsa_signature_normalize(sig)[1]
    if not pub.ecdsa_verify(digest, sig, raw=True):
        return "signature by `signapp key` does not verify over the Keccak digest of the specified message"
    # one-time signing of this image, of copies of it under other names, and of DIFFERENT images that carry
    # the same file name in other directories (each signature must be over its own image's hash)
    import hashlib
    apps, want = [hexpath], {hexpath: h}
    for k in range(inp.get("extra_images", 0)):
        if k % 2 == 0:
            q = os.path.join(d, "app%d.hex" % k)
            shutil.copy(hexpath, q)
            want[q] = h
        else:
            os.makedirs(os.path.join(d, "sub%d" % k), exist_ok=True)
            q = os.path.join(d, "sub%d" % k, os.path.basename(hexpath))
            payload = bytes([k, 0xA5, len(inp["image"]) & 0xFF, 7])
            with open(q, "w") as f:
                f.write(":020000040000FA\n" + rec_line(4, 0x20, 0, payload) + "\n:00000001FF\n")
            want[q] = hashlib.sha256(payload).digest()
        apps.append(q)
    if inp.get("extra_images", 0) % 2 == 1:
        apps.reverse()
    pubs = []
    for run in range(2):
        pk = os.path.join(d, "pub%d.txt" % run)
        code, out = _run_main(signonetime, ["signonetime.py", "-a", ",".join(apps), "-p", pk])
        if code != 0:
            return "signonetime failed: " + out[-200:]
        pubhex = open(pk).read().strip()
        vk = ecdsa.VerifyingKey.from_string(bytes.fromhex(pubhex), curve=ecdsa.SECP256k1)
        for a in apps:
            sighex = open(a + ".sig").read().strip()
            try:
                vk.verify_digest(bytes.fromhex(sighex), want[a], sigdecode=ecdsa.util.sigdecode_der)
            except Exception:
                return "one-time signature of %s does not verify under the written public key" % os.path.relpath(a, d)
        pubs.append(pubhex)
        # the private key is written nowhere: no file in the directory may contain 32 bytes that
        # generate this public key — check every 64-hex-digit run in every file
        import re
        for fn in [os.path.join(r_, f_) for r_, _d, fs_ in os.walk(d) for f_ in fs_]:
            txt = open(fn, errors="replace").read()
            for m in re.finditer(r"[0-9a-fA-F]{64}", txt):
                try:
                    cand = ecdsa.SigningKey.from_string(bytes.fromhex(m.group(0)), curve=ecdsa.SECP256k1)
                    if cand.get_verifying_key().to_string("uncompressed").hex() == pubhex:
                        return "private key found in " + fn
                except Exception:
                    pass
    if pubs[0] == pubs[1]:
        return "two runs used the same one-time key"
    return True


def gen(tier, rng):
    out = []
    n = 120 if tier == "quick" else 6000
    for i in range(n):
        areas = rand_image(rng, big=(i % 40 == 39))
        order = rng.choice([None, None, "shuffled", "reversed"])
        chunk = rng.choice([None, None, 1, 16, 32, 255])
        lines = render(rng, areas, order, chunk)
        nl = rng.choice(["\n", "\r\n"])
        text = nl.join(lines) + nl
        if rng.random() < 0.2:
            text = text.replace(nl, nl + nl, 1)
        image = b"".join(d for _s, d in sorted(areas))
        inp = {"text": text, "records": lines_to_records(lines), "image": image.hex()}
        if i % 12 == 0:
            inp["tools"] = True
            inp["iteration"] = rng.randrange(0, 65536)
            inp["key"] = "%064x" % rng.randrange(1, 2 ** 255)
            inp["extra_images"] = rng.randrange(0, 4)
        out.append(Case(OP, inp, stream="image", areas=len(areas), order=str(order), chunk=str(chunk)))
    # malformed
    for bad in [[":020000021000EC"], [":020000031000EB"], [rec_line(None, 0, 0, b"\x01\x02")], [":00"], [":0000"],
                ["x"], [rec_line(None, 0, 4, b"\x00")], [rec_line(5, 0, 0, b"\x01")],
                [rec_line(None, 0, 4, b"\x00\x00"), rec_line(3, 0x10, 0, b"\x01\x02\x03\x04\x05")]]:
        text = "\n".join(bad) + "\n"
        try:
            recs = lines_to_records(bad)
        except ValueError:
            continue
        out.append(Case(OP, {"text": text, "records": recs}, stream="malformed"))
    return out


def tags(c, o):
    t = [c.meta.get("stream", "?"), "order:%s" % c.meta.get("order"), "chunk:%s" % c.meta.get("chunk")]
    t.append("error" if o == "error" else "parsed")
    if c.input.get("tools"):
        t.append("tools-run")
    return t


def nontrivial(c, o):
    return c.meta.get("stream") == "image" and (c.meta.get("areas", 0) >= 2 or c.meta.get("chunk") != "255")
