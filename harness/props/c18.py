"""C18 — admin commands touch seed and PIN only under their preconditions."""
import contextlib
import io
import itertools
import json
import os
import shutil
import sys
import tempfile
import types

from ..core import Case
from .. import simdev, certgen

PROPERTY = "C18"
OP = "admin"
RULE = ("the real do_onboard (up to the device being onboarded), do_unlock, do_changepin and do_get_pubkeys with "
        "Platform.set, scripted stdin / getpass / os.urandom, against simulated devices over the product: device "
        "mode {bootloader, signer, ui-heartbeat, unknown} x onboarded {y,n} x echo {ok,bad} x platform {Ledger, "
        "SGX} x operator input (PIN valid / too short / digits only / non-alphanumeric / non-ASCII, given as an "
        "option or typed, any-pin flag, answers yes / no / other-then-yes, no-unlock flag) x device refusals; "
        "exhaustive over this grid in both tiers, random operator scripts in thorough.  non-trivial = the "
        "command connected to the device; distinct by hash of the canonical case")
ASSUMPTIONS = ["freshness of the seed (os.urandom) is not a theorem: the harness scripts os.urandom and checks that "
               "exactly its 32 bytes are sent", "do_onboard is observed up to the first dispose_hsm (the attestation "
               "setup that follows on Ledger belongs to C15)"]
TRUSTED = ["harness/powdev.py (simulated device)"]
EXHAUSTIVE = {"quick": True, "thorough": True}


class _Stop(BaseException):
    pass


def worker_init():
    import logging
    logging.disable(logging.CRITICAL)
    import admin.onboard, admin.unlock, admin.changepin, admin.pubkeys  # noqa
    simdev.install()


_P = 2 ** 256 - 2 ** 32 - 977


def key_norm(b):
    """independent reading of a public key in any SEC1 / raw encoding python-ecdsa accepts: the uncompressed
    encoding (hex) or None when it is not a point of secp256k1"""
    def on_curve(x, y):
        return x < _P and y < _P and (y * y - x * x * x - 7) % _P == 0
    if len(b) == 64:
        x, y = int.from_bytes(b[:32], "big"), int.from_bytes(b[32:], "big")
        return (b"\x04" + b).hex() if on_curve(x, y) else None
    if len(b) == 65 and b[0] in (4, 6, 7):
        x, y = int.from_bytes(b[1:33], "big"), int.from_bytes(b[33:], "big")
        if not on_curve(x, y) or (b[0] in (6, 7) and (y & 1) != (b[0] & 1)):
            return None
        return (b"\x04" + b[1:]).hex()
    if len(b) == 33 and b[0] in (2, 3):
        x = int.from_bytes(b[1:], "big")
        if x >= _P:
            return None
        y2 = (x * x * x + 7) % _P
        y = pow(y2, (_P + 1) // 4, _P)
        if (y * y) % _P != y2:
            return None
        if (y & 1) != (b[0] & 1):
            y = _P - y
        return (b"\x04" + b[1:] + y.to_bytes(32, "big")).hex()
    return None


def run_impl(op, inp):
    import logging
    logging.disable(logging.CRITICAL)
    from comm.platform import Platform
    from admin.misc import AdminError
    import admin.misc as misc
    import admin.onboard as onboard
    import admin.pubkeys as pubkeys
    from .. import mgr
    plat = inp.get("platform", "ledger")
    Platform.set(Platform.SGX if plat == "sgx" else Platform.LEDGER, {"sgx_host": "sim", "sgx_port": 0})
    simdev.install()
    dev = mgr.build_device(dict(inp["dev"], sgx=(plat == "sgx")))
    for p, k in inp.get("device_keys", {}).items():
        dev.s.keys[p] = bytes.fromhex(k)
    simdev.reset([], inp.get("conns", []), dev.exchange)
    d = tempfile.mkdtemp(prefix="verif-c18-")
    SENT_TXT, SENT_JSON = "earlier export\n", '{"earlier": "export"}\n'
    if inp.get("prior_output"):
        # an export of an earlier run is already there
        open(os.path.join(d, "out.txt"), "w").write(SENT_TXT)
        open(os.path.join(d, "out.json"), "w").write(SENT_JSON)
    stdin_lines = list(inp.get("stdin", []))
    getpass_lines = list(inp.get("getpass", []))
    seed = bytes.fromhex(inp.get("seed", ""))
    opts = types.SimpleNamespace(pin=inp.get("pin"), new_pin=inp.get("new_pin"), any_pin=bool(inp.get("any_pin")),
                                 no_unlock=bool(inp.get("no_unlock")), no_exec=bool(inp.get("no_exec")), verbose=False,
                                 output_file_path=os.path.join(d, "out.txt") if inp.get("has_output", True) else None)

    class _In:
        def readline(self):
            if not stdin_lines:
                raise _Stop("stdin exhausted")
            return stdin_lines.pop(0) + "\n"

    def fake_getpass(prompt=""):
        if not getpass_lines:
            raise _Stop("getpass exhausted")
        return getpass_lines.pop(0)
    saved = (sys.stdin, misc.getpass, os.urandom, misc.time.sleep, onboard.dispose_hsm)
    sys.stdin = _In()
    misc.getpass = fake_getpass
    os.urandom = lambda n: seed[:n]
    misc.time.sleep = lambda n: simdev.CTX.events.append("Z")
    real_dispose = misc.dispose_hsm

    def stop_after_dispose(hsm):
        real_dispose(hsm)
        raise _Stop("onboarded")
    onboard.dispose_hsm = stop_after_dispose
    out = {}
    try:
        buf = io.StringIO()
        try:
            with contextlib.redirect_stdout(buf):
                cmd = inp["cmd"]
                if cmd == "unlock":
                    import admin.unlock as m
                    m.do_unlock(opts)
                elif cmd == "onboard":
                    try:
                        onboard.do_onboard(opts)
                    except _Stop as e:
                        if str(e) != "onboarded":
                            raise
                elif cmd == "changepin":
                    import admin.changepin as m
                    m.do_changepin(opts)
                elif cmd == "pubkeys":
                    pubkeys.do_get_pubkeys(opts)
            out["ok"] = True
            if inp["cmd"] == "pubkeys":
                j = json.load(open(os.path.join(d, "out.json")))
                order = ["m/44'/0'/0'/0/0", "m/44'/137'/0'/0/0", "m/44'/137'/1'/0/0", "m/44'/1'/0'/0/0",
                         "m/44'/1'/1'/0/0", "m/44'/1'/2'/0/0"]
                out["pubkeys"] = [j.get(p) for p in order] if sorted(j.keys()) == sorted(order) else ["?"] * 6
        except AdminError:
            out["ok"] = False
            out["exc"] = "AdminError"
        except _Stop:
            out["ok"] = False
            out["exc"] = "AdminError"          # operator script exhausted: the model reports the same
        except BaseException as e:
            n = type(e).__name__
            out["ok"] = False
            out["exc"] = n if n in mgr.EXC_NAMES else "UNMAPPED:" + n
        out["events"] = list(simdev.CTX.events)
        if inp["cmd"] == "pubkeys":
            import gc
            gc.collect()

            def state(name, sentinel, reader):
                pth = os.path.join(d, name)
                if not os.path.exists(pth):
                    return "intact" if not inp.get("prior_output") else ["<removed>"]
                txt = open(pth).read()
                if inp.get("prior_output") and txt == sentinel:
                    return "intact"
                return reader(txt)

            def txt_paths(t):
                return [tok for line in t.splitlines() for tok in line.split() if tok.startswith("m/")]

            def json_paths(t):
                try:
                    return list(json.loads(t).keys())
                except ValueError:
                    return ["<not json>"]
            out["files"] = {"txt": state("out.txt", SENT_TXT, txt_paths), "json": state("out.json", SENT_JSON, json_paths)}
        minp = dict(inp)
        minp["script"] = [simdev.norm_entry(e) for e in simdev.CTX.recorded]
        if inp["cmd"] == "pubkeys":
            minp["key_norm"] = {e[1].hex(): key_norm(bytes(e[1])) for e in simdev.CTX.recorded
                                if e[0] == "d" and len(e[1]) <= 70}
        return {"__model_input__": minp, "out": out}
    finally:
        sys.stdin, misc.getpass, os.urandom, misc.time.sleep, onboard.dispose_hsm = saved
        shutil.rmtree(d, ignore_errors=True)


PINS = ["abcd1234", "1234567a", "12345678", "abc", "abcdefghi", "abcd123!", "abcd 234", "ábcd1234", "", "ABCDEFGH",
        # non-ASCII characters whose UTF-8 bytes are Latin-1 letters / digits-like (8 bytes in all)
        "abcdef\u00ea", "1234ab\u00b5", "123456\u00aa", "abcdef\u00b2", "\u0661\u0662\u0663\u0664"]


def gen(tier, rng):
    out = []
    keys = {p: certgen.pub65(certgen.rand_key(rng)).hex() for p in
            ["m/44'/0'/0'/0/0", "m/44'/1'/0'/0/0", "m/44'/137'/0'/0/0", "m/44'/137'/1'/0/0", "m/44'/1'/1'/0/0", "m/44'/1'/2'/0/0"]}
    seed = bytes(rng.getrandbits(8) for _ in range(32)).hex()
    for plat, mode, onb, echo in itertools.product(("ledger", "sgx"), (2, 3, 4, 255), (0, 1), (True, False)):
        st = {"mode": mode, "onboarded": onb, "echo_ok": echo}
        base = {"platform": plat, "dev": {"seed": rng.getrandbits(32), "state": st, "policy": {}},
                "device_keys": keys, "seed": seed}
        # onboard
        for pin, any_pin, answers in itertools.product([None] + PINS[:8] + PINS[10:], (False, True),
                                                       (["yes"], ["no"], ["N"], ["maybe", "YES"], ["", "y", "no"], [])):
            if mode != 2 and (pin not in (None, "abcd1234") or answers != ["yes"]):
                continue
            inp = dict(base, cmd="onboard", pin=pin, any_pin=any_pin, stdin=answers,
                       getpass=["bad", "12345678", "123456\u00aa", "abcd1234"] if not any_pin else ["b@d", "1234ab\u00b5", "77"])
            out.append(Case(OP, inp, stream="onboard-" + plat))
        out.append(Case(OP, dict(base, cmd="onboard", pin=None, any_pin=False, stdin=["yes"], getpass=["abcd1234"],
                                 has_output=False), stream="onboard-" + plat))
        # unlock
        for pin, any_pin in itertools.product([None] + PINS, (False, True)):
            if mode != 2 and pin not in (None, "abcd1234"):
                continue
            inp = dict(base, cmd="unlock", pin=pin, any_pin=any_pin, getpass=["wr ong", "1234567a"])
            out.append(Case(OP, inp, stream="unlock-" + plat))
        for st2 in ({"unlock_ok": False}, {"exit_drops_link": False}):
            out.append(Case(OP, dict(base, dev={"seed": 1, "state": dict(st, **st2), "policy": {}}, cmd="unlock",
                                     pin="1234567a", any_pin=False), stream="unlock-" + plat))
        # a fault at every exchange of an unlock whose preconditions hold: once the device has acknowledged the
        # unlock the command must end normally, whatever becomes of the exit that follows
        if mode == 2 and onb == 1 and echo:
            for k in range(0, 20):
                for f in (("t",), ("W",), ("r",), ("w", 0x6E00)):
                    dv = {"seed": rng.getrandbits(32), "state": st, "policy": {"faults": {str(k): list(f)}}}
                    out.append(Case(OP, dict(base, dev=dv, cmd="unlock", pin="1234567a", any_pin=False,
                                             no_exec=bool(k % 2)), stream="unlock-fault-" + plat))
        # changepin
        for new_pin, any_pin, no_unlock in itertools.product([None] + PINS[:8] + PINS[10:], (False, True), (False, True)):
            if mode != 2 and new_pin not in (None, "abcd1234"):
                continue
            inp = dict(base, cmd="changepin", pin="1234567a", new_pin=new_pin, any_pin=any_pin, no_unlock=no_unlock,
                       getpass=["short", "abcdef\u00ea", "abcd5678"] if not any_pin else ["!!", "123456\u00aa", "x1"])
            out.append(Case(OP, inp, stream="changepin-" + plat))
        for res in ("invalid", "error"):
            out.append(Case(OP, dict(base, dev={"seed": 1, "state": dict(st, newpin_result=res), "policy": {}},
                                     cmd="changepin", pin="1234567a", new_pin="abcd1234"), stream="changepin-" + plat))
        # pubkeys
        for no_unlock in (False, True):
            out.append(Case(OP, dict(base, cmd="pubkeys", pin="1234567a", no_unlock=no_unlock), stream="pubkeys-" + plat))
            out.append(Case(OP, dict(base, cmd="pubkeys", pin="1234567a", no_unlock=no_unlock, prior_output=True),
                            stream="pubkeys-" + plat))
        # a fault at every exchange of an export over an earlier one: the files on disk stay whole
        if onb == 1 and echo and mode in (2, 3):
            for k in range(0, 24):
                for f in (("W",), ("t",), ("w", 0x6A8F)):
                    dv = {"seed": rng.getrandbits(32), "state": st, "policy": {"faults": {str(k): list(f)}}}
                    out.append(Case(OP, dict(base, dev=dv, cmd="pubkeys", pin="1234567a", no_unlock=(mode == 3),
                                             prior_output=bool(k % 2 == 0 or mode == 3)),
                                    stream="pubkeys-fault-" + plat))
    if tier == "thorough":
        for _ in range(4000):
            c = rng.choice(out)
            inp = json.loads(json.dumps(c.input))
            inp["stdin"] = [rng.choice(["yes", "no", "n", "Yes", "y", "", "nope", "YES "]) for _ in range(rng.randrange(0, 4))]
            inp["getpass"] = [rng.choice(PINS) for _ in range(rng.randrange(0, 4))]
            inp["dev"]["policy"] = {"faults": {str(rng.randrange(0, 40)): list(rng.choice([("w", 0x6A01), ("t",), ("W",), ("d", ""), ("w", 0x6E00)]))}}
            out.append(Case(OP, inp, stream="random-" + c.meta["stream"]))
    return out


def tags(c, o):
    t = [c.meta.get("stream", "?")]
    if isinstance(o, dict):
        t.append("ok" if o.get("ok") else "refused:" + str(o.get("exc")))
        ev = o.get("events", [])
        if any(e.startswith("A8044") or e.startswith("A80a0") for e in ev):
            t.append("seed-sent")
        if any(e.startswith("A80fe") or e.startswith("A80a3") for e in ev):
            t.append("unlock-sent")
    return t


def nontrivial(c, o):
    return isinstance(o, dict) and "C1" in o.get("events", [])
