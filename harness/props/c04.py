"""C04 — device outcomes map onto the result codes documented for each command."""
import random

from ..core import Case
from .. import reqgen
from . import linegen

PROPERTY = "C04"
OP = "line.C04"
RULE = ("matrix: per command a happy-path run against the simulated device, then at every exchange index of "
        "that run every outcome is injected: quick = every status word that occurs in any table of "
        "ledger/hsm2dongle.py (harvested by introspection) +-1, the boundaries of the device error range, "
        "0x9000/0x61xx/0x6Cxx, 48 random words, timeout, both link errors, an unexpected exception, an "
        "unexpected opcode, a short and an empty answer; thorough = at one exchange of every step kind of every command the "
        "pages 0x6900-0x6DFF complete plus every 257th word, all 65536 words for one step kind of sign and of "
        "advance, plus the quick matrix on larger requests.  non-trivial = the "
        "injected outcome replaced a successful answer; distinct by hash of the canonical case")
ASSUMPTIONS = ["Spec/C04.lean:namedCause is a reading of firmware/src/powhsm/src/{auth.h,bc_err.h} and of the "
               "'Error and success codes' section of docs/protocol.md", "documented code lists are extracted "
               "from docs/protocol.md / protocol-v1.md by the translator"]
TRUSTED = ["harness/powdev.py (simulated device)", "shims/bitcoin"]
EXHAUSTIVE = {"quick": False, "thorough": True}


def worker_init():
    from .. import mgr  # noqa


def run_impl(op, inp):
    from .. import mgr
    return mgr.run_line(inp)


def harvested_statuses():
    import ledger.hsm2dongle as H
    from enum import IntEnum
    vals = set()
    for v in vars(H).values():
        if isinstance(v, type) and issubclass(v, IntEnum) and v is not IntEnum and v.__name__.endswith("Error"):
            for m in v:
                if 0x6000 <= int(m) <= 0xFFFF:
                    vals.update([int(m) - 1, int(m), int(m) + 1])
    vals.update([0x699F, 0x69A0, 0x69A1, 0x6BFE, 0x6BFF, 0x6C00, 0x6CFF, 0x6D00, 0x6D01, 0x9000, 0x9001, 0x6100,
                 0x61FF, 0x6200, 0x6F00, 0x6F01, 0x6E00, 0x6E11, 0x6985, 0x6982, 0x0000, 0xFFFF, 0x6BEE, 0x6BF1])
    return sorted(vals)


def templates(rng, big=False):
    out = []
    for cmd in reqgen.COMMANDS + ["sign-hash"]:
        if cmd == "version":
            continue
        req, fulls = reqgen.valid_request(rng, cmd, big=big)
        out.append((req, fulls, "v5"))
    out.append((reqgen.sign_v1_request(rng), {}, "v1"))
    out.append(({"command": "getPubKey", "version": 1, "keyId": rng.choice(reqgen.PATHS)}, {}, "v1"))
    out.append((reqgen.advance_request(rng, nblocks=2, maxbros=2)[0:2] + ("v5",)))
    return out


def happy_len(req, fulls, mode, devseed, policy):
    from .. import mgr
    inp = {"mode": mode, "line": {"kind": "json", "request": req},
           "dev": {"seed": devseed, "state": {}, "policy": dict(policy)}, "full_coinbases": fulls}
    r = mgr.run_line(inp)
    return len(r["__model_input__"]["script"]), r["__model_input__"]["script"]


def inject_case(rng, req, fulls, mode, devseed, policy, idx, entry, stream, prelude=None):
    pol = dict(policy)
    pol["faults"] = {str(idx): list(entry)}
    inp = {"mode": mode, "line": {"kind": "json", "request": req},
           "dev": {"seed": devseed, "state": {}, "policy": pol}}
    if fulls:
        inp["full_coinbases"] = fulls
    if prelude is not None:
        # the same manager (protocol + dongle objects) served another request before: whatever it left behind in
        # those objects must not change the mapping of this request's outcomes
        inp["prelude"] = {"request": prelude[0], "faults": {}}
        inp["full_coinbases"] = dict(fulls or {}, **(prelude[1] or {}))
    return Case(OP, inp, stream=stream, command=req.get("command"), index=idx,
                entry=entry[0] + (":%04x" % entry[1] if entry[0] == "w" else ""))


def gen(tier, rng):
    out = []
    stats = harvested_statuses()
    others = [("t",), ("W",), ("r",), ("x",), ("d", ""), ("d", "80"), ("d", "8002"), ("d", "800255"),
              ("d", "80025505"), ("d", "80ff"), ("d", "800281"), ("d", "8002813000")]
    rounds = 1 if tier == "quick" else 3
    for rnd in range(rounds):
        for req, fulls, mode in templates(rng, big=(rnd == 2)):
            devseed = rng.getrandbits(32)
            policy = {"sizes": rng.choice([255, 100, 32])}
            n, script = happy_len(req, fulls, mode, devseed, policy)
            out.append(inject_case(rng, req, fulls, mode, devseed, policy, 10 ** 6, ("t",), "happy"))
            idxs = list(range(n))
            if tier == "quick" and n > 14:
                idxs = sorted(set(idxs[:8] + idxs[-4:] + rng.sample(idxs, 4)))
            for i in idxs:
                palette = list(stats) + [rng.randrange(0x10000) for _ in range(48 if tier == "thorough" else 12)]
                if tier == "quick":
                    palette = rng.sample(stats, 40) + [0x69A0, 0x6BFF, 0x6D00, 0x6C00, 0x699F, 0x9000, 0x6F00,
                                                       0x6A8F, 0x6B9A, 0x6B9C, 0x6B95, 0x6B88, 0x6B9E, 0x6A8D,
                                                       0x6A8A, 0x6A94, 0x6A87]
                for sw in palette:
                    out.append(inject_case(rng, req, fulls, mode, devseed, policy, i, ("w", sw), "status"))
                for e in others:
                    out.append(inject_case(rng, req, fulls, mode, devseed, policy, i, e, "outcome"))
                # status-OK answers that are NOT the well-formed answer of this step: the happy answer with its
                # operation byte changed, cut short, or extended
                ent = script[i] if i < len(script) else ""
                if isinstance(ent, str) and ent.startswith("d") and len(ent) >= 7:
                    good = bytes.fromhex(ent[1:])
                    muts = set()
                    for opb in (good[2] ^ 1, good[2] ^ 0x80, 0, 0xFF):
                        muts.add(good[:2] + bytes([opb & 0xFF]) + good[3:])
                    for cut in (3, 4, len(good) - 1, len(good) - 2):
                        if 0 < cut < len(good):
                            muts.add(good[:cut])
                    muts.add(good + b"\x00")
                    if len(good) > 3:
                        muts.add(good[:3] + bytes([good[3] ^ 0xFF]) + good[4:])
                    for mb in sorted(muts):
                        if mb != good:
                            out.append(inject_case(rng, req, fulls, mode, devseed, policy, i, ("d", mb.hex()), "malformed-ok"))
            # …and after the manager served another command (block operations: after the other block operation)
            if mode == "v5":
                cmd = req.get("command")
                other = {"advanceBlockchain": "updateAncestorBlock", "updateAncestorBlock": "advanceBlockchain"}.get(
                    cmd) or rng.choice([c for c in reqgen.COMMANDS if c not in ("version", cmd)])
                pre = reqgen.valid_request(rng, other)
                named = [0x6A8F, 0x6B9A, 0x6B9C, 0x6B95, 0x6B88, 0x6B9E, 0x6A8D, 0x6A8A, 0x6A94, 0x6A87, 0x6B8C, 0x6B90,
                         0x6BA0, 0x6B87, 0x69A0]
                pidx = idxs if cmd in ("advanceBlockchain", "updateAncestorBlock") else idxs[:2] + idxs[-1:]
                for i in sorted(set(pidx)):
                    for sw in named + rng.sample(stats, 6):
                        out.append(inject_case(rng, req, fulls, mode, devseed, policy, i, ("w", sw), "after-other",
                                               prelude=pre))
    if tier == "thorough":
        # every status word at one exchange of every step kind.  All 65536 words for one step kind of sign and of
        # advance; for every other (command, step kind) the pages 0x6900-0x6DFF complete, every harvested table
        # word +-1 and every 257th word of the rest (the theorems cover all words in the
        # model; this ties the model's classification to the code's on a grid that fits in memory)
        page = list(range(0x6900, 0x6E00)) + [0x9000, 0x9001, 0x6F00, 0x6100, 0x6C00]
        sparse = sorted(set(page) | set(stats) | set(range(0, 0x10000, 257)))
        full_done = set()
        for req, fulls, mode in templates(rng):
            devseed = rng.getrandbits(32)
            policy = {"sizes": 255}
            n, script = happy_len(req, fulls, mode, devseed, policy)
            seen = set()
            for i in range(n):
                # step kind = (cmd byte, op byte) of the APDU answered; recover it from a dry run
                kind = script[i][:8]
                if (req.get("command"), i if i < 3 else kind) in seen:
                    continue
                seen.add((req.get("command"), i if i < 3 else kind))
                if len(seen) > 7:
                    break
                fam = (req.get("command"), mode)
                words = sparse
                if i >= 3 and fam not in full_done and req.get("command") in ("sign", "advanceBlockchain"):
                    full_done.add(fam)
                    words = range(0x10000)
                for sw in words:
                    out.append(inject_case(rng, req, fulls, mode, devseed, policy, i, ("w", sw), "all-status"))
    return out


def tags(c, o):
    t = [c.meta.get("stream", "?"), "cmd:%s" % c.meta.get("command")]
    if isinstance(o, dict) and isinstance(o.get("reply"), dict):
        t.append("code:%s" % o["reply"].get("errorcode"))
        if o.get("shutdown"):
            t.append("shutdown")
    return t


def nontrivial(c, o):
    return c.meta.get("stream") != "happy"
