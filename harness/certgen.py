"""Version-1 (Ledger) attestation certificates with real secp256k1 keys, built with the `ecdsa`
package (the code under test uses the `secp256k1` binding), and an independent per-link
validity oracle (ECDSA over SHA-256, certifier key tweaked by HMAC-SHA256(tweak, key)·G)."""
import hashlib
import hmac

import ecdsa
from ecdsa.curves import SECP256k1
from ecdsa.ellipticcurve import Point
from ecdsa.util import sigencode_der_canonize, sigdecode_der

G = SECP256k1.generator
N = SECP256k1.order
VALID_NAMES = ["device", "attestation", "ui", "signer"]


def rand_key(rng):
    return ecdsa.SigningKey.from_secret_exponent(rng.randrange(1, N), curve=SECP256k1, hashfunc=hashlib.sha256)


def pub65(sk_or_vk):
    vk = sk_or_vk.get_verifying_key() if isinstance(sk_or_vk, ecdsa.SigningKey) else sk_or_vk
    return b"\x04" + vk.to_string()


def tweaked_priv(sk, tweak_hex):
    t = int.from_bytes(hmac.new(bytes.fromhex(tweak_hex), pub65(sk), hashlib.sha256).digest(), "big")
    return ecdsa.SigningKey.from_secret_exponent((sk.privkey.secret_multiplier + t) % N, curve=SECP256k1,
                                                 hashfunc=hashlib.sha256)


def sign(sk, msg, rng):
    k = rng.randrange(1, N)
    return sk.sign_deterministic(msg, hashfunc=hashlib.sha256, sigencode=sigencode_der_canonize) \
        if rng.random() < 0.5 else sk.sign(msg, k=k, hashfunc=hashlib.sha256, sigencode=sigencode_der_canonize)


EXTRACT = {"device": lambda b: b[-65:], "attestation": lambda b: b[1:], "ui": lambda b: b[:], "signer": lambda b: b[:]}


def parse_pub(b):
    """65-byte uncompressed / 33-byte compressed point -> VerifyingKey or None (as libsecp256k1)"""
    try:
        if len(b) == 65 and b[0] == 4:
            return ecdsa.VerifyingKey.from_string(b[1:], curve=SECP256k1, hashfunc=hashlib.sha256)
        if len(b) == 33 and b[0] in (2, 3):
            return ecdsa.VerifyingKey.from_string(b, curve=SECP256k1, hashfunc=hashlib.sha256)
        if len(b) == 65 and b[0] in (6, 7):   # hybrid encoding: libsecp256k1 accepts it
            vk = ecdsa.VerifyingKey.from_string(b[1:], curve=SECP256k1, hashfunc=hashlib.sha256)
            if (vk.pubkey.point.y() & 1) == (b[0] & 1):
                return vk
        return None
    except Exception:
        return None


def link_valid(elem, certifier_pub65):
    """independent re-implementation of the property's per-link condition"""
    try:
        vk = parse_pub(certifier_pub65)
        if vk is None:
            return False
        msg = bytes.fromhex(elem["message"])
        if elem.get("tweak") is not None:
            ser = b"\x04" + vk.to_string()
            t = int.from_bytes(hmac.new(bytes.fromhex(elem["tweak"]), ser, hashlib.sha256).digest(), "big")
            if t >= N:
                return False
            pt = vk.pubkey.point + G * t
            if pt == ecdsa.ellipticcurve.INFINITY:
                return False
            vk = ecdsa.VerifyingKey.from_public_point(pt, curve=SECP256k1, hashfunc=hashlib.sha256)
        sig = bytes.fromhex(elem["signature"])
        r, s = sigdecode_der(sig, N)
        if not (0 < r < N and 0 < s <= N // 2):      # libsecp256k1 only verifies low-S signatures
            return False
        return vk.verify(sig, msg, hashfunc=hashlib.sha256, sigdecode=sigdecode_der)
    except Exception:
        return False


def _verify_under(vk, elem):
    try:
        if vk is None:
            return False
        sig = bytes.fromhex(elem["signature"])
        r, s = sigdecode_der(sig, N)
        if not (0 < r < N and 0 < s <= N // 2):      # libsecp256k1 only verifies low-S signatures
            return False
        return bool(vk.verify(sig, bytes.fromhex(elem["message"]), hashfunc=hashlib.sha256, sigdecode=sigdecode_der))
    except Exception:
        return False


def link_facts(elem, certifier_pub65):
    """the primitive facts about one version-1 link, for the Lean model `Cert.linkValid` to combine: whether
    the element declares a tweak, whether its signature verifies under the certifier's key, and whether it
    verifies under that key tweaked by HMAC-SHA256(tweak, key)·G"""
    f = {"kind": "v1", "tweaked": elem.get("tweak") is not None, "sig_ok": False, "sig_ok_tweaked": False}
    try:
        vk = parse_pub(certifier_pub65)
        f["sig_ok"] = _verify_under(vk, elem)
        if vk is not None and elem.get("tweak") is not None:
            ser = b"\x04" + vk.to_string()
            t = int.from_bytes(hmac.new(bytes.fromhex(elem["tweak"]), ser, hashlib.sha256).digest(), "big")
            if t < N:
                pt = vk.pubkey.point + G * t
                if pt != ecdsa.ellipticcurve.INFINITY:
                    tvk = ecdsa.VerifyingKey.from_public_point(pt, curve=SECP256k1, hashfunc=hashlib.sha256)
                    f["sig_ok_tweaked"] = _verify_under(tvk, elem)
    except Exception:
        pass
    return f


def genuine_chain(rng, depth=None, tweaks=True):
    """root key + elements device <- attestation <- {ui, signer}; returns (root_sk, elements, keys)"""
    root = rand_key(rng)
    dev, att = rand_key(rng), rand_key(rng)
    els = []
    dev_msg = bytes(rng.getrandbits(8) for _ in range(rng.choice([0, 1, 10, 40]))) + pub65(dev)
    els.append({"name": "device", "message": dev_msg.hex(), "signature": sign(root, dev_msg, rng).hex(),
                "signed_by": "root"})
    # the attestation message is one header byte followed by the key, in any encoding the library reads;
    # now and then a longer header, after which `msg[1:]` is no key at all
    r = rng.random()
    if r < 0.7:
        att_msg = b"\xff" + pub65(att)
    elif r < 0.85:
        att_msg = b"\xff" + att.get_verifying_key().to_string("compressed")
    else:
        att_msg = bytes(rng.getrandbits(8) for _ in range(rng.choice([2, 3, 9]))) + pub65(att)
    els.append({"name": "attestation", "message": att_msg.hex(), "signature": sign(dev, att_msg, rng).hex(),
                "signed_by": "device"})
    for name in ("ui", "signer"):
        msg = bytes(rng.getrandbits(8) for _ in range(rng.choice([8, 50, 120])))
        e = {"name": name, "message": msg.hex(), "signed_by": "attestation"}
        if tweaks and rng.random() < 0.7:
            e["tweak"] = bytes(rng.getrandbits(8) for _ in range(32)).hex()
            e["signature"] = sign(tweaked_priv(att, e["tweak"]), msg, rng).hex()
        else:
            e["signature"] = sign(att, msg, rng).hex()
        els.append(e)
    return root, els, {"device": dev, "attestation": att}
