"""Structured request generators (built from the documented formats by construction, never by
parsing) and the field-mutation matrix."""
import copy

from . import btcgen as g
from . import powdev

PATHS = powdev.ALL_PATHS


# ------------------------------------------------------------------ RLP (independent encoder)
def rlp_len_prefix(n, off):
    if n < 56:
        return bytes([off + n])
    lb = n.to_bytes((n.bit_length() + 7) // 8, "big")
    return bytes([off + 55 + len(lb)]) + lb


class Raw:
    """an already-encoded RLP item"""

    def __init__(self, b):
        self.b = b


def nest_bytes(depth):
    """RLP encoding of [[[…[]…]]] nested `depth` times, built without recursion"""
    x = b"\xc0"
    for _ in range(depth):
        x = rlp_len_prefix(len(x), 0xC0) + x
    return Raw(x)


def rlp_enc(x):
    if isinstance(x, Raw):
        return x.b
    if isinstance(x, (bytes, bytearray)):
        x = bytes(x)
        if len(x) == 1 and x[0] < 0x80:
            return x
        return rlp_len_prefix(len(x), 0x80) + x
    payload = b"".join(rlp_enc(i) for i in x)
    return rlp_len_prefix(len(payload), 0xC0) + payload


def rand_coinbase(rng):
    """(compressed coinbase as carried by the header, full coinbase)"""
    n = rng.choice([64, 65, 100, 128, 129, 200, 300, 1000, rng.randrange(64, 4000)])
    full = g.rand_bytes(rng, n)
    nb = rng.randrange(1, n // 64 + 1) if n >= 64 else 0
    if n % 64 == 0 and nb == n // 64 and rng.random() < 0.5:
        nb -= 1
    nb = max(nb, 1) if n > 64 else max(nb, 1)
    if 64 * nb > n:
        nb = n // 64
    return powdev.compress_coinbase(full, nb), full


def enc_len(b):
    """length of the RLP encoding of the byte string b"""
    return len(rlp_enc(b))


def field_of_enc_len(rng, n):
    """a byte string whose RLP encoding is exactly n bytes long (None when no string has that length)"""
    if n < 1:
        return None
    if n == 1:
        return rng.choice([b"", bytes([rng.randrange(0, 0x80)])])
    if n == 2:
        return bytes([rng.randrange(0x80, 0x100)])
    for hdr in (1, 2, 3, 4):
        L = n - hdr
        if L >= 0 and len(rlp_len_prefix(L, 0x80)) == hdr and L != 1:
            return g.rand_bytes(rng, L)
    return None


BOUNDARY_PAYLOADS = [54, 55, 56, 57, 58, 255, 256, 257, 65535, 65536, 65537]


def boundary_header(rng, nfields, target):
    """a header of `nfields` fields whose payload WITHOUT the merge-mining fields is exactly `target` bytes of
    RLP (the size announced to the device sits on an RLP length-form boundary); fields are tiny except one"""
    kept = nfields - 3 if nfields in (19, 20) else nfields - 1
    while True:
        fields = [rng.choice([b"", bytes([rng.randrange(256)]), g.rand_bytes(rng, rng.choice([2, 3]))])
                  for _ in range(kept)]
        k = rng.randrange(kept)
        rest = sum(enc_len(f) for i, f in enumerate(fields) if i != k)
        f = field_of_enc_len(rng, target - rest)
        if f is not None:
            fields[k] = f
            break
    assert sum(enc_len(f) for f in fields) == target
    full = None
    if nfields in (19, 20):
        fields.append(g.rand_bytes(rng, 80))
        fields.append(g.rand_bytes(rng, 32 * rng.randrange(0, 3)))
        cb, full = rand_coinbase(rng)
        fields.append(cb)
    else:
        fields.append(g.rand_bytes(rng, rng.choice([0, 1, 8])))
    assert len(fields) == nfields
    return rlp_enc(fields), (fields[-1], full) if nfields in (19, 20) else None


def rand_header(rng, nfields=None, big=False, boundary=0.0):
    """RSK block header as an RLP list of 17..20 fields; returns (raw, full_coinbase or None)"""
    nf = nfields if nfields is not None else rng.choice([19, 19, 20, 20, 17, 18])
    if boundary and rng.random() < boundary:
        return boundary_header(rng, nf, rng.choice(BOUNDARY_PAYLOADS[:8] if not big else BOUNDARY_PAYLOADS))
    sizes = [32, 32, 20, 32, 32, 32, 256, rng.choice([1, 2, 8]), rng.choice([1, 3, 4]), 4, 4, 4,
             rng.choice([0, 1, 5, 55, 56, 60]), rng.choice([0, 1, 3]), 1, rng.choice([0, 1, 32])]
    fields = []
    for s in sizes:
        if s == 1:
            fields.append(bytes([rng.choice([0, 1, 0x7f, 0x80, 0xff])]))
        else:
            fields.append(g.rand_bytes(rng, s))
    if big and rng.random() < 0.5:
        fields[6] = g.rand_bytes(rng, rng.choice([255, 256, 1000, 65535, 66000]))
    full = None
    if nf in (18, 20):
        fields.append(g.rand_bytes(rng, rng.choice([0, 20, 32])))     # umm root
    if nf in (19, 20):
        fields.append(g.rand_bytes(rng, 80))                           # btc mm header
        fields.append(g.rand_bytes(rng, 32 * rng.randrange(0, 6)))     # merkle proof
        cb, full = rand_coinbase(rng)
        fields.append(cb)
    else:
        fields.append(g.rand_bytes(rng, rng.choice([0, 1, 8])))        # a 17th field
    assert len(fields) == nf, (len(fields), nf)
    return rlp_enc(fields), (fields[-1], full) if nf in (19, 20) else None


# ------------------------------------------------------------------ requests
def sign_auth_request(rng, path=None, segwit=None, big=False, version=5):
    tx = g.rand_tx(rng, big=big)
    raw = g.ser_tx(tx)
    segwit = rng.random() < 0.5 if segwit is None else segwit
    msg = {"tx": raw.hex(), "input": rng.choice([0, 0, 1, 2, 0xffffffff, rng.getrandbits(32)]),
           "sighashComputationMode": "segwit" if segwit else "legacy"}
    if segwit:
        msg["witnessScript"] = g.rand_bytes(rng, rng.choice([1, 35, 71, 105, 252, 253, 300] + ([65000] if big else []))).hex()
        msg["outpointValue"] = rng.choice([1, 2, 0xffffffffffffffff, rng.getrandbits(64) or 1, rng.getrandbits(40) or 1])
    nnodes = rng.choice([1, 2, 3, 5] + ([255] if big else []))
    proof = [g.rand_bytes(rng, rng.choice([1, 32, 33, 100, 255] if not big else [255, 200])).hex() for _ in range(nnodes)]
    return {"command": "sign", "version": version, "keyId": path or rng.choice(powdev.AUTH_PATHS),
            "message": msg,
            "auth": {"receipt": g.rand_bytes(rng, rng.choice([1, 50, 200, 600] + ([2000] if big else []))).hex(),
                     "receipt_merkle_proof": proof}}


def sign_hash_request(rng, path=None, version=5):
    return {"command": "sign", "version": version, "keyId": path or rng.choice(powdev.NOAUTH_PATHS),
            "message": {"hash": g.rand_bytes(rng, 32).hex()}}


def sign_v1_request(rng, path=None):
    return {"command": "sign", "version": 1, "keyId": path or rng.choice(powdev.NOAUTH_PATHS),
            "message": g.rand_bytes(rng, 32).hex()}


def advance_request(rng, nblocks=None, maxbros=3, big=False, boundary=0.0):
    n = nblocks if nblocks is not None else rng.choice([1, 1, 2, 3, 5])
    blocks, bros, fulls = [], [], {}
    for _ in range(n):
        raw, cb = rand_header(rng, nfields=rng.choice([19, 20]), big=big, boundary=boundary)
        blocks.append(raw.hex())
        fulls[cb[0].hex()] = cb[1].hex()
        bl = []
        for _ in range(rng.randrange(0, maxbros + 1)):
            r2, cb2 = rand_header(rng, nfields=rng.choice([19, 20]), boundary=boundary)
            bl.append(r2.hex())
            fulls[cb2[0].hex()] = cb2[1].hex()
        bros.append(bl)
    return {"command": "advanceBlockchain", "version": 5, "blocks": blocks, "brothers": bros}, fulls


def update_request(rng, nblocks=None, big=False, boundary=0.0):
    n = nblocks if nblocks is not None else rng.choice([1, 1, 2, 3, 5])
    blocks, fulls = [], {}
    for _ in range(n):
        raw, cb = rand_header(rng, big=big, boundary=boundary)
        blocks.append(raw.hex())
        if cb:
            fulls[cb[0].hex()] = cb[1].hex()
    return {"command": "updateAncestorBlock", "version": 5, "blocks": blocks}, fulls


def simple_request(rng, command):
    r = {"command": command, "version": 5}
    if command == "getPubKey":
        r["keyId"] = rng.choice(PATHS)
    if command == "signerHeartbeat":
        r["udValue"] = g.rand_bytes(rng, 16).hex()
    if command == "uiHeartbeat":
        r["udValue"] = g.rand_bytes(rng, 32).hex()
    return r


COMMANDS = ["version", "sign", "getPubKey", "advanceBlockchain", "resetAdvanceBlockchain",
            "blockchainState", "updateAncestorBlock", "blockchainParameters", "signerHeartbeat",
            "uiHeartbeat"]


def valid_request(rng, command=None, big=False):
    """(request, full_coinbases) for any of the ten commands"""
    c = command or rng.choice(COMMANDS + ["sign", "sign-hash"])
    if c == "sign":
        return sign_auth_request(rng, big=big), {}
    if c == "sign-hash":
        return sign_hash_request(rng), {}
    if c == "advanceBlockchain":
        return advance_request(rng, big=big)
    if c == "updateAncestorBlock":
        return update_request(rng, big=big)
    if c == "version":
        return ({"command": "version"} if rng.random() < 0.5 else {"command": "version", "version": 5}), {}
    return simple_request(rng, c), {}


# ------------------------------------------------------------------ mutation matrix
MUT_VALUES = [None, True, False, 0, -1, 1, 5, 2 ** 32 - 1, 2 ** 32, 2 ** 64 - 1, 2 ** 64, 5.0, 5.5, float("nan"),
              "", "zz", "abc", "ab cd", " abcd", "a b", "AB", "0x" + "ab" * 32, "0x" + "ab" * 16, "0X" + "ab" * 16, "0x" + "ab" * 31, "0x", "0xab", "ab" * 15, "ab" * 16, "ab" * 17,
              "ab" * 31, "ab" * 32, "ab" * 33, [], [[]], [""], ["ab"], {}, {"a": 1}, "legacy", "segwit", "Legacy",
              "m/44'/0'/0'/0/0", "m/44'/0'/0'/0", "m/44'/0'/0'/0/0/0", "m/44'/0'/0'/0/2147483648", "m/44'/0'/0'/0/-1",
              "m/٤٤'/0'/0'/0/0", "m/44''/0'/0'/0/0", "m//0'/0'/0/0", "44'/0'/0'/0/0", "m/44'/0'/0'/0/0'",
              # strings of Unicode decimal digits / full-width letters: hex to a careless regex, not to bytes.fromhex
              "\u0660\u0661\u0662\u0663", "\u0661\u0662" * 32, "\uff11\uff12", "\uff41\uff42", "ab\u0660\u0661", "\u0661\u0662" * 16,
              # the nominal width of a 32- / 16-byte hex field, but with blanks that bytes.fromhex skips
              "ab" * 31 + "  ", "ab" * 15 + "  ", " " * 64, " " * 32, "ab" * 30 + " ab ", "ab " * 21 + "a",
              "version", "sign", "nope", 2147483647, 2147483648, 4294967295, 4294967296, 18446744073709551615,
              18446744073709551616]
ABSENT = object()
# literals harvested from changed source functions (harness/fingerprint.py); empty on the recorded tree
EXTRA_VALUES = []
# always tried, even when the matrix is sampled
PRIORITY = [None, "", "zz", [], {}, True, -1, 2 ** 32, "0x" + "ab" * 16, "0x" + "ab" * 32, "ab cd", 5.0, "\u0660\u0661\u0662\u0663",
            "ab" * 31 + "  ", "ab" * 15 + "  "]


def paths_of(v, prefix=()):
    """all field paths of a JSON value (dict keys and list indices)"""
    out = [prefix]
    if isinstance(v, dict):
        for k in v:
            out += paths_of(v[k], prefix + (k,))
    elif isinstance(v, list):
        for i, x in enumerate(v[:3]):
            out += paths_of(x, prefix + (i,))
    return out


def set_path(v, path, val):
    v = copy.deepcopy(v)
    if not path:
        return val
    cur = v
    for p in path[:-1]:
        cur = cur[p]
    last = path[-1]
    if val is ABSENT:
        if isinstance(cur, dict):
            del cur[last]
        else:
            del cur[last]
    else:
        cur[last] = val
    return v


def mutations(req, rng, per_path=None, extra_values=()):
    """single-field mutations of `req`: every path x every palette value (or a sample)"""
    vals = MUT_VALUES + list(extra_values) + list(EXTRA_VALUES)
    for path in paths_of(req):
        if not path:
            continue
        choices = [ABSENT] + vals
        if per_path is not None:
            choices = [ABSENT] + PRIORITY + list(EXTRA_VALUES) + rng.sample(vals, min(per_path, len(vals)))
        for val in choices:
            yield path, ("<absent>" if val is ABSENT else val), set_path(req, path, val)
    # extra keys
    if isinstance(req, dict):
        r = copy.deepcopy(req)
        r["extra"] = 1
        yield ("extra",), 1, r
        # a documented field of this or another request shape, added where the template does not have it
        # (e.g. `auth` on a hash signature): every palette value, null included
        for key in ("auth", "message", "keyId", "blocks", "brothers", "udValue", "version"):
            if key not in req:
                choices = vals if per_path is None else PRIORITY + list(EXTRA_VALUES) + rng.sample(vals, min(per_path, len(vals)))
                for val in choices:
                    r = copy.deepcopy(req)
                    r[key] = val
                    yield (key,), val, r
        if isinstance(req.get("message"), dict):
            r = copy.deepcopy(req)
            r["message"]["extra"] = "x"
            yield ("message", "extra"), "x", r


NON_OBJECTS = [None, True, 0, 5, 5.0, "", "sign", [], [1], [{}], [{"command": "version"}]]
