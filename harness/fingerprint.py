"""Normalised-AST fingerprints of the functions each property is anchored in (DESIGN §3.2).

`fingerprints.json` (committed, written by `tools/record_fingerprints.py` on the clean tree) holds,
per anchored source file, a hash of every function / method (docstrings and positions removed).
On every run the check recomputes them.  A changed fingerprint is NOT a violation: it makes the
check look harder — the correspondence streams are run with extra seeds, and the literals that are
new in the changed functions are added (integers also +-1) to the mutation palettes."""
import ast
import hashlib
import json
import os

HERE = os.path.dirname(os.path.abspath(__file__))
VERIF = os.path.dirname(HERE)
STORE = os.path.join(HERE, "fingerprints.json")


def _repo():
    return os.environ.get("REPO_ROOT", "/repo")


def anchor_files(pid):
    out = []
    for line in open(os.path.join(VERIF, "properties.jsonl")):
        p = json.loads(line)
        if p["id"] == pid:
            out = [f for f in p["anchors"]["files"] if f.endswith(".py")]
    return out


def all_anchor_files():
    fs = set()
    for line in open(os.path.join(VERIF, "properties.jsonl")):
        p = json.loads(line)
        fs.update(f for f in p["anchors"]["files"] if f.endswith(".py"))
    return sorted(fs)


def _strip_doc(node):
    body = getattr(node, "body", None)
    if isinstance(body, list) and body and isinstance(body[0], ast.Expr) and \
            isinstance(getattr(body[0], "value", None), ast.Constant) and isinstance(body[0].value.value, str):
        node.body = body[1:] or [ast.Pass()]


def functions_of(path):
    """{qualified name: (hash, literals)} for every function / method, plus '<module>' for module-level code"""
    try:
        tree = ast.parse(open(path).read())
    except (OSError, SyntaxError):
        return {}
    out = {}

    def visit(node, prefix):
        for ch in ast.iter_child_nodes(node):
            if isinstance(ch, (ast.FunctionDef, ast.AsyncFunctionDef)):
                q = prefix + ch.name
                for n in ast.walk(ch):
                    _strip_doc(n)
                dump = ast.dump(ch, annotate_fields=True, include_attributes=False)
                lits = set()
                for n in ast.walk(ch):
                    if isinstance(n, ast.Constant) and isinstance(n.value, (int, str)) and not isinstance(n.value, bool):
                        lits.add(n.value)
                out[q] = (hashlib.sha1(dump.encode()).hexdigest(), lits)
                visit(ch, q + ".")
            elif isinstance(ch, ast.ClassDef):
                visit(ch, prefix + ch.name + ".")
    visit(tree, "")
    # module / class level statements (constants, tables, enum members)
    top = []
    for n in ast.walk(tree):
        if isinstance(n, (ast.Module, ast.ClassDef)):
            for st in n.body:
                if not isinstance(st, (ast.FunctionDef, ast.AsyncFunctionDef, ast.ClassDef, ast.Import, ast.ImportFrom)):
                    if isinstance(st, ast.Expr) and isinstance(st.value, ast.Constant) and isinstance(st.value.value, str):
                        continue
                    top.append(ast.dump(st, include_attributes=False))
    lits = set()
    out["<module>"] = (hashlib.sha1("\n".join(top).encode()).hexdigest(), lits)
    return out


def current(files):
    res = {}
    for f in files:
        res[f] = {q: h for q, (h, _l) in functions_of(os.path.join(_repo(), f)).items()}
    return res


def record():
    data = current(all_anchor_files())
    with open(STORE, "w") as f:
        json.dump(data, f, indent=0, sort_keys=True)
    return sum(len(v) for v in data.values())


def changed(pid):
    """[(file, qualified name, 'changed'|'new'|'removed')] among the files `pid` is anchored in, and the
    literals that occur in changed / new functions but nowhere in the recorded state of the same name"""
    try:
        rec = json.load(open(STORE))
    except (OSError, ValueError):
        return [], []
    diffs, lits = [], set()
    for f in anchor_files(pid):
        cur = functions_of(os.path.join(_repo(), f))
        old = rec.get(f, {})
        for q, (h, ls) in cur.items():
            if q not in old:
                diffs.append((f, q, "new"))
                lits |= ls
            elif old[q] != h:
                diffs.append((f, q, "changed"))
                lits |= ls
        for q in old:
            if q not in cur:
                diffs.append((f, q, "removed"))
    palette = []
    for v in sorted(lits, key=repr):
        if isinstance(v, int):
            if abs(v) < 2 ** 70:
                palette += [v - 1, v, v + 1]
        elif isinstance(v, str) and len(v) <= 80:
            palette.append(v)
    return diffs, palette
