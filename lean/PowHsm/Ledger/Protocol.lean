/-
  `ledger/protocol.py` + `ledger/protocol_v1.py` + the dispatch of `comm/protocol.py` +
  the line handling of `comm/server.py`: the whole manager as a function of the request
  and of the scripted environment.
-/
import PowHsm.Comm.Validate
import PowHsm.Dongle.Blocks
import PowHsm.Dongle.State
namespace PowHsm
namespace Ledger
open Generated Tbl Dongle Comm

/-! ### state accessors -/
def getWorld : M World := fun w => ⟨.ok w, [], w⟩
def modifyWorld (f : World → World) : M Unit := fun w => ⟨.ok (), [], f w⟩
def setCommIssue (b : Bool) : M Unit := modifyWorld fun w => { w with commIssue := b }

/-! ### `FileBasedPin` as used by the protocol (`None` ⇒ AttributeError) -/
def pinObj : M PinSt := do
  match (← getWorld).pin with
  | some p => pure p
  | none => M.throw' .attributeError
def setPin (p : PinSt) : M Unit := modifyWorld fun w => { w with pin := some p }

def pinStartChange : M Unit := do
  let p ← pinObj
  if p.changing || !p.needsChange then pure ()
  else do
    let w ← getWorld
    let np := w.genPins.headD []
    modifyWorld fun w => { w with genPins := w.genPins.drop 1 }
    setPin { p with changing := true, newPin := some np }

def pinGetNew : M (Option Bytes) := do
  let p ← pinObj
  pure (if p.changing then p.newPin else none)

def pinCommit : M Unit := do
  let p ← pinObj
  if !p.changing then pure ()
  else do
    let w ← getWorld
    let ok := w.fsOk.headD true
    modifyWorld fun w => { w with fsOk := w.fsOk.drop 1 }
    M.emit (.fileWrite (p.newPin.getD []) ok)
    if !ok then M.throw' .pinError
    else setPin { pin := p.newPin.getD [], needsChange := false, changing := false, newPin := none }

def pinAbort : M Unit := do
  let p ← pinObj
  if !p.changing then pure () else setPin { p with newPin := none, changing := false }

/-! ### platform-specific device commands (sgx/hsm2dongle.py) -/
def platEcho : M Bool := do
  match (← getWorld).platform with
  | .sgx =>
    let msg : Bytes := [0x41, 0x42, 0x43]
    let r ← sendCommand (u8 SgxCommand_SGX_ECHO) msg
    pure (r == Dongle.CLA :: u8 SgxCommand_SGX_ECHO :: msg)
  | _ => echo

def platRetries : M Nat := do
  match (← getWorld).platform with
  | .sgx =>
    let r ← sendCommand (u8 SgxCommand_SGX_RETRIES)
    let a ← idx r 2
    pure a.toNat
  | _ => getRetries

def platUnlock (pin : Bytes) : M Bool := do
  match (← getWorld).platform with
  | .sgx =>
    let r ← sendCommand (u8 SgxCommand_SGX_UNLOCK) (0 :: pin)
    let b ← idx r 2
    pure (b != 0)
  | _ => unlock pin

def platNewPin (pin : Bytes) : M Bool := do
  match (← getWorld).platform with
  | .sgx =>
    let r ← sendCommand (u8 SgxCommand_SGX_CHANGE_PASSWORD) (0 :: pin)
    let b ← idx r 2
    pure (b == 1)
  | _ => newPin pin

/-! ### bring-up -/

/-- `HSM2FirmwareVersion.supports` -/
def supports (mw fw : Nat × Nat × Nat) : Bool :=
  mw.1 == fw.1 && mw.2.1 ≥ fw.2.1 && (mw.2.1 > fw.2.1 || mw.2.2 ≥ fw.2.2)

def checkVersion (fw mw : Nat × Nat × Nat) : M Unit :=
  if supports mw fw then pure () else M.throw' .protoError

def waitAndReconnect : M Unit := do
  M.emit .sleep
  disconnect
  connect

/-- the checks of `_handle_bootloader` that precede the unlock; returns what the device reported:
    (UI version, echo matched, PIN retries left) -/
def blGuards : M ((Nat × Nat × Nat) × Bool × Nat) := do
  let v ← getVersion
  checkVersion v UI_VERSION
  let e ← platEcho
  if !e then M.throw' .protoError else
  -- retries: any dongle error ⇒ interrupt
  let r ← M.tryCatchIf
    (do let r ← platRetries
        if r < MIN_AVAILABLE_RETRIES then M.throw' .protoInterrupt else pure r)
    Exc.isDongleBase (fun _ => M.throw' .protoInterrupt)
  pure (v, e, r)

/-- what follows a successful unlock: the pending PIN change (after which the manager stops), or
    leaving the bootloader -/
def blAfterUnlock : M Unit := do
  let p ← pinObj
  if p.needsChange then do
    -- try: ... except Exception: abort ... finally: raise Interrupt
    let r ← M.attempt (do
      pinStartChange
      match ← pinGetNew with
      | none => M.throw' .typeError          -- `bytes([len(None)])`
      | some np =>
        if !(← platNewPin np) then M.throw' .exception
        else pinCommit)
    match r with
    | .ok _ => pure ()
    | .error _ => pinAbort
    M.throw' .protoInterrupt
  else do
    let _ ← M.attempt (exitMenu true)       -- `except Exception: pass`
    waitAndReconnect

/-- `_handle_bootloader` -/
def handleBootloader : M Unit := do
  let _ ← blGuards
  let p ← pinObj
  if !(← platUnlock p.pin) then M.throw' .protoError else blAfterUnlock

/-- `initialize_device` up to the mode dispatch; returns (onboarded, mode) as the device reported -/
def initGuards : M (Bool × Nat) := do
  M.tryCatchIf connect Exc.isDongleBase (fun _ => M.throw' .protoError)
  let o ← M.tryCatchIf
    (do let o ← isOnboarded
        if !o then M.throw' .protoError else pure o)
    Exc.isDongleBase (fun _ => M.throw' .protoInterrupt)
  let mode ← getCurrentMode
  pure (o, mode)

/-- the checks after the mode dispatch; returns (mode, app version) as the device reported -/
def signerChecks (mode : Nat) : M (Nat × (Nat × Nat × Nat)) := do
  if mode != Mode_SIGNER.toNat then M.throw' .protoInterrupt else
  let v ← getVersion
  checkVersion v APP_VERSION
  let _ ← getSignerParameters
  pure (mode, v)

/-- the tail of `initialize_device`, after the mode dispatch -/
def afterDispatch (mode : Nat) : M Unit := do
  let _ ← signerChecks mode
  pure ()

/-- `initialize_device` -/
def initializeDevice : M Unit := do
  let om ← initGuards
  if om.2 == Mode_BOOTLOADER.toNat then do
    handleBootloader
    let mode ← getCurrentMode
    afterDispatch mode
  else afterDispatch om.2

/-- `TCPServer.run` up to `serve_forever`, with its exception map, as `ManagerRunner.run`
    sees it: "served" | "error" (TCPServerError) | "interrupted" | the escaping exception -/
def bringUp : M String := do
  match ← M.attempt initializeDevice with
  | .ok _ => pure "served"
  | .error .protoError => pure "error"
  | .error .protoInterrupt => pure "interrupted"
  | .error e => pure ("crash:" ++ e.name)

/-- `ensure_connection` -/
def ensureConnection : M Unit := do
  if !(← getWorld).commIssue then pure ()
  else do
    disconnect
    M.tryCatchIf
      (do initializeDevice
          setCommIssue false)
      (fun e => e == .protoError) (fun _ => M.throw' .dongleComm)

/-! ### command handlers: `(code, payload)`; a negative code drops the payload -/
abbrev Out := Int × List (String × Json)

def isTimeout (e : Exc) : Bool := e == .dongleTimeout
def isComm (e : Exc) : Bool := e == .dongleComm
def isError (e : Exc) : Bool := e == .dongleError
def isResult : Exc → Bool | .dongleResult _ => true | _ => false

/-- the common tail of the v5 handlers:
    `except (HSM2DongleError[, HSM2DongleErrorResult], HSM2DongleTimeoutError)` ⇒ device error;
    `except HSM2DongleCommError` ⇒ flag + device error -/
def deviceGuard (c : Codes) (withResult : Bool) (m : M Out) : M Out :=
  M.tryCatchIf m
    (fun e => isError e || isTimeout e || isComm e || (withResult && isResult e))
    (fun e => do
      if isComm e then setCommIssue true
      pure (c.device, []))

def hexJ (b : Bytes) : Json := .str (Bytes.toHex b)

def getPubkey (c : Codes) (path : List Nat) : M Out :=
  M.tryCatchIf
    (do ensureConnection
        let pk ← getPublicKey path
        pure (0, [("pubKey", hexJ pk)]))
    (fun e => isResult e || isTimeout e || isComm e || isError e)
    (fun e => do
      if isResult e then pure (c.invalidKeyId, [])
      else if isTimeout e then pure (c.device, [])
      else if isComm e then do setCommIssue true; pure (c.device, [])
      else M.throw' .protoError)

def signReply (translate : List (Int × Int)) (dflt : Int) : SignOut → Out
  | .fail code => (dictGet translate code dflt, [])
  | .sig r s => (0, [("signature", .obj [("r", hexJ r), ("s", hexJ s)])])

/-- the `try: ensure_connection(); sign_… except Timeout / Comm / HSM2DongleError` wrapper -/
def signGuard (c : Codes) (m : M SignOut) (k : SignOut → Out) : M Out :=
  M.tryCatchIf (do let r ← m; pure (k r))
    (fun e => isTimeout e || isComm e || isError e)
    (fun e => do
      if isTimeout e then pure (c.device, [])
      else if isComm e then do setCommIssue true; pure (c.device, [])
      else M.throw' .protoError)

def strField? (m : List (String × Json)) (k : String) : Option String :=
  match Json.lookup m k with | some (.str s) => some s | _ => none

/-- `HSM2ProtocolLedger._sign` -/
def signV5 (c : Codes) (req : List (String × Json)) (path : List Nat) : M Out :=
  let msgObj := match Json.lookup req "message" with | some (.obj m) => m | _ => []
  if (Json.lookup msgObj "hash").isSome then
    let v := validateMessage c req .hash
    if v < 0 then pure (v, [])
    else
      let h := (strField? msgObj "hash").bind Py.fromHex
      signGuard c (do ensureConnection; signUnauthorized path h)
        (signReply translateSign translateSignDefault)
  else
    let a := validateAuth c req true
    if a < 0 then pure (a, [])
    else
      let v := validateMessage c req .tx
      if v < 0 then pure (v, [])
      else
        match ((strField? msgObj "tx").bind Py.fromHex).bind Btc.getUnsignedTx with
        | none => pure (c.invalidMessage, [])
        | some utx =>
          let auth := match Json.lookup req "auth" with | some (.obj a) => a | _ => []
          let receipt := ((strField? auth "receipt").bind Py.fromHex).getD []
          let proof := match Json.lookup auth "receipt_merkle_proof" with
            | some (.arr ns) => ns.map fun n => (match n with | .str s => (Py.fromHex s).getD [] | _ => [])
            | _ => []
          let segwit := (Json.lookup msgObj "sighashComputationMode").map (·.pyEqStr "segwit") == some true
          let args : SignAuthArgs := {
            path := path, receipt := receipt, proof := proof, btcTx := utx,
            input := (match Json.lookup msgObj "input" with | some (.int n) => n | _ => 0),
            segwit := segwit,
            witnessScript := ((strField? msgObj "witnessScript").bind Py.fromHex).getD [],
            outpoint := (match Json.lookup msgObj "outpointValue" with | some (.int n) => n | _ => 0) }
          signGuard c (do ensureConnection; signAuthorized args)
            (signReply translateSign translateSignDefault)

/-- `HSM1ProtocolLedger._sign` -/
def signV1 (c : Codes) (req : List (String × Json)) (path : List Nat) : M Out :=
  let h := (strField? req "message").bind Py.fromHex
  signGuard c (do ensureConnection; signUnauthorized path h)
    (signReply translateSignV1 translateSignV1Default)

def blockchainState (c : Codes) : M Out :=
  deviceGuard c true (do
    ensureConnection
    let st ← getBlockchainState
    let h (k : String) : Json := hexJ (dictGet st.hashes k [])
    pure (0, [("state", .obj [
      ("best_block", h "best_block"),
      ("newest_valid_block", h "newest_valid_block"),
      ("ancestor_block", h "ancestor_block"),
      ("ancestor_receipts_root", h "ancestor_receipts_root"),
      ("updating", .obj [
        ("best_block", h "updating.best_block"),
        ("newest_valid_block", h "updating.newest_valid_block"),
        ("next_expected_block", h "updating.next_expected_block"),
        ("total_difficulty", .int st.totalDifficulty),
        ("in_progress", .bool st.inProgress),
        ("already_validated", .bool st.alreadyValidated),
        ("found_best_block", .bool st.foundBestBlock)])])]))

def resetAdvance (c : Codes) : M Out :=
  deviceGuard c true (do
    ensureConnection
    resetAdvanceBlockchain
    pure (0, []))

def strList (j : Option Json) : List (Option Bytes) :=
  match j with
  | some (.arr xs) => xs.map fun x => (match x with | .str s => Py.fromHex s | _ => none)
  | _ => []

def advance (hs : Hashes) (c : Codes) (req : List (String × Json)) : M Out :=
  deviceGuard c false (do
    ensureConnection
    let blocks := strList (Json.lookup req "blocks")
    let bros := match Json.lookup req "brothers" with
      | some (.arr ls) => ls.map fun l => strList (some l)
      | _ => []
    let r ← advanceBlockchain hs blocks bros
    pure (dictGet translateAdvance r.2 translateAdvanceDefault, []))

def updateAncestorBlock (hs : Hashes) (c : Codes) (req : List (String × Json)) : M Out :=
  deviceGuard c false (do
    ensureConnection
    let r ← updateAncestor hs (strList (Json.lookup req "blocks"))
    pure (dictGet translateUpdate r.2 translateUpdateDefault, []))

def blockchainParameters (c : Codes) : M Out :=
  deviceGuard c true (do
    ensureConnection
    let p ← getSignerParameters
    pure (0, [("parameters", .obj [
      ("checkpoint", hexJ p.checkpoint),
      ("minimum_difficulty", .int p.minDifficulty),
      ("network", .str p.network.toLower)])]))

def hbReply (c : Codes) : Option Heartbeat → Out
  | none => (c.device, [])
  | some hb => (0, [("pubKey", hexJ hb.pubKey), ("message", hexJ hb.message), ("tweak", hexJ hb.tweak),
      ("signature", .obj [("r", hexJ hb.r), ("s", hexJ hb.s)])])

def udBytes (req : List (String × Json)) : Bytes :=
  ((strField? req "udValue").bind Py.fromHex).getD []

def signerHb (c : Codes) (req : List (String × Json)) : M Out :=
  deviceGuard c false (do
    ensureConnection
    let hb ← signerHeartbeat (udBytes req)
    pure (hbReply c hb))

/-- `exit_app()` whose communication error is expected and swallowed -/
def exitAppLenient : M Unit := M.tryCatchIf exitApp isComm (fun _ => pure ())

def uiHb (c : Codes) (req : List (String × Json)) : M Out :=
  deviceGuard c true (do
    ensureConnection
    let initial ← getCurrentMode
    let signer := Mode_SIGNER.toNat
    let uihb := Mode_UI_HEARTBEAT.toNat
    if initial != signer && initial != uihb then pure (c.device, []) else
    let go : M (Option Out) :=
      if initial == signer then do
        exitAppLenient
        waitAndReconnect
        let m ← getCurrentMode
        if m != uihb then pure (some (c.device, [])) else pure none
      else pure none
    match ← go with
    | some out => pure out
    | none =>
      let hb ← uiHeartbeat (udBytes req)
      let back : M (Option Out) :=
        if initial == signer then do
          exitAppLenient
          waitAndReconnect
          let m ← getCurrentMode
          if m != signer then pure (some (c.device, [])) else pure none
        else pure none
      match ← back with
      | some out => pure out
      | none => pure (hbReply c hb))

/-! ### dispatch (`__internal_handle_request`) -/
def errReply (code : Int) : Json := .obj [("errorcode", .int code)]

/-- `output[ERROR_CODE_KEY] = result` (overwrites the key if the payload had it) -/
def finish (o : Out) : Json :=
  if o.1 < 0 then errReply o.1
  else .obj (o.2.filter (fun kv => !(kv.1 == "errorcode")) ++ [("errorcode", .int o.1)])

/-- the generic gate: the command name, or the error code -/
def gate (c : Codes) (kvs : List (String × Json)) : Except Int String :=
  match Json.lookup kvs "command" with
  | none => .error c.invalidRequest
  | some cmd =>
    if !(cmd.pyEqStr "version") && (Json.lookup kvs "version").isNone then .error c.invalidRequest
    else if (match Json.lookup kvs "version" with | some v => !(v.pyEqInt c.version) | none => false) then
      .error c.wrongVersion
    else
      match cmd with
      | .str name => if !c.commands.contains name then .error c.commandUnknown else .ok name
      | _ => .error c.commandUnknown

/-- `self._validation_mappings[command](request)`: the error code, or the parsed key id when
    the command has one -/
def validateCmd (m : Mode) (name : String) (kvs : List (String × Json)) : Except Int (List Nat) :=
  let c := codes m
  let ofInt (v : Int) : Except Int (List Nat) := if v < 0 then .error v else .ok []
  match name with
  | "sign" => validateSign m kvs
  | "getPubKey" => validateKeyId c kvs
  | "advanceBlockchain" => ofInt (validateAdvance c kvs)
  | "updateAncestorBlock" => ofInt (validateUpdate c kvs)
  | "signerHeartbeat" => ofInt (validateUd c kvs SIGNER_HBT_UD_VALUE_SIZE)
  | "uiHeartbeat" => ofInt (validateUd c kvs UI_HBT_UD_VALUE_SIZE)
  | _ => .ok []

/-- `self._mappings[command](request)` -/
def operate (m : Mode) (hs : Hashes) (name : String) (kvs : List (String × Json))
    (path : List Nat) : M Out :=
  let c := codes m
  match name with
  | "version" => pure (0, [("version", .int c.version)])
  | "sign" => (match m with | .v5 => signV5 c kvs path | .v1 => signV1 c kvs path)
  | "getPubKey" => getPubkey c path
  | "advanceBlockchain" => advance hs c kvs
  | "resetAdvanceBlockchain" => resetAdvance c
  | "blockchainState" => blockchainState c
  | "updateAncestorBlock" => updateAncestorBlock hs c kvs
  | "blockchainParameters" => blockchainParameters c
  | "signerHeartbeat" => signerHb c kvs
  | "uiHeartbeat" => uiHb c kvs
  | _ => M.throw' .keyError

/-- `__internal_handle_request` -/
def handleRequest (m : Mode) (hs : Hashes) (req : Json) : M Json :=
  let c := codes m
  match req with
  | .obj kvs =>
    match gate c kvs with
    | .error e => pure (errReply e)
    | .ok name =>
      match validateCmd m name kvs with
      | .error e => pure (errReply e)
      | .ok path => do
        let o ← operate m hs name kvs path
        pure (finish o)
  | _ => pure (errReply c.formatError)

/-! ### one request line (`_RequestHandler.handle` + `_TCPServerRequestHandler.handle`) -/

/-- what `line.decode("utf-8")` and `json.loads` made of the line -/
inductive Parsed where
  | notUtf8
  | notJson            -- JSONDecodeError, RecursionError, ValueError (oversized integer)
  | ok (j : Json)

structure LineOut where
  reply : Json
  shutdown : Bool
  /-- the exception that left `handle_request`, if any -/
  exc : Option Exc

def handleLine (m : Mode) (hs : Hashes) (p : Parsed) : M LineOut :=
  let c := codes m
  match p with
  | .notUtf8 => pure ⟨errReply c.formatError, false, none⟩
  | .notJson => pure ⟨errReply c.formatError, false, none⟩
  | .ok j => do
    match ← M.attempt (handleRequest m hs j) with
    | .ok r => pure ⟨r, false, none⟩
    | .error .notImplemented => pure ⟨.obj [], false, some .notImplemented⟩
    | .error .protoError => pure ⟨errReply c.unknown, true, some .protoError⟩
    | .error e => pure ⟨.obj [], true, some e⟩

/-- one manager lifetime: lines are handled one after the other until a shutdown is requested
    (`serve_forever` + `shutdown()`); the replies written so far are returned -/
def serve (m : Mode) (hs : Hashes) : List Parsed → M (List LineOut)
  | [] => pure []
  | p :: ps => do
    let lo ← handleLine m hs p
    if lo.shutdown then pure [lo]
    else do
      let rest ← serve m hs ps
      pure (lo :: rest)

end Ledger
end PowHsm
