/-
  C12 — a scheduler model of `comm/server.py`: clients queue up in the kernel backlog; the
  server loop accepts a connection and runs its handler (read line, the command's device
  exchanges, reply, close).  What kind of server class is instantiated (extracted from the
  source by the translator: `Generated.serverKind`) decides whether a new connection may be
  accepted while a handler is still running.  A schedule is an arbitrary list of choices;
  disabled choices are no-ops, so *every* list is a schedule.
-/
import PowHsm.Generated.Server
namespace PowHsm
namespace Conc

inductive Kind where
  | sequential          -- socketserver.TCPServer: handle one request to completion, then accept
  | concurrent          -- ThreadingMixIn / ForkingMixIn: a handler per connection
  deriving DecidableEq, Repr

def kindOfString : String → Kind
  | "sequential" => .sequential
  | _ => .concurrent

structure Handler where
  client : Nat
  remaining : Nat          -- device exchanges still to do
  deriving DecidableEq, Repr

structure S where
  backlog : List (Nat × Nat)      -- (client, number of exchanges of its request), FIFO
  active : List Handler := []
  log : List Nat := []            -- the device's view: which client each APDU belongs to
  replied : List Nat := []        -- clients whose reply was written, in order
  deriving Repr

inductive Choice where
  | accept
  | step (i : Nat)                -- let the i-th running handler do its next action
  deriving DecidableEq, Repr

def stepHandler (s : S) (i : Nat) : S :=
  match s.active[i]? with
  | none => s
  | some h =>
    match h.remaining with
    | 0 => { s with active := s.active.eraseIdx i, replied := s.replied ++ [h.client] }
    | n + 1 => { s with active := s.active.set i { h with remaining := n }, log := s.log ++ [h.client] }

def next (k : Kind) (s : S) : Choice → S
  | .accept =>
    match s.backlog with
    | [] => s
    | (c, n) :: rest =>
      if k == .sequential && !s.active.isEmpty then s      -- the loop is busy inside the handler
      else { s with backlog := rest, active := s.active ++ [⟨c, n⟩] }
  | .step i => stepHandler s i

def run (k : Kind) (s : S) : List Choice → S
  | [] => s
  | c :: cs => run k (next k s c) cs

/-- the exchanges of each request form one contiguous block: no `a … b … a` with `b ≠ a`.
    `closed` are the clients whose block is over, `cur` the client of the block in progress. -/
def pushCur (cur : Option Nat) (closed : List Nat) : List Nat :=
  match cur with
  | some c => c :: closed
  | none => closed

def blocksAux : List Nat → Option Nat → List Nat → Bool
  | _, _, [] => true
  | closed, cur, x :: xs =>
    if cur == some x then blocksAux closed cur xs
    else if closed.contains x then false
    else blocksAux (pushCur cur closed) (some x) xs

def blocks (log : List Nat) : Bool := blocksAux [] none log

/-- what the sequential server produces when connections are accepted in the given order -/
def sequentialLog : List (Nat × Nat) → List Nat
  | [] => []
  | (c, n) :: rest => List.replicate n c ++ sequentialLog rest

end Conc
end PowHsm
