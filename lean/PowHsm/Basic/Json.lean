/-
  JSON values as Python sees them after `json.loads` (dict keys unique, last one wins —
  the harness sends the value *after* loading), and the prefix-token wire codec used
  by the driver's line protocol (DESIGN Appendix C).
-/
import PowHsm.Basic.Bytes
namespace PowHsm

inductive Json where
  | null
  | bool (b : Bool)
  | int (n : Int)
  /-- a Python float; `some k` when it is exactly the integer `k`, `none` otherwise -/
  | float (v : Option Int)
  | str (s : String)
  | arr (xs : List Json)
  | obj (kvs : List (String × Json))
  deriving Repr, Inhabited

namespace Json

mutual
  def beq : Json → Json → Bool
    | .null, .null => true
    | .bool a, .bool b => a == b
    | .int a, .int b => a == b
    | .float a, .float b => a == b
    | .str a, .str b => a == b
    | .arr a, .arr b => beqList a b
    | .obj a, .obj b => beqKvs a b
    | _, _ => false
  def beqList : List Json → List Json → Bool
    | [], [] => true
    | x :: xs, y :: ys => beq x y && beqList xs ys
    | _, _ => false
  def beqKvs : List (String × Json) → List (String × Json) → Bool
    | [], [] => true
    | (k, x) :: xs, (l, y) :: ys => k == l && beq x y && beqKvs xs ys
    | _, _ => false
end

instance : BEq Json := ⟨beq⟩

/-- `key in obj` / `obj[key]` for a loaded dict -/
def lookup (kvs : List (String × Json)) (k : String) : Option Json :=
  (kvs.find? (fun p => p.1 == k)).map (·.2)

def get? : Json → String → Option Json
  | .obj kvs, k => lookup kvs k
  | _, _ => none

def isObj : Json → Bool | .obj _ => true | _ => false
def isStr : Json → Bool | .str _ => true | _ => false
def isArr : Json → Bool | .arr _ => true | _ => false
/-- `type(x) == int` (excludes bool and float) -/
def isInt : Json → Bool | .int _ => true | _ => false

/-- Python `x == k` for an integer constant `k` (`True == 1`, `5.0 == 5`). -/
def pyEqInt : Json → Int → Bool
  | .int n, k => n == k
  | .bool b, k => (if b then 1 else 0) == k
  | .float (some n), k => n == k
  | _, _ => false

/-- Python `x == s` for a string constant -/
def pyEqStr : Json → String → Bool
  | .str t, s => t == s
  | _, _ => false

def mkObj (kvs : List (String × Json)) : Json := .obj kvs

/-! ### canonical rendering (sorted keys, compact) for diagnostics -/

def insertSorted (p : String × Json) : List (String × Json) → List (String × Json)
  | [] => [p]
  | q :: qs => if p.1 < q.1 then p :: q :: qs else q :: insertSorted p qs

def sortKvs (kvs : List (String × Json)) : List (String × Json) :=
  kvs.foldr insertSorted []

def hex4 (n : Nat) : String :=
  String.ofList [Bytes.hexDigit (n / 4096 % 16), Bytes.hexDigit (n / 256 % 16),
    Bytes.hexDigit (n / 16 % 16), Bytes.hexDigit (n % 16)]

def escapeStr (s : String) : String :=
  s.foldl (fun acc c =>
    if c == '"' then acc ++ "\\\"" else if c == '\\' then acc ++ "\\\\"
    else if c.toNat < 0x20 ∨ c.toNat > 0x7e then acc ++ "\\u" ++ hex4 c.toNat
    else acc.push c) ""

mutual
  def render : Json → String
    | .null => "null"
    | .bool true => "true"
    | .bool false => "false"
    | .int n => toString n
    | .float (some n) => toString n ++ ".0"
    | .float none => "NaN"
    | .str s => "\"" ++ escapeStr s ++ "\""
    | .arr xs => "[" ++ renderList xs ++ "]"
    | .obj kvs => "{" ++ renderKvs kvs ++ "}"
  def renderList : List Json → String
    | [] => ""
    | [x] => render x
    | x :: xs => render x ++ "," ++ renderList xs
  def renderKvs : List (String × Json) → String
    | [] => ""
    | [(k, v)] => "\"" ++ escapeStr k ++ "\":" ++ render v
    | (k, v) :: kvs => "\"" ++ escapeStr k ++ "\":" ++ render v ++ "," ++ renderKvs kvs
end

mutual
  /-- recursive key sort, so that dict order never matters in comparisons -/
  def normalize : Json → Json
    | .arr xs => .arr (normalizeList xs)
    | .obj kvs => .obj (sortKvs (normalizeKvs kvs))
    | j => j
  def normalizeList : List Json → List Json
    | [] => []
    | x :: xs => normalize x :: normalizeList xs
  def normalizeKvs : List (String × Json) → List (String × Json)
    | [] => []
    | (k, v) :: kvs => (k, normalize v) :: normalizeKvs kvs
end

/-! ### wire codec: space separated prefix tokens
  `N` `T` `F` `I<int>` `R<int>` `Rx` `S<hex utf8>` `L<n> …` `O<n> S<key> v …` -/

def hexOfString (s : String) : String := Bytes.toHex s.toUTF8.toList

mutual
  def toTokens : Json → List String
    | .null => ["N"]
    | .bool true => ["T"]
    | .bool false => ["F"]
    | .int n => ["I" ++ toString n]
    | .float (some n) => ["R" ++ toString n]
    | .float none => ["Rx"]
    | .str s => ["S" ++ hexOfString s]
    | .arr xs => ("L" ++ toString xs.length) :: toTokensList xs
    | .obj kvs => ("O" ++ toString kvs.length) :: toTokensKvs kvs
  def toTokensList : List Json → List String
    | [] => []
    | x :: xs => toTokens x ++ toTokensList xs
  def toTokensKvs : List (String × Json) → List String
    | [] => []
    | (k, v) :: kvs => ("S" ++ hexOfString k) :: (toTokens v ++ toTokensKvs kvs)
end

def encode (j : Json) : String := " ".intercalate (toTokens j)

def strOfHex? (h : String) : Option String := do
  let bs ← Bytes.ofHex? h
  String.fromUTF8? (ByteArray.mk bs.toArray)

/-- fuel-bounded recursive descent over the token list (fuel = number of tokens). -/
def parseTok : Nat → List String → Option (Json × List String)
  | 0, _ => none
  | _, [] => none
  | fuel + 1, t :: rest =>
    match t.toList with
    | ['N'] => some (.null, rest)
    | ['T'] => some (.bool true, rest)
    | ['F'] => some (.bool false, rest)
    | 'I' :: cs => (String.ofList cs).toInt?.map fun n => (.int n, rest)
    | ['R', 'x'] => some (.float none, rest)
    | 'R' :: cs => (String.ofList cs).toInt?.map fun n => (.float (some n), rest)
    | 'S' :: cs => (strOfHex? (String.ofList cs)).map fun s => (.str s, rest)
    | 'L' :: cs => do
        let n ← (String.ofList cs).toNat?
        let rec items (k : Nat) (toks : List String) (acc : List Json) :
            Option (List Json × List String) :=
          match k with
          | 0 => some (acc.reverse, toks)
          | k + 1 => do
            let (v, toks') ← parseTok fuel toks
            items k toks' (v :: acc)
        let (xs, rest') ← items n rest []
        pure (.arr xs, rest')
    | 'O' :: cs => do
        let n ← (String.ofList cs).toNat?
        let rec fields (k : Nat) (toks : List String) (acc : List (String × Json)) :
            Option (List (String × Json) × List String) :=
          match k with
          | 0 => some (acc.reverse, toks)
          | k + 1 => do
            let (kj, toks1) ← parseTok fuel toks
            let key ← (match kj with | .str s => some s | _ => none)
            let (v, toks2) ← parseTok fuel toks1
            fields k toks2 ((key, v) :: acc)
        let (kvs, rest') ← fields n rest []
        pure (.obj kvs, rest')
    | _ => none

def parseOne (toks : List String) : Option (Json × List String) :=
  parseTok (toks.length + 1) toks

/-! ### helpers used by decoders of driver ops -/
def asStr? : Json → Option String | .str s => some s | _ => none
def asInt? : Json → Option Int | .int n => some n | _ => none
def asNat? : Json → Option Nat | .int n => (if n ≥ 0 then some n.toNat else none) | _ => none
def asBool? : Json → Option Bool | .bool b => some b | _ => none
def asArr? : Json → Option (List Json) | .arr xs => some xs | _ => none
def asBytes? : Json → Option Bytes | .str s => Bytes.ofHex? s | _ => none
def ofBytes (b : Bytes) : Json := .str (Bytes.toHex b)
def field? (j : Json) (k : String) : Option Json := j.get? k

end Json
end PowHsm
