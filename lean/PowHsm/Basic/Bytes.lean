/-
  Bytes: the common currency of every model.  `Bytes = List UInt8`.
  Little/big-endian fixed width encoders with explicit overflow (Python's
  `int.to_bytes` raises `OverflowError`), decoders, hex rendering.
-/
namespace PowHsm

abbrev Bytes := List UInt8

namespace Bytes

/-- little-endian, exactly `w` bytes, value taken modulo `256^w` (callers guard overflow). -/
def le : Nat → Nat → Bytes
  | 0,     _ => []
  | w + 1, n => UInt8.ofNat (n % 256) :: le w (n / 256)

/-- big-endian, exactly `w` bytes. -/
def be (w n : Nat) : Bytes := (le w n).reverse

/-- value of a little-endian byte string -/
def leVal : Bytes → Nat
  | []      => 0
  | b :: bs => b.toNat + 256 * leVal bs

/-- value of a big-endian byte string (`int.from_bytes(.., "big")`) -/
def beVal (bs : Bytes) : Nat := bs.foldl (fun acc b => acc * 256 + b.toNat) 0

@[simp] theorem le_length (w n : Nat) : (le w n).length = w := by
  induction w generalizing n with
  | zero => rfl
  | succ w ih => simp [le, ih]

@[simp] theorem be_length (w n : Nat) : (be w n).length = w := by simp [be]

theorem leVal_le (w n : Nat) : leVal (le w n) = n % 256 ^ w := by
  induction w generalizing n with
  | zero => simp [le, leVal, Nat.mod_one]
  | succ w ih =>
    simp only [le, leVal, ih]
    have h : (UInt8.ofNat (n % 256)).toNat = n % 256 := by
      simp [UInt8.toNat_ofNat']
    rw [h, Nat.pow_succ, Nat.mul_comm (256 ^ w) 256, Nat.mod_mul]

theorem leVal_le_of_lt {w n : Nat} (h : n < 256 ^ w) : leVal (le w n) = n := by
  rw [leVal_le, Nat.mod_eq_of_lt h]

theorem foldl_be_acc (b : Bytes) (acc : Nat) :
    b.foldl (fun acc b => acc * 256 + b.toNat) acc
      = acc * 256 ^ b.length + b.foldl (fun acc b => acc * 256 + b.toNat) 0 := by
  induction b generalizing acc with
  | nil => simp
  | cons x xs ih =>
    simp only [List.foldl_cons, List.length_cons]
    rw [ih (acc * 256 + x.toNat), ih (0 * 256 + x.toNat), Nat.pow_succ]
    simp [Nat.add_mul, Nat.mul_assoc, Nat.mul_comm 256, Nat.add_assoc]

theorem beVal_append (a b : Bytes) : beVal (a ++ b) = beVal a * 256 ^ b.length + beVal b := by
  unfold beVal
  rw [List.foldl_append, foldl_be_acc]

theorem beVal_reverse (bs : Bytes) : beVal bs.reverse = leVal bs := by
  induction bs with
  | nil => rfl
  | cons b bs ih =>
    rw [List.reverse_cons, beVal_append, ih]
    simp [leVal, beVal, Nat.mul_comm]
    omega

theorem beVal_be_of_lt {w n : Nat} (h : n < 256 ^ w) : beVal (be w n) = n := by
  rw [be, beVal_reverse, leVal_le_of_lt h]

/-- LE encoders are injective below the width. -/
theorem le_injective {w a b : Nat} (ha : a < 256 ^ w) (hb : b < 256 ^ w)
    (h : le w a = le w b) : a = b := by
  have := congrArg leVal h
  rwa [leVal_le_of_lt ha, leVal_le_of_lt hb] at this

def hexDigit (n : Nat) : Char :=
  if n < 10 then Char.ofNat (48 + n) else Char.ofNat (87 + n)

/-- lower-case hex (`bytes.hex()`) -/
def toHex (bs : Bytes) : String :=
  String.ofList (bs.flatMap fun b => [hexDigit (b.toNat / 16), hexDigit (b.toNat % 16)])

def hexVal? (c : Char) : Option Nat :=
  if '0' ≤ c ∧ c ≤ '9' then some (c.toNat - 48)
  else if 'a' ≤ c ∧ c ≤ 'f' then some (c.toNat - 87)
  else if 'A' ≤ c ∧ c ≤ 'F' then some (c.toNat - 55)
  else none

/-- strict hex parser for the *wire protocol* of the driver (no whitespace). -/
def ofHexChars : List Char → Option Bytes
  | [] => some []
  | [_] => none
  | a :: b :: rest => do
    let x ← hexVal? a
    let y ← hexVal? b
    let r ← ofHexChars rest
    pure (UInt8.ofNat (x * 16 + y) :: r)

def ofHex? (s : String) : Option Bytes := ofHexChars s.toList

end Bytes
end PowHsm
