/-
  The bits of Python's `str` / `bytes.fromhex` / `int()` semantics that the validators
  depend on.
-/
import PowHsm.Basic.Bytes
import PowHsm.Generated.Unicode
namespace PowHsm
namespace Py

/-- `Py_ISSPACE` -/
def isSpace (c : Char) : Bool := c.toNat == 0x20 || (0x09 ≤ c.toNat && c.toNat ≤ 0x0D)

/-- `bytes.fromhex`: ASCII whitespace is skipped *between* byte pairs, the two nibbles of a
    byte must be adjacent; anything else is `ValueError` (`none`). -/
def fromHexChars : List Char → Option Bytes
  | [] => some []
  | c :: cs =>
    if isSpace c then fromHexChars cs
    else
      match cs with
      | [] => none
      | d :: rest =>
        match Bytes.hexVal? c, Bytes.hexVal? d with
        | some x, some y => (fromHexChars rest).map (UInt8.ofNat (x * 16 + y) :: ·)
        | _, _ => none

def fromHex (s : String) : Option Bytes := fromHexChars s.toList

/-- `comm.utils.is_nonempty_hex_string` -/
def isNonemptyHex (s : String) : Bool :=
  match fromHex s with
  | some (_ :: _) => true
  | _ => false

/-- `comm.utils.is_hex_string_of_length` (no prefix allowed) -/
def isHexOfLength (s : String) (n : Nat) : Bool :=
  match fromHex s with
  | some b => b.length == n
  | none => false

/-- value of a Unicode decimal digit (`str.isdecimal`, `int()`), from the generated table -/
def digitVal? (c : Char) : Option Nat :=
  (Generated.decimalZeros.find? fun z => z ≤ c.toNat && c.toNat ≤ z + 9).map fun z => c.toNat - z

/-- `str.isdecimal(s)` -/
def isDecimal (s : List Char) : Bool := !s.isEmpty && s.all fun c => (digitVal? c).isSome

/-- `int(s)` for a string that satisfies `isDecimal` -/
def decimalVal (s : List Char) : Nat :=
  s.foldl (fun acc c => acc * 10 + (digitVal? c).getD 0) 0

/-- `str.split(sep)` for a one-character separator, on code points (structural, so that the
    kernel can evaluate it on literals) -/
def splitOnChar (sep : Char) : List Char → List (List Char)
  | [] => [[]]
  | c :: cs =>
    if c == sep then [] :: splitOnChar sep cs
    else
      match splitOnChar sep cs with
      | [] => [[c]]
      | x :: xs => (c :: x) :: xs

end Py
end PowHsm
