/-
  The environment of the middleware as a script (DESIGN §3.1):
  every exchange with the device consumes one `Resp`; every `connect()` consumes one
  connection outcome.  A computation returns its result (or the Python exception that
  escapes), the events it emitted (append-only) and the remaining world.
-/
import PowHsm.Basic.Json
namespace PowHsm

/-- What `dongle.exchange(apdu)` does (ledgerblue's status rule is applied by the transport:
    data is returned for 0x9000/0x61xx/0x6Cxx, anything else raises `CommException(sw)`). -/
inductive Resp where
  | data (b : Bytes)
  | sw (w : Nat)          -- CommException(msg ≠ "Timeout" or sw ≠ 0x6F00, sw = w)
  | timeout               -- CommException("Timeout", 0x6F00)
  | writeErr              -- BaseException("Error while writing")
  | readErr               -- OSError("read error")
  | other                 -- any other exception out of exchange()
  deriving Repr, DecidableEq, Inhabited

/-- Python exceptions that matter to control flow. -/
inductive Exc where
  | dongleResult (sw : Nat)   -- HSM2DongleErrorResult
  | dongleTimeout             -- HSM2DongleTimeoutError
  | dongleComm                -- HSM2DongleCommError
  | dongleError               -- HSM2DongleError
  | protoError                -- HSM2ProtocolError
  | protoInterrupt            -- HSM2ProtocolInterrupt
  | indexError | valueError | overflowError | typeError | attributeError | keyError
  | recursionError | notImplemented
  | pinError                  -- ledger.pin.PinError
  | exception                 -- a plain `Exception(...)`
  deriving Repr, DecidableEq, Inhabited

def Exc.name : Exc → String
  | .dongleResult _ => "HSM2DongleErrorResult"
  | .dongleTimeout => "HSM2DongleTimeoutError"
  | .dongleComm => "HSM2DongleCommError"
  | .dongleError => "HSM2DongleError"
  | .protoError => "HSM2ProtocolError"
  | .protoInterrupt => "HSM2ProtocolInterrupt"
  | .indexError => "IndexError" | .valueError => "ValueError"
  | .overflowError => "OverflowError" | .typeError => "TypeError"
  | .attributeError => "AttributeError" | .keyError => "KeyError"
  | .recursionError => "RecursionError" | .notImplemented => "NotImplementedError"
  | .pinError => "PinError" | .exception => "Exception"

/-- subclass tests used by `except` clauses -/
def Exc.isDongleBase : Exc → Bool
  | .dongleResult _ | .dongleTimeout | .dongleComm | .dongleError => true
  | _ => false

inductive Ev where
  | apdu (b : Bytes)      -- the full APDU handed to `exchange`
  | connect (ok : Bool)
  | disconnect
  | sleep
  /-- `open(path, "wb")` + `write(data)` of the PIN file; `ok = false` when it raised -/
  | fileWrite (data : Bytes) (ok : Bool)
  deriving Repr, DecidableEq, Inhabited

/-- `FileBasedPin` instance state -/
structure PinSt where
  pin : Bytes
  needsChange : Bool
  changing : Bool := false
  newPin : Option Bytes := none
  deriving Repr, DecidableEq, Inhabited

inductive Platform where
  | ledger | sgx | tcp
  deriving Repr, DecidableEq, Inhabited

structure World where
  script : List Resp
  conns : List Bool := []     -- outcomes of successive `getDongle`; exhausted ⇒ succeeds
  /-- `HSM2ProtocolLedger._comm_issue` -/
  commIssue : Bool := false
  platform : Platform := .ledger
  /-- the `pin` object handed to the protocol (`None` for the TCP manager) -/
  pin : Option PinSt := none
  /-- outputs of successive `generate_pin()` calls -/
  genPins : List Bytes := []
  /-- outcomes of successive PIN-file writes; exhausted ⇒ succeeds -/
  fsOk : List Bool := []
  /-- the operator: successive `sys.stdin.readline()` and `getpass()` answers -/
  stdinLines : List String := []
  getpassLines : List String := []
  /-- what `os.urandom(32)` returns for the seed -/
  seed : Bytes := []
  /-- what `pubkeys -o` has written: (number of key lines in the text file, JSON file written);
      `none`: the output files were not touched -/
  pubkeyFiles : Option (Nat × Bool) := none
  deriving Repr, Inhabited

structure Res (α : Type) where
  val : Except Exc α
  evs : List Ev
  w : World

def M (α : Type) := World → Res α

namespace M

@[inline] def pure' (a : α) : M α := fun w => ⟨.ok a, [], w⟩
@[inline] def bind' (m : M α) (f : α → M β) : M β := fun w =>
  match m w with
  | ⟨.ok a, e1, w1⟩ =>
    let r := f a w1
    ⟨r.val, e1 ++ r.evs, r.w⟩
  | ⟨.error e, e1, w1⟩ => ⟨.error e, e1, w1⟩

instance : Monad M where
  pure := pure'
  bind := bind'

def throw' (e : Exc) : M α := fun w => ⟨.error e, [], w⟩

/-- `try m except <pred> as e: h e` -/
def tryCatchIf (m : M α) (p : Exc → Bool) (h : Exc → M α) : M α := fun w =>
  match m w with
  | ⟨.error e, e1, w1⟩ =>
    if p e then
      let r := h e w1
      ⟨r.val, e1 ++ r.evs, r.w⟩
    else ⟨.error e, e1, w1⟩
  | r => r

/-- run and reify the outcome (never raises) -/
def attempt (m : M α) : M (Except Exc α) := fun w =>
  let r := m w
  ⟨.ok r.val, r.evs, r.w⟩

def emit (e : Ev) : M Unit := fun w => ⟨.ok (), [e], w⟩

def liftExcept : Except Exc α → M α
  | .ok a => pure a
  | .error e => throw' e

end M

/-- the APDUs among a list of events -/
def apdus : List Ev → List Bytes
  | [] => []
  | .apdu b :: es => b :: apdus es
  | _ :: es => apdus es

@[simp] theorem apdus_append (a b : List Ev) : apdus (a ++ b) = apdus a ++ apdus b := by
  induction a with
  | nil => rfl
  | cons e es ih => cases e <;> simp [apdus, ih]

/-! ### wire codecs for scripts, events, exceptions -/

def Resp.ofJson? : Json → Option Resp
  | .str s =>
    match s.toList with
    | 'd' :: cs => (Bytes.ofHexChars cs).map Resp.data
    | 'w' :: cs => (Bytes.ofHexChars cs).map fun b => Resp.sw (Bytes.beVal b)
    | ['t'] => some .timeout
    | ['W'] => some .writeErr
    | ['r'] => some .readErr
    | ['x'] => some .other
    | _ => none
  | _ => none

def scriptOfJson? : Json → Option (List Resp)
  | .arr xs => xs.mapM Resp.ofJson?
  | _ => none

def Ev.toJson : Ev → Json
  | .apdu b => .str ("A" ++ Bytes.toHex b)
  | .connect true => .str "C1"
  | .connect false => .str "C0"
  | .disconnect => .str "D"
  | .sleep => .str "Z"
  | .fileWrite d ok => .str ((if ok then "F1" else "F0") ++ Bytes.toHex d)

def Ev.ofJson? : Json → Option Ev
  | .str s =>
    match s.toList with
    | 'A' :: cs => (Bytes.ofHexChars cs).map Ev.apdu
    | ['C', '1'] => some (.connect true)
    | ['C', '0'] => some (.connect false)
    | ['D'] => some .disconnect
    | ['Z'] => some .sleep
    | 'F' :: '1' :: cs => (Bytes.ofHexChars cs).map fun d => Ev.fileWrite d true
    | 'F' :: '0' :: cs => (Bytes.ofHexChars cs).map fun d => Ev.fileWrite d false
    | _ => none
  | _ => none

def evsToJson (es : List Ev) : Json := .arr (es.map Ev.toJson)
def evsOfJson? : Json → Option (List Ev)
  | .arr xs => xs.mapM Ev.ofJson?
  | _ => none

def Exc.toJson : Exc → Json
  | .dongleResult sw => .str ("HSM2DongleErrorResult:" ++ toString sw)
  | e => .str e.name

end PowHsm
