/-
  Property-level oracle for C14, evaluated by the driver on the *implementation's* output
  and proved of the model's output in `Props/C14.lean`.
-/
import PowHsm.Btc.Tx
namespace PowHsm
namespace Spec
open Btc

/-- the relayed script is `n-1` empty pushes followed by the original last operation
    (re-encoded canonically by length when it is a push) -/
def scriptShapeOk (orig new : Bytes) : Bool :=
  match elems orig, elems new with
  | some os, some ns =>
    match os.getLast? with
    | none => false
    | some l =>
      let l' := match l with | .push [] => Elem.zero | x => x
      ns == List.replicate (os.length - 1) Elem.zero ++ [l'] &&
      new == List.replicate (os.length - 1) (0 : UInt8) ++ l.encode
  | _, _ => false

def inputOk (a b : TxIn) : Bool :=
  a.prevHash == b.prevHash && a.prevN == b.prevN && a.seq == b.seq && scriptShapeOk a.script b.script

def zipAll (f : α → β → Bool) : List α → List β → Bool
  | [], [] => true
  | a :: as, b :: bs => f a b && zipAll f as bs
  | _, _ => false

/-- every input script of `t` decodes and is non-empty -/
def unsignable (t : Tx) : Bool :=
  t.vin.all fun i => match elems i.script with | some (_ :: _) => true | _ => false

/-- `out` is what the manager relays for `raw` (or `none` if it answered -102). -/
def c14 (raw : Bytes) (out : Option Bytes) : Bool :=
  match deserialize raw with
  | none => out.isNone
  | some t =>
    if !unsignable t then out.isNone
    else match out with
      | none => false
      | some o =>
        match deserialize o with
        | none => false
        | some t' =>
          t'.version == t.version && t'.vout == t.vout && t'.lock == t.lock &&
          (t'.wit == t.wit || (witIsNull t.wit && witIsNull t'.wit)) &&
          zipAll inputOk t.vin t'.vin

end Spec
end PowHsm
