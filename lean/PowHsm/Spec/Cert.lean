/-
  Driver-side glue for the certificate properties (C06/C07/C16): run the graph model with the
  per-case oracle table of link validities.
-/
import PowHsm.Admin.CertGraph
import PowHsm.Admin.CertLinks
import PowHsm.Basic.Json
namespace PowHsm
namespace Spec.CertOps
open PowHsm.Cert

def elemsOfJson (j : Option Json) : Option (List Elem) :=
  match j with
  | some (.arr xs) => xs.mapM fun x => do
      pure { name := ← (← x.get? "name").asStr?, signedBy := ← (← x.get? "signed_by").asStr? }
  | _ => none

/-- `links`: object "<element>|<certifier>" ↦ bool; the root of trust is written "" -/
def linkTable (j : Option Json) (c : Option Elem) (e : Elem) : Bool :=
  match j with
  | some (.obj kvs) =>
    (Json.lookup kvs (e.name ++ "|" ++ (match c with | some p => p.name | none => ""))) == some (.bool true)
  | _ => false

def factsOfJson (j : Json) : Option LinkFacts := do
  let b (k : String) : Bool := (j.get? k).bind Json.asBool? == some true
  let i (k : String) : Int := match j.get? k with | some (.int n) => n | _ => 0
  let kind : ElemKind := match j.get? "kind" with
    | some (.str "x509") => .x509 | some (.str "attkey") => .attKey | some (.str "quote") => .quote
    | some (.str "v1") => .v1 | _ => .other
  pure { kind := kind, certifierIsX509 := b "certifier_is_x509", loads := b "loads", now := i "now",
         notBefore := i "not_before", notAfter := i "not_after", bound := b "bound",
         certifierHasKey := b "certifier_has_key", sigOk := b "sig_ok", tweaked := b "tweaked",
         sigOkTweaked := b "sig_ok_tweaked" }

/-- `facts`: object "<element>|<certifier>" ↦ primitive facts; the link table the walk uses is
    `Cert.linkValid` of them -/
def linksOfFacts (j : Option Json) : Option Json :=
  match j with
  | some (.obj kvs) => some (.obj (kvs.map fun (k, v) => (k, .bool (match factsOfJson v with
      | some f => linkValid f | none => false))))
  | _ => none

/-- `validate_and_get_values`: target ↦ [true, value, tweak] | [false, failing element] -/
def validateAll (root : String) (els : List Elem) (targets : List String) (links values : Option Json) : Option Json := do
  let rs ← targets.mapM fun t => do
    let v ← validateTarget root els (linkTable links) t
    match v with
    | .valid leaf =>
      -- an element kind that cannot provide a value (`get_value` raises NotImplementedError)
      -- makes the whole call fail
      let val ← match values with
        | some (.obj kvs) => Json.lookup kvs leaf.name
        | _ => some .null
      pure (t, Json.arr [.bool true, val])
    | .invalid n => pure (t, Json.arr [.bool false, .str n])
  -- a dict: a target listed twice yields one entry
  pure (.obj (rs.foldl (fun acc kv => acc.filter (fun p => p.1 != kv.1) ++ [kv]) []))

end Spec.CertOps
end PowHsm
