/-
  Observation of one request line and the device-conformance predicate shared by the
  oracles of C02/C03/C04/C11 ("as long as the device itself keeps to its protocol").
-/
import PowHsm.Ledger.Protocol
namespace PowHsm
namespace Spec
open Dongle

/-- what the harness observes of `_RequestHandler.handle` (and the model computes) -/
structure LineObs where
  reply : Json
  shutdown : Bool
  events : List Ev
  commIssue : Bool
  exc : String

/-- a reply line that holds a JSON object with an integer `errorcode` -/
def isReply : Json → Bool
  | .obj kvs => match Json.lookup kvs "errorcode" with | some (.int _) => true | _ => false
  | _ => false

def errorcode? : Json → Option Int
  | .obj kvs => match Json.lookup kvs "errorcode" with | some (.int n) => some n | _ => none
  | _ => none

/-- Is `r` an answer a protocol-abiding device may give to `apdu`?  Failures are reported as
    status words of the firmware's own range; answers are long enough for the fields the
    protocol defines; the mode byte is a defined mode; signatures are DER.  A link drop is the
    expected outcome of asking the running app to exit. -/
def respConforms (apdu : Bytes) (r : Resp) : Bool :=
  let cmd := (apdu.getD 1 0).toNat
  match r with
  | .sw w => isUserDefined w
  | .writeErr | .readErr => cmd == 0xFF || cmd == 0xFA
  | .timeout | .other => false
  | .data b =>
    let op := (apdu.getD 2 0).toNat
    let rop := (b.getD 2 0).toNat
    if cmd == 0x43 then b.length ≥ 2 && ((b.getD 1 0).toNat == 2 || (b.getD 1 0).toNat == 3 || (b.getD 1 0).toNat == 4)
    else if cmd == 0x06 then b.length ≥ 5
    else if cmd == 0x02 && (op == 1 || op == 2 || op == 4 || op == 8) then
      b.length ≥ 3 &&
      (if rop == 0x81 then (Der.parse (b.drop 3)).isSome
       else if rop == 2 || rop == 4 || rop == 8 then b.length ≥ 4 else true)
    else if cmd == 0x20 then b.length ≥ 3 && (rop != 1 || b.length ≥ 4)
    else if cmd == 0x21 then b.length ≥ 3
    else if cmd == 0x10 || cmd == 0x30 then b.length ≥ 3 && ((rop != 4 && rop != 9) || b.length ≥ 4)
    else if cmd == 0x60 then (op != 2 || (Der.parse (b.drop 3)).isSome)
    else if cmd == 0x45 || cmd == 0xA2 || cmd == 0xFE || cmd == 0xA3 || cmd == 0xA5 then b.length ≥ 3
    else true

def pairsConform : List Bytes → List Resp → Bool
  | [], _ => true
  | _ :: _, [] => false          -- the device stopped answering
  | a :: as, r :: rs => respConforms a r && pairsConform as rs

/-- the device kept to its protocol during this request (and every connection succeeded) -/
def deviceConforms (script : List Resp) (events : List Ev) : Bool :=
  pairsConform (apdus events) script && events.all (fun e => e != .connect false)

end Spec
end PowHsm
