/-
  C09 — bring-up never endangers the device and never serves from an unsafe state.
  The oracle recomputes, from the (message, answer) pairs alone, whether the PIN may be sent and
  whether the manager may serve; constants (5.4.1, two retries) are literals from the property.
-/
import PowHsm.Spec.Line
namespace PowHsm
namespace Spec.C09
open Dongle

/-- `(major, minor, patch)` supported by a manager at `mw`: same major, minor.patch not newer -/
def supported (mw fw : Nat × Nat × Nat) : Bool :=
  mw.1 == fw.1 && (fw.2.1 < mw.2.1 || (fw.2.1 == mw.2.1 && fw.2.2 ≤ mw.2.2))

def managerVersion : Nat × Nat × Nat := (5, 4, 1)

structure Obs where
  events : List Ev
  outcome : String      -- "served" | "error" | "interrupted" | "crash:<Exc>"

def pairs : List Bytes → List Resp → List (Bytes × Resp)
  | a :: as, r :: rs => (a, r) :: pairs as rs
  | _, _ => []

def cmdOf (a : Bytes) : Nat := (a.getD 1 0).toNat

def isPinMsg (a : Bytes) : Bool :=
  cmdOf a == 0x41 || cmdOf a == 0xFE || cmdOf a == 0xA3

def dataOf : Resp → Option Bytes | .data b => some b | _ => none

def versionOf (b : Bytes) : Nat × Nat × Nat := ((b.getD 2 0).toNat, (b.getD 3 0).toNat, (b.getD 4 0).toNat)

/-- what the answers *before* the first PIN-carrying message establish -/
def mayUnlock (pre : List (Bytes × Resp)) : Bool :=
  -- onboarded
  (match pre.find? (fun p => cmdOf p.1 == 0x06) with
   | some (_, .data b) => b.getD 1 0 == 1
   | _ => false) &&
  -- bootloader mode
  (match pre.find? (fun p => cmdOf p.1 == 0x43) with
   | some (_, .data b) => b.getD 1 0 == 2
   | _ => false) &&
  -- a supported UI version (the second answer to 0x06)
  (match (pre.filter (fun p => cmdOf p.1 == 0x06)).drop 1 with
   | (_, .data b) :: _ => b.length ≥ 5 && supported managerVersion (versionOf b)
   | _ => false) &&
  -- echo echoed
  (match pre.find? (fun p => cmdOf p.1 == 0x02 || cmdOf p.1 == 0xA4) with
   | some (a, .data b) => a == b
   | _ => false) &&
  -- at least two retries left
  (match pre.find? (fun p => cmdOf p.1 == 0x45 || cmdOf p.1 == 0xA2) with
   | some (_, .data b) => b.length ≥ 3 && (b.getD 2 0).toNat ≥ 2
   | _ => false)

def takeUntil (p : α → Bool) : List α → List α
  | [] => []
  | x :: xs => if p x then [] else x :: takeUntil p xs

/-- may the manager serve?  recomputed from the answers -/
def shouldServe (ps : List (Bytes × Resp)) (needsChange : Bool) (connsOk : Bool) : Bool :=
  let modes := ps.filter (fun p => cmdOf p.1 == 0x43)
  let vers := ps.filter (fun p => cmdOf p.1 == 0x06)
  let modeVal (p : Bytes × Resp) : Nat := match p.2 with | .data b => if b.length ≥ 2 then (b.getD 1 0).toNat else 999 | _ => 999
  connsOk &&
  (match vers.head? with | some (_, .data b) => b.length ≥ 2 && b.getD 1 0 == 1 | _ => false) &&
  (match modes with
   | [m1] => modeVal m1 == 3
   | [m1, m2] =>
     modeVal m1 == 2 && modeVal m2 == 3 && mayUnlock (takeUntil (fun p => isPinMsg p.1) ps) && !needsChange &&
     -- the unlock was accepted
     (match ps.find? (fun p => cmdOf p.1 == 0xFE || cmdOf p.1 == 0xA3) with
      | some (_, .data b) => b.length ≥ 3 && b.getD 2 0 != 0
      | _ => false) &&
     -- every PIN byte was acknowledged
     (ps.filter (fun p => cmdOf p.1 == 0x41)).all (fun p => (dataOf p.2).isSome)
   | _ => false) &&
  -- signer version supported (the last answer to 0x06), parameters well-formed
  (match vers.getLast? with
   | some (_, .data b) => vers.length ≥ 2 && b.length ≥ 5 && supported managerVersion (versionOf b)
   | _ => false) &&
  (match ps.find? (fun p => cmdOf p.1 == 0x11) with
   | some (_, .data b) => b.length == 72 && [1, 2, 3].contains (b.getD 71 0).toNat
   | _ => false)

/-- the simulated device's actual state (ground truth for "exactly when") -/
structure Truth where
  onboarded : Nat
  mode : Nat
  uiVersion : Nat × Nat × Nat
  appVersion : Nat × Nat × Nat
  retries : Nat
  echoOk : Bool
  unlockOk : Bool
  afterExitMode : Nat
  hasPin : Bool
  network : Nat

/-- the property's "exactly when", on the device state -/
def shouldServeTruth (t : Truth) (needsChange connsOk : Bool) : Bool :=
  connsOk && t.onboarded == 1 &&
  (t.mode == 3 ||
    (t.mode == 2 && supported managerVersion t.uiVersion && t.echoOk && t.retries ≥ 2 && t.hasPin &&
      t.unlockOk && !needsChange && t.afterExitMode == 3)) &&
  supported managerVersion t.appVersion && [1, 2, 3].contains t.network

def c09 (script : List Resp) (needsChange : Bool) (truth : Option Truth) (o : Obs) : Bool :=
  let as := apdus o.events
  let ps := pairs as script
  let unlocks := as.filter fun a => cmdOf a == 0xFE || cmdOf a == 0xA3
  let connsOk := o.events.all (fun e => e != .connect false)
  -- the PIN / unlock command at most once
  unlocks.length ≤ 1 &&
  -- and only to an onboarded device in bootloader mode with a supported UI version, a correct
  -- echo and at least two retries left
  (!(as.any isPinMsg) || mayUnlock (takeUntil (fun p => isPinMsg p.1) ps)) &&
  -- serves exactly when it is safe (against the device's actual state when no fault was injected;
  -- otherwise at least: serving implies the answers seen justify it)
  (match truth with
   | some t => (o.outcome == "served") == shouldServeTruth t needsChange connsOk
   | none => o.outcome != "served" || shouldServe ps needsChange connsOk)

end Spec.C09
end PowHsm
