/-
  C02 — a hand formalisation of what docs/protocol.md and docs/protocol-v1.md allow as the
  manager's verdict for a JSON value (DESIGN §5 C02 and Appendix D).  This file is part of the
  *statement*: error codes are written as literals from the documents, not taken from the
  generated tables.
-/
import PowHsm.Spec.Line
import PowHsm.Rlp.Block
namespace PowHsm
namespace Spec.C02
open Comm

inductive Zone where
  | valid | unspec | invalid
  deriving DecidableEq, Repr

/-- strict `hhhh`: an even, non-zero number of hex digits and nothing else -/
def strictHex (s : String) : Bool :=
  let cs := s.toList
  !cs.isEmpty && cs.length % 2 == 0 && cs.all fun c => (Bytes.hexVal? c).isSome

def hexZone (j : Json) (okLen : Nat → Bool := fun _ => true) : Zone :=
  match j with
  | .str s =>
    if strictHex s && okLen (s.length / 2) then .valid
    else match Py.fromHex s with
      | some (_ :: _) => .unspec      -- hex with embedded whitespace, or a length the documents do not fix
      | _ => .invalid
  | _ => .invalid

/-- `hhhh` of exactly `n` bytes (udValue, 32-byte hashes): another byte length is invalid when
    `exact`, unspecified otherwise -/
def hexOfLenZone (j : Json) (n : Nat) (exact : Bool) : Zone :=
  match j with
  | .str s =>
    match Py.fromHex s with
    | some b =>
      if b.length == n then (if strictHex s then .valid else .unspec)
      else if exact || b.isEmpty then .invalid else .unspec
    | none => .invalid
  | _ => .invalid

def documentedPaths : List String :=
  ["m/44'/0'/0'/0/0", "m/44'/137'/0'/0/0", "m/44'/137'/1'/0/0", "m/44'/1'/0'/0/0",
   "m/44'/1'/1'/0/0", "m/44'/1'/2'/0/0"]

/-- `m(/D+'?)+` with `D` any decimal digit -/
def pathGrammar (s : String) : Bool :=
  let cs := s.toList
  cs.take 2 == ['m', '/'] &&
  (Py.splitOnChar '/' (cs.drop 2)).all fun e =>
    let e := if e.getLast? == some '\'' then e.dropLast else e
    Py.isDecimal e

def keyIdZone (kvs : List (String × Json)) : Zone :=
  match Json.lookup kvs "keyId" with
  | some (.str s) =>
    if documentedPaths.contains s then .valid
    else if pathGrammar s then .unspec else .invalid
  | _ => .invalid

def worst (a b : Zone) : Zone :=
  if a == .invalid || b == .invalid then .invalid
  else if a == .unspec || b == .unspec then .unspec else .valid

def worstAll (zs : List Zone) : Zone := zs.foldl worst .valid

def intZone (j : Option Json) (lo hi : Int) : Zone :=
  match j with
  | some (.int n) => if lo ≤ n && n ≤ hi then .valid else .invalid
  | _ => .invalid

def keysAre (m : List (String × Json)) (ks : List String) : Bool :=
  m.length == ks.length && ks.all fun k => (Json.lookup m k).isSome

/-- a `tx` that decodes and whose inputs all have a non-empty, well-formed script (C14) -/
def txZone (j : Option Json) : Zone :=
  match j with
  | some (.str s) =>
    match Py.fromHex s with
    | some (b :: bs) =>
      match Btc.getUnsignedTx (b :: bs) with
      | some _ => if strictHex s then .valid else .unspec
      | none => .invalid
    | _ => .invalid
  | _ => .invalid

inductive MsgKind where
  | hash | tx | bad
  deriving DecidableEq

/-- (zone, kind) of a v5 `message` -/
def messageZone (kvs : List (String × Json)) : Zone × MsgKind :=
  match Json.lookup kvs "message" with
  | some (.obj m) =>
    if keysAre m ["hash"] then
      (hexOfLenZone ((Json.lookup m "hash").getD .null) 32 false, .hash)
    else if keysAre m ["tx", "input", "sighashComputationMode"]
        && (Json.lookup m "sighashComputationMode").map (·.pyEqStr "legacy") == some true then
      (worst (txZone (Json.lookup m "tx")) (intZone (Json.lookup m "input") 0 0xffffffff), .tx)
    else if keysAre m ["tx", "input", "sighashComputationMode", "witnessScript", "outpointValue"]
        && (Json.lookup m "sighashComputationMode").map (·.pyEqStr "segwit") == some true then
      (worstAll [txZone (Json.lookup m "tx"), intZone (Json.lookup m "input") 0 0xffffffff,
                 hexZone ((Json.lookup m "witnessScript").getD .null) (fun n => n + 3 + 8 < 65536),
                 intZone (Json.lookup m "outpointValue") 1 0xffffffffffffffff], .tx)
    else (.invalid, .bad)
  | _ => (.invalid, .bad)

def authZone (kvs : List (String × Json)) (kind : MsgKind) : Zone :=
  match Json.lookup kvs "auth" with
  | none => if kind == .tx then .invalid else .valid
  | some (.obj a) =>
    let rz := hexZone ((Json.lookup a "receipt").getD .null)
    let pz := match Json.lookup a "receipt_merkle_proof" with
      | some (.arr ns) =>
        if ns.isEmpty then Zone.invalid
        else worst (worstAll (ns.map fun n => hexZone n (fun l => l ≤ 255)))
                   (if ns.length ≤ 255 then .valid else .unspec)
      | _ => .invalid
    let z := worst rz pz
    if kind == .tx then z else worst z .unspec     -- auth alongside a hash message: unspecified
  | some _ => .invalid

/-- a hex string that is a well-formed block header (RLP list of 17..20 fields); what is inside
    the fields is for the device to judge -/
def headerZone (j : Json) : Zone :=
  match j with
  | .str s =>
    match Py.fromHex s with
    | some (b :: bs) =>
      if strictHex s && (Block.mmPayloadSize (b :: bs)).isSome then .valid else .unspec
    | _ => .invalid
  | _ => .invalid

def blocksZone (kvs : List (String × Json)) (minLen : Nat) : Zone :=
  match Json.lookup kvs "blocks" with
  | some (.arr bs) =>
    if bs.length < minLen then .invalid
    else worstAll (bs.map fun b =>
      match b with
      | .str s => if s.isEmpty then Zone.unspec else headerZone b
      | _ => .invalid)
  | _ => .invalid

def brothersZone (kvs : List (String × Json)) : Zone :=
  match Json.lookup kvs "blocks", Json.lookup kvs "brothers" with
  | some (.arr bs), some (.arr brs) =>
    if brs.length != bs.length then .invalid
    else worstAll (brs.map fun l =>
      match l with
      | .arr xs => worst (worstAll (xs.map headerZone)) (if xs.length ≤ 10 then .valid else .unspec)
      | _ => .invalid)
  | some (.arr _), _ => .invalid
  | _, _ => .unspec       -- without a `blocks` array "parallel to blocks" has no meaning

/-- per command: the list of (documented error code, zone of the field(s) it speaks about) -/
def fieldZones (m : Mode) (cmd : String) (kvs : List (String × Json)) : List (Int × Zone) :=
  match m, cmd with
  | .v5, "sign" =>
    let (mz, kind) := messageZone kvs
    [(-103, keyIdZone kvs), (-102, mz), (-101, authZone kvs kind)]
  | .v1, "sign" =>
    [(-2, keyIdZone kvs), (-2, hexOfLenZone ((Json.lookup kvs "message").getD .null) 32 false)]
  | .v5, "getPubKey" => [(-103, keyIdZone kvs)]
  | .v1, "getPubKey" => [(-2, keyIdZone kvs)]
  | .v5, "advanceBlockchain" => [(-204, blocksZone kvs 1), (-205, brothersZone kvs)]
  | .v5, "updateAncestorBlock" => [(-204, blocksZone kvs 1)]
  | .v5, "signerHeartbeat" => [(-301, hexOfLenZone ((Json.lookup kvs "udValue").getD .null) 16 true)]
  | .v5, "uiHeartbeat" => [(-301, hexOfLenZone ((Json.lookup kvs "udValue").getD .null) 32 true)]
  | _, _ => []

def commandsOf : Mode → List String
  | .v5 => ["version", "sign", "getPubKey", "advanceBlockchain", "resetAdvanceBlockchain",
            "blockchainState", "updateAncestorBlock", "blockchainParameters", "signerHeartbeat",
            "uiHeartbeat"]
  | .v1 => ["version", "sign", "getPubKey"]

structure GenericCodes where
  format : Int
  request : Int
  unknown : Int
  version : Int
  expected : Int

def generic : Mode → GenericCodes
  | .v5 => ⟨-901, -902, -903, -904, 5⟩
  | .v1 => ⟨-2, -2, -2, -666, 1⟩

/-- `(codes with which the value may be rejected, whether it must be rejected)` -/
def judge (m : Mode) (j : Json) : List Int × Bool :=
  let g := generic m
  match j with
  | .obj kvs =>
    match Json.lookup kvs "command" with
    | none => ([g.request], true)
    | some cmd =>
      let noVersion := (Json.lookup kvs "version").isNone && !(cmd.pyEqStr "version")
      let vz : Zone := match Json.lookup kvs "version" with
        | none => .valid
        | some (.int n) => if n == g.expected then .valid else .invalid
        | some v => if v.pyEqInt g.expected then .unspec else .invalid
      let known := match cmd with | .str s => (commandsOf m).contains s | _ => false
      let fz := match cmd with
        | .str s => if known then fieldZones m s kvs else []
        | _ => []
      let may := (if noVersion then [g.request] else []) ++ (if vz != .valid then [g.version] else [])
        ++ (if !known then [g.unknown] else []) ++ (fz.filter (·.2 != .valid)).map (·.1)
      let must := noVersion || vz == .invalid || !known || fz.any (·.2 == .invalid)
      (may, must)
  | _ => ([g.format], true)

/-- the verdict observed from outside: the reply's code and whether the device was contacted -/
def allowedObs (m : Mode) (j : Json) (o : LineObs) : Bool :=
  let (may, must) := judge m j
  -- any event counts: an APDU, but also the disconnect / re-open of a pending link repair
  let contacted := !o.events.isEmpty
  match errorcode? o.reply with
  | none => false                                  -- no reply with a code: a crash
  | some c =>
    if o.shutdown then false
    else if contacted then !must                   -- accepted: the exchange with the device started
    else if c == 0 then
      -- answered without the device: only `version`
      !must && (match j with | .obj kvs => (Json.lookup kvs "command").map (·.pyEqStr "version") == some true | _ => false)
    else may.contains c

end Spec.C02
end PowHsm
