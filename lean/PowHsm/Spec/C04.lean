/-
  C04 — device outcomes map onto the result codes documented for each command.
  Statement side: documented code sets come from the documents (generated from
  docs/protocol*.md), named causes are written here from the firmware headers
  (bc_err.h, auth.h) and docs/protocol.md "Error and success codes" (DESIGN Appendix E).
-/
import PowHsm.Spec.Line
import PowHsm.Generated.Docs
namespace PowHsm
namespace Spec.C04
open Comm Generated

def docTitle : String → String
  | "version" => "Get version" | "sign" => "Sign" | "getPubKey" => "Get public key"
  | "advanceBlockchain" => "Advance Blockchain" | "resetAdvanceBlockchain" => "Reset Advance Blockchain"
  | "blockchainState" => "Get Blockchain State" | "updateAncestorBlock" => "Update ancestor block"
  | "blockchainParameters" => "Get Blockchain Parameters" | "signerHeartbeat" => "Signer heartbeat"
  | "uiHeartbeat" => "UI heartbeat" | _ => ""

/-- the codes the documents list for a command, plus the generic ones -/
def docCodes (m : Mode) (cmd : String) : List Int :=
  match m with
  | .v5 => (Tbl.dictGet docV5 (docTitle cmd) []) ++ docV5Generic
  | .v1 => [0] ++ docV1Generic

/-- `(command byte, op byte of the message answered, firmware status, documented code)`:
    the status words whose cause docs/protocol.md names, at the steps where the firmware source
    raises them (auth_path.c, auth_tx.c, auth_receipt.c, auth_trie.c, hsm.c, bc_advance.c,
    bc_ancestor.c); values from auth.h / err.h / bc_err.h. -/
def namedTable : List (Nat × Nat × Nat × Int) :=
  -- getPubKey (the byte after the command is the path length, 5): ERR_INVALID_PATH
  [(0x04, 5, 0x6A8F, -103),
   -- sign, path step (both formats): ERR_AUTH_INVALID_PATH → invalid key id
   (0x02, 1, 0x6A8F, -103)] ++
  -- sign, BTC tx step: TX_HASH_MISMATCH, INVALID_TX_VERSION, INVALID_TX_INPUT_INDEX,
  -- INVALID_SIGHASH_COMPUTATION_MODE, INVALID_EXTRADATA_SIZE → invalid message
  ([0x6A8D, 0x6A8E, 0x6A88, 0x6A97, 0x6A98].map fun sw => (0x02, 2, sw, (-102 : Int))) ++
  -- sign, receipt step: RECEIPT_RLP, RECEIPT_INVALID → wrong authorization
  ([0x6A8A, 0x6A8B].map fun sw => (0x02, 4, sw, (-101 : Int))) ++
  -- sign, merkle proof step: NODE_INVALID_VERSION, RECEIPT_HASH_MISMATCH, NODE_CHAINING_MISMATCH,
  -- RECEIPT_ROOT_MISMATCH → wrong authorization
  ([0x6A92, 0x6A94, 0x6A95, 0x6A96].map fun sw => (0x02, 8, sw, (-101 : Int))) ++
  -- advance, header / brother chunks
  ([4, 9].flatMap fun op =>
    [(0x10, op, 0x6B9A, (-201 : Int))] ++                                        -- CHAIN_MISMATCH
    ([0x6B95, 0x6B96, 0x6B94, 0x6B9D, 0x6B92].map fun sw => (0x10, op, sw, (-202 : Int))) ++   -- PoW
    ([0x6B88, 0x6B8A, 0x6B89, 0x6B8B, 0x6B8D, 0x6B8E, 0x6B8F, 0x6B90, 0x6B91, 0x6B93, 0x6B97, 0x6B98,
      0x6B99].map fun sw => (0x10, op, sw, (-204 : Int))) ++                      -- invalid blocks
    ([0x6B9F, 0x6BA0, 0x6BA1].map fun sw => (0x10, op, sw, (-205 : Int)))) ++     -- invalid brothers
  -- advance, brother list metadata: BROTHERS_TOO_MANY
  [(0x10, 7, 0x6B9E, -205)] ++
  -- update ancestor, header chunks
  [(0x30, 4, 0x6B9A, -201), (0x30, 4, 0x6B9C, -203)] ++
  ([0x6B88, 0x6B8A, 0x6B89, 0x6B8B, 0x6B8C, 0x6B8D, 0x6B90, 0x6B93, 0x6B99].map fun sw =>
    (0x30, 4, sw, (-204 : Int)))

def namedCause (apdu : Bytes) (sw : Nat) : Option Int :=
  let cmd := (apdu.getD 1 0).toNat
  let op := (apdu.getD 2 0).toNat
  (namedTable.find? fun e => e.1 == cmd && e.2.1 == op && e.2.2.1 == sw).map (·.2.2.2)

/-- the first status word the device answered with, and the message it answered -/
def firstStatus : List Bytes → List Resp → Option (Bytes × Nat)
  | a :: _, .sw w :: _ => some (a, w)
  | _ :: as, _ :: rs => firstStatus as rs
  | _, _ => none

def lastPair : List Bytes → List Resp → Option (Bytes × Resp)
  | [a], r :: _ => some (a, r)
  | _ :: a2 :: as, _ :: rs => lastPair (a2 :: as) rs
  | _, _ => none

/-- codes 0 / 1 only when the device's last answer reported total / partial success -/
def okOnlyIfDeviceOk (cmd : String) (code : Int) (apdus : List Bytes) (script : List Resp) : Bool :=
  if code != 0 && code != 1 then true
  else
    match cmd, lastPair apdus script with
    | "sign", some (_, .data b) => code == 0 && (b.getD 2 0).toNat == 0x81
    | "advanceBlockchain", some (_, .data b) =>
      (code == 0 && (b.getD 2 0).toNat == 6) || (code == 1 && (b.getD 2 0).toNat == 5)
    | "updateAncestorBlock", some (_, .data b) => code == 0 && (b.getD 2 0).toNat == 5
    | "resetAdvanceBlockchain", some (_, .data b) => code == 0 && (b.getD 2 0).toNat == 2
    | "version", none => code == 0
    | "sign", _ => false
    | "advanceBlockchain", _ => false
    | "updateAncestorBlock", _ => false
    | "resetAdvanceBlockchain", _ => false
    | _, some (_, .data _) => code == 0
    | _, _ => false

/-- is `r` the well-formed answer the device protocol prescribes for the query `a`?  (state,
    parameters and reset queries: the operation — and for hashes the selector — is echoed and the
    data has its fixed length) -/
def answerWellFormed (a : Bytes) (r : Resp) : Bool :=
  match r with
  | .data b =>
    let cmd := (a.getD 1 0).toNat
    let op := (a.getD 2 0).toNat
    if cmd == 0x20 then
      b.getD 2 0 == a.getD 2 0 &&
        (if op == 1 then b.getD 3 0 == a.getD 3 0 && b.length == 36
         else if op == 3 then b.length == 6 else b.length ≥ 3)
    else if cmd == 0x11 then b.length == 72
    else if cmd == 0x21 then (b.getD 2 0).toNat == 2
    else true
  | _ => true

def allWellFormed : List Bytes → List Resp → Bool
  | a :: as, r :: rs => answerWellFormed a r && allWellFormed as rs
  | _, _ => true

def commandOf (j : Json) : String :=
  match j with
  | .obj kvs => match Json.lookup kvs "command" with | some (.str s) => s | _ => ""
  | _ => ""

/-- the oracle: evaluated on requests that passed validation (the device was contacted) with
    no link repair pending -/
def c04 (m : Mode) (req : Json) (script : List Resp) (commIssue0 : Bool) (o : LineObs) : Bool :=
  let cmd := commandOf req
  let as := apdus o.events
  if commIssue0 then true else
  match errorcode? o.reply with
  | none =>
    -- no code at all: only acceptable when the device broke its protocol
    !deviceConforms script o.events
  | some code =>
    -- (4) an error status of the device's own range never stops the manager
    (!deviceConforms script o.events || !o.shutdown) &&
    -- (1) a documented code for this command (when the command is one of the ten)
    (docTitle cmd == "" || (docCodes m cmd).contains code) &&
    -- (2) success codes only on the device's success
    (as.isEmpty || okOnlyIfDeviceOk cmd code as script) &&
    -- (2') …and, for the query commands, only when every answer was the well-formed one
    (code != 0 || !(cmd == "blockchainState" || cmd == "blockchainParameters" || cmd == "resetAdvanceBlockchain")
      || allWellFormed as script) &&
    -- (3) the code the documents name for this cause
    (match firstStatus as script with
     | some (a, w) =>
       (match namedCause a w with
        | some c => m == .v1 || code == c
        | none => true)
     | none => true)

end Spec.C04
end PowHsm
