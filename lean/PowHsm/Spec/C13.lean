/-
  C13 — query replies report the device's data verbatim.  `DevView` is the state a genuine
  device holds (as the simulated device exposes it); `expectedReply` is written from
  docs/protocol.md (field names) and firmware bc_state.h (selectors 1,2,3,5,0x81,0x82,0x84).
-/
import PowHsm.Spec.Line
namespace PowHsm
namespace Spec.C13
open Comm

structure DevView where
  keys : List (String × Bytes)             -- path ↦ public key
  hashes : List (Nat × Bytes)              -- selector ↦ hash
  difficulty : Nat
  flags : List Nat                         -- in_progress, already_validated, found_best_block
  checkpoint : Bytes
  minDifficulty : Nat
  network : Nat
  hbSig : Bytes
  hbMsg : Bytes
  hbHash : Bytes
  hbPub : Bytes
  /-- the heartbeat the UI holds (its own key, message and signature) -/
  uiHbSig : Bytes
  uiHbMsg : Bytes
  uiHbHash : Bytes
  uiHbPub : Bytes
  /-- mode the device was in before / after the request -/
  modeBefore : Nat
  modeAfter : Nat

def hx (b : Bytes) : Json := .str (Bytes.toHex b)

def hashOf (d : DevView) (sel : Nat) : Json :=
  hx ((d.hashes.find? fun p => p.1 == sel).map (·.2) |>.getD [])

def networkName : Nat → String
  | 1 => "mainnet" | 2 => "testnet" | 3 => "regtest" | _ => "?"

def hbFields (d : DevView) : Option (List (String × Json)) :=
  (Der.parse d.hbSig).map fun (r, s) =>
    [("pubKey", hx d.hbPub), ("message", hx d.hbMsg), ("tweak", hx d.hbHash),
     ("signature", .obj [("r", hx r), ("s", hx s)])]

def uiHbFields (d : DevView) : Option (List (String × Json)) :=
  (Der.parse d.uiHbSig).map fun (r, s) =>
    [("pubKey", hx d.uiHbPub), ("message", hx d.uiHbMsg), ("tweak", hx d.uiHbHash),
     ("signature", .obj [("r", hx r), ("s", hx s)])]

/-- the reply the documents prescribe for a genuine device in state `d` (without `errorcode`) -/
def expectedFields (d : DevView) (cmd : String) (kvs : List (String × Json)) : Option (List (String × Json)) :=
  match cmd with
  | "getPubKey" =>
    match Json.lookup kvs "keyId" with
    | some (.str k) => (d.keys.find? fun p => p.1 == k).map fun p => [("pubKey", hx p.2)]
    | _ => none
  | "blockchainState" =>
    some [("state", .obj [
      ("best_block", hashOf d 0x01), ("newest_valid_block", hashOf d 0x02),
      ("ancestor_block", hashOf d 0x03), ("ancestor_receipts_root", hashOf d 0x05),
      ("updating", .obj [
        ("best_block", hashOf d 0x81), ("newest_valid_block", hashOf d 0x82),
        ("next_expected_block", hashOf d 0x84), ("total_difficulty", .int d.difficulty),
        ("in_progress", .bool (d.flags.getD 0 0 != 0)),
        ("already_validated", .bool (d.flags.getD 1 0 != 0)),
        ("found_best_block", .bool (d.flags.getD 2 0 != 0))])])]
  | "blockchainParameters" =>
    some [("parameters", .obj [("checkpoint", hx d.checkpoint), ("minimum_difficulty", .int d.minDifficulty),
                               ("network", .str (networkName d.network))])]
  | "signerHeartbeat" => hbFields d
  | "uiHeartbeat" => uiHbFields d
  | _ => none

def c13 (req : Json) (d : DevView) (o : LineObs) : Bool :=
  let kvs := match req with | .obj k => k | _ => []
  let cmd := match Json.lookup kvs "command" with | some (.str s) => s | _ => ""
  -- a UI heartbeat leaves the device back in signer mode or reports a device error
  (cmd != "uiHeartbeat" || d.modeAfter == 3 || errorcode? o.reply == some (-905)) &&
  (match expectedFields d cmd kvs with
   | none => true
   | some fs =>
     let verbatim := (Json.obj (fs ++ [("errorcode", .int 0)])).normalize == o.reply.normalize
     if cmd == "uiHeartbeat" then
       -- the mode dance may fail (then a device error is the only other admissible reply)
       verbatim || errorcode? o.reply == some (-905)
     else verbatim)

end Spec.C13
end PowHsm
