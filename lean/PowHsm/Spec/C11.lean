/-
  C11 — link failures get a device-error reply and are repaired on the next request.
-/
import PowHsm.Spec.Line
namespace PowHsm
namespace Spec.C11
open Comm

def deviceErrorCode : Mode → Int
  | .v5 => -905
  | .v1 => -2

/-- the first exchange that was not a plain answer, with the message it hit -/
def firstNonData : List Bytes → List Resp → Option (Bytes × Resp)
  | _ :: as, .data _ :: rs => firstNonData as rs
  | a :: _, r :: _ => some (a, r)
  | _, _ => none

def isExit (apdu : Bytes) : Bool := (apdu.getD 1 0).toNat == 0xFF || (apdu.getD 1 0).toNat == 0xFA

def isLinkFault : Resp → Bool
  | .timeout | .writeErr | .readErr => true
  | _ => false

/-- is this APDU the first message of the given command (as opposed to a bring-up message)? -/
def isCommandApdu (cmd : String) (a : Bytes) : Bool :=
  let c := (a.getD 1 0).toNat
  let op := (a.getD 2 0).toNat
  match cmd with
  | "sign" => c == 0x02 && op == 1 && a.length ≥ 24
  | "getPubKey" => c == 0x04
  | "advanceBlockchain" => c == 0x10
  | "resetAdvanceBlockchain" => c == 0x21
  | "blockchainState" => c == 0x20
  | "updateAncestorBlock" => c == 0x30
  | "signerHeartbeat" => c == 0x60
  | _ => false          -- blockchainParameters / uiHeartbeat start with a message bring-up also uses

def beforeFirst (p : Bytes → Bool) : List Bytes → List Bytes
  | [] => []
  | a :: as => if p a then [] else a :: beforeFirst p as

/-- a parameters query answered with data: the last exchange of a completed bring-up -/
def bringUpCompleted : List Bytes → List Resp → Bool
  | a :: as, r :: rs =>
    ((a.getD 1 0).toNat == 0x11 && (match r with | .data _ => true | _ => false)) || bringUpCompleted as rs
  | _, _ => false

def c11 (m : Mode) (cmd : String) (script : List Resp) (commIssue0 : Bool) (o : LineObs) : Bool :=
  let as := apdus o.events
  let dev := deviceErrorCode m
  -- repair first: disconnect, connect, bring-up; then (and only then) the command
  -- (`version` never talks to the device, so it repairs nothing)
  (if commIssue0 && cmd != "version" then
     (match o.events with
      | .disconnect :: .connect false :: rest =>
        errorcode? o.reply == some dev && o.commIssue && !o.shutdown && (apdus rest).isEmpty
      | .disconnect :: .connect true :: _ =>
        ((as.map fun a => (a.getD 1 0).toNat).take 2 == [0x06, 0x43] || as.length < 2) &&
        (!(as.any (isCommandApdu cmd)) ||
          ((beforeFirst (isCommandApdu cmd) as).any fun a => (a.getD 1 0).toNat == 0x11)) &&
        -- "the repair is retried on the following one": the pending-repair flag may only be cleared by a
        -- bring-up that ran to its end
        (o.commIssue || bringUpCompleted as script)
      | _ => false)
   else true) &&
  -- a link fault during the exchange: device-error reply, manager keeps running,
  -- flag set exactly for write / read errors
  (if commIssue0 then true else
   match firstNonData as script with
   | some (a, r) =>
     if isLinkFault r && !isExit a then
       errorcode? o.reply == some dev && !o.shutdown && (o.commIssue == (r != .timeout))
     else true
   | none => true)

end Spec.C11
end PowHsm
