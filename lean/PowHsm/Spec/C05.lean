/-
  C05 — advance / ancestor update hand the device the client's blocks intact.
  The oracle re-parses the message trace into (metadata, header, brothers) segments and
  compares them with the request.  `keccak` / `cbHash` are the per-case oracle tables
  (computed by the harness independently of the code under test).
-/
import PowHsm.Spec.Line
import PowHsm.Rlp.Block
namespace PowHsm
namespace Spec.C05
open Dongle

structure Seg where
  hdrMeta : Bytes
  data : Bytes := []
  broCount : Option UInt8 := none
  bros : List (Bytes × Bytes) := []     -- (metadata, data) per brother, in the order sent
  deriving Repr, Inhabited

/-- fold the messages after INIT into segments; `none` if the sequence of ops is not one the
    protocol allows (chunk without metadata, brother before block, …) -/
def parseSegs : List Bytes → List Seg → Option (List Seg)
  | [], acc => some acc.reverse
  | a :: as, acc =>
    let op := (a.getD 2 0).toNat
    let p := a.drop 3
    if op == 3 then parseSegs as ({ hdrMeta := p } :: acc)
    else
      match acc with
      | [] => none
      | s :: rest =>
        if op == 4 then
          if s.broCount.isSome then none else parseSegs as ({ s with data := s.data ++ p } :: rest)
        else if op == 7 then
          if s.broCount.isSome || p.length != 1 then none
          else parseSegs as ({ s with broCount := p.head? } :: rest)
        else if op == 8 then
          if s.broCount.isNone then none else parseSegs as ({ s with bros := s.bros ++ [(p, [])] } :: rest)
        else if op == 9 then
          match s.bros.getLast? with
          | none => none
          | some (m, d) => parseSegs as ({ s with bros := s.bros.dropLast ++ [(m, d ++ p)] } :: rest)
        else none

def isPrefix (a b : Bytes) : Bool := a.length ≤ b.length && b.take a.length == a

def metaOf (advance : Bool) (cbHash : Bytes → Bytes) (raw : Bytes) : Option Bytes := do
  let sz ← Block.mmPayloadSize raw
  if sz ≥ 65536 then none
  else if advance then
    let cb ← Block.coinbaseTxn raw
    if cb.length < 40 then none else pure (Bytes.be 2 sz ++ cbHash cb)
  else pure (Bytes.be 2 sz)

def strictlySortedBy (key : Bytes → Bytes) : List Bytes → Bool
  | a :: b :: rest => bytesLe (key a) (key b) && strictlySortedBy key (b :: rest)
  | _ => true

def countOcc (x : Bytes) (l : List Bytes) : Nat := (l.filter (· == x)).length

def isPerm (a b : List Bytes) : Bool :=
  a.length == b.length && a.all fun x => countOcc x a == countOcc x b

def hexList (j : Option Json) : List Bytes :=
  match j with
  | some (.arr xs) => xs.map fun (x : Json) => (match x with | Json.str s => (Py.fromHex s).getD [] | _ => [])
  | _ => []

def zipAll3 (f : Seg → Bytes → List Bytes → Bool) : List Seg → List Bytes → List (List Bytes) → Bool
  | [], _, _ => true
  | _ :: _, [], _ => false            -- more blocks sent than the client gave
  | s :: ss, b :: bs, brs => f s b (brs.headD []) && zipAll3 f ss bs (brs.drop 1)

def lastPair : List Bytes → List Resp → Option (Bytes × Resp)
  | [a], r :: _ => some (a, r)
  | _ :: a2 :: as, _ :: rs => lastPair (a2 :: as) rs
  | _, _ => none

def c05 (req : Json) (keccak cbHash : Bytes → Bytes) (script : List Resp) (commIssue0 : Bool)
    (o : LineObs) : Bool :=
  if commIssue0 then true else
  let kvs := match req with | .obj k => k | _ => []
  let cmd := match Json.lookup kvs "command" with | some (.str s) => s | _ => ""
  let advance := cmd == "advanceBlockchain"
  if !(advance || cmd == "updateAncestorBlock") then true else
  let as := apdus o.events
  match as with
  | [] => true                         -- refused before the device: C02's business
  | init :: rest =>
    let cmdByte : UInt8 := if advance then 0x10 else 0x30
    let blocksRaw := hexList (Json.lookup kvs "blocks")
    -- what the device must receive as block i: the block itself, or without its mm fields
    let blocksExp : List Bytes := if advance then blocksRaw
      else blocksRaw.map fun b => (Block.removeMM b true).getD []
    let brosReq : List (List Bytes) := match Json.lookup kvs "brothers" with
      | some (.arr ls) => ls.map fun l => hexList (some l)
      | _ => []
    let key (b : Bytes) : Bytes := keccak ((Block.removeMM b true).getD [])
    as.all (fun a => a.take 2 == [0x80, cmdByte]) &&
    -- the announced count
    init == [0x80, cmdByte, 2] ++ Bytes.be 4 blocksRaw.length &&
    (match parseSegs rest [] with
     | none => false
     | some segs =>
       zipAll3 (fun s b bros =>
         -- metadata matches that block; the header is relayed byte-exact, in order
         some s.hdrMeta == metaOf advance cbHash b && isPrefix s.data b &&
         (match s.broCount with
          | none => s.bros.isEmpty
          | some cnt =>
            advance && cnt.toNat == bros.length && s.bros.length ≤ bros.length &&
            -- exactly that block's brothers, ascending by block hash
            (let sorted := bros.mergeSort fun x y => bytesLe (key x) (key y)
             strictlySortedBy key sorted && isPerm sorted bros &&
             (s.bros.zip sorted).all fun ((m, d), b) =>
               some m == metaOf true cbHash b && isPrefix d b)))
         segs blocksExp brosReq) &&
    -- reply 0 / 1 exactly on total / partial success reported at a point the loop inspects
    (let code := errorcode? o.reply
     match lastPair as script with
     | some (a, .data r) =>
       let aop := (a.getD 2 0).toNat
       let rop := (r.getD 2 0).toNat
       let inspected := aop == 4 || aop == 9 || (aop == 7 && a.getD 3 1 == 0)
       let total := rop == (if advance then 6 else 5)
       let part := advance && rop == 5
       if inspected && total then code == some 0
       else if inspected && part then code == some 1
       else code != some 0 && code != some 1
     | _ => code != some 0 && code != some 1)

end Spec.C05
end PowHsm
