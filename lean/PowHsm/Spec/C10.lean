/-
  C10 — the PIN kept on disk always opens the device.
  The model of this property is an explicit machine over the world
  `(PIN file, PIN the device holds, configured default)`: one manager life = load, unlock,
  optional change (start, send, device answer, open-truncate, write, close) with a fault or a
  crash at each step boundary.  It is tied to ledger/pin.py + ledger/protocol.py by the
  `pinrun` correspondence stream (real code in a forked child, `os._exit` at the crash points).
-/
import PowHsm.Basic.Bytes
namespace PowHsm
namespace Spec.C10

structure PW where
  file : Option Bytes          -- `none`: no PIN file
  devicePin : Bytes
  default : Option Bytes       -- the configured default (`PIN` environment variable)
  deriving Repr, DecidableEq, Inhabited

/-- what happens to the command that carries the new PIN: acknowledged; refused (invalid-PIN status);
    another error status; the link fails on that very exchange (no acknowledgement is seen and the
    device keeps its PIN); the exchange times out -/
inductive DevAns where
  | accept | refuse | error | link | timeout
  deriving Repr, DecidableEq, Inhabited

inductive Crash where
  | none | afterUnlock | afterAck | afterOpen | afterWrite
  deriving Repr, DecidableEq, Inhabited

structure Run where
  force : Bool
  newPin : Bytes               -- what `generate_pin()` returns in this life
  dev : DevAns
  openOk : Bool := true
  writeOk : Bool := true
  crash : Crash := .none
  deriving Repr, DecidableEq, Inhabited

inductive Outcome where
  | pinError | unlockFailed | continued | stopped | crashed
  deriving Repr, DecidableEq, Inhabited

def isAlnum (c : UInt8) : Bool :=
  (48 ≤ c.toNat && c.toNat ≤ 57) || (65 ≤ c.toNat && c.toNat ≤ 90) || (97 ≤ c.toNat && c.toNat ≤ 122)
def isAlpha (c : UInt8) : Bool := (65 ≤ c.toNat && c.toNat ≤ 90) || (97 ≤ c.toNat && c.toNat ≤ 122)

/-- `BasePin.is_valid` (device policy: 8 alphanumerics, at least one letter) -/
def isValidPin (p : Bytes) : Bool := p.all isAlnum && p.length == 8 && p.any isAlpha

/-- `BasePin.generate_pin`: 8-character draws are repeated until one satisfies the policy; the random
    source is the list of successive draws -/
def generatePin (draws : List Bytes) : Option Bytes := draws.find? isValidPin

def isWs (c : UInt8) : Bool := c.toNat == 0x20 || (0x09 ≤ c.toNat && c.toNat ≤ 0x0D)

/-- `bytes.strip()` -/
def strip (b : Bytes) : Bytes := ((b.dropWhile isWs).reverse.dropWhile isWs).reverse

/-- the PIN a (re)started manager uses: the file's content if the file exists, else the default -/
def loadedPin (w : PW) : Option Bytes :=
  match w.file with
  | some c => some (strip c)
  | none => w.default

/-- the change protocol once the device is unlocked and a change is due:
    start, send, device answer, open-truncate, write/close — with its fault and crash points -/
def change (w : PW) (r : Run) : PW × Outcome :=
  match r.dev with
  | .refuse => (w, .stopped)
  | .error => (w, .stopped)
  | .link => (w, .stopped)
  | .timeout => (w, .stopped)
  | .accept =>
    if r.crash == .afterAck then ({ w with devicePin := r.newPin }, .crashed)
    else if !r.openOk then ({ w with devicePin := r.newPin }, .stopped)
    else if r.crash == .afterOpen then ({ w with devicePin := r.newPin, file := some [] }, .crashed)
    else if !r.writeOk then ({ w with devicePin := r.newPin, file := some [] }, .stopped)
    else if r.crash == .afterWrite then ({ w with devicePin := r.newPin, file := some r.newPin }, .crashed)
    else ({ w with devicePin := r.newPin, file := some r.newPin }, .stopped)

/-- one manager life; returns the world it leaves, how it ended, and the PIN it sent to unlock -/
def run (w : PW) (r : Run) : PW × Outcome × Option Bytes :=
  match loadedPin w with
  | none => (w, .pinError, none)
  | some pin =>
    if !isValidPin pin then (w, .pinError, none)
    else if pin != w.devicePin then (w, .unlockFailed, some pin)
    else if r.crash == .afterUnlock then (w, .crashed, some pin)
    else if !(r.force || w.file.isNone) then (w, .continued, some pin)
    else ((change w r).1, (change w r).2, some pin)

def runs (w : PW) : List Run → PW
  | [] => w
  | r :: rs => runs (run w r).1 rs

/-- a PIN that opens the device can be recovered from the file or from the default -/
def recoverable (w : PW) : Bool :=
  (match w.file with | some c => strip c == w.devicePin | none => false) ||
  w.default == some w.devicePin

def Recoverable (w : PW) : Prop := recoverable w = true

instance (w : PW) : Decidable (Recoverable w) := inferInstanceAs (Decidable (recoverable w = true))

/-- the window in which this life can strand the device: the device acknowledged the new PIN
    but the file does not hold it yet (known finding F-10a) -/
def strands (r : Run) : Bool :=
  r.dev == .accept && (r.crash == .afterAck || r.crash == .afterOpen || !r.openOk || !r.writeOk)

end Spec.C10
end PowHsm
