/-
  C01 — signing relays to the device exactly what the client asked to have signed.
  The expected byte layout is written here from the property statement and the firmware
  protocol (opcodes as literals), independently of the model's encoders.
-/
import PowHsm.Spec.Line
namespace PowHsm
namespace Spec.C01
open Comm

/-- the bytes the device ends up holding for one part: payloads of the SIGN messages (`80 02 op …`)
    carrying that op, concatenated in order -/
def view (op : UInt8) : List Bytes → Bytes
  | [] => []
  | a :: as => if a.take 3 == [0x80, 0x02, op] then a.drop 3 ++ view op as else view op as

def le (w n : Nat) : Bytes := Bytes.le w n

def pathBytes (els : List Nat) : Bytes := UInt8.ofNat els.length :: (els.map (le 4)).flatten

structure Expected where
  path : Bytes          -- op 1
  btc : Bytes           -- op 2 (empty for unauthorized)
  receipt : Bytes       -- op 4
  proof : Bytes         -- op 8
  auth : Bool

def hexField (m : List (String × Json)) (k : String) : Bytes :=
  match Json.lookup m k with
  | some (.str s) => (Py.fromHex s).getD []
  | _ => []

/-- what the device must end up holding for a *validated* sign request; `none` when the
    request is not one the manager relays (then nothing is claimed here) -/
def expected (m : Mode) (req : Json) : Option Expected :=
  match req with
  | .obj kvs =>
    match Json.lookup kvs "keyId" with
    | some (.str k) =>
      match Bip32.parsePath k with
      | none => none
      | some els =>
        match m, Json.lookup kvs "message" with
        | .v1, some (.str h) => some ⟨pathBytes els ++ (Py.fromHex h).getD [], [], [], [], false⟩
        | .v5, some (.obj msg) =>
          if (Json.lookup msg "hash").isSome then
            some ⟨pathBytes els ++ hexField msg "hash", [], [], [], false⟩
          else
            match Btc.getUnsignedTx (hexField msg "tx"), Json.lookup msg "input", Json.lookup kvs "auth" with
            | some utx, some (.int inp), some (.obj auth) =>
              let segwit := (Json.lookup msg "sighashComputationMode").map (·.pyEqStr "segwit") == some true
              let ws := hexField msg "witnessScript"
              let ov := match Json.lookup msg "outpointValue" with | some (.int n) => n.toNat | _ => 0
              let ed := if segwit then Btc.varint ws.length ++ ws ++ le 8 ov else []
              let btc := le 4 (7 + utx.length) ++ [if segwit then 1 else 0] ++ le 2 ed.length ++ utx ++ ed
              let nodes : List Bytes := match Json.lookup auth "receipt_merkle_proof" with
                | some (.arr ns) => ns.map fun (n : Json) =>
                    (match n with | Json.str s => (Py.fromHex s).getD [] | _ => [])
                | _ => []
              let proof := UInt8.ofNat nodes.length :: (nodes.map fun n => UInt8.ofNat n.length :: n).flatten
              some ⟨pathBytes els ++ le 4 inp.toNat, btc, hexField auth "receipt", proof, true⟩
            | _, _, _ => none
        | _, _ => none
    | _ => none
  | _ => none

def isPrefix (a b : Bytes) : Bool := a.length ≤ b.length && b.take a.length == a

/-- ops appear in the order 1, 2…, 4…, 8… -/
def opsOrdered : List Nat → Nat → Bool
  | [], _ => true
  | o :: os, cur => o ≥ cur && (o == 1 || o == 2 || o == 4 || o == 8) && opsOrdered os o

def lastResp : List Bytes → List Resp → Option Resp
  | [_], r :: _ => some r
  | _ :: a :: as, _ :: rs => lastResp (a :: as) rs
  | _, _ => none

/-- the oracle, on a sign request that reached the device with no link repair pending -/
def c01 (m : Mode) (req : Json) (script : List Resp) (commIssue0 : Bool) (o : LineObs) : Bool :=
  if commIssue0 then true else
  match expected m req with
  | none => true
  | some e =>
    let as := apdus o.events
    if as.isEmpty then true          -- not relayed at all (refused before the device): C02's business
    else
      -- nothing but SIGN messages, in order, each part a prefix of what was asked
      as.all (fun a => a.take 2 == [0x80, 0x02]) &&
      opsOrdered (as.map fun a => (a.getD 2 0).toNat) 1 &&
      isPrefix (view 1 as) e.path && (view 1 as == e.path) &&
      isPrefix (view 2 as) e.btc && isPrefix (view 4 as) e.receipt && isPrefix (view 8 as) e.proof &&
      (e.auth || (as.length == 1)) &&
      -- success exactly when everything was consumed and the device reported success with a
      -- DER signature; then the reply carries exactly its r and s
      (let complete := view 2 as == e.btc && view 4 as == e.receipt && view 8 as == e.proof
       let sigOf := match lastResp as script with
         | some (.data b) => if (b.getD 2 0).toNat == 0x81 then Der.parse (b.drop 3) else none
         | _ => none
       let ok := errorcode? o.reply == some 0
       match sigOf with
       | some (r, s) =>
         if complete then
           ok && (match o.reply with
             | .obj kvs => Json.lookup kvs "signature" ==
                 some (.obj [("r", .str (Bytes.toHex r)), ("s", .str (Bytes.toHex s))])
             | _ => false)
         else !ok
       | none => !ok)

end Spec.C01
end PowHsm
