/-
  C18 — admin commands touch seed and PIN only under their preconditions.
  The oracle recomputes the preconditions from the (message, answer) pairs that precede the
  first sensitive message; opcodes and the PIN policy are literals from the property / firmware.
-/
import PowHsm.Spec.C09
namespace PowHsm
namespace Spec.C18
open Spec.C09

def isAlnum (c : UInt8) : Bool :=
  (48 ≤ c.toNat && c.toNat ≤ 57) || (65 ≤ c.toNat && c.toNat ≤ 90) || (97 ≤ c.toNat && c.toNat ≤ 122)
def isAlpha (c : UInt8) : Bool := (65 ≤ c.toNat && c.toNat ≤ 90) || (97 ≤ c.toNat && c.toNat ≤ 122)
/-- 8 alphanumerics, at least one letter -/
def policyPin (p : Bytes) : Bool := p.length == 8 && p.all isAlnum && p.any isAlpha

def answered (pre : List (Bytes × Resp)) (cmd : Nat) (p : Bytes → Bytes → Bool) : Bool :=
  match pre.find? (fun x => cmdOf x.1 == cmd) with
  | some (a, .data b) => p a b
  | _ => false

def bootloaderEchoed (pre : List (Bytes × Resp)) : Bool :=
  answered pre 0x43 (fun _ b => b.getD 1 0 == 2) &&
  (answered pre 0x02 (fun a b => a == b) || answered pre 0xA4 (fun a b => a == b))

/-- `str.rstrip()` -/
def rstrip (s : String) : String :=
  String.ofList ((s.toList.reverse.dropWhile fun c => c == ' ' || c == '\t' || c == '\n' || c == '\r' || c.toNat == 11 || c.toNat == 12).reverse)

/-- the operator's decision in the confirmation loop: first "yes" / "n" / "no" (any case) -/
def operatorSaidYes : List String → Bool
  | [] => false
  | a :: rest =>
    let l := (rstrip a).toLower
    if l == "yes" then true else if l == "n" || l == "no" then false else operatorSaidYes rest

/-- bytes of the PIN-carrying `SEND_PIN` messages `80 41 i b`, in index order as sent -/
def sentPinBytes (as : List Bytes) : Bytes := (as.filter (cmdOf · == 0x41)).map (·.getD 3 0)

/-- the six documented paths, as `pubkeys` lists them -/
def docPathStrs : List String :=
  ["m/44'/0'/0'/0/0", "m/44'/137'/0'/0/0", "m/44'/137'/1'/0/0", "m/44'/1'/0'/0/0", "m/44'/1'/1'/0/0",
   "m/44'/1'/2'/0/0"]

/-- "the public keys written to disk are the device's keys for the six documented paths": after a run
    of `pubkeys` against a genuine device (whatever faults the link suffers) each output file is
    either untouched (`none`) or lists the six documented paths, and a run that reports success with
    an output file has written both.  (That the values are the device's keys is the model's
    `pubkeys` output, compared by the correspondence.) -/
def filesOk (hasOutput ok : Bool) (txt json : Option (List String)) : Bool :=
  (txt == none || txt == some docPathStrs) && (json == none || json == some docPathStrs) &&
  (!(ok && hasOutput) || (txt == some docPathStrs && json == some docPathStrs))

/-- the device acknowledged the unlock (Ledger UNLOCK / SGX unlock answered "unlocked") -/
def unlockAcknowledged (ps : List (Bytes × Resp)) : Bool :=
  ps.any fun p => (cmdOf p.1 == 0xFE || cmdOf p.1 == 0xA3) &&
    (match p.2 with | .data b => b.getD 2 0 != 0 | _ => false)

structure Obs where
  events : List Ev
  ok : Bool

def c18 (cmd : String) (anyPin : Bool) (pinGiven : Bool) (seed : Bytes) (stdinLines : List String)
    (script : List Resp) (o : Obs) : Bool :=
  let as := apdus o.events
  let ps := pairs as script
  let sensitiveOnboard (a : Bytes) : Bool := cmdOf a == 0x44 || cmdOf a == 0x07 || cmdOf a == 0xA0 || cmdOf a == 0x41
  let sensitiveUnlock (a : Bytes) : Bool := cmdOf a == 0xFE || cmdOf a == 0xA3 || cmdOf a == 0x41
  if cmd == "onboard" then
    let pre := takeUntil (fun p => sensitiveOnboard p.1) ps
    (!(as.any sensitiveOnboard) ||
      (bootloaderEchoed pre && answered pre 0x06 (fun _ b => b.getD 1 0 == 0) && operatorSaidYes stdinLines)) &&
    -- the seed is exactly the generator's 32 bytes, sent once, byte-indexed (Ledger) / in one message (SGX)
    (let seedMsgs := as.filter (cmdOf · == 0x44)
     seedMsgs == ((List.range 32).map (fun i => [0x80, 0x44, UInt8.ofNat i, seed.getD i 0])).take seedMsgs.length) &&
    ((as.filter (cmdOf · == 0x44)).length ≤ 32) &&
    (match as.find? (cmdOf · == 0xA0) with
     | some a => (a.drop 3).take 32 == seed && a.getD 2 1 == 0 && (anyPin && !pinGiven || policyPin (a.drop 35))
     | none => true) &&
    -- a policy-compliant PIN unless any-PIN was explicitly allowed (for a PIN typed by the operator)
    (let pinMsg := sentPinBytes as
     pinMsg.isEmpty || !(as.any (cmdOf · == 0x07)) || (anyPin && !pinGiven) || policyPin (pinMsg.drop 1))
  else if cmd == "unlock" || cmd == "pubkeys" then
    let pre := takeUntil (fun p => sensitiveUnlock p.1) ps
    (!(as.any sensitiveUnlock) ||
      (bootloaderEchoed pre && answered pre 0x06 (fun _ b => b.getD 1 0 == 1))) &&
    -- "when the preconditions hold the operation is carried out": once the device has acknowledged
    -- the unlock, the unlock command ends normally, whatever becomes of the exit that follows
    (cmd != "unlock" || !unlockAcknowledged ps || o.ok) &&
    -- public keys are asked for the six documented paths, in the documented order
    (cmd != "pubkeys" || !o.ok ||
      (as.filter (cmdOf · == 0x04)).map (·.drop 2) ==
        [[5, 0x2c,0,0,0x80, 0,0,0,0x80, 0,0,0,0x80, 0,0,0,0, 0,0,0,0],
         [5, 0x2c,0,0,0x80, 0x89,0,0,0x80, 0,0,0,0x80, 0,0,0,0, 0,0,0,0],
         [5, 0x2c,0,0,0x80, 0x89,0,0,0x80, 1,0,0,0x80, 0,0,0,0, 0,0,0,0],
         [5, 0x2c,0,0,0x80, 1,0,0,0x80, 0,0,0,0x80, 0,0,0,0, 0,0,0,0],
         [5, 0x2c,0,0,0x80, 1,0,0,0x80, 1,0,0,0x80, 0,0,0,0, 0,0,0,0],
         [5, 0x2c,0,0,0x80, 1,0,0,0x80, 2,0,0,0x80, 0,0,0,0, 0,0,0,0]])
  else if cmd == "changepin" then
    -- the new PIN (after CHANGE_PIN's length byte / in the SGX message) follows the policy
    let unlockPre := takeUntil (fun p => sensitiveUnlock p.1) ps
    (!(as.any (fun a => cmdOf a == 0xFE || cmdOf a == 0xA3)) ||
      (bootloaderEchoed unlockPre && answered unlockPre 0x06 (fun _ b => b.getD 1 0 == 1))) &&
    (match as.find? (cmdOf · == 0xA5) with
     | some a => anyPin || policyPin (a.drop 3)
     | none => true) &&
    (!(as.any (cmdOf · == 0x08)) || anyPin ||
      -- the PIN bytes sent after the unlock command are `len ‖ new PIN`
      (let afterUnlock := (as.dropWhile (cmdOf · != 0xFE)).drop 1
       policyPin ((sentPinBytes afterUnlock).drop 1) || policyPin ((sentPinBytes as).drop 1)))
  else true

end Spec.C18
end PowHsm
