import PowHsm.Spec.Line
namespace PowHsm
namespace Spec

/-- C03 on one line: if the manager was not repairing a broken link and the device kept to
    its protocol, exactly one line with an integer errorcode was written and the server goes on. -/
def c03 (script : List Resp) (commIssue0 : Bool) (o : LineObs) : Bool :=
  commIssue0 || !deviceConforms script o.events || (isReply o.reply && !o.shutdown)

end Spec
end PowHsm
