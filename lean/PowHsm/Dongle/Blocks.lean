/-
  `advance_blockchain`, `update_ancestor`, `_do_block_operation`, `_send_block_header`
  (ledger/hsm2dongle.py:965-1057, 1136-1409).
-/
import PowHsm.Dongle.Sign
import PowHsm.Rlp.Block
namespace PowHsm
namespace Dongle
open Generated Tbl

/-- hash functions the block operations depend on (uninterpreted in the theorems) -/
structure Hashes where
  keccak : Bytes → Bytes
  /-- `coinbase_tx_get_hash` on a coinbase of at least 40 bytes (32 bytes, already reversed) -/
  cbHash : Bytes → Bytes
  /-- headers nested so deep that pyrlp's recursive decode / encode hits CPython's recursion
      limit (an outcome of the interpreter, given as an input like the JSON decode outcome);
      `block_utils` reports them as malformed (ValueError) -/
  tooDeep : Bytes → Bool := fun _ => false

/-- `coinbase_tx_get_hash`: `set_midstate` needs 40 bytes of coinbase; `none` = `ValueError` -/
def coinbaseHash (h : Hashes) (cb : Bytes) : Option Bytes :=
  if cb.length < 40 then none else some (h.cbHash cb)

/-- the two flavours of the block protocol -/
structure BlockCfg where
  advance : Bool
  cmd : UInt8
  opInit : UInt8
  opHeaderMeta : UInt8
  opHeaderChunk : UInt8
  opSuccess : UInt8
  /-- advance only -/
  opPartial : UInt8 := 0
  opBroListMeta : UInt8 := 0
  opBroMeta : UInt8 := 0
  opBroChunk : UInt8 := 0
  errProtInvalid : Nat
  respOkTotal : Int
  respOkPartial : Int := 0
  respInit : Int
  respComputeMeta : Int
  respMetadata : Int
  respUnexpected : Int
  respInvalidBrothers : Int := 0
  initRule : List (List Nat × Int) × Int
  broListRule : List (List Nat × Int) × Int := ([], 0)
  metaRule : List (List Nat × Int) × Int
  chunkMap : List (Nat × Int)
  chunkDefault : Int

def advCfg : BlockCfg where
  advance := true
  cmd := u8 Command_ADVANCE
  opInit := u8 AdvanceOps_INIT
  opHeaderMeta := u8 AdvanceOps_HEADER_META
  opHeaderChunk := u8 AdvanceOps_HEADER_CHUNK
  opSuccess := u8 AdvanceOps_SUCCESS
  opPartial := u8 AdvanceOps_PARTIAL
  opBroListMeta := u8 AdvanceOps_BROTHER_LIST_META
  opBroMeta := u8 AdvanceOps_BROTHER_META
  opBroChunk := u8 AdvanceOps_BROTHER_CHUNK
  errProtInvalid := AdvanceUpdateError_PROT_INVALID.toNat
  respOkTotal := AdvanceResponse_OK_TOTAL
  respOkPartial := AdvanceResponse_OK_PARTIAL
  respInit := AdvanceResponse_ERROR_INIT
  respComputeMeta := AdvanceResponse_ERROR_COMPUTE_METADATA
  respMetadata := AdvanceResponse_ERROR_METADATA
  respUnexpected := AdvanceResponse_ERROR_UNEXPECTED
  respInvalidBrothers := AdvanceResponse_ERROR_INVALID_BROTHERS
  initRule := advBlockOp_0
  broListRule := advBlockOp_1
  metaRule := advSendHeader_0
  chunkMap := advChunkMap
  chunkDefault := advSendHeader_1_default

def updCfg : BlockCfg where
  advance := false
  cmd := u8 Command_UPD_ANCESTOR
  opInit := u8 UpdateAncestorOps_INIT
  opHeaderMeta := u8 UpdateAncestorOps_HEADER_META
  opHeaderChunk := u8 UpdateAncestorOps_HEADER_CHUNK
  opSuccess := u8 UpdateAncestorOps_SUCCESS
  errProtInvalid := AdvanceUpdateError_PROT_INVALID.toNat
  respOkTotal := UpdateAncestorResponse_OK_TOTAL
  respInit := UpdateAncestorResponse_ERROR_INIT
  respComputeMeta := UpdateAncestorResponse_ERROR_COMPUTE_METADATA
  respMetadata := UpdateAncestorResponse_ERROR_METADATA
  respUnexpected := UpdateAncestorResponse_ERROR_UNEXPECTED
  initRule := updBlockOp_0
  metaRule := updSendHeader_0
  chunkMap := updChunkMap
  chunkDefault := updSendHeader_1_default

/-- `(success?, response bytes or result code)` as `_send_block_header` returns it -/
inductive HdrOut where
  | ok (resp : Bytes)
  | fail (code : Int)

/-- the metadata message of `_send_block_header` (without CLA / command): operation, 2-byte
    big-endian merge-mining payload size and, for advance, the coinbase transaction hash.
    `none`: `ValueError` / `OverflowError` ⇒ ERROR_COMPUTE_METADATA -/
def headerMeta (h : Hashes) (c : BlockCfg) (isBrother : Bool) (block : Option Bytes) : Option Bytes := do
  let opMeta := if isBrother then c.opBroMeta else c.opHeaderMeta
  let raw ← block
  if h.tooDeep raw then none
  let sz ← Block.mmPayloadSize raw
  if sz ≥ 2 ^ 16 then none
  else
    if c.advance then
      let cb ← Block.coinbaseTxn raw
      let hsh ← coinbaseHash h cb
      pure (opMeta :: (Bytes.be 2 sz ++ hsh))
    else pure (opMeta :: Bytes.be 2 sz)

def headerOpChunk (c : BlockCfg) (isBrother : Bool) : UInt8 := if isBrother then c.opBroChunk else c.opHeaderChunk
def headerOpMeta (c : BlockCfg) (isBrother : Bool) : UInt8 := if isBrother then c.opBroMeta else c.opHeaderMeta

/-- what the device may ask for after (part of) a header -/
def headerNexts (c : BlockCfg) (isBrother : Bool) : List UInt8 :=
  [headerOpChunk c isBrother, headerOpMeta c isBrother, c.opSuccess] ++
    (if c.advance then
      [c.opPartial] ++ (if isBrother then [c.opHeaderMeta] else [c.opBroListMeta])
     else [])

/-- A. the metadata exchange: how many bytes the device wants first -/
def headerMetaStep (c : BlockCfg) (isBrother : Bool) (data : Bytes) : M (Except Int Nat) :=
  catchResult
    (do let resp ← sendCommand c.cmd data
        let rop ← idx resp 2
        if rop != headerOpChunk c isBrother then pure (Except.error c.respUnexpected)
        else do
          let n ← idx resp 3
          pure (Except.ok n.toNat))
    (fun sw => pure (Except.error (applyRule c.metaRule sw)))

/-- B. the header itself, in chunks (the device may stop asking before the end) -/
def headerChunkStep (c : BlockCfg) (isBrother : Bool) (raw : Bytes) (req : Nat) : M HdrOut :=
  catchResult
    (do let (ok, resp) ← sendChunks c.cmd (headerOpChunk c isBrother) (headerNexts c isBrother) raw false req
        if !ok then pure (.fail c.respUnexpected) else pure (.ok resp))
    (fun sw => pure (.fail (dictGet c.chunkMap sw c.chunkDefault)))

/-- `_send_block_header`.  `block` is the decoded hex, or `none` when the string is not hex
    (then `rlp_mm_payload_size` raises `ValueError`). -/
def sendBlockHeader (h : Hashes) (c : BlockCfg) (isBrother : Bool) (block : Option Bytes) :
    M HdrOut :=
  match headerMeta h c isBrother block, block with
  | none, _ => pure (.fail c.respComputeMeta)
  | _, none => pure (.fail c.respComputeMeta)
  | some data, some raw => do
    match ← headerMetaStep c isBrother data with
    | .error code => pure (.fail code)
    | .ok req => headerChunkStep c isBrother raw req

/-- the brothers of one block, after the block itself was sent -/
def sendBrothers (h : Hashes) (c : BlockCfg) : List (Option Bytes) → Bytes → M HdrOut
  | [], last => pure (.ok last)
  | b :: bs, _ => do
    match ← sendBlockHeader h c true b with
    | .fail code => pure (.fail code)
    | .ok resp => sendBrothers h c bs resp

/-- `(success, result code)` -/
abbrev OpOut := Bool × Int

/-- what happens between a block and the next one: if the device asks for the block's brothers
    (advance only), their count and then each of them -/
def brothersPart (h : Hashes) (c : BlockCfg) (brothers : List (List (Option Bytes))) (resp0 : Bytes) : M HdrOut := do
  let rop0 ← idx resp0 2
  if c.advance && rop0 == c.opBroListMeta then do
    let broList := brothers.headD []
    if broList.length > 255 then pure (HdrOut.fail c.respInvalidBrothers)
    else do
      let data := [c.opBroListMeta, UInt8.ofNat broList.length]
      let r ← catchResult
        (do let resp ← sendCommand c.cmd data
            if broList.length > 0 then do
              let rop ← idx resp 2
              if rop != c.opBroMeta then pure (HdrOut.fail c.respUnexpected)
              else pure (HdrOut.ok resp)
            else pure (HdrOut.ok resp))
        (fun sw => pure (HdrOut.fail (applyRule c.broListRule sw)))
      match r with
      | .fail code => pure (HdrOut.fail code)
      | .ok resp => sendBrothers h c broList resp
  else pure (HdrOut.ok resp0)

/-- the `for block_number, block in enumerate(blocks, 1)` loop -/
def blockLoop (h : Hashes) (c : BlockCfg) :
    List (Option Bytes) → List (List (Option Bytes)) → M OpOut
  | [], _ => M.throw' .dongleError        -- "unexpected state"
  | block :: blocks, brothers => do
    match ← sendBlockHeader h c false block with
    | .fail code => pure (false, code)
    | .ok resp0 =>
      match ← brothersPart h c brothers resp0 with
      | .fail code => pure (false, code)
      | .ok resp =>
        let rop ← idx resp 2
        if c.advance && rop == c.opPartial then pure (true, c.respOkPartial)
        else if rop == c.opSuccess then pure (true, c.respOkTotal)
        else blockLoop h c blocks (brothers.drop 1)

/-- `_do_block_operation` -/
def doBlockOperation (h : Hashes) (c : BlockCfg) (blocks : List (Option Bytes))
    (brothers : List (List (Option Bytes))) : M OpOut := do
  if blocks.length ≥ 2 ^ 32 then M.throw' .overflowError else
  let data := c.opInit :: Bytes.be 4 blocks.length
  let r ← catchResult
    (do let resp ← sendCommand c.cmd data
        let rop ← idx resp 2
        if rop != c.opHeaderMeta then pure (some c.respUnexpected) else pure none)
    (fun sw => pure (some (applyRule c.initRule sw)))
  match r with
  | some code => pure (false, code)
  | none => blockLoop h c blocks brothers

def bytesLe : Bytes → Bytes → Bool
  | [], _ => true
  | _ :: _, [] => false
  | a :: as, b :: bs => a < b || (a == b && bytesLe as bs)

/-- `advance_blockchain(blocks, brothers)`; strings that are not hex are `none`.
    The sort key of every brother is computed first: any failure ⇒ ERROR_INVALID_BROTHERS. -/
def advanceBlockchain (h : Hashes) (blocks : List (Option Bytes))
    (brothers : List (List (Option Bytes))) : M OpOut :=
  let keyed : Option (List (List (Bytes × Bytes))) :=
    brothers.mapM fun bl => bl.mapM fun b => do
      let raw ← b
      if h.tooDeep raw then none
      let k ← Block.blockHash h.keccak raw
      pure (k, raw)
  match keyed with
  | none => pure (false, AdvanceResponse_ERROR_INVALID_BROTHERS)
  | some ks =>
    let sorted := ks.map fun bl => (bl.mergeSort fun a b => bytesLe a.1 b.1).map fun p => some p.2
    doBlockOperation h advCfg blocks sorted

/-- `update_ancestor(blocks)` -/
def updateAncestor (h : Hashes) (blocks : List (Option Bytes)) : M OpOut :=
  match blocks.mapM fun b => b.bind fun raw => if h.tooDeep raw then none else Block.removeMM raw true with
  | none => pure (false, UpdateAncestorResponse_ERROR_REMOVE_MM_FIELDS)
  | some opt => doBlockOperation h updCfg (opt.map some) []

end Dongle
end PowHsm
