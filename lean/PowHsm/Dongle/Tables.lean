/-
  Typed views of the generated tables (`Generated/*.lean`, rewritten from the source tree by
  the translator on every run).
-/
import PowHsm.Generated.Enums
import PowHsm.Generated.StepRules
import PowHsm.Generated.Protocol
namespace PowHsm
namespace Tbl
open Generated

def u8 (i : Int) : UInt8 := UInt8.ofNat i.toNat

/-- a step rule `([ (codes, response) ], default)`: first matching branch wins -/
def applyRule (rule : List (List Nat × Int) × Int) (sw : Nat) : Int :=
  match rule.1.find? (fun br => br.1.contains sw) with
  | some br => br.2
  | none => rule.2

/-- `dict.get(k, d)` -/
def dictGet [BEq α] (d : List (α × β)) (k : α) (dflt : β) : β :=
  match d.find? (fun p => p.1 == k) with
  | some p => p.2
  | none => dflt

end Tbl
end PowHsm
