/-
  `HSM2Dongle.sign_authorized` / `sign_unauthorized` / `get_public_key`
  (ledger/hsm2dongle.py:610-900), function by function.
-/
import PowHsm.Dongle.Chunks
import PowHsm.Dongle.Der
import PowHsm.Dongle.Tables
import PowHsm.Comm.Bip32
import PowHsm.Btc.Tx
namespace PowHsm
namespace Dongle
open Generated Tbl

def CMD_SIGN : UInt8 := u8 Command_SIGN
def OP_PATH : UInt8 := u8 SignOps_PATH
def OP_BTC_TX : UInt8 := u8 SignOps_BTC_TX
def OP_TX_RECEIPT : UInt8 := u8 SignOps_TX_RECEIPT
def OP_MERKLE_PROOF : UInt8 := u8 SignOps_MERKLE_PROOF
def OP_SUCCESS : UInt8 := u8 SignOps_SUCCESS

/-- `try: m except HSM2DongleErrorResult as e: h e.error_code` -/
def catchResult (m : M α) (h : Nat → M α) : M α :=
  M.tryCatchIf m (fun e => match e with | .dongleResult _ => true | _ => false)
    (fun e => match e with | .dongleResult sw => h sw | e => M.throw' e)

inductive SignOut where
  | sig (r s : Bytes)
  | fail (code : Int)
  deriving Repr, DecidableEq, Inhabited

structure SignAuthArgs where
  path : List Nat
  receipt : Bytes
  proof : List Bytes
  btcTx : Bytes               -- already unsigned by `_sign`
  input : Int
  segwit : Bool
  witnessScript : Bytes := []
  outpoint : Int := 0
  deriving Repr, Inhabited

def netMode (segwit : Bool) : Nat :=
  dictGet sighashNet (if segwit then "segwit" else "legacy") 0

/-- the payload of step 2 (`None` = `OverflowError` from one of the `to_bytes`) -/
def btcPayload (a : SignAuthArgs) : Option Bytes :=
  let ed : Option Bytes :=
    if a.segwit then
      if a.outpoint < 0 ∨ a.outpoint ≥ 2 ^ 64 then none
      else some (Btc.varint a.witnessScript.length ++ a.witnessScript ++ Bytes.le 8 a.outpoint.toNat)
    else some []
  match ed with
  | none => none
  | some ed =>
    if ed.length ≥ 2 ^ 16 then none
    else
      let plen := 4 + 1 + 2 + a.btcTx.length
      if plen ≥ 2 ^ 32 then none
      else some (Bytes.le 4 plen ++ Bytes.le 1 (netMode a.segwit) ++ Bytes.le 2 ed.length ++ a.btcTx ++ ed)

/-- step 4 framing (`None` = the `ValueError`s "Too many nodes" / "Node too big") -/
def proofPayload (proof : List Bytes) : Option Bytes :=
  if proof.length > 255 then none
  else if proof.any (fun n => n.length > 255) then none
  else some (UInt8.ofNat proof.length :: (proof.map fun n => UInt8.ofNat n.length :: n).flatten)

def sigOfResponse (resp : Bytes) (unexpected : Int) : SignOut :=
  match Der.parse (resp.drop 3) with
  | some (r, s) => .sig r s
  | none => .fail unexpected

def signAuthorized (a : SignAuthArgs) : M SignOut := do
  let unexpected := SignResponse_ERROR_UNEXPECTED
  -- Step 1: path and input index (the conversion is outside the try)
  if a.input < 0 ∨ a.input ≥ 2 ^ 32 then M.throw' .overflowError else
  let data := OP_PATH :: (Bip32.toBinary a.path ++ Bytes.le 4 a.input.toNat)
  let s1 ← catchResult
    (do let resp ← sendCommand CMD_SIGN data
        let rop ← idx resp 2
        if rop != OP_BTC_TX then pure (Except.error unexpected)
        else do
          let n ← idx resp 3
          pure (Except.ok n.toNat))
    (fun sw => pure (Except.error (applyRule signAuthorized_0 sw)))
  match s1 with
  | .error c => pure (.fail c)
  | .ok req1 =>
  -- Step 2: BTC tx + extra data
  let s2 ← catchResult
    (match btcPayload a with
     | none => pure (Except.error SignResponse_ERROR_BTC_TX)
     | some payload => do
        let (ok, resp) ← sendChunks CMD_SIGN OP_BTC_TX [OP_TX_RECEIPT] payload true req1
        if !ok then pure (Except.error unexpected)
        else do
          let n ← idx resp 3
          pure (Except.ok n.toNat))
    (fun sw => pure (Except.error (applyRule signAuthorized_1 sw)))
  match s2 with
  | .error c => pure (.fail c)
  | .ok req2 =>
  -- Step 3: receipt
  let s3 ← catchResult
    (do let (ok, resp) ← sendChunks CMD_SIGN OP_TX_RECEIPT [OP_MERKLE_PROOF] a.receipt true req2
        if !ok then pure (Except.error unexpected)
        else do
          let n ← idx resp 3
          pure (Except.ok n.toNat))
    (fun sw => pure (Except.error (applyRule signAuthorized_2 sw)))
  match s3 with
  | .error c => pure (.fail c)
  | .ok req3 =>
  -- Step 4: merkle proof
  match proofPayload a.proof with
  | none => pure (.fail SignResponse_ERROR_MERKLE_PROOF)
  | some pp =>
  let s4 ← catchResult
    (do let (ok, resp) ← sendChunks CMD_SIGN OP_MERKLE_PROOF [OP_SUCCESS] pp true req3
        if !ok then pure (Except.error unexpected) else pure (Except.ok resp))
    (fun sw => pure (Except.error (applyRule signAuthorized_3 sw)))
  match s4 with
  | .error c => pure (.fail c)
  | .ok resp => pure (sigOfResponse resp unexpected)

/-- `sign_unauthorized(key_id, hash)`; `hash` is the decoded hex (`None` if it does not decode) -/
def signUnauthorized (path : List Nat) (hash : Option Bytes) : M SignOut :=
  match hash with
  | none => pure (.fail SignResponse_ERROR_HASH)
  | some h => do
    let unexpected := SignResponse_ERROR_UNEXPECTED
    let data := OP_PATH :: (Bip32.toBinary path ++ h)
    let r ← catchResult
      (do let resp ← sendCommand CMD_SIGN data
          let rop ← idx resp 2
          if rop == OP_BTC_TX then pure (Except.error SignResponse_ERROR_HASH)
          else if rop != OP_SUCCESS then pure (Except.error unexpected)
          else pure (Except.ok resp))
      (fun sw => pure (Except.error (applyRule signUnauthorized_0 sw)))
    match r with
    | .error c => pure (.fail c)
    | .ok resp => pure (sigOfResponse resp unexpected)

/-- `get_public_key(key_id)`: the whole answer, hex-encoded by the caller -/
def getPublicKey (path : List Nat) : M Bytes :=
  sendCommand (u8 Command_GET_PUBLIC_KEY) (Bip32.toBinary path)

end Dongle
end PowHsm
