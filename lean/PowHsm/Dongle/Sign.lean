/-
  `HSM2Dongle.sign_authorized` / `sign_unauthorized` / `get_public_key`
  (ledger/hsm2dongle.py:610-900), function by function.
-/
import PowHsm.Dongle.Chunks
import PowHsm.Dongle.Der
import PowHsm.Dongle.Tables
import PowHsm.Comm.Bip32
import PowHsm.Btc.Tx
namespace PowHsm
namespace Dongle
open Generated Tbl

def CMD_SIGN : UInt8 := u8 Command_SIGN
def OP_PATH : UInt8 := u8 SignOps_PATH
def OP_BTC_TX : UInt8 := u8 SignOps_BTC_TX
def OP_TX_RECEIPT : UInt8 := u8 SignOps_TX_RECEIPT
def OP_MERKLE_PROOF : UInt8 := u8 SignOps_MERKLE_PROOF
def OP_SUCCESS : UInt8 := u8 SignOps_SUCCESS

/-- `try: m except HSM2DongleErrorResult as e: h e.error_code` -/
def catchResult (m : M α) (h : Nat → M α) : M α :=
  M.tryCatchIf m (fun e => match e with | .dongleResult _ => true | _ => false)
    (fun e => match e with | .dongleResult sw => h sw | e => M.throw' e)

inductive SignOut where
  | sig (r s : Bytes)
  | fail (code : Int)
  deriving Repr, DecidableEq, Inhabited

structure SignAuthArgs where
  path : List Nat
  receipt : Bytes
  proof : List Bytes
  btcTx : Bytes               -- already unsigned by `_sign`
  input : Int
  segwit : Bool
  witnessScript : Bytes := []
  outpoint : Int := 0
  deriving Repr, Inhabited

def netMode (segwit : Bool) : Nat :=
  dictGet sighashNet (if segwit then "segwit" else "legacy") 0

/-- the payload of step 2 (`None` = `OverflowError` from one of the `to_bytes`) -/
def btcPayload (a : SignAuthArgs) : Option Bytes :=
  let ed : Option Bytes :=
    if a.segwit then
      if a.outpoint < 0 ∨ a.outpoint ≥ 2 ^ 64 then none
      else some (Btc.varint a.witnessScript.length ++ a.witnessScript ++ Bytes.le 8 a.outpoint.toNat)
    else some []
  match ed with
  | none => none
  | some ed =>
    if ed.length ≥ 2 ^ 16 then none
    else
      let plen := 4 + 1 + 2 + a.btcTx.length
      if plen ≥ 2 ^ 32 then none
      else some (Bytes.le 4 plen ++ Bytes.le 1 (netMode a.segwit) ++ Bytes.le 2 ed.length ++ a.btcTx ++ ed)

/-- step 4 framing (`None` = the `ValueError`s "Too many nodes" / "Node too big") -/
def proofPayload (proof : List Bytes) : Option Bytes :=
  if proof.length > 255 then none
  else if proof.any (fun n => n.length > 255) then none
  else some (UInt8.ofNat proof.length :: (proof.map fun n => UInt8.ofNat n.length :: n).flatten)

def sigOfResponse (resp : Bytes) (unexpected : Int) : SignOut :=
  match Der.parse (resp.drop 3) with
  | some (r, s) => .sig r s
  | none => .fail unexpected

/-- one chunked part of the exchange: send `data` under `op` until the device asks for one of
    `nexts`; an error status is mapped by the step's `rule`; `post` reads what is needed from the
    device's last answer -/
def chunkStep {β : Type} (op : UInt8) (nexts : List UInt8) (data : Bytes) (init : Nat)
    (rule : List (List Nat × Int) × Int) (post : Bytes → M (Except Int β)) : M (Except Int β) :=
  catchResult
    (do let (ok, resp) ← sendChunks CMD_SIGN op nexts data true init
        if !ok then pure (Except.error SignResponse_ERROR_UNEXPECTED) else post resp)
    (fun sw => pure (Except.error (applyRule rule sw)))

/-- "how many bytes next": `response[OFF.DATA]` -/
def nextSize (resp : Bytes) : M (Except Int Nat) := do
  let n ← idx resp 3
  pure (Except.ok n.toNat)

/-- step 1 of `sign_authorized`: path and input index -/
def signStep1 (a : SignAuthArgs) : M (Except Int Nat) :=
  let data := OP_PATH :: (Bip32.toBinary a.path ++ Bytes.le 4 a.input.toNat)
  catchResult
    (do let resp ← sendCommand CMD_SIGN data
        let rop ← idx resp 2
        if rop != OP_BTC_TX then pure (Except.error SignResponse_ERROR_UNEXPECTED)
        else nextSize resp)
    (fun sw => pure (Except.error (applyRule signAuthorized_0 sw)))

/-- a step's outcome: a failure code ends the signature, a success feeds the next step -/
def orFail {β : Type} (s : Except Int β) (k : β → M SignOut) : M SignOut :=
  match s with
  | .error c => pure (.fail c)
  | .ok x => k x

/-- step 4: the receipt's merkle proof, then the signature -/
def signTail4 (pp : Bytes) (req3 : Nat) : M SignOut := do
  let s ← chunkStep OP_MERKLE_PROOF [OP_SUCCESS] pp req3 signAuthorized_3 (fun resp => pure (Except.ok resp))
  orFail s fun resp => pure (sigOfResponse resp SignResponse_ERROR_UNEXPECTED)

/-- what follows the receipt: the framed proof, if it can be framed -/
def signProof (a : SignAuthArgs) (req3 : Nat) : M SignOut :=
  match proofPayload a.proof with
  | none => pure (.fail SignResponse_ERROR_MERKLE_PROOF)
  | some pp => signTail4 pp req3

/-- step 3: the receipt -/
def signTail3 (a : SignAuthArgs) (req2 : Nat) : M SignOut := do
  let s ← chunkStep OP_TX_RECEIPT [OP_MERKLE_PROOF] a.receipt req2 signAuthorized_2 nextSize
  orFail s (signProof a)

/-- step 2: BTC tx + extra data -/
def signTail2 (a : SignAuthArgs) (req1 : Nat) : M SignOut :=
  match btcPayload a with
  | none => pure (.fail SignResponse_ERROR_BTC_TX)
  | some payload => do
    let s ← chunkStep OP_BTC_TX [OP_TX_RECEIPT] payload req1 signAuthorized_1 nextSize
    orFail s (signTail3 a)

def signAuthorized (a : SignAuthArgs) : M SignOut := do
  -- Step 1: path and input index (the conversion is outside the try)
  if a.input < 0 ∨ a.input ≥ 2 ^ 32 then M.throw' .overflowError else
  let s ← signStep1 a
  orFail s (signTail2 a)

/-- `sign_unauthorized(key_id, hash)`; `hash` is the decoded hex (`None` if it does not decode) -/
def signUnauthorized (path : List Nat) (hash : Option Bytes) : M SignOut :=
  match hash with
  | none => pure (.fail SignResponse_ERROR_HASH)
  | some h => do
    let unexpected := SignResponse_ERROR_UNEXPECTED
    let data := OP_PATH :: (Bip32.toBinary path ++ h)
    let r ← catchResult
      (do let resp ← sendCommand CMD_SIGN data
          let rop ← idx resp 2
          if rop == OP_BTC_TX then pure (Except.error SignResponse_ERROR_HASH)
          else if rop != OP_SUCCESS then pure (Except.error unexpected)
          else pure (Except.ok resp))
      (fun sw => pure (Except.error (applyRule signUnauthorized_0 sw)))
    match r with
    | .error c => pure (.fail c)
    | .ok resp => pure (sigOfResponse resp unexpected)

/-- `get_public_key(key_id)`: the whole answer, hex-encoded by the caller -/
def getPublicKey (path : List Nat) : M Bytes :=
  sendCommand (u8 Command_GET_PUBLIC_KEY) (Bip32.toBinary path)

end Dongle
end PowHsm
