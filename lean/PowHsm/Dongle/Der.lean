/-
  `HSM2DongleSignature.__init__` (ledger/signature.py:26-71): the DER parse with its
  0x31 quirk; `none` is the `ValueError`.
-/
import PowHsm.Basic.Bytes
namespace PowHsm
namespace Der

/-- returns `(r, s)` as byte strings -/
def parse (b : Bytes) : Option (Bytes × Bytes) :=
  match b with
  | tag :: total :: rest =>
    if !(tag == 0x30 || tag == 0x31) || rest.length < total.toNat then none
    else
      match rest with
      | t2 :: rlen :: rest2 =>
        if t2 != 0x02 || rest2.length < rlen.toNat then none
        else
          let r := rest2.take rlen.toNat
          match rest2.drop rlen.toNat with
          | t3 :: slen :: rest3 =>
            if t3 != 0x02 || rest3.length < slen.toNat then none
            else some (r, rest3.take slen.toNat)
          | _ => none
      | _ => none
  | _ => none

end Der
end PowHsm
