/-
  The simple commands of `HSM2Dongle` (ledger/hsm2dongle.py:496-609, 892-954),
  `HSM2FirmwareParameters.from_dongle_format`, and the two heartbeat commands.
-/
import PowHsm.Dongle.Sign
namespace PowHsm
namespace Dongle
open Generated Tbl

/-- `get_current_mode`: `_Mode(apdu_rcv[1])` raises ValueError for an unknown mode byte;
    only `HSM2DongleError` is mapped to UNKNOWN. -/
def getCurrentMode : M Nat :=
  M.tryCatchIf
    (do let r ← sendCommand (u8 Command_GET_MODE)
        let m ← idx r 1
        if (enumMode.map (·.2)).contains (Int.ofNat m.toNat) then pure m.toNat
        else M.throw' .valueError)
    (fun e => e == .dongleError)
    (fun _ => pure Mode_UNKNOWN.toNat)

def echo : M Bool := do
  let msg : Bytes := [0x41, 0x42, 0x43]
  let r ← sendCommand (u8 Command_ECHO) msg
  pure (r == CLA :: u8 Command_ECHO :: msg)

def isOnboarded : M Bool := do
  let r ← sendCommand (u8 Command_IS_ONBOARD)
  let b ← idx r 1
  pure (b == 1)

def getVersion : M (Nat × Nat × Nat) := do
  let r ← sendCommand (u8 Command_IS_ONBOARD)
  let a ← idx r 2
  let b ← idx r 3
  let c ← idx r 4
  pure (a.toNat, b.toNat, c.toNat)

def getRetries : M Nat := do
  let r ← sendCommand (u8 Command_RETRIES)
  let a ← idx r 2
  pure a.toNat

/-- `_send_pin(pin, prepend_length)` -/
def sendPin (pin : Bytes) (prepend : Bool) : M Unit := do
  let final := if prepend then UInt8.ofNat pin.length :: pin else pin
  let rec go : Nat → Bytes → M Unit
    | _, [] => pure ()
    | i, b :: bs => do
      let _ ← sendCommand (u8 Command_SEND_PIN) [UInt8.ofNat i, b]
      go (i + 1) bs
  go 0 final

def unlock (pin : Bytes) : M Bool := do
  sendPin pin false
  let r ← sendCommand (u8 Command_UNLOCK) [0, 0]
  let b ← idx r 2
  pure (b != 0)

/-- `new_pin`: `False` on the invalid-PIN status, other error results re-raised -/
def newPin (pin : Bytes) : M Bool :=
  catchResult
    (do sendPin pin true
        let _ ← sendCommand (u8 Command_CHANGE_PIN)
        pure true)
    (fun sw => if Int.ofNat sw == UIError_INVALID_PIN then pure false else M.throw' (.dongleResult sw))

def exitMenu (autoexec : Bool := true) : M Unit := do
  let _ ← sendCommand (if autoexec then u8 Command_EXIT_MENU else u8 Command_EXIT_MENU_NO_AUTOEXEC) [0, 0]
  pure ()

def exitApp : M Unit := do
  let _ ← sendCommand (u8 Command_EXIT_MENU)
  pure ()

structure Params where
  checkpoint : Bytes
  minDifficulty : Nat
  network : String
  deriving Repr, Inhabited

/-- `get_signer_parameters` (ValueError of the parser ⇒ HSM2DongleError) -/
def getSignerParameters : M Params := do
  let r ← sendCommand (u8 Command_GET_PARAMETERS)
  let p := r.drop 3
  if p.length != 69 then M.throw' .dongleError
  else
    let net := (p.getD 68 0).toNat
    match networks.find? (fun n => n.2 == net) with
    | none => M.throw' .dongleError        -- `_Network(x)` ValueError
    | some (name, _) =>
      pure { checkpoint := p.take 32, minDifficulty := Bytes.beVal ((p.drop 32).take 36), network := name }

structure BcState where
  hashes : List (String × Bytes)
  totalDifficulty : Nat
  inProgress : Bool
  alreadyValidated : Bool
  foundBestBlock : Bool
  deriving Repr, Inhabited

/-- one hash query of `get_blockchain_state`: the answer must echo the operation and the selector
    and carry 32 bytes -/
def getStateHash (sel : Nat) : M Bytes := do
  let r ← sendCommand (u8 Command_GET_STATE) [u8 GetStateOps_HASH, UInt8.ofNat sel]
  let op ← idx r 2
  -- `or` short-circuits: `result[3]` is only read when the op matches
  if op != u8 GetStateOps_HASH then M.throw' .dongleError else
  let s ← idx r 3
  if s.toNat != sel || (r.drop 4).length != HASH_SIZE then M.throw' .dongleError
  else pure (r.drop 4)

def getStateHashes : List (String × Nat) → M (List (String × Bytes))
  | [] => pure []
  | (key, sel) :: rest => do
    let hsh ← getStateHash sel
    let tl ← getStateHashes rest
    pure ((key, hsh) :: tl)

/-- `get_blockchain_state` -/
def getBlockchainState : M BcState := do
  let hs ← getStateHashes hashValues
  let r ← sendCommand (u8 Command_GET_STATE) [u8 GetStateOps_DIFF]
  let op ← idx r 2
  if op != u8 GetStateOps_DIFF then M.throw' .dongleError else
  let diff := Bytes.beVal (r.drop 3)
  let f ← sendCommand (u8 Command_GET_STATE) [u8 GetStateOps_FLAGS]
  let fop ← idx f 2
  if fop != u8 GetStateOps_FLAGS || (f.drop 3).length != 3 then M.throw' .dongleError else
  let flag (off : Int) : Bool := (f.getD (3 + off.toNat) 0) != 0
  pure { hashes := hs, totalDifficulty := diff,
         inProgress := flag GetStateFlagOffset_IN_PROGRESS,
         alreadyValidated := flag GetStateFlagOffset_ALREADY_VALIDATED,
         foundBestBlock := flag GetStateFlagOffset_FOUND_BEST_BLOCK }

/-- `reset_advance_blockchain` -/
def resetAdvanceBlockchain : M Unit := do
  let r ← sendCommand (u8 Command_RESET_AB) [u8 ResetAdvanceOps_INIT]
  let op ← idx r 2
  if op != u8 ResetAdvanceOps_DONE then M.throw' .dongleError else pure ()

structure Heartbeat where
  pubKey : Bytes
  message : Bytes
  tweak : Bytes
  r : Bytes
  s : Bytes
  deriving Repr, Inhabited

/-- `HSM2SignerHeartbeat.run` / `HSM2UIHeartbeat.run`: `(False, code)` on an error result;
    a DER `ValueError` propagates. -/
def heartbeatRun (cmd : Nat) (ops : List (String × Nat)) (ud : Bytes) : M (Option Heartbeat) :=
  let op (n : String) : UInt8 := UInt8.ofNat (dictGet ops n 0)
  catchResult
    (do let _ ← sendCommand (UInt8.ofNat cmd) (op "UD_VALUE" :: ud)
        let sig ← sendCommand (UInt8.ofNat cmd) [op "GET"]
        let msg ← sendCommand (UInt8.ofNat cmd) [op "GET_MESSAGE"]
        let hash ← sendCommand (UInt8.ofNat cmd) [op "APP_HASH"]
        let pk ← sendCommand (UInt8.ofNat cmd) [op "PUBKEY"]
        match Der.parse (sig.drop 3) with
        | none => M.throw' .valueError
        | some (r, s) =>
          pure (some { pubKey := pk.drop 3, message := msg.drop 3, tweak := hash.drop 3, r := r, s := s }))
    (fun _ => pure none)

def signerHeartbeat (ud : Bytes) : M (Option Heartbeat) := heartbeatRun signerHbCommand signerHbOps ud
def uiHeartbeat (ud : Bytes) : M (Option Heartbeat) := heartbeatRun uiHbCommand uiHbOps ud

end Dongle
end PowHsm
