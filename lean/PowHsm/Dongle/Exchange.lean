/-
  `HSM2Dongle._send_command`, `connect`, `disconnect`  (ledger/hsm2dongle.py:417-494)
-/
import PowHsm.Basic.Script
namespace PowHsm
namespace Dongle

/-- `_Error.is_user_defined_error` — shape is re-checked against the source by the translator
    (`Generated.userRange`). -/
def isUserDefined (sw : Nat) : Bool := (0x69A0 ≤ sw && sw ≤ 0x6BFF) || sw == 0x6D00

/-- classification of what `exchange` did, as `_send_command` re-raises it -/
def classify : Resp → Except Exc Bytes
  | .data b => .ok b
  | .sw w => if isUserDefined w then .error (.dongleResult w) else .error .dongleError
  | .timeout => .error .dongleTimeout
  | .writeErr => .error .dongleComm
  | .readErr => .error .dongleComm
  | .other => .error .dongleError

/-- one exchange: emits the APDU, consumes one script entry.  An exhausted script behaves
    as a device that fails every further exchange with an unexpected exception. -/
def exchange (apdu : Bytes) : M Bytes := fun w =>
  match w.script with
  | [] => ⟨.error .dongleError, [.apdu apdu], w⟩
  | r :: rest => ⟨classify r, [.apdu apdu], { w with script := rest }⟩

def CLA : UInt8 := 0x80

def sendCommand (cmd : UInt8) (data : Bytes := []) : M Bytes :=
  exchange (CLA :: cmd :: data)

/-- `resp[i]` on a `bytearray` -/
def idx (b : Bytes) (i : Nat) : M UInt8 :=
  match b[i]? with
  | some x => pure x
  | none => M.throw' .indexError

def connect : M Unit := fun w =>
  match w.conns with
  | [] => ⟨.ok (), [.connect true], w⟩
  | true :: rest => ⟨.ok (), [.connect true], { w with conns := rest }⟩
  | false :: rest => ⟨.error .dongleComm, [.connect false], { w with conns := rest }⟩

def disconnect : M Unit := M.emit .disconnect

end Dongle
end PowHsm
