/-
  `HSM2Dongle._send_data_in_chunks` (ledger/hsm2dongle.py:1415-1484).
  One loop iteration = one exchange = one script entry, so the loop is structurally
  recursive on the script.
-/
import PowHsm.Dongle.Exchange
namespace PowHsm
namespace Dongle

/-- result triple of a scripted loop -/
abbrev LoopRes (α : Type) := Except Exc α × List Bytes × List Resp

/-- Python `data[offset:offset+n]` -/
def slice (data : Bytes) (offset n : Nat) : Bytes := (data.drop offset).take n

/-- returns `(success, last response)`; the list of APDUs sent; the rest of the script -/
def sendChunksAux (cmd op : UInt8) (nexts : List UInt8) (data : Bytes) (full : Bool) :
    Nat → Nat → List Resp → LoopRes (Bool × Bytes)
  | offset, req, [] =>
    (.error .dongleError, [CLA :: cmd :: op :: slice data offset req], [])
  | offset, req, r :: rest =>
    let toSend := slice data offset req
    let apdu := CLA :: cmd :: op :: toSend
    match classify r with
    | .error e => (.error e, [apdu], rest)
    | .ok resp =>
      match resp[2]? with
      | none => (.error .indexError, [apdu], rest)
      | some rop =>
        if !(op :: nexts).contains rop then (.ok (false, resp), [apdu], rest)
        else if rop != op then
          if full && offset + toSend.length < data.length then (.ok (false, resp), [apdu], rest)
          else (.ok (true, resp), [apdu], rest)
        else
          match resp[3]? with
          | none => (.error .indexError, [apdu], rest)
          | some n =>
            let (v, as, s') := sendChunksAux cmd op nexts data full
              (offset + toSend.length) n.toNat rest
            (v, apdu :: as, s')

def sendChunks (cmd op : UInt8) (nexts : List UInt8) (data : Bytes) (full : Bool)
    (initial : Nat) : M (Bool × Bytes) := fun w =>
  let (v, as, s') := sendChunksAux cmd op nexts data full 0 initial w.script
  ⟨v, as.map Ev.apdu, { w with script := s' }⟩

end Dongle
end PowHsm
