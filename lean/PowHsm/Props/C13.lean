/-
  C13 — query replies report the device's data verbatim.
-/
import PowHsm.Spec.C13
import PowHsm.Generated.Enums
import PowHsm.Proofs.Emits
namespace PowHsm
namespace Props.C13
open Generated

/-- the selectors the manager asks for, and the reply field each lands in, are those of the
    firmware (bc_state.h) and of docs/protocol.md -/
theorem selectors_as_documented :
    hashValues = [("best_block", 0x01), ("newest_valid_block", 0x02), ("ancestor_block", 0x03),
                  ("ancestor_receipts_root", 0x05), ("updating.best_block", 0x81),
                  ("updating.newest_valid_block", 0x82), ("updating.next_expected_block", 0x84)] := by decide

theorem flag_offsets_as_documented :
    GetStateFlagOffset_IN_PROGRESS = 0 ∧ GetStateFlagOffset_ALREADY_VALIDATED = 1 ∧
    GetStateFlagOffset_FOUND_BEST_BLOCK = 2 := by decide

theorem networks_as_documented :
    networks = [("MAINNET", 1), ("TESTNET", 2), ("REGTEST", 3)] := by decide

/-- leading zero bytes do not change the number: the difficulty the device sends with its
    leading zeros stripped is read back as the same unsigned number -/
theorem beVal_leading_zeros (k : Nat) (b : Bytes) :
    Bytes.beVal (List.replicate k 0 ++ b) = Bytes.beVal b := by
  induction k with
  | zero => simp
  | succ k ih =>
    rw [List.replicate_succ, List.cons_append]
    have : Bytes.beVal ((0 : UInt8) :: (List.replicate k 0 ++ b)) = Bytes.beVal (List.replicate k 0 ++ b) := by
      change Bytes.beVal ([0] ++ (List.replicate k 0 ++ b)) = _
      rw [Bytes.beVal_append]; simp [Bytes.beVal]
    rw [this, ih]

/-- the 36-byte big-endian difficulty round-trips for every value below 2^288 -/
theorem difficulty_roundtrip (n : Nat) (h : n < 256 ^ 36) : Bytes.beVal (Bytes.be 36 n) = n :=
  Bytes.beVal_be_of_lt h

open Dongle M Generated Tbl in
/-- one hash query: when it succeeds, the device's answer echoed the selector and carried 32
    bytes, and those bytes are what is returned; exactly one query message was sent -/
theorem state_hash_exact (sel : Nat) (w : World) (v : Bytes) (h : (getStateHash sel w).val = .ok v) :
    ∃ r rest, w.script = .data r :: rest ∧ (getStateHash sel w).w = { w with script := rest } ∧
      (getStateHash sel w).evs = [.apdu [Dongle.CLA, u8 Command_GET_STATE, u8 GetStateOps_HASH, UInt8.ofNat sel]] ∧
      v = r.drop 4 ∧ (r.getD 3 0).toNat = sel ∧ (r.drop 4).length = HASH_SIZE := by
  unfold getStateHash at h ⊢
  obtain ⟨r, e1, w1, hsend, h1, hev1, hw1⟩ := bind_ok_inv h
  obtain ⟨rest, hscript, he1, hw⟩ := sendCommand_ok_inv hsend
  obtain ⟨op, e2, w2, hidx, h2, hev2, hw2⟩ := bind_ok_inv h1
  obtain ⟨_, he2, hw2'⟩ := idx_ok_inv hidx
  by_cases hop : (op != u8 GetStateOps_HASH) = true
  · rw [if_pos hop] at h2; simp [M.throw'] at h2
  · simp only [hop, Bool.false_eq_true, if_false] at h2 hev2 hw2
    obtain ⟨s, e3, w3, hidx3, h3, hev3, hw3⟩ := bind_ok_inv h2
    obtain ⟨hs3, he3, hw3'⟩ := idx_ok_inv hidx3
    by_cases hbad : (s.toNat != sel || (List.drop 4 r).length != HASH_SIZE) = true
    · rw [if_pos hbad] at h3; simp [M.throw'] at h3
    · simp only [hbad, Bool.false_eq_true, if_false, pure_apply] at h3 hev3 hw3
      injection h3 with h3
      simp only [Bool.or_eq_true, bne_iff_ne, ne_eq, not_or, Decidable.not_not] at hbad
      refine ⟨r, rest, hscript, ?_, ?_, h3.symm, ?_, hbad.2⟩
      · rw [hw1, hw2, hw3, hw3', hw2', hw]
      · rw [hev1, hev2, hev3, he1, he2, he3]
        simp
      · have : r.getD 3 0 = s := by simp [List.getD, hs3]
        rw [this]; exact hbad.1

open Dongle M Generated Tbl in
/-- **each named hash of the reply is exactly what the device answered to the query for that
    name's selector**: when the hash queries succeed, the device was asked, in order, for the
    selector of each name, each answer echoed that selector and carried 32 bytes, and the value
    returned under the name is those 32 bytes — for every list of (name, selector) and every script -/
theorem state_hashes_exact : ∀ (sels : List (String × Nat)) (w : World) (res : List (String × Bytes)),
    (getStateHashes sels w).val = .ok res →
    ∃ rs : List Bytes, w.script.take sels.length = rs.map Resp.data ∧ rs.length = sels.length ∧
      apdus (getStateHashes sels w).evs =
        sels.map (fun p => [Dongle.CLA, u8 Command_GET_STATE, u8 GetStateOps_HASH, UInt8.ofNat p.2]) ∧
      res = List.zipWith (fun p r => (p.1, r.drop 4)) sels rs ∧
      ∀ p r, (p, r) ∈ sels.zip rs → (r.getD 3 0).toNat = p.2 ∧ (r.drop 4).length = HASH_SIZE := by
  intro sels
  induction sels with
  | nil =>
    intro w res h
    simp [getStateHashes] at h
    subst h
    exact ⟨[], by simp, rfl, by simp [getStateHashes, apdus], rfl, by simp⟩
  | cons p ps ih =>
    intro w res h
    obtain ⟨key, sel⟩ := p
    unfold getStateHashes at h ⊢
    obtain ⟨v, e1, w1, hq, h', hev, _⟩ := bind_ok_inv h
    obtain ⟨tl, e2, w2, hrec, h'', hev2, _⟩ := bind_ok_inv h'
    simp only [pure_apply] at h''
    injection h'' with h''
    subst h''
    obtain ⟨r, rest, hs, hw, hevs, hv, hsel, hlen⟩ := state_hash_exact sel w v (by rw [hq])
    rw [hq] at hw hevs
    simp only at hw hevs
    subst hw hevs
    obtain ⟨rs, h1, h2, h3, h4, h5⟩ := ih _ tl (by rw [hrec])
    rw [hrec] at h3
    simp only at h3
    refine ⟨r :: rs, by simp [hs, h1], by simp [h2], ?_, by simp [h4, hv], ?_⟩
    · rw [hev, hev2]
      simp [apdus, h3]
    · intro p' r' hm
      simp only [List.zip_cons_cons, List.mem_cons] at hm
      rcases hm with hm | hm
      · injection hm with e1' e2'
        subst e1' e2'
        exact ⟨hsel, hlen⟩
      · exact h5 p' r' hm

open Dongle M Generated Tbl in
/-- **the public key returned is the device's whole answer to the query for exactly the requested
    path** -/
theorem pubkey_verbatim (path : List Nat) (w : World) (k : Bytes) (h : (getPublicKey path w).val = .ok k) :
    ∃ rest, w.script = .data k :: rest ∧
      (getPublicKey path w).evs = [.apdu (Dongle.CLA :: u8 Command_GET_PUBLIC_KEY :: Bip32.toBinary path)] := by
  unfold getPublicKey at h ⊢
  cases hr : sendCommand (u8 Command_GET_PUBLIC_KEY) (Bip32.toBinary path) w with
  | mk v e w1 =>
    rw [hr] at h
    simp only at h
    subst h
    obtain ⟨rest, h1, h2, _⟩ := sendCommand_ok_inv hr
    exact ⟨rest, h1, h2⟩

end Props.C13
end PowHsm
