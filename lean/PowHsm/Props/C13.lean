/-
  C13 — query replies report the device's data verbatim.
-/
import PowHsm.Spec.C13
import PowHsm.Generated.Enums
import PowHsm.Proofs.Emits
import PowHsm.Proofs.ConformTracks
import PowHsm.Proofs.QueryReply
namespace PowHsm
namespace Props.C13
open Generated

/-- the selectors the manager asks for, and the reply field each lands in, are those of the
    firmware (bc_state.h) and of docs/protocol.md -/
theorem selectors_as_documented :
    hashValues = [("best_block", 0x01), ("newest_valid_block", 0x02), ("ancestor_block", 0x03),
                  ("ancestor_receipts_root", 0x05), ("updating.best_block", 0x81),
                  ("updating.newest_valid_block", 0x82), ("updating.next_expected_block", 0x84)] := by decide

theorem flag_offsets_as_documented :
    GetStateFlagOffset_IN_PROGRESS = 0 ∧ GetStateFlagOffset_ALREADY_VALIDATED = 1 ∧
    GetStateFlagOffset_FOUND_BEST_BLOCK = 2 := by decide

theorem networks_as_documented :
    networks = [("MAINNET", 1), ("TESTNET", 2), ("REGTEST", 3)] := by decide

/-- leading zero bytes do not change the number: the difficulty the device sends with its
    leading zeros stripped is read back as the same unsigned number -/
theorem beVal_leading_zeros (k : Nat) (b : Bytes) :
    Bytes.beVal (List.replicate k 0 ++ b) = Bytes.beVal b := by
  induction k with
  | zero => simp
  | succ k ih =>
    rw [List.replicate_succ, List.cons_append]
    have : Bytes.beVal ((0 : UInt8) :: (List.replicate k 0 ++ b)) = Bytes.beVal (List.replicate k 0 ++ b) := by
      change Bytes.beVal ([0] ++ (List.replicate k 0 ++ b)) = _
      rw [Bytes.beVal_append]; simp [Bytes.beVal]
    rw [this, ih]

/-- the 36-byte big-endian difficulty round-trips for every value below 2^288 -/
theorem difficulty_roundtrip (n : Nat) (h : n < 256 ^ 36) : Bytes.beVal (Bytes.be 36 n) = n :=
  Bytes.beVal_be_of_lt h

open Dongle M Generated Tbl in
/-- one hash query: when it succeeds, the device's answer echoed the selector and carried 32
    bytes, and those bytes are what is returned; exactly one query message was sent -/
theorem state_hash_exact (sel : Nat) (w : World) (v : Bytes) (h : (getStateHash sel w).val = .ok v) :
    ∃ r rest, w.script = .data r :: rest ∧ (getStateHash sel w).w = { w with script := rest } ∧
      (getStateHash sel w).evs = [.apdu [Dongle.CLA, u8 Command_GET_STATE, u8 GetStateOps_HASH, UInt8.ofNat sel]] ∧
      v = r.drop 4 ∧ (r.getD 3 0).toNat = sel ∧ (r.drop 4).length = HASH_SIZE := by
  unfold getStateHash at h ⊢
  obtain ⟨r, e1, w1, hsend, h1, hev1, hw1⟩ := bind_ok_inv h
  obtain ⟨rest, hscript, he1, hw⟩ := sendCommand_ok_inv hsend
  obtain ⟨op, e2, w2, hidx, h2, hev2, hw2⟩ := bind_ok_inv h1
  obtain ⟨_, he2, hw2'⟩ := idx_ok_inv hidx
  by_cases hop : (op != u8 GetStateOps_HASH) = true
  · rw [if_pos hop] at h2; simp [M.throw'] at h2
  · simp only [hop, Bool.false_eq_true, if_false] at h2 hev2 hw2
    obtain ⟨s, e3, w3, hidx3, h3, hev3, hw3⟩ := bind_ok_inv h2
    obtain ⟨hs3, he3, hw3'⟩ := idx_ok_inv hidx3
    by_cases hbad : (s.toNat != sel || (List.drop 4 r).length != HASH_SIZE) = true
    · rw [if_pos hbad] at h3; simp [M.throw'] at h3
    · simp only [hbad, Bool.false_eq_true, if_false, pure_apply] at h3 hev3 hw3
      injection h3 with h3
      simp only [Bool.or_eq_true, bne_iff_ne, ne_eq, not_or, Decidable.not_not] at hbad
      refine ⟨r, rest, hscript, ?_, ?_, h3.symm, ?_, hbad.2⟩
      · rw [hw1, hw2, hw3, hw3', hw2', hw]
      · rw [hev1, hev2, hev3, he1, he2, he3]
        simp
      · have : r.getD 3 0 = s := by simp [List.getD, hs3]
        rw [this]; exact hbad.1

open Dongle M Generated Tbl in
/-- **each named hash of the reply is exactly what the device answered to the query for that
    name's selector**: when the hash queries succeed, the device was asked, in order, for the
    selector of each name, each answer echoed that selector and carried 32 bytes, and the value
    returned under the name is those 32 bytes — for every list of (name, selector) and every script -/
theorem state_hashes_exact : ∀ (sels : List (String × Nat)) (w : World) (res : List (String × Bytes)),
    (getStateHashes sels w).val = .ok res →
    ∃ rs : List Bytes, w.script.take sels.length = rs.map Resp.data ∧ rs.length = sels.length ∧
      apdus (getStateHashes sels w).evs =
        sels.map (fun p => [Dongle.CLA, u8 Command_GET_STATE, u8 GetStateOps_HASH, UInt8.ofNat p.2]) ∧
      res = List.zipWith (fun p r => (p.1, r.drop 4)) sels rs ∧
      ∀ p r, (p, r) ∈ sels.zip rs → (r.getD 3 0).toNat = p.2 ∧ (r.drop 4).length = HASH_SIZE := by
  intro sels
  induction sels with
  | nil =>
    intro w res h
    simp [getStateHashes] at h
    subst h
    exact ⟨[], by simp, rfl, by simp [getStateHashes, apdus], rfl, by simp⟩
  | cons p ps ih =>
    intro w res h
    obtain ⟨key, sel⟩ := p
    unfold getStateHashes at h ⊢
    obtain ⟨v, e1, w1, hq, h', hev, _⟩ := bind_ok_inv h
    obtain ⟨tl, e2, w2, hrec, h'', hev2, _⟩ := bind_ok_inv h'
    simp only [pure_apply] at h''
    injection h'' with h''
    subst h''
    obtain ⟨r, rest, hs, hw, hevs, hv, hsel, hlen⟩ := state_hash_exact sel w v (by rw [hq])
    rw [hq] at hw hevs
    simp only at hw hevs
    subst hw hevs
    obtain ⟨rs, h1, h2, h3, h4, h5⟩ := ih _ tl (by rw [hrec])
    rw [hrec] at h3
    simp only at h3
    refine ⟨r :: rs, by simp [hs, h1], by simp [h2], ?_, by simp [h4, hv], ?_⟩
    · rw [hev, hev2]
      simp [apdus, h3]
    · intro p' r' hm
      simp only [List.zip_cons_cons, List.mem_cons] at hm
      rcases hm with hm | hm
      · injection hm with e1' e2'
        subst e1' e2'
        exact ⟨hsel, hlen⟩
      · exact h5 p' r' hm

open Dongle M Generated Tbl in
/-- **the public key returned is the device's whole answer to the query for exactly the requested
    path** -/
theorem pubkey_verbatim (path : List Nat) (w : World) (k : Bytes) (h : (getPublicKey path w).val = .ok k) :
    ∃ rest, w.script = .data k :: rest ∧
      (getPublicKey path w).evs = [.apdu (Dongle.CLA :: u8 Command_GET_PUBLIC_KEY :: Bip32.toBinary path)] := by
  unfold getPublicKey at h ⊢
  cases hr : sendCommand (u8 Command_GET_PUBLIC_KEY) (Bip32.toBinary path) w with
  | mk v e w1 =>
    rw [hr] at h
    simp only at h
    subst h
    obtain ⟨rest, h1, h2, _⟩ := sendCommand_ok_inv hr
    exact ⟨rest, h1, h2⟩

open Dongle M Generated Tbl in
/-- **the blockchain parameters returned are the three fields of the device's answer** (32-byte
    checkpoint, 36-byte minimum difficulty as the same unsigned number, network byte mapped through
    the documented names): when the query succeeds the answer carried exactly 69 bytes of data,
    and one query message was sent -/
theorem parameters_verbatim (w : World) (p : Params) (h : (getSignerParameters w).val = .ok p) :
    ∃ r rest name, w.script = .data r :: rest ∧
      (getSignerParameters w).evs = [.apdu [Dongle.CLA, u8 Command_GET_PARAMETERS]] ∧
      (r.drop 3).length = 69 ∧ p.checkpoint = (r.drop 3).take 32 ∧
      p.minDifficulty = Bytes.beVal (((r.drop 3).drop 32).take 36) ∧
      networks.find? (fun n => n.2 == ((r.drop 3).getD 68 0).toNat) = some (name, ((r.drop 3).getD 68 0).toNat) ∧
      p.network = name := by
  unfold getSignerParameters at h ⊢
  obtain ⟨r, e1, w1, hsend, h1, hev1, _⟩ := bind_ok_inv h
  obtain ⟨rest, hscript, he1, _⟩ := sendCommand_ok_inv hsend
  dsimp only at h1 hev1
  by_cases hlen : ((List.drop 3 r).length != 69) = true
  · rw [if_pos hlen] at h1; simp [M.throw'] at h1
  · rw [if_neg hlen] at h1 hev1
    have hl : (List.drop 3 r).length = 69 := by simpa using hlen
    cases hf : networks.find? (fun n => n.2 == ((List.drop 3 r).getD 68 0).toNat) with
    | none => rw [hf] at h1; simp [M.throw'] at h1
    | some nm =>
      obtain ⟨name, v⟩ := nm
      rw [hf] at h1 hev1
      simp only [pure_apply] at h1 hev1
      injection h1 with h1
      have hv : v = ((List.drop 3 r).getD 68 0).toNat := by
        have := List.find?_some hf
        simpa using this
      subst hv
      refine ⟨r, rest, name, hscript, ?_, hl, ?_, ?_, hf, ?_⟩
      · rw [hev1, he1]; simp
      · rw [← h1]
      · rw [← h1]
      · rw [← h1]

open Dongle M in
theorem catchResult_ok_inv {α : Type} {m : M α} {hd : Nat → M α} {w : World} {a : α}
    (h : (catchResult m hd w).val = .ok a) :
    ((m w).val = .ok a ∧ (catchResult m hd w).evs = (m w).evs) ∨
      ∃ sw, (m w).val = .error (.dongleResult sw) ∧ (hd sw (m w).w).val = .ok a := by
  unfold catchResult M.tryCatchIf at h ⊢
  cases hr : m w with
  | mk v e1 w1 =>
    rw [hr] at h
    cases v with
    | ok x => simp only at h ⊢; exact Or.inl ⟨h, trivial⟩
    | error e =>
      cases e with
      | dongleResult sw => simp only [if_true] at h ⊢; exact Or.inr ⟨sw, rfl, h⟩
      | _ => simp at h

open Dongle M Generated Tbl in
/-- **a heartbeat reply carries exactly what the device answered**: when a heartbeat is returned,
    five messages were sent (UD value, signature, message, application hash, public key query — in
    this order, the first carrying the client's UD value), the device answered each with data, the
    reported message / tweak / public key are those answers without their 3-byte header, and
    `r`, `s` are the components of the DER signature in the signature answer -/
theorem heartbeat_verbatim (cmd : Nat) (ops : List (String × Nat)) (ud : Bytes) (w : World) (hb : Heartbeat)
    (h : (heartbeatRun cmd ops ud w).val = .ok (some hb)) :
    let op (n : String) : UInt8 := UInt8.ofNat (dictGet ops n 0)
    ∃ a sig msg hash pk rest,
      w.script = .data a :: .data sig :: .data msg :: .data hash :: .data pk :: rest ∧
      apdus (heartbeatRun cmd ops ud w).evs =
        [Dongle.CLA :: UInt8.ofNat cmd :: op "UD_VALUE" :: ud, [Dongle.CLA, UInt8.ofNat cmd, op "GET"],
         [Dongle.CLA, UInt8.ofNat cmd, op "GET_MESSAGE"], [Dongle.CLA, UInt8.ofNat cmd, op "APP_HASH"],
         [Dongle.CLA, UInt8.ofNat cmd, op "PUBKEY"]] ∧
      Der.parse (sig.drop 3) = some (hb.r, hb.s) ∧ hb.message = msg.drop 3 ∧ hb.tweak = hash.drop 3 ∧
      hb.pubKey = pk.drop 3 := by
  intro op
  unfold heartbeatRun at h ⊢
  dsimp only at h ⊢
  rcases catchResult_ok_inv h with ⟨hbody, hevs⟩ | ⟨sw, _, hnone⟩
  · rw [hevs]
    obtain ⟨a, e1, w1, hs1, h1, hev1, _⟩ := bind_ok_inv hbody
    obtain ⟨rest1, hsc1, he1, hw1⟩ := sendCommand_ok_inv hs1
    obtain ⟨sig, e2, w2, hs2, h2, hev2, _⟩ := bind_ok_inv h1
    obtain ⟨rest2, hsc2, he2, hw2⟩ := sendCommand_ok_inv hs2
    obtain ⟨msg, e3, w3, hs3, h3, hev3, _⟩ := bind_ok_inv h2
    obtain ⟨rest3, hsc3, he3, hw3⟩ := sendCommand_ok_inv hs3
    obtain ⟨hash, e4, w4, hs4, h4, hev4, _⟩ := bind_ok_inv h3
    obtain ⟨rest4, hsc4, he4, hw4⟩ := sendCommand_ok_inv hs4
    obtain ⟨pk, e5, w5, hs5, h5, hev5, _⟩ := bind_ok_inv h4
    obtain ⟨rest5, hsc5, he5, hw5⟩ := sendCommand_ok_inv hs5
    rw [hev1, hev2, hev3, hev4, hev5, he1, he2, he3, he4, he5]
    cases hder : Der.parse (sig.drop 3) with
    | none => rw [hder] at h5; simp [M.throw'] at h5
    | some rs =>
      obtain ⟨r, s'⟩ := rs
      rw [hder] at h5
      simp only [pure_apply] at h5
      injection h5 with h5
      injection h5 with h5
      subst hw1 hw2 hw3 hw4
      simp only at hsc2 hsc3 hsc4 hsc5
      refine ⟨a, sig, msg, hash, pk, rest5, ?_, ?_, ?_, ?_, ?_, ?_⟩
      · rw [hsc1, hsc2, hsc3, hsc4, hsc5]
      · simp [apdus, op]
      · rw [← h5]; exact hder
      · rw [← h5]
      · rw [← h5]
      · rw [← h5]
  · simp at hnone

open Dongle M Generated Tbl in
/-- **blockchain state: every hash, the total difficulty and the three flags are the device's
    answers**: when `get_blockchain_state` succeeds, the device answered the seven hash queries
    (see `state_hashes_exact`), then the difficulty query with an answer echoing the operation —
    the number reported is the big-endian value of everything after the 3-byte header — then the
    flags query with exactly three flag bytes, reported in the documented order as booleans -/
theorem blockchain_state_verbatim (w : World) (st : BcState) (h : (getBlockchainState w).val = .ok st) :
    ∃ (rs : List Bytes) (d f : Bytes) (rest : List Resp),
      w.script = rs.map Resp.data ++ .data d :: .data f :: rest ∧ rs.length = hashValues.length ∧
      st.hashes = List.zipWith (fun p r => (p.1, r.drop 4)) hashValues rs ∧
      d[2]? = some (u8 GetStateOps_DIFF) ∧ st.totalDifficulty = Bytes.beVal (d.drop 3) ∧
      f[2]? = some (u8 GetStateOps_FLAGS) ∧ (f.drop 3).length = 3 ∧
      st.inProgress = (f.getD 3 0 != 0) ∧ st.alreadyValidated = (f.getD 4 0 != 0) ∧
      st.foundBestBlock = (f.getD 5 0 != 0) := by
  unfold getBlockchainState at h
  obtain ⟨hs, e0, w0, hq0, h0, _, _⟩ := bind_ok_inv h
  obtain ⟨rs, hrs1, hrs2, hrs3, hrs4, _⟩ := state_hashes_exact hashValues w hs (by rw [hq0])
  have htr := getStateHashes_tracks hashValues w
  rw [hq0] at hrs3 htr
  simp only at hrs3 htr
  rw [hrs3] at htr
  simp only [List.length_map] at htr
  obtain ⟨d, e1, w1, hs1, h1, _, _⟩ := bind_ok_inv h0
  obtain ⟨rest1, hsc1, _, hw1⟩ := sendCommand_ok_inv hs1
  obtain ⟨op, e2, w2, hidx, h2, _, _⟩ := bind_ok_inv h1
  obtain ⟨hop, _, hw2⟩ := idx_ok_inv hidx
  by_cases hne : (op != u8 GetStateOps_DIFF) = true
  · rw [if_pos hne] at h2; simp [M.throw'] at h2
  · rw [if_neg hne] at h2
    have hopd : op = u8 GetStateOps_DIFF := by simpa using hne
    obtain ⟨f, e3, w3, hs3, h3, _, _⟩ := bind_ok_inv h2
    obtain ⟨rest3, hsc3, _, hw3⟩ := sendCommand_ok_inv hs3
    obtain ⟨fop, e4, w4, hidx4, h4, _, _⟩ := bind_ok_inv h3
    obtain ⟨hfop, _, _⟩ := idx_ok_inv hidx4
    by_cases hbad : (fop != u8 GetStateOps_FLAGS || (List.drop 3 f).length != 3) = true
    · rw [if_pos hbad] at h4; simp [M.throw'] at h4
    · rw [if_neg hbad] at h4
      simp only [pure_apply] at h4
      injection h4 with h4
      simp only [Bool.or_eq_true, bne_iff_ne, ne_eq, not_or, Decidable.not_not] at hbad
      subst hw2 hw1
      simp only at hsc3
      refine ⟨rs, d, f, rest3, ?_, hrs2, ?_, ?_, ?_, ?_, hbad.2, ?_, ?_, ?_⟩
      · have hsplit := List.take_append_drop hashValues.length w.script
        rw [← hsplit, hrs1, ← htr, hsc1, hsc3]
      · rw [← h4]; exact hrs4
      · rw [hop, hopd]
      · rw [← h4]
      · rw [hfop, hbad.1]
      · rw [← h4]; rfl
      · rw [← h4]; rfl
      · rw [← h4]; rfl

/-! ### the last step: from the device layer's values to the reply's fields

For a manager with no link repair pending, each query handler that the device layer serves answers
errorcode 0 with exactly the documented field names holding exactly the device layer's values (which the
theorems above tie to the device's answers); `Proofs/QueryReply.lean`. -/

open Ledger Dongle Comm in
theorem getPubKey_reply_fields (c : Codes) (path : List Nat) (w : World) (k : Bytes) (hw : w.commIssue = false)
    (h : (getPublicKey path w).val = .ok k) :
    (getPubkey c path w).val = .ok (0, [("pubKey", hexJ k)]) :=
  (getPubkey_reply c path w k hw h).1

open Ledger Dongle Comm in
theorem blockchainParameters_reply_fields (c : Codes) (w : World) (p : Params) (hw : w.commIssue = false)
    (h : (getSignerParameters w).val = .ok p) :
    (blockchainParameters c w).val = .ok (0, [("parameters", .obj [
      ("checkpoint", hexJ p.checkpoint), ("minimum_difficulty", .int p.minDifficulty),
      ("network", .str p.network.toLower)])]) :=
  blockchainParameters_reply c w p hw h

open Ledger Dongle Comm in
theorem blockchainState_reply_fields (c : Codes) (w : World) (st : BcState) (hw : w.commIssue = false)
    (h : (getBlockchainState w).val = .ok st) : (blockchainState c w).val = .ok (stateReply st) :=
  blockchainState_reply c w st hw h

open Ledger Dongle Comm in
theorem signerHeartbeat_reply_fields (c : Codes) (req : List (String × Json)) (w : World) (hb : Heartbeat)
    (hw : w.commIssue = false) (h : (signerHeartbeat (udBytes req) w).val = .ok (some hb)) :
    (signerHb c req w).val = .ok (0, [("pubKey", hexJ hb.pubKey), ("message", hexJ hb.message),
      ("tweak", hexJ hb.tweak), ("signature", .obj [("r", hexJ hb.r), ("s", hexJ hb.s)])]) :=
  signerHb_reply c req w hb hw h

end Props.C13
end PowHsm
