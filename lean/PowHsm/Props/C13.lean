/-
  C13 — query replies report the device's data verbatim.
-/
import PowHsm.Spec.C13
import PowHsm.Generated.Enums
namespace PowHsm
namespace Props.C13
open Generated

/-- the selectors the manager asks for, and the reply field each lands in, are those of the
    firmware (bc_state.h) and of docs/protocol.md -/
theorem selectors_as_documented :
    hashValues = [("best_block", 0x01), ("newest_valid_block", 0x02), ("ancestor_block", 0x03),
                  ("ancestor_receipts_root", 0x05), ("updating.best_block", 0x81),
                  ("updating.newest_valid_block", 0x82), ("updating.next_expected_block", 0x84)] := by decide

theorem flag_offsets_as_documented :
    GetStateFlagOffset_IN_PROGRESS = 0 ∧ GetStateFlagOffset_ALREADY_VALIDATED = 1 ∧
    GetStateFlagOffset_FOUND_BEST_BLOCK = 2 := by decide

theorem networks_as_documented :
    networks = [("MAINNET", 1), ("TESTNET", 2), ("REGTEST", 3)] := by decide

/-- leading zero bytes do not change the number: the difficulty the device sends with its
    leading zeros stripped is read back as the same unsigned number -/
theorem beVal_leading_zeros (k : Nat) (b : Bytes) :
    Bytes.beVal (List.replicate k 0 ++ b) = Bytes.beVal b := by
  induction k with
  | zero => simp
  | succ k ih =>
    rw [List.replicate_succ, List.cons_append]
    have : Bytes.beVal ((0 : UInt8) :: (List.replicate k 0 ++ b)) = Bytes.beVal (List.replicate k 0 ++ b) := by
      change Bytes.beVal ([0] ++ (List.replicate k 0 ++ b)) = _
      rw [Bytes.beVal_append]; simp [Bytes.beVal]
    rw [this, ih]

/-- the 36-byte big-endian difficulty round-trips for every value below 2^288 -/
theorem difficulty_roundtrip (n : Nat) (h : n < 256 ^ 36) : Bytes.beVal (Bytes.be 36 n) = n :=
  Bytes.beVal_be_of_lt h

end Props.C13
end PowHsm
