/-
  C10 — the PIN kept on disk always opens the device.
-/
import PowHsm.Spec.C10
namespace PowHsm
namespace Props.C10
open Spec.C10

/-- the change protocol: the file is touched only after the device's acknowledgement, and
    then the device holds the new PIN -/
theorem change_file_only_after_ack (w : PW) (r : Run) (h : (change w r).1.file ≠ w.file) :
    r.dev = .accept ∧ (change w r).1.devicePin = r.newPin := by
  unfold change at h ⊢
  split <;> simp_all
  repeat' split
  all_goals simp_all

theorem change_untouched_unless_accept (w : PW) (r : Run) (h : r.dev ≠ .accept) :
    (change w r).1 = w := by
  unfold change
  split <;> simp_all

theorem change_never_continues (w : PW) (r : Run) : (change w r).2 ≠ .continued := by
  unfold change
  repeat' split
  all_goals simp

/-- the result of `run` is the input world, or the result of the change protocol -/
theorem run_world (w : PW) (r : Run) : (run w r).1 = w ∨ (run w r).1 = (change w r).1 := by
  unfold run
  repeat' split
  all_goals first | (left; rfl) | (right; rfl)

/-- **the PIN file changes only after the device has acknowledged a new PIN**, and then the
    device holds exactly that PIN -/
theorem file_changes_only_after_ack (w : PW) (r : Run) (h : (run w r).1.file ≠ w.file) :
    r.dev = .accept ∧ (run w r).1.devicePin = r.newPin := by
  rcases run_world w r with hr | hr
  · rw [hr] at h; exact absurd rfl h
  · rw [hr] at h ⊢; exact change_file_only_after_ack w r h

/-- **a refused, failed or aborted change leaves the file and the PIN in use untouched** -/
theorem refused_or_failed_leaves_untouched (w : PW) (r : Run) (h : r.dev ≠ .accept) :
    (run w r).1 = w := by
  rcases run_world w r with hr | hr
  · exact hr
  · rw [hr]; exact change_untouched_unless_accept w r h

/-- **after any change attempt the manager stops instead of carrying on**: it carries on only
    when no change was needed, and then nothing changed -/
theorem carries_on_only_without_change (w : PW) (r : Run) (h : (run w r).2.1 = .continued) :
    r.force = false ∧ w.file.isSome = true ∧ (run w r).1 = w := by
  unfold run at h ⊢
  repeat' split at h
  all_goals first
    | (simp at h; done)
    | (exact absurd h (change_never_continues w r))
    | skip
  rename_i hn
  simp only [Bool.not_eq_true', Bool.or_eq_false_iff] at hn
  simp_all

/-- every PIN accepted by the policy check has 8 alphanumeric characters and a letter -/
theorem valid_pin_policy (p : Bytes) (h : isValidPin p = true) :
    p.length = 8 ∧ (∀ c ∈ p, isAlnum c = true) ∧ ∃ c ∈ p, isAlpha c = true := by
  unfold isValidPin at h
  simp only [Bool.and_eq_true, List.all_eq_true, beq_iff_eq, List.any_eq_true] at h
  exact ⟨h.1.2, h.1.1, h.2⟩

/-- **every PIN the manager generates satisfies the device policy**, whatever the random source
    draws and however many draws it takes -/
theorem generated_pin_valid (draws : List Bytes) (p : Bytes) (h : generatePin draws = some p) :
    p.length = 8 ∧ (∀ c ∈ p, isAlnum c = true) ∧ ∃ c ∈ p, isAlpha c = true := by
  unfold generatePin at h
  exact valid_pin_policy p (by simpa using List.find?_some h)

/-- **recoverability, partial**: a life that does not hit the stranding window (F-10a) keeps a
    working PIN recoverable, provided the generated PIN has no surrounding whitespace (it is
    alphanumeric) -/
theorem recoverable_partial (w : PW) (r : Run) (hw : Recoverable w) (hs : strands r = false)
    (hn : strip r.newPin = r.newPin) : Recoverable (run w r).1 := by
  rcases run_world w r with hr | hr
  · rw [hr]; exact hw
  · rw [hr]
    unfold change
    unfold strands at hs
    split
    · exact hw
    · exact hw
    · exact hw
    · exact hw
    · rename_i hacc
      simp only [hacc, beq_self_eq_true, Bool.true_and, Bool.or_eq_false_iff] at hs
      obtain ⟨⟨⟨h1, h2⟩, h3⟩, h4⟩ := hs
      simp only [h1, h2, Bool.false_eq_true, if_false]
      simp only [Bool.not_eq_false'] at h3 h4
      simp only [h3, h4, Bool.not_true, Bool.false_eq_true, if_false]
      split <;> simp [Recoverable, recoverable, hn]

/-- and so does any history of such lives -/
theorem histories_recoverable_partial (rs : List Run) :
    ∀ w, Recoverable w → (∀ r ∈ rs, strands r = false ∧ strip r.newPin = r.newPin) →
      Recoverable (runs w rs) := by
  induction rs with
  | nil => intro w hw _; exact hw
  | cons r rs ih =>
    intro w hw h
    apply ih
    · exact recoverable_partial w r hw (h r (by simp)).1 (h r (by simp)).2
    · intro r' hr'; exact h r' (by simp [hr'])

/-- **F-10a — the full statement is false on the unchanged tree**: first start (no file, default
    PIN in use), the device acknowledges the new PIN, the process dies before the file is
    written: the device now holds a PIN that is on no disk and in no default. -/
theorem recoverable_counterexample :
    let w : PW := { file := none, devicePin := [49,50,51,52,53,54,55,97], default := some [49,50,51,52,53,54,55,97] }
    let r : Run := { force := false, newPin := [110,101,119,112,105,110,57,122], dev := .accept, crash := .afterAck }
    Recoverable w ∧ ¬ Recoverable (run w r).1 := by
  decide

end Props.C10
end PowHsm
