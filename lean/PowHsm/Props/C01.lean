/-
  C01 — signing relays to the device exactly what the client asked to have signed.
-/
import PowHsm.Spec.C01
import PowHsm.Proofs.Chunks
import PowHsm.Proofs.Monad
namespace PowHsm
namespace Props.C01
open Dongle

/-- **Chunking never adds, drops or reorders**: for every device chunk policy (every script),
    every message of a chunked transfer is `CLA cmd op ‖ piece` and the pieces concatenate to a
    contiguous prefix of the data, starting at its first byte. -/
theorem chunks_are_a_prefix (cmd op : UInt8) (nexts : List UInt8) (data : Bytes) (full : Bool)
    (init : Nat) (s : List Resp) :
    (∀ a ∈ (sendChunksAux cmd op nexts data full 0 init s).2.1, a.take 3 = [CLA, cmd, op]) ∧
    ∃ k, payloads (sendChunksAux cmd op nexts data full 0 init s).2.1 = data.take k := by
  have h := sendChunksAux_shape cmd op nexts data full s 0 init
  simpa using h

/-- **Success means everything was consumed**: when a transfer that requires the full data
    reports success, the device received exactly the data, and asked for one of the expected
    next parts. -/
theorem chunks_success_complete (cmd op : UInt8) (nexts : List UInt8) (data : Bytes)
    (init : Nat) (s : List Resp) (resp : Bytes)
    (h : (sendChunksAux cmd op nexts data true 0 init s).1 = .ok (true, resp)) :
    payloads (sendChunksAux cmd op nexts data true 0 init s).2.1 = data ∧
    ∃ rop, resp[2]? = some rop ∧ rop ∈ nexts ∧ rop ≠ op := by
  have := sendChunksAux_ok cmd op nexts data true s 0 init resp h
  exact ⟨by simpa using this.2 rfl (Nat.zero_le _), this.1⟩

/-- **Chunk independence**: two devices that both let a full transfer succeed received the
    same bytes, whatever sizes they asked for. -/
theorem chunk_independence (cmd op : UInt8) (nexts : List UInt8) (data : Bytes)
    (i1 i2 : Nat) (s1 s2 : List Resp) (r1 r2 : Bytes)
    (h1 : (sendChunksAux cmd op nexts data true 0 i1 s1).1 = .ok (true, r1))
    (h2 : (sendChunksAux cmd op nexts data true 0 i2 s2).1 = .ok (true, r2)) :
    payloads (sendChunksAux cmd op nexts data true 0 i1 s1).2.1 =
    payloads (sendChunksAux cmd op nexts data true 0 i2 s2).2.1 := by
  rw [(chunks_success_complete cmd op nexts data i1 s1 r1 h1).1,
      (chunks_success_complete cmd op nexts data i2 s2 r2 h2).1]

/-- non-vacuity: a 5-byte part, a device asking 2, 255, 1 bytes and then for the next part -/
example :
    (sendChunksAux 2 4 [8] [1, 2, 3, 4, 5] true 0 2
      [.data [0x80, 2, 4, 255], .data [0x80, 2, 8, 7]]).1 = .ok (true, [0x80, 2, 8, 7]) ∧
    payloads (sendChunksAux 2 4 [8] [1, 2, 3, 4, 5] true 0 2
      [.data [0x80, 2, 4, 255], .data [0x80, 2, 8, 7]]).2.1 = [1, 2, 3, 4, 5] := ⟨by rfl, by rfl⟩

end Props.C01
end PowHsm
