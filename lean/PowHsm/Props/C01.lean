/-
  C01 — signing relays to the device exactly what the client asked to have signed.
-/
import PowHsm.Spec.C01
import PowHsm.Proofs.Chunks
import PowHsm.Proofs.Monad
import PowHsm.Proofs.Sign
import PowHsm.Proofs.SignLast
import PowHsm.Proofs.SignConverse
namespace PowHsm
namespace Props.C01
open Dongle M

/-- **Chunking never adds, drops or reorders**: for every device chunk policy (every script),
    every message of a chunked transfer is `CLA cmd op ‖ piece` and the pieces concatenate to a
    contiguous prefix of the data, starting at its first byte. -/
theorem chunks_are_a_prefix (cmd op : UInt8) (nexts : List UInt8) (data : Bytes) (full : Bool)
    (init : Nat) (s : List Resp) :
    (∀ a ∈ (sendChunksAux cmd op nexts data full 0 init s).2.1, a.take 3 = [CLA, cmd, op]) ∧
    ∃ k, payloads (sendChunksAux cmd op nexts data full 0 init s).2.1 = data.take k := by
  have h := sendChunksAux_shape cmd op nexts data full s 0 init
  simpa using h

/-- **Success means everything was consumed**: when a transfer that requires the full data
    reports success, the device received exactly the data, and asked for one of the expected
    next parts. -/
theorem chunks_success_complete (cmd op : UInt8) (nexts : List UInt8) (data : Bytes)
    (init : Nat) (s : List Resp) (resp : Bytes)
    (h : (sendChunksAux cmd op nexts data true 0 init s).1 = .ok (true, resp)) :
    payloads (sendChunksAux cmd op nexts data true 0 init s).2.1 = data ∧
    ∃ rop, resp[2]? = some rop ∧ rop ∈ nexts ∧ rop ≠ op := by
  have := sendChunksAux_ok cmd op nexts data true s 0 init resp h
  exact ⟨by simpa using this.2 rfl (Nat.zero_le _), this.1⟩

/-- **Chunk independence**: two devices that both let a full transfer succeed received the
    same bytes, whatever sizes they asked for. -/
theorem chunk_independence (cmd op : UInt8) (nexts : List UInt8) (data : Bytes)
    (i1 i2 : Nat) (s1 s2 : List Resp) (r1 r2 : Bytes)
    (h1 : (sendChunksAux cmd op nexts data true 0 i1 s1).1 = .ok (true, r1))
    (h2 : (sendChunksAux cmd op nexts data true 0 i2 s2).1 = .ok (true, r2)) :
    payloads (sendChunksAux cmd op nexts data true 0 i1 s1).2.1 =
    payloads (sendChunksAux cmd op nexts data true 0 i2 s2).2.1 := by
  rw [(chunks_success_complete cmd op nexts data i1 s1 r1 h1).1,
      (chunks_success_complete cmd op nexts data i2 s2 r2 h2).1]

/-- **Signing relays to the device exactly what the client asked to have signed** — for every
    device behaviour (every script): all that is sent during an authorized signature are SIGN
    messages carrying, in this order, the path with the input index, then a prefix of the
    transaction part (`LE32 length ‖ mode ‖ LE16 ‖ unsigned tx ‖ extra data`), then a prefix of
    the receipt, then a prefix of the framed merkle proof — nothing else, nothing reordered; and
    **whenever a signature is returned, every part was sent in full** -/
theorem sign_relays_exactly (a : SignAuthArgs) (w : World) :
    ∃ as1 as2 as3 as4 : List Bytes,
      (signAuthorized a w).evs = (as1 ++ as2 ++ as3 ++ as4).map Ev.apdu ∧
      (as1 = [] ∨ as1 = [pathMsg a]) ∧
      PartOf OP_BTC_TX ((btcPayload a).getD []) as2 ∧ PartOf OP_TX_RECEIPT a.receipt as3 ∧
      PartOf OP_MERKLE_PROOF ((proofPayload a.proof).getD []) as4 ∧
      (∀ rr ss, (signAuthorized a w).val = .ok (.sig rr ss) →
        as1 = [pathMsg a] ∧ btcPayload a = some (payloads as2) ∧ payloads as3 = a.receipt ∧
        proofPayload a.proof = some (payloads as4)) := by
  unfold signAuthorized
  split
  · exact ⟨[], [], [], [], rfl, Or.inl rfl, partOf_nil _ _, partOf_nil _ _, partOf_nil _ _,
      fun rr ss hv => by simp [M.throw'] at hv⟩
  · have h1e := signStep1_evs a w
    rcases step_then (signStep1 a) (signTail2 a) w with ⟨h1, h1'⟩ | ⟨x, hx, h2, h2'⟩
    · exact ⟨[pathMsg a], [], [], [], by rw [h1, h1e]; rfl, Or.inr rfl, partOf_nil _ _, partOf_nil _ _,
        partOf_nil _ _, fun rr ss hv => absurd hv (h1' rr ss)⟩
    · obtain ⟨as2, as3, as4, he, hp2, hp3, hp4, hs⟩ := tail2_spec a x (signStep1 a w).w
      refine ⟨[pathMsg a], as2, as3, as4, ?_, Or.inr rfl, hp2, hp3, hp4, ?_⟩
      · rw [h2, h1e, he]; simp
      · intro rr ss hv
        rw [h2'] at hv
        exact ⟨rfl, hs rr ss hv⟩

/-- **an unauthorized signature sends exactly one message**: the path followed by the hash the
    client gave, whatever the device answers -/
theorem sign_hash_relays_exactly (path : List Nat) (h : Bytes) (w : World) :
    (signUnauthorized path (some h) w).evs = [.apdu (CLA :: CMD_SIGN :: OP_PATH :: (Bip32.toBinary path ++ h))] := by
  unfold signUnauthorized
  simp only
  rw [bind_evs_silent, catchResult, tryCatchIf_evs_silent, bind_evs_silent, sendCommand_evs]
  · intro resp
    refine Emits.bind (idx_emits _ _) fun rop => ?_
    split
    · exact Emits.pure _
    · split <;> exact Emits.pure _
  · intro e
    split
    · exact Emits.pure _
    · exact Emits.throw _
  · intro r
    split <;> exact Emits.pure _

/-- **…and then carries exactly the r and s of the DER signature the device returned**: whenever an
    authorized signature is returned — for every request and every device behaviour — the device's
    answer to the LAST message sent named the SUCCESS operation, and the `r`, `s` returned are the
    two integers of the DER signature that follows its 3-byte header -/
theorem sign_returns_device_signature (a : SignAuthArgs) (w : World) (r s : Bytes)
    (h : (signAuthorized a w).val = .ok (.sig r s)) :
    ∃ resp, lastAnswer w.script (signAuthorized a w).evs = some (.data resp) ∧
      resp[2]? = some OP_SUCCESS ∧ Der.parse (resp.drop 3) = some (r, s) :=
  signAuthorized_sigFromLast a w r s h

/-- **the reply is successful exactly when the device consumed every byte of every part and reported
    success**: for every request and every device behaviour, `sign_authorized` returns the signature
    `(r, s)` if and only if the transaction part, the receipt and the framed proof all went out in full
    and the device's answer to the last message names SUCCESS and carries the DER signature `(r, s)` -/
theorem sign_succeeds_exactly_when (a : SignAuthArgs) (w : World) :
    ∃ as1 as2 as3 as4 : List Bytes,
      (signAuthorized a w).evs = (as1 ++ as2 ++ as3 ++ as4).map Ev.apdu ∧
      (as1 = [] ∨ as1 = [pathMsg a]) ∧
      PartOf OP_BTC_TX ((btcPayload a).getD []) as2 ∧ PartOf OP_TX_RECEIPT a.receipt as3 ∧
      PartOf OP_MERKLE_PROOF ((proofPayload a.proof).getD []) as4 ∧
      ∀ r s, (signAuthorized a w).val = .ok (.sig r s) ↔
        (btcPayload a = some (payloads as2) ∧ payloads as3 = a.receipt ∧
         proofPayload a.proof = some (payloads as4) ∧
         ∃ resp, lastAnswer w.script (signAuthorized a w).evs = some (.data resp) ∧
           resp[2]? = some OP_SUCCESS ∧ Der.parse (resp.drop 3) = some (r, s)) := by
  obtain ⟨as1, as2, as3, as4, he, h1, h2, h3, h4, hs, hc⟩ := signAuthorized_full a w
  refine ⟨as1, as2, as3, as4, he, h1, h2, h3, h4, fun r s => ⟨fun hv => ?_, fun hx => ?_⟩⟩
  · obtain ⟨_, hb, hr, hp⟩ := hs r s hv
    exact ⟨hb, hr, hp, signAuthorized_sigFromLast a w r s hv⟩
  · obtain ⟨hb, hr, hp, resp, hl, hrop, hder⟩ := hx
    rw [he] at hl
    exact hc resp r s hl hrop hder hb hr hp

/-- the same for an unauthorized signature: `r`, `s` come out of the answer to the one message sent -/
theorem sign_hash_returns_device_signature (path : List Nat) (hash : Bytes) (w : World) (r s : Bytes)
    (h : (signUnauthorized path (some hash) w).val = .ok (.sig r s)) :
    ∃ resp rest, w.script = .data resp :: rest ∧ resp[2]? = some OP_SUCCESS ∧
      Der.parse (resp.drop 3) = some (r, s) := by
  unfold signUnauthorized at h
  simp only at h
  obtain ⟨st, e1, w1, hstep, hrest, _, _⟩ := M.bind_ok_inv h
  cases st with
  | error c => simp at hrest
  | ok resp =>
    simp only [M.pure_apply] at hrest
    injection hrest with hrest
    unfold catchResult M.tryCatchIf at hstep
    rw [M.bind_apply] at hstep
    cases hsc : sendCommand CMD_SIGN (OP_PATH :: (Bip32.toBinary path ++ hash)) w with
    | mk v ev wv =>
      rw [hsc] at hstep
      cases v with
      | error ex => simp only at hstep; cases ex <;> simp [M.throw'] at hstep
      | ok rsp =>
        obtain ⟨rest, hscript, _, _⟩ := sendCommand_ok_inv hsc
        simp only at hstep
        rw [M.bind_apply] at hstep
        cases hidx : idx rsp 2 wv with
        | mk v2 e2 w2 =>
          rw [hidx] at hstep
          cases v2 with
          | error ex => simp only at hstep; cases ex <;> simp [M.throw'] at hstep
          | ok rop =>
            obtain ⟨hrop, _, _⟩ := idx_ok_inv hidx
            simp only at hstep
            by_cases h1 : (rop == OP_BTC_TX) = true
            · simp [h1] at hstep
            · by_cases h2 : (rop != OP_SUCCESS) = true
              · simp [h1, h2] at hstep
              · simp only [h1, h2, Bool.false_eq_true, if_false, M.pure_apply, List.append_nil] at hstep
                injection hstep with hv _ _
                injection hv with hv
                injection hv with hv
                subst hv
                have hsucc : rop = OP_SUCCESS := by simpa using h2
                refine ⟨rsp, rest, hscript, by rw [hrop, hsucc], ?_⟩
                unfold sigOfResponse at hrest
                cases hd : Der.parse (rsp.drop 3) with
                | none => rw [hd] at hrest; cases hrest
                | some rs =>
                  rw [hd] at hrest
                  obtain ⟨r', s'⟩ := rs
                  simp only [SignOut.sig.injEq] at hrest
                  rw [hrest.1, hrest.2]

/-- non-vacuity of `sign_relays_exactly`: a complete authorized signature (device asks for 255
    bytes each time) returns the device's signature after exactly four messages -/
example :
    let a : SignAuthArgs := { path := [1, 2, 3, 4, 5], receipt := [1, 2, 3], proof := [[9]], btcTx := [7, 7],
                              input := 0, segwit := false }
    let w : World := { script := [.data [0x80, 2, 2, 255], .data [0x80, 2, 4, 255], .data [0x80, 2, 8, 255],
                                  .data [0x80, 2, 0x81, 0x30, 6, 2, 1, 5, 2, 1, 6]] }
    (match (signAuthorized a w).val with | .ok (.sig r s) => r == [5] && s == [6] | _ => false) = true ∧
    apdus (signAuthorized a w).evs = [pathMsg a, [0x80, 2, 2, 9, 0, 0, 0, 0, 0, 0, 7, 7], [0x80, 2, 4, 1, 2, 3],
      [0x80, 2, 8, 1, 1, 9]] := by
  decide +kernel

/-- non-vacuity: a 5-byte part, a device asking 2, 255, 1 bytes and then for the next part -/
example :
    (sendChunksAux 2 4 [8] [1, 2, 3, 4, 5] true 0 2
      [.data [0x80, 2, 4, 255], .data [0x80, 2, 8, 7]]).1 = .ok (true, [0x80, 2, 8, 7]) ∧
    payloads (sendChunksAux 2 4 [8] [1, 2, 3, 4, 5] true 0 2
      [.data [0x80, 2, 4, 255], .data [0x80, 2, 8, 7]]).2.1 = [1, 2, 3, 4, 5] := ⟨by rfl, by rfl⟩

end Props.C01
end PowHsm
