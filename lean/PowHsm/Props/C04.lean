/-
  C04 — device outcomes map onto the result codes documented for each command.
-/
import PowHsm.Spec.C04
import PowHsm.Proofs.Monad
import PowHsm.Proofs.Codes
import PowHsm.Proofs.ConformMgr
import PowHsm.Generated.Firmware
namespace PowHsm
namespace Props.C04
open Ledger Comm Spec Spec.C04 Generated Tbl

/-- a dict lookup with default lands in the dict's values or on the default — for *every* key,
    i.e. for every one of the 65536 status words and every result code -/
theorem dictGet_mem [BEq α] (d : List (α × β)) (k : α) (dflt : β) :
    dictGet d k dflt ∈ dflt :: d.map (·.2) := by
  unfold dictGet
  split
  · rename_i p hp
    have := List.mem_of_find?_eq_some hp
    exact List.mem_cons_of_mem _ (List.mem_map_of_mem this)
  · exact List.mem_cons_self

theorem applyRule_mem (rule : List (List Nat × Int) × Int) (sw : Nat) :
    applyRule rule sw ∈ rule.2 :: rule.1.map (·.2) := by
  unfold applyRule
  split
  · rename_i br hbr
    have := List.mem_of_find?_eq_some hbr
    exact List.mem_cons_of_mem _ (List.mem_map_of_mem this)
  · exact List.mem_cons_self

/-- whatever the device answers at whatever step, an advanceBlockchain result translates into
    a code the documents list for that command (or a generic one) -/
theorem advance_codes_documented (r : Int) :
    dictGet translateAdvance r translateAdvanceDefault ∈ docCodes .v5 "advanceBlockchain" := by
  have h := dictGet_mem translateAdvance r translateAdvanceDefault
  revert h
  generalize dictGet translateAdvance r translateAdvanceDefault = x
  intro h
  have : ∀ y ∈ translateAdvanceDefault :: translateAdvance.map (·.2), y ∈ docCodes .v5 "advanceBlockchain" := by
    decide
  exact this x h

theorem update_codes_documented (r : Int) :
    dictGet translateUpdate r translateUpdateDefault ∈ docCodes .v5 "updateAncestorBlock" := by
  have h := dictGet_mem translateUpdate r translateUpdateDefault
  revert h
  generalize dictGet translateUpdate r translateUpdateDefault = x
  intro h
  have : ∀ y ∈ translateUpdateDefault :: translateUpdate.map (·.2), y ∈ docCodes .v5 "updateAncestorBlock" := by
    decide
  exact this x h

theorem sign_codes_documented (r : Int) :
    dictGet translateSign r translateSignDefault ∈ docCodes .v5 "sign" ∧
    dictGet translateSignV1 r translateSignV1Default ∈ docCodes .v1 "sign" := by
  constructor
  · have h := dictGet_mem translateSign r translateSignDefault
    revert h
    generalize dictGet translateSign r translateSignDefault = x
    intro h
    have : ∀ y ∈ translateSignDefault :: translateSign.map (·.2), y ∈ docCodes .v5 "sign" := by decide
    exact this x h
  · have h := dictGet_mem translateSignV1 r translateSignV1Default
    revert h
    generalize dictGet translateSignV1 r translateSignV1Default = x
    intro h
    have : ∀ y ∈ translateSignV1Default :: translateSignV1.map (·.2), y ∈ docCodes .v1 "sign" := by decide
    exact this x h

/-- the code the manager answers when the device raises status `sw` in reply to a message
    `(cmd, op)` — every mapping the source contains for that step, composed with the
    translation tables (all of them generated from the current source) -/
def stepCodes (cmd op sw : Nat) : List Int :=
  let adv (r : Int) := dictGet translateAdvance r translateAdvanceDefault
  let upd (r : Int) := dictGet translateUpdate r translateUpdateDefault
  let sgn (r : Int) := dictGet translateSign r translateSignDefault
  if cmd == 0x04 then [(codes .v5).invalidKeyId]
  else if cmd == 0x02 then
    if op == 1 then [sgn (applyRule signAuthorized_0 sw), sgn (applyRule signUnauthorized_0 sw)]
    else if op == 2 then [sgn (applyRule signAuthorized_1 sw)]
    else if op == 4 then [sgn (applyRule signAuthorized_2 sw)]
    else if op == 8 then [sgn (applyRule signAuthorized_3 sw)]
    else []
  else if cmd == 0x10 then
    if op == 4 || op == 9 then [adv (dictGet advChunkMap sw advSendHeader_1_default)]
    else if op == 7 then [adv (applyRule advBlockOp_1 sw)]
    else []
  else if cmd == 0x30 then
    if op == 4 then [upd (dictGet updChunkMap sw updSendHeader_1_default)] else []
  else []

/-- **named causes**: for every status whose cause the documentation names, at the step where
    the firmware raises it, the tables of the current source yield that very code -/
theorem named_cause_tables :
    ∀ e ∈ namedTable, stepCodes e.1 e.2.1 e.2.2.1 ≠ [] ∧ ∀ c ∈ stepCodes e.1 e.2.1 e.2.2.1, c = e.2.2.2 := by
  decide

/-- the Python status-word enums agree with the firmware headers wherever the names coincide
    (blockchain errors) -/
theorem blockchain_errors_match_firmware :
    ∀ p ∈ enumAdvanceUpdateError, p.1 = "UNKNOWN" ∨
      (firmwareErrors.find? fun f => f.1 == p.1).map (·.2) = some p.2.toNat := by
  decide

/-- opcode constants used by the step classification of `Spec.C04` are those of the source -/
theorem opcodes_as_specified :
    Command_SIGN = 0x02 ∧ Command_GET_PUBLIC_KEY = 0x04 ∧ Command_ADVANCE = 0x10 ∧ Command_UPD_ANCESTOR = 0x30 ∧
    SignOps_PATH = 1 ∧ SignOps_BTC_TX = 2 ∧ SignOps_TX_RECEIPT = 4 ∧ SignOps_MERKLE_PROOF = 8 ∧
    SignOps_SUCCESS = 0x81 ∧ AdvanceOps_HEADER_CHUNK = 4 ∧ AdvanceOps_BROTHER_CHUNK = 9 ∧
    AdvanceOps_BROTHER_LIST_META = 7 ∧ AdvanceOps_PARTIAL = 5 ∧ AdvanceOps_SUCCESS = 6 ∧
    UpdateAncestorOps_HEADER_CHUNK = 4 ∧ UpdateAncestorOps_SUCCESS = 5 := by decide

/-- the device error range is what the firmware headers use: 0x69A0–0x6BFF and 0x6D00 -/
theorem user_range_as_documented : userRange = [(0x69A0, 0x6BFF), (0x6D00, 0x6D00)] := by decide

/-! ### the whole manager: every reply carries a documented code; the device's error range never stops it -/

theorem errorcode_errReply (c : Int) : errorcode? (errReply c) = some c := by
  simp [errorcode?, errReply, Json.lookup]

theorem errorcode_finish (o : Out) : errorcode? (finish o) = some o.1 := by
  unfold finish
  split
  · exact errorcode_errReply _
  · have h : (o.2.filter (fun kv => !(kv.1 == "errorcode"))).find? (fun p => p.1 == "errorcode") = none := by
      rw [List.find?_eq_none]
      intro x hx
      simp only [List.mem_filter] at hx
      simpa using hx.2
    simp [errorcode?, Json.lookup, List.find?_append, h]

/-- the generic codes are documented for every command -/
theorem generic_documented (m : Mode) (cmd : String) :
    ∀ x ∈ [(codes m).formatError, (codes m).invalidRequest, (codes m).wrongVersion, (codes m).commandUnknown],
      x ∈ docCodes m cmd := by
  intro x hx
  unfold docCodes
  cases m with
  | v5 =>
    apply List.mem_append_right
    revert x; decide
  | v1 =>
    apply List.mem_append_right
    revert x; decide

/-- for each of the commands of a protocol mode: every code its validator or its handler can
    produce (read off the model's control flow, `Proofs/Codes.lean`, over the generated tables) is
    one the documents list for that command, or a generic one -/
theorem command_codes_documented (m : Mode) (name : String) (h : (codes m).commands.contains name = true) :
    ∀ x ∈ valCodes m name ++ opCodes m name, x ∈ docCodes m name := by
  have hmem : name ∈ (codes m).commands := by simpa using h
  cases m with
  | v5 =>
    simp only [codes, v5_commands, List.mem_cons, List.mem_nil_iff, or_false] at hmem
    rcases hmem with h | h | h | h | h | h | h | h | h | h <;> subst h <;> decide
  | v1 =>
    simp only [codes, v1_commands, List.mem_cons, List.mem_nil_iff, or_false] at hmem
    rcases hmem with h | h | h <;> subst h <;> decide

/-- **C04, documented codes, for the whole manager model**: whatever the request (any JSON
    value), the protocol mode and the device's behaviour (any script: every status word, time-out,
    link error or malformed answer at every step), a reply of `handle_request` carries an integer
    result code, and for a request naming one of the ten commands that code is one
    docs/protocol*.md lists for that command or one of the generic codes. -/
theorem reply_code_documented (m : Mode) (hs : Dongle.Hashes) (j : Json) (w : World) (r : Json)
    (h : (handleRequest m hs j w).val = .ok r) :
    ∃ code, errorcode? r = some code ∧ (docTitle (commandOf j) = "" ∨ code ∈ docCodes m (commandOf j)) := by
  cases j with
  | obj kvs =>
    cases hg : gate (codes m) kvs with
    | error e =>
      simp only [handleRequest, hg, M.pure_apply] at h; injection h with h; subst h
      refine ⟨e, errorcode_errReply _, Or.inr ?_⟩
      have := gate_error_mem hg
      apply generic_documented m _ e
      simp only [List.mem_cons, List.mem_nil_iff, or_false] at this ⊢
      exact Or.inr this
    | ok name =>
      have hcmd : commandOf (.obj kvs) = name := by
        simp [commandOf, gate_ok_name hg]
      have hdoc := command_codes_documented m name (gate_ok hg)
      cases hv : validateCmd m name kvs with
      | error e =>
        simp only [handleRequest, hg, hv, M.pure_apply] at h; injection h with h; subst h
        refine ⟨e, errorcode_errReply _, Or.inr ?_⟩
        rw [hcmd]
        exact hdoc e (List.mem_append_left _ (validateCmd_error hv))
      | ok path =>
        simp only [handleRequest, hg, hv] at h
        obtain ⟨o, e1, w1, hop, hret, _, _⟩ := M.bind_ok_inv h
        simp only [M.pure_apply] at hret; injection hret with hret; subst hret
        refine ⟨o.1, errorcode_finish o, Or.inr ?_⟩
        rw [hcmd]
        apply hdoc o.1 (List.mem_append_right _ ?_)
        exact operate_codes m hs name kvs path w o (by rw [hop])
  | _ =>
    simp only [handleRequest, M.pure_apply] at h; injection h with h; subst h
    refine ⟨_, errorcode_errReply _, Or.inr ?_⟩
    exact generic_documented m _ _ (by simp)

/-- an error status of the device's own range is a conforming answer to any message -/
theorem error_status_conforms (apdu : Bytes) (sw : Nat) (h : Dongle.isUserDefined sw = true) :
    respConforms apdu (.sw sw) = true := by
  simp [respConforms, h]

/-- **an error status inside the device's own error range never stops the manager** (nor does any
    other behaviour the device protocol allows): with no link repair pending, for every request
    line, both modes and every script whose answers conform — error statuses of the range
    0x69A0–0x6BFF / 0x6D00 at any step included — the line is answered with an integer errorcode,
    no exception leaves the handler and no shutdown is requested. -/
theorem error_range_never_stops (m : Mode) (hs : Dongle.Hashes) (p : Parsed) (w : World)
    (hci : w.commIssue = false) (hb : ParsedBounded p)
    (hconf : deviceConforms w.script (handleLine m hs p w).evs = true) :
    ∃ lo, (handleLine m hs p w).val = .ok lo ∧ lo.exc = none ∧ lo.shutdown = false ∧
      (errorcode? lo.reply).isSome = true := by
  obtain ⟨_, lo, h2, h3⟩ := handleLine_top (lf := false) m hs p (fun r => (errorcode? r).isSome = true)
    (fun j w r hr => by
      obtain ⟨c, hc, _⟩ := reply_code_documented m hs j w r hr
      simp [hc])
    (by simp [errorcode_errReply]) hb w hci (by rw [deviceOk_false]; exact hconf)
  exact ⟨lo, h2, h3.1, h3.2.2, h3.2.1⟩

end Props.C04
end PowHsm
