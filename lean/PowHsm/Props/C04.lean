/-
  C04 — device outcomes map onto the result codes documented for each command.
-/
import PowHsm.Spec.C04
import PowHsm.Proofs.Monad
import PowHsm.Generated.Firmware
namespace PowHsm
namespace Props.C04
open Ledger Comm Spec Spec.C04 Generated Tbl

/-- a dict lookup with default lands in the dict's values or on the default — for *every* key,
    i.e. for every one of the 65536 status words and every result code -/
theorem dictGet_mem [BEq α] (d : List (α × β)) (k : α) (dflt : β) :
    dictGet d k dflt ∈ dflt :: d.map (·.2) := by
  unfold dictGet
  split
  · rename_i p hp
    have := List.mem_of_find?_eq_some hp
    exact List.mem_cons_of_mem _ (List.mem_map_of_mem this)
  · exact List.mem_cons_self

theorem applyRule_mem (rule : List (List Nat × Int) × Int) (sw : Nat) :
    applyRule rule sw ∈ rule.2 :: rule.1.map (·.2) := by
  unfold applyRule
  split
  · rename_i br hbr
    have := List.mem_of_find?_eq_some hbr
    exact List.mem_cons_of_mem _ (List.mem_map_of_mem this)
  · exact List.mem_cons_self

/-- whatever the device answers at whatever step, an advanceBlockchain result translates into
    a code the documents list for that command (or a generic one) -/
theorem advance_codes_documented (r : Int) :
    dictGet translateAdvance r translateAdvanceDefault ∈ docCodes .v5 "advanceBlockchain" := by
  have h := dictGet_mem translateAdvance r translateAdvanceDefault
  revert h
  generalize dictGet translateAdvance r translateAdvanceDefault = x
  intro h
  have : ∀ y ∈ translateAdvanceDefault :: translateAdvance.map (·.2), y ∈ docCodes .v5 "advanceBlockchain" := by
    decide
  exact this x h

theorem update_codes_documented (r : Int) :
    dictGet translateUpdate r translateUpdateDefault ∈ docCodes .v5 "updateAncestorBlock" := by
  have h := dictGet_mem translateUpdate r translateUpdateDefault
  revert h
  generalize dictGet translateUpdate r translateUpdateDefault = x
  intro h
  have : ∀ y ∈ translateUpdateDefault :: translateUpdate.map (·.2), y ∈ docCodes .v5 "updateAncestorBlock" := by
    decide
  exact this x h

theorem sign_codes_documented (r : Int) :
    dictGet translateSign r translateSignDefault ∈ docCodes .v5 "sign" ∧
    dictGet translateSignV1 r translateSignV1Default ∈ docCodes .v1 "sign" := by
  constructor
  · have h := dictGet_mem translateSign r translateSignDefault
    revert h
    generalize dictGet translateSign r translateSignDefault = x
    intro h
    have : ∀ y ∈ translateSignDefault :: translateSign.map (·.2), y ∈ docCodes .v5 "sign" := by decide
    exact this x h
  · have h := dictGet_mem translateSignV1 r translateSignV1Default
    revert h
    generalize dictGet translateSignV1 r translateSignV1Default = x
    intro h
    have : ∀ y ∈ translateSignV1Default :: translateSignV1.map (·.2), y ∈ docCodes .v1 "sign" := by decide
    exact this x h

/-- the code the manager answers when the device raises status `sw` in reply to a message
    `(cmd, op)` — every mapping the source contains for that step, composed with the
    translation tables (all of them generated from the current source) -/
def stepCodes (cmd op sw : Nat) : List Int :=
  let adv (r : Int) := dictGet translateAdvance r translateAdvanceDefault
  let upd (r : Int) := dictGet translateUpdate r translateUpdateDefault
  let sgn (r : Int) := dictGet translateSign r translateSignDefault
  if cmd == 0x04 then [(codes .v5).invalidKeyId]
  else if cmd == 0x02 then
    if op == 1 then [sgn (applyRule signAuthorized_0 sw), sgn (applyRule signUnauthorized_0 sw)]
    else if op == 2 then [sgn (applyRule signAuthorized_1 sw)]
    else if op == 4 then [sgn (applyRule signAuthorized_2 sw)]
    else if op == 8 then [sgn (applyRule signAuthorized_3 sw)]
    else []
  else if cmd == 0x10 then
    if op == 4 || op == 9 then [adv (dictGet advChunkMap sw advSendHeader_1_default)]
    else if op == 7 then [adv (applyRule advBlockOp_1 sw)]
    else []
  else if cmd == 0x30 then
    if op == 4 then [upd (dictGet updChunkMap sw updSendHeader_1_default)] else []
  else []

/-- **named causes**: for every status whose cause the documentation names, at the step where
    the firmware raises it, the tables of the current source yield that very code -/
theorem named_cause_tables :
    ∀ e ∈ namedTable, stepCodes e.1 e.2.1 e.2.2.1 ≠ [] ∧ ∀ c ∈ stepCodes e.1 e.2.1 e.2.2.1, c = e.2.2.2 := by
  decide

/-- the Python status-word enums agree with the firmware headers wherever the names coincide
    (blockchain errors) -/
theorem blockchain_errors_match_firmware :
    ∀ p ∈ enumAdvanceUpdateError, p.1 = "UNKNOWN" ∨
      (firmwareErrors.find? fun f => f.1 == p.1).map (·.2) = some p.2.toNat := by
  decide

/-- opcode constants used by the step classification of `Spec.C04` are those of the source -/
theorem opcodes_as_specified :
    Command_SIGN = 0x02 ∧ Command_GET_PUBLIC_KEY = 0x04 ∧ Command_ADVANCE = 0x10 ∧ Command_UPD_ANCESTOR = 0x30 ∧
    SignOps_PATH = 1 ∧ SignOps_BTC_TX = 2 ∧ SignOps_TX_RECEIPT = 4 ∧ SignOps_MERKLE_PROOF = 8 ∧
    SignOps_SUCCESS = 0x81 ∧ AdvanceOps_HEADER_CHUNK = 4 ∧ AdvanceOps_BROTHER_CHUNK = 9 ∧
    AdvanceOps_BROTHER_LIST_META = 7 ∧ AdvanceOps_PARTIAL = 5 ∧ AdvanceOps_SUCCESS = 6 ∧
    UpdateAncestorOps_HEADER_CHUNK = 4 ∧ UpdateAncestorOps_SUCCESS = 5 := by decide

/-- the device error range is what the firmware headers use: 0x69A0–0x6BFF and 0x6D00 -/
theorem user_range_as_documented : userRange = [(0x69A0, 0x6BFF), (0x6D00, 0x6D00)] := by decide

end Props.C04
end PowHsm
