/-
  C02 — requests are classified exactly as the protocol specification prescribes.

  Full statement (kept visible; `Spec.C02.allowedObs` is the reading of the documents):
    ∀ mode hashes j world, world.commIssue = false →
      allowedObs mode j (observation of handleLine mode hashes (.ok j) world) = true
  It is **false on the unchanged tree** for `blocks` members that are strings but not hex
  (known finding F-02b, `blocks_not_hex_counterexample` below).  Proved here: the generic gate
  and the rejection half for every validator (a request the validators refuse is answered with
  its code and *no event at all*, in every world), and, field by field, that a refusal only
  happens when the documents name that cause (zone ≠ valid) and an acceptance only when the
  documents do not forbid the value (zone ≠ invalid) — for udValue and keyId; and, composed
  (`gate_refusals_conform`, `simple_commands_conform`, `Proofs/Classify.lean`): for every JSON object
  the gate's refusals, the verdicts of every version-1 command and of the seven version-5
  commands that carry no transaction or block, and — through both validation stages — the verdicts
  of version-5 `sign` (`sign_v5_conform`, `Proofs/ClassifySign.lean`) are the ones `Spec.C02.judge`
  prescribes; for advanceBlockchain / updateAncestorBlock (`blocks_commands_conform`,
  `Proofs/ClassifyBlocks.lean`) every refusal is the documents', and the only acceptances they forbid
  are exactly those of F-02b.  So the full statement is proved for every request of both versions up
  to the one recorded finding (and up to the device contact of accepted requests, which C03 / C11 own).
-/
import PowHsm.Spec.C02
import PowHsm.Proofs.Monad
import PowHsm.Proofs.Classify
import PowHsm.Proofs.ClassifySign
import PowHsm.Proofs.ClassifyBlocks
namespace PowHsm
namespace Props.C02
open Ledger Comm Spec Spec.C02

/-- the reply `{errorcode: c}` with no event and an untouched world -/
def Rejected (r : Res Json) (w : World) (c : Int) : Prop :=
  r.val = .ok (errReply c) ∧ r.evs = [] ∧ r.w = w

/-- a value that is not a JSON object is answered with the format error, without any event -/
theorem non_object_format_error (m : Mode) (hs : Dongle.Hashes) (j : Json) (w : World)
    (h : j.isObj = false) : Rejected (handleRequest m hs j w) w (codes m).formatError := by
  cases j <;> simp_all [handleRequest, Json.isObj, Rejected]

/-- **A request that is not accepted causes no exchange with the device at all**: whatever the
    generic gate or the command's validator refuses is answered with that code, with no event
    (no APDU, no connect, no disconnect) and an untouched world — in every world. -/
theorem rejected_no_contact (m : Mode) (hs : Dongle.Hashes) (kvs : List (String × Json)) (w : World) :
    (∀ e, gate (codes m) kvs = .error e → Rejected (handleRequest m hs (.obj kvs) w) w e) ∧
    (∀ name e, gate (codes m) kvs = .ok name → validateCmd m name kvs = .error e →
        Rejected (handleRequest m hs (.obj kvs) w) w e) := by
  constructor
  · intro e h; simp [handleRequest, h, Rejected]
  · intro name e h1 h2; simp [handleRequest, h1, h2, Rejected]

/-- and conversely everything the gate and the validator let through is handed to the
    command's operation (whose first action, for every command but `version`, is the device
    exchange — see `Props/C11` for the reconnection that may precede it) -/
theorem accepted_is_operated (m : Mode) (hs : Dongle.Hashes) (kvs : List (String × Json)) (w : World)
    (name : String) (path : List Nat) (h1 : gate (codes m) kvs = .ok name)
    (h2 : validateCmd m name kvs = .ok path) :
    handleRequest m hs (.obj kvs) w = ((operate m hs name kvs path) >>= fun o => pure (finish o)) w := by
  simp [handleRequest, h1, h2]

/-! ### field by field: validator vs. documented zone -/

/-- udValue: what the documents call valid is accepted; what is accepted is not forbidden -/
theorem udValue_sound (v : Json) (n : Nat) :
    (hexOfLenZone v n true = .valid → hexStrOfLength n v = true) ∧
    (hexStrOfLength n v = true → hexOfLenZone v n true ≠ .invalid) := Classify.udValue_sound v n

/-- keyId: a documented path is accepted; a refusal means the value is not a documented path -/
theorem keyId_refusal_sound (c : Codes) (kvs : List (String × Json)) (e : Int)
    (h : validateKeyId c kvs = .error e) : e = c.invalidKeyId ∧ keyIdZone kvs ≠ .valid :=
  Classify.keyId_refusal c kvs e h

/-- …and a key id the validator accepts is written in the documents' path grammar: the documents do
    not forbid it -/
theorem keyId_accept_sound (c : Codes) (kvs : List (String × Json)) (p : List Nat)
    (h : validateKeyId c kvs = .ok p) : keyIdZone kvs ≠ .invalid :=
  Classify.keyId_accept_not_invalid c kvs p h

/-- non-vacuity: the six documented paths are accepted and encode as the firmware expects -/
example : Bip32.parsePath "m/44'/0'/0'/0/0" = some [0x8000002C, 0x80000000, 0x80000000, 0, 0] := by decide
example : Bip32.parsePath "m/44'/137'/1'/0/0" = some [0x8000002C, 0x80000089, 0x80000001, 0, 0] := by decide

/-! ### the documents' verdict, proved for every JSON value (gate: every command; validators: every
    command whose verdict does not depend on a transaction or a block) -/

/-- **every refusal of the generic gate is the one the documents prescribe, and nothing reaches the
    device**: for every mode and every JSON object — a missing command or version, a version that is
    not the protocol's, a command that is not the protocol's — the reply carries the code
    `Spec.C02.judge` allows, and the observation (that reply, no event) satisfies the oracle
    `Spec.C02.allowedObs` -/
theorem gate_refusals_conform (m : Mode) (hs : Dongle.Hashes) (kvs : List (String × Json)) (w : World)
    (e : Int) (h : gate (codes m) kvs = .error e) :
    Rejected (handleRequest m hs (.obj kvs) w) w e ∧
    allowedObs m (.obj kvs) (Classify.refusalObs e w.commIssue) = true := by
  refine ⟨(rejected_no_contact m hs kvs w).1 e h, ?_⟩
  have hmay := Classify.gate_refusal_allowed m kvs e h
  refine Classify.allowed_of_refusal m _ e _ ?_ hmay
  -- the gate's codes are not 0
  obtain ⟨hreq, hver, hunk, _, _⟩ := Classify.codes_generic m
  obtain ⟨n1, n2, n3⟩ := Classify.gate_codes_nonzero m
  rw [Classify.gate_eq] at h
  cases hc : Json.lookup kvs "command" with
  | none => simp only [hc] at h; injection h with h; rw [← h, hreq]; exact n1
  | some cmd =>
    simp only [hc] at h
    split at h
    · injection h with h; rw [← h, hreq]; exact n1
    · cases hv : Json.lookup kvs "version" with
      | none =>
        simp only [hv] at h
        rw [(Classify.cmdStep_error m cmd e h).1]; exact n3
      | some v =>
        simp only [hv] at h
        split at h
        · injection h with h; rw [← h, hver]; exact n2
        · rw [(Classify.cmdStep_error m cmd e h).1]; exact n3

/-- **the commands whose verdict does not depend on a transaction or a block are classified exactly
    as the documents prescribe, for every JSON object**: version 1 in full (`version`, `sign`,
    `getPubKey`); version 5 for `version`, `getPubKey`, `resetAdvanceBlockchain`, `blockchainState`,
    `blockchainParameters`, `signerHeartbeat`, `uiHeartbeat`.  A refusal by the validator carries a
    code the documents allow for a field whose value they do not call valid, reaches no device and
    satisfies the oracle; what the validator accepts the documents do not forbid. -/
theorem simple_commands_conform (m : Mode) (hs : Dongle.Hashes) (kvs : List (String × Json)) (w : World)
    (name : String) (hg : gate (codes m) kvs = .ok name)
    (hsimple : (name = "sign" → m = .v1) ∧ name ≠ "advanceBlockchain" ∧ name ≠ "updateAncestorBlock") :
    (∀ e, validateCmd m name kvs = .error e → e ≠ 0 →
      Rejected (handleRequest m hs (.obj kvs) w) w e ∧
      allowedObs m (.obj kvs) (Classify.refusalObs e w.commIssue) = true) ∧
    (∀ p, validateCmd m name kvs = .ok p → (judge m (.obj kvs)).2 = false) := by
  obtain ⟨href, hacc⟩ := Classify.simple_commands_classified m kvs name hg hsimple
  refine ⟨fun e he hne => ⟨(rejected_no_contact m hs kvs w).2 name e hg he, ?_⟩, hacc⟩
  exact Classify.allowed_of_refusal m _ e _ hne (href e he)

/-- **`sign` of protocol version 5 is classified exactly as the documents prescribe, for every JSON
    object** — both validation stages (`_validate_sign` in comm/protocol.py: key id, optional `auth`,
    message shape; `_sign` in ledger/protocol.py: the hash shape, or mandatory `auth`, the transaction
    shape and a transaction that decodes).  `Classify.signV5Verdict` is the code either stage refuses
    with (`none`: the request goes on to the device).  A refusal carries the code of a field — key id
    -103, message -102, auth -101 — whose value the documents do not call valid, reaches no device,
    leaves the world untouched and satisfies the oracle; what passes both stages the documents do not
    forbid.  (`Proofs/ClassifySign.lean`: hex strings, the three message shapes with exactly their
    keys, the `auth` object, the transaction decoder shared with C14.) -/
theorem sign_v5_conform (hs : Dongle.Hashes) (kvs : List (String × Json)) (w : World)
    (hg : gate (codes .v5) kvs = .ok "sign") :
    (∀ e, Classify.signV5Verdict kvs = some e →
      Rejected (handleRequest .v5 hs (.obj kvs) w) w e ∧
      allowedObs .v5 (.obj kvs) (Classify.refusalObs e w.commIssue) = true) ∧
    (Classify.signV5Verdict kvs = none → (judge .v5 (.obj kvs)).2 = false) := by
  obtain ⟨_, _, hmust, hmay⟩ := Classify.gate_pass .v5 kvs "sign" hg
  refine ⟨fun e he => ?_, fun hn => ?_⟩
  · obtain ⟨hneg, z, hmem, hz⟩ := Classify.sign_refusal_allowed kvs e he
    obtain ⟨h1, h2, h3⟩ := Classify.sign_refusal_observed hs kvs w e hg he
    exact ⟨⟨h1, h2, h3⟩, Classify.allowed_of_refusal .v5 _ e _ (by omega) (hmay e z hmem hz)⟩
  · rw [hmust]
    have := Classify.sign_pass_not_forbidden kvs hn
    simp only [List.any_eq_false, beq_iff_eq]
    intro cz hcz
    exact this cz hcz

/-- **`advanceBlockchain` and `updateAncestorBlock`, for every JSON object**: a refusal carries -204 /
    -205 for a `blocks` / `brothers` value the documents do not call valid, reaches no device and
    satisfies the oracle; and the ONLY acceptances the documents forbid are those of the known finding
    F-02b — a `blocks` member that is a non-empty string but not hex (`Classify.NotHexMember`).
    Together with `gate_refusals_conform`, `simple_commands_conform` and `sign_v5_conform` this settles
    the classification of every request of both protocol versions. -/
theorem blocks_commands_conform (hs : Dongle.Hashes) (kvs : List (String × Json)) (w : World) (name : String)
    (hg : gate (codes .v5) kvs = .ok name)
    (hn : name = "advanceBlockchain" ∨ name = "updateAncestorBlock") :
    (∀ e, validateCmd .v5 name kvs = .error e →
      Rejected (handleRequest .v5 hs (.obj kvs) w) w e ∧
      allowedObs .v5 (.obj kvs) (Classify.refusalObs e w.commIssue) = true) ∧
    (∀ p, validateCmd .v5 name kvs = .ok p → (judge .v5 (.obj kvs)).2 = true →
      ∃ bs, Json.lookup kvs "blocks" = some (.arr bs) ∧ ∃ b ∈ bs, Classify.NotHexMember b) := by
  obtain ⟨_, _, hmust, hmay⟩ := Classify.gate_pass .v5 kvs name hg
  rcases hn with rfl | rfl
  · obtain ⟨href, hacc⟩ := Classify.advance_classified kvs
    refine ⟨fun e he => ?_, fun p hp hm => ?_⟩
    · have hv : validateAdvance (codes .v5) kvs = e ∧ e < 0 := by
        simp only [validateCmd] at he
        split at he
        · injection he with he; rename_i hneg; exact ⟨he, he ▸ hneg⟩
        · cases he
      obtain ⟨z, hmem, hz, _⟩ := href (by rw [hv.1]; omega)
      rw [hv.1] at hmem
      exact ⟨(rejected_no_contact .v5 hs kvs w).2 _ e hg he,
        Classify.allowed_of_refusal .v5 _ e _ (by omega) (hmay e z hmem hz)⟩
    · have hv : validateAdvance (codes .v5) kvs = 0 := by
        simp only [validateCmd] at hp
        split at hp
        · cases hp
        · rename_i hnn
          rcases Classical.em (validateAdvance (codes .v5) kvs = 0) with h0 | h0
          · exact h0
          · obtain ⟨_, _, _, hneg⟩ := href h0; exact absurd hneg hnn
      rw [hmust] at hm
      exact hacc hv hm
  · obtain ⟨href, hacc⟩ := Classify.update_classified kvs
    refine ⟨fun e he => ?_, fun p hp hm => ?_⟩
    · have hv : validateUpdate (codes .v5) kvs = e ∧ e < 0 := by
        simp only [validateCmd] at he
        split at he
        · injection he with he; rename_i hneg; exact ⟨he, he ▸ hneg⟩
        · cases he
      obtain ⟨hcode, z, hmem, hz⟩ := href (by rw [hv.1]; omega)
      have he204 : e = -204 := by rw [← hv.1, hcode]
      subst he204
      exact ⟨(rejected_no_contact .v5 hs kvs w).2 _ _ hg he,
        Classify.allowed_of_refusal .v5 _ _ _ (by decide) (hmay _ z hmem hz)⟩
    · have hv : validateUpdate (codes .v5) kvs = 0 := by
        simp only [validateCmd] at hp
        split at hp
        · cases hp
        · rename_i hnn
          rcases Classical.em (validateUpdate (codes .v5) kvs = 0) with h0 | h0
          · exact h0
          · obtain ⟨hcode, _⟩ := href h0; rw [hcode] at hnn; exact absurd (by decide) hnn
      rw [hmust] at hm
      exact hacc hv hm

/-- non-vacuity of `sign_v5_conform`: a `sign` without a message is refused with -102, one whose `auth`
    is not an object with -101 (the first stage checks `auth` before the message) -/
example :
    Classify.signV5Verdict [("keyId", .str "m/44'/1'/2'/0/0")] = some (-102) ∧
    Classify.signV5Verdict [("keyId", .str "m/44'/1'/2'/0/0"), ("auth", .null)] = some (-101) ∧
    Classify.signV5Verdict [("keyId", .str "m/44'/1'/2'/0")] = some (-103) := by decide +kernel

/-- non-vacuity: a version-5 `getPubKey` with an undocumented but well-formed path is refused with
    -103 (allowed: the documents do not call the value valid), one with a documented path is accepted -/
example :
    (match validateCmd .v5 "getPubKey" [("command", .str "getPubKey"), ("version", .int 5), ("keyId", .str "m/44'/0'/0'/0")] with
     | .error e => e == -103 | .ok _ => false) = true ∧
    (match gate (codes .v5) [("command", .str "getPubKey"), ("version", .int 5), ("keyId", .str "m/44'/0'/0'/0")] with
     | .ok n => n == "getPubKey" | .error _ => false) = true ∧
    (match validateCmd .v5 "getPubKey" [("command", .str "getPubKey"), ("version", .int 5), ("keyId", .str "m/44'/1'/2'/0/0")] with
     | .ok p => p.length == 5 | .error _ => false) = true := by decide

/-- F-02b: the full statement fails for `blocks` — a member that is not hex passes validation
    (so the manager goes on to talk to the device) although the documents type it `hhhh`. -/
theorem blocks_not_hex_counterexample :
    validateUpdate (codes .v5) [("blocks", .arr [.str "zz"])] = 0 ∧
    blocksZone [("blocks", .arr [.str "zz"])] 1 = .invalid := by decide

end Props.C02
end PowHsm
