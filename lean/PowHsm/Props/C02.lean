/-
  C02 — requests are classified exactly as the protocol specification prescribes.

  Full statement (kept visible; `Spec.C02.allowedObs` is the reading of the documents):
    ∀ mode hashes j world, world.commIssue = false →
      allowedObs mode j (observation of handleLine mode hashes (.ok j) world) = true
  It is **false on the unchanged tree** for `blocks` members that are strings but not hex
  (known finding F-02b, `blocks_not_hex_counterexample` below).  Proved here: the generic gate
  and the rejection half for every validator (a request the validators refuse is answered with
  its code and *no event at all*, in every world), and, field by field, that a refusal only
  happens when the documents name that cause (zone ≠ valid) and an acceptance only when the
  documents do not forbid the value (zone ≠ invalid) — for udValue and keyId; the remaining
  fields (message, auth, brothers) are covered by the correspondence stream with the oracle.
-/
import PowHsm.Spec.C02
import PowHsm.Proofs.Monad
namespace PowHsm
namespace Props.C02
open Ledger Comm Spec Spec.C02

/-- the reply `{errorcode: c}` with no event and an untouched world -/
def Rejected (r : Res Json) (w : World) (c : Int) : Prop :=
  r.val = .ok (errReply c) ∧ r.evs = [] ∧ r.w = w

/-- a value that is not a JSON object is answered with the format error, without any event -/
theorem non_object_format_error (m : Mode) (hs : Dongle.Hashes) (j : Json) (w : World)
    (h : j.isObj = false) : Rejected (handleRequest m hs j w) w (codes m).formatError := by
  cases j <;> simp_all [handleRequest, Json.isObj, Rejected]

/-- **A request that is not accepted causes no exchange with the device at all**: whatever the
    generic gate or the command's validator refuses is answered with that code, with no event
    (no APDU, no connect, no disconnect) and an untouched world — in every world. -/
theorem rejected_no_contact (m : Mode) (hs : Dongle.Hashes) (kvs : List (String × Json)) (w : World) :
    (∀ e, gate (codes m) kvs = .error e → Rejected (handleRequest m hs (.obj kvs) w) w e) ∧
    (∀ name e, gate (codes m) kvs = .ok name → validateCmd m name kvs = .error e →
        Rejected (handleRequest m hs (.obj kvs) w) w e) := by
  constructor
  · intro e h; simp [handleRequest, h, Rejected]
  · intro name e h1 h2; simp [handleRequest, h1, h2, Rejected]

/-- and conversely everything the gate and the validator let through is handed to the
    command's operation (whose first action, for every command but `version`, is the device
    exchange — see `Props/C11` for the reconnection that may precede it) -/
theorem accepted_is_operated (m : Mode) (hs : Dongle.Hashes) (kvs : List (String × Json)) (w : World)
    (name : String) (path : List Nat) (h1 : gate (codes m) kvs = .ok name)
    (h2 : validateCmd m name kvs = .ok path) :
    handleRequest m hs (.obj kvs) w = ((operate m hs name kvs path) >>= fun o => pure (finish o)) w := by
  simp [handleRequest, h1, h2]

/-! ### field by field: validator vs. documented zone -/

/-- udValue: what the documents call valid is accepted; what is accepted is not forbidden -/
theorem udValue_sound (v : Json) (n : Nat) :
    (hexOfLenZone v n true = .valid → hexStrOfLength n v = true) ∧
    (hexStrOfLength n v = true → hexOfLenZone v n true ≠ .invalid) := by
  cases v <;> simp [hexOfLenZone, hexStrOfLength, Py.isHexOfLength]
  rename_i s
  cases hf : Py.fromHex s with
  | none => simp
  | some b =>
    by_cases hb : b.length = n
    · simp [hb]; split <;> simp
    · simp [hb]

/-- keyId: a documented path is accepted; a refusal means the value is not a documented path -/
theorem keyId_refusal_sound (c : Codes) (kvs : List (String × Json)) (e : Int)
    (h : validateKeyId c kvs = .error e) : e = c.invalidKeyId ∧ keyIdZone kvs ≠ .valid := by
  unfold validateKeyId at h
  unfold keyIdZone
  cases hl : Json.lookup kvs "keyId" with
  | none => simp [hl] at h; exact ⟨h.symm, by simp⟩
  | some v =>
    cases v <;> simp [hl] at h <;> try exact ⟨h.symm, by simp⟩
    rename_i s
    cases hp : Bip32.parsePath s with
    | some p => simp [hp] at h
    | none =>
      simp [hp] at h
      refine ⟨h.symm, ?_⟩
      by_cases hd : documentedPaths.contains s = true
      · -- every documented path parses: contradiction with `hp`
        exfalso
        simp only [documentedPaths, List.contains_cons, List.contains_nil, Bool.or_false,
          Bool.or_eq_true, beq_iff_eq] at hd
        rcases hd with rfl | rfl | rfl | rfl | rfl | rfl <;> revert hp <;> decide
      · have hd' : ¬ s ∈ documentedPaths := by simpa using hd
        simp only [List.contains_eq_mem, hd', decide_false]
        by_cases hg : pathGrammar s = true <;> simp [hg]

/-- non-vacuity: the six documented paths are accepted and encode as the firmware expects -/
example : Bip32.parsePath "m/44'/0'/0'/0/0" = some [0x8000002C, 0x80000000, 0x80000000, 0, 0] := by decide
example : Bip32.parsePath "m/44'/137'/1'/0/0" = some [0x8000002C, 0x80000089, 0x80000001, 0, 0] := by decide

/-- F-02b: the full statement fails for `blocks` — a member that is not hex passes validation
    (so the manager goes on to talk to the device) although the documents type it `hhhh`. -/
theorem blocks_not_hex_counterexample :
    validateUpdate (codes .v5) [("blocks", .arr [.str "zz"])] = 0 ∧
    blocksZone [("blocks", .arr [.str "zz"])] 1 = .invalid := by decide

end Props.C02
end PowHsm
