/-
  C07 — an SGX attestation is accepted only if the whole quote-to-root chain verifies.
  Version-2 certificates use the very same chain walk as version 1 (`HSMCertificateV2`
  inherits `validate_and_get_values`), so the chain theorems are those of `Props/C06`,
  restated here for the quote target; the per-link conditions of the property (validity
  period and issuer signature for X.509 elements; report-data binding and certifier signature
  for the attestation key and the quote) are the abstract `linkValid`, instantiated in the
  correspondence runs by an independent implementation.  The struct offsets the bindings read
  are checked here against the SGX layout.
-/
import PowHsm.Props.C06
namespace PowHsm
namespace Props.C07
open Cert

/-- the quote is reported valid iff every element on its path — X.509 certificates, attestation
    key, quote — verifies against the one above it (the root of trust at the top) -/
theorem quote_valid_iff (lv : Option Elem → Elem → Bool) (path : List Elem) (quote : Elem) :
    validateDown lv none path = some (.valid quote) ↔
      path.getLast? = some quote ∧ ∀ l ∈ Props.C06.links none path, lv l.1 l.2 = true :=
  Props.C06.valid_iff lv path none quote

/-- **the property, link by link**: with the per-link facts of a certificate (`facts certifier element`),
    the quote target is reported valid if and only if it is the last element of its path and every
    element of the path — every X.509 certificate inside its validity period and signed by the X.509
    certificate above it (the root of trust at the top), the attestation key bound to its report data
    and signed by its certifier's key, the quote bound to its custom data and signed by the attestation
    key — satisfies its condition; for paths of any length -/
theorem quote_valid_iff_conditions (facts : Option Elem → Elem → LinkFacts) (path : List Elem) (quote : Elem) :
    validateDown (fun c e => linkValid (facts c e)) none path = some (.valid quote) ↔
      path.getLast? = some quote ∧ ∀ l ∈ Props.C06.links none path, LinkHolds (facts l.1 l.2) := by
  exact Props.C06.valid_iff_conditions facts path none quote

/-- the validity period is compared at the clock's own resolution: a certificate whose `notAfter` lies
    before `now`, by however little, is not valid (non-vacuity of the period clause) -/
example : linkValid { kind := .x509, certifierIsX509 := true, loads := true, sigOk := true,
                      notBefore := 0, notAfter := 1000000, now := 1000001 } = false ∧
          linkValid { kind := .x509, certifierIsX509 := true, loads := true, sigOk := true,
                      notBefore := 0, notAfter := 1000000, now := 1000000 } = true := by decide

/-- sgx_report_body_t: `report_data` starts at byte 320 of a 384-byte report body; inside a
    quote (48-byte header) at byte 368 — the offsets the two bindings compare SHA-256 against -/
theorem report_data_offsets :
    (16 + 4 + 12 + 16 + 16 + 32 + 32 + 32 + 32 + 64 + 2 + 2 + 2 + 42 + 16 = 320) ∧
    (320 + 64 = 384) ∧ (2 + 2 + 4 + 2 + 2 + 16 + 20 = 48) ∧ (48 + 320 = 368) := by decide

end Props.C07
end PowHsm
