/-
  C15 — attestations gathered from a genuine device verify end to end.

  Proved here: the framing between the device and the attestation file loses nothing
  (envelope parse ∘ build, message paging).  The acceptance of the gathered file with exactly
  the device's values then follows from C06/C07/C08 *under the hypothesis* that the
  signatures verify (cryptographic correctness is not a theorem); "any alteration makes
  gathering or verification fail" rests on unforgeability and is exercised with real keys by
  the `e2e` stream, labelled a test.
-/
import PowHsm.Admin.Gather
import PowHsm.Proofs.Base64
import PowHsm.Proofs.PemText
namespace PowHsm
namespace Props.C15
open Gather

theorem takeN_append (x rest : Bytes) (n : Nat) (h : x.length = n) :
    takeN n (x ++ rest) = some (x, rest) := by
  unfold takeN
  subst h
  simp

/-- an envelope with fields of the fixed SGX sizes -/
def WellFormed (e : Envelope) : Prop :=
  e.quote.length = 432 ∧ e.sigLen.length = 4 ∧ e.quoteSig.length = 64 ∧ e.attKey.length = 64 ∧
  e.qeReport.length = 384 ∧ e.qeReportSig.length = 64 ∧ e.certType.length = 2 ∧
  e.qeAuthData.length < 256 ^ 2 ∧ e.certData.length < 256 ^ 4

/-- **the quote envelope is parsed back loss-free**: every well-formed envelope, with QE auth
    data and certification data of any admissible length, is recovered field by field -/
theorem envelope_roundtrip (e : Envelope) (h : WellFormed e) : parse (build e) e.custom = some e := by
  obtain ⟨h1, h2, h3, h4, h5, h6, h7, h8, h9⟩ := h
  unfold build parse
  simp only [List.append_assoc]
  rw [takeN_append _ _ _ h1]; simp only [Option.bind_eq_bind, Option.bind_some]
  rw [takeN_append _ _ _ h2]; simp only [Option.bind_some]
  rw [takeN_append _ _ _ h3]; simp only [Option.bind_some]
  rw [takeN_append _ _ _ h4]; simp only [Option.bind_some]
  rw [takeN_append _ _ _ h5]; simp only [Option.bind_some]
  rw [takeN_append _ _ _ h6]; simp only [Option.bind_some]
  rw [takeN_append _ _ _ (Bytes.le_length 2 _)]; simp only [Option.bind_some]
  rw [Bytes.leVal_le_of_lt h8, takeN_append _ _ _ rfl]; simp only [Option.bind_some]
  rw [takeN_append _ _ _ h7]; simp only [Option.bind_some]
  rw [takeN_append _ _ _ (Bytes.le_length 4 _)]; simp only [Option.bind_some]
  rw [Bytes.leVal_le_of_lt h9, takeN_append _ _ _ rfl]; simp only [Option.bind_some]
  simp

/-- a message cut into any non-empty list of pages (at most `k`) is reassembled exactly -/
theorem pages_reassemble (chunks : List Bytes) (h : chunks ≠ []) (k : Nat) (hk : chunks.length ≤ k) :
    reassemble k (paginate chunks) = some chunks.flatten := by
  induction chunks generalizing k with
  | nil => exact absurd rfl h
  | cons c cs ih =>
    cases cs with
    | nil =>
      cases k with
      | zero => simp at hk
      | succ k => simp [paginate, reassemble]
    | cons c' cs' =>
      cases k with
      | zero => simp at hk
      | succ k =>
        simp only [paginate, reassemble, if_true]
        rw [ih (by simp) k (by simpa using hk)]
        simp

/-- more pages than the host accepts is an error, not a silent truncation -/
theorem too_many_pages_refused (chunks : List Bytes) (k : Nat) (hk : k < chunks.length) :
    reassemble k (paginate chunks) = none := by
  induction chunks generalizing k with
  | nil => simp at hk
  | cons c cs ih =>
    cases cs with
    | nil =>
      have : k = 0 := by simp at hk; omega
      subst this; simp [paginate, reassemble]
    | cons c' cs' =>
      cases k with
      | zero => simp [paginate, reassemble]
      | succ k =>
        simp only [paginate, reassemble, if_true]
        rw [ih k (by simpa using hk)]
        simp

/-- **the certificate file keeps every X.509 element's bytes**: a version-2 X.509 element is written
    as the base64 text of its DER bytes (`to_dict`: `message = b64encode(_message)`) and read back with
    `b64decode` (`_init_with_map`); for every byte string, of any length, decoding the encoding gives it
    back — so the platform-CA and quoting-enclave certificates gathered from the device's quote envelope
    load back without loss (`Proofs/Base64.lean`, by induction over the 3-byte groups) -/
theorem x509_message_roundtrip (der : Bytes) : Pem.decode (Pem.encode der) = some der :=
  Pem.decode_encode der

/-- **the root of trust and the chain certificates are read from PEM text without loss**:
    `HSMCertificateV2ElementX509.from_pem` — collapse white space, delete the END and the BEGIN marker,
    strip, base64-decode — applied to the PEM text of a certificate with DER bytes `der` (markers on their
    own lines, the base64 body in lines of any width) yields exactly `der`; for every byte string and every
    line width (`Proofs/PemText.lean`: neither marker occurs inside the other or in base64 text; the decoder
    skips the blanks the collapsing leaves) -/
theorem pem_text_roundtrip (w : Nat) (der : Bytes) : Pem.load (Pem.text w der) = some der :=
  Pem.load_text w der

/-- non-vacuity: the three padding cases -/
example : Pem.encode [0x4d, 0x61, 0x6e] = "TWFu".toList ∧ Pem.encode [0x4d, 0x61] = "TWE=".toList ∧
    Pem.encode [0x4d] = "TQ==".toList ∧ Pem.decode "TWE=".toList = some [0x4d, 0x61] := by decide +kernel

end Props.C15
end PowHsm
