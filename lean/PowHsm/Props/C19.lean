/-
  C19 — app hashing and one-time signing bind to the application's actual code.
-/
import PowHsm.Admin.IntelHex
namespace PowHsm
namespace Props.C19
open IntelHex

def Sorted (as : List Area) : Prop := as.Pairwise fun a b => a.start ≤ b.start

theorem insertSorted_mem (as : List Area) (a x : Area) :
    x ∈ insertSorted as a ↔ x = a ∨ x ∈ as := by
  induction as with
  | nil => simp [insertSorted]
  | cons y ys ih =>
    unfold insertSorted
    split
    · simp
    · simp only [List.mem_cons, ih]
      constructor
      · rintro (h | h | h) <;> simp [h]
      · rintro (h | h | h) <;> simp [h]

theorem insertSorted_sorted (as : List Area) (a : Area) (h : Sorted as) : Sorted (insertSorted as a) := by
  induction as with
  | nil => simp [insertSorted, Sorted]
  | cons y ys ih =>
    unfold insertSorted
    unfold Sorted at h ⊢
    rw [List.pairwise_cons] at h
    split
    · rename_i hlt
      rw [List.pairwise_cons]
      refine ⟨?_, List.pairwise_cons.mpr h⟩
      intro b hb
      simp at hb
      rcases hb with rfl | hb
      · omega
      · have := h.1 b hb; omega
    · rename_i hge
      rw [List.pairwise_cons]
      refine ⟨?_, ih h.2⟩
      intro b hb
      rw [insertSorted_mem] at hb
      rcases hb with rfl | hb
      · omega
      · exact h.1 b hb

theorem step_sorted (s s' : St) (r : Bytes) (h : Sorted s.areas) (hs : step s r = some s') :
    Sorted s'.areas := by
  unfold step at hs
  split at hs
  · dsimp only at hs
    repeat' split at hs
    all_goals first
      | (simp at hs; done)
      | (injection hs with hs; subst hs
         first
           | exact h
           | (simp only [flush, reset]; exact insertSorted_sorted _ _ h)
           | (simp only [flush, reset]; split <;> first | exact h | exact insertSorted_sorted _ _ h))
  · simp at hs

theorem run_sorted (recs : List Bytes) : ∀ (s s' : St), Sorted s.areas → run s recs = some s' → Sorted s'.areas := by
  induction recs with
  | nil => intro s s' h hr; simp [run] at hr; subst hr; exact h
  | cons r rs ih =>
    intro s s' h hr
    simp only [run] at hr
    cases hst : step s r with
    | none => simp [hst] at hr
    | some s1 => simp [hst] at hr; exact ih s1 s' (step_sorted s s1 r h hst) hr

/-- **the hash is over the data areas in address order**, whatever the order in which the file
    lists them: for every file the parser accepts, the areas it returns are sorted by start
    address -/
theorem areas_in_address_order (recs : List Bytes) (as : List Area) (h : parse recs = some as) :
    Sorted as := by
  unfold parse at h
  cases hr : run {} recs with
  | none => simp [hr] at h
  | some s =>
    simp [hr] at h
    have hs := run_sorted recs {} s (by simp [Sorted]) hr
    subst h
    split
    · exact hs
    · simp only [flush]; exact insertSorted_sorted _ _ hs

/-- a data record for the byte string `d` at 16-bit address `a` -/
def dataRec (a : Nat) (d : Bytes) : Bytes :=
  UInt8.ofNat d.length :: UInt8.ofNat (a / 256) :: UInt8.ofNat (a % 256) :: 0 :: d

/-- the data records of consecutive chunks starting at 16-bit address `a` -/
def chunkRecs : Nat → List Bytes → List Bytes
  | _, [] => []
  | a, c :: cs => dataRec a c :: chunkRecs (a + c.length) cs

theorem step_dataRec (s : St) (z f : Nat) (c : Bytes) (hz : s.startZone = some z) (hf : s.startFirst = some f)
    (hc : c.length < 256) (hcur : s.current < 65536) :
    step s (dataRec s.current c) =
      some { s with zoneData := s.zoneData ++ c, current := s.current + c.length } := by
  unfold step dataRec
  have h1 : (UInt8.ofNat c.length).toNat = c.length := by
    simp [UInt8.toNat_ofNat']; omega
  have h2 : (UInt8.ofNat (s.current / 256)).toNat * 256 + (UInt8.ofNat (s.current % 256)).toNat = s.current := by
    simp [UInt8.toNat_ofNat']; omega
  simp only [h1, h2, hz, hf]
  simp [hz, hf]

/-- **record sizes do not matter**: a run of consecutive data records (each 0..255 bytes, each
    starting where the previous one ended) appends exactly the concatenation of the payloads
    to the area under construction and flushes nothing — however the bytes are cut into records -/
theorem consecutive_records_accumulate (chunks : List Bytes) :
    ∀ (s : St) (z f : Nat), s.startZone = some z → s.startFirst = some f →
      (∀ c ∈ chunks, c.length < 256) → s.current + chunks.flatten.length < 65536 →
      run s (chunkRecs s.current chunks) =
        some { s with zoneData := s.zoneData ++ chunks.flatten, current := s.current + chunks.flatten.length } := by
  induction chunks with
  | nil => intro s z f _ _ _ _; simp [chunkRecs, run]
  | cons c cs ih =>
    intro s z f hz hf hc hsum
    simp only [chunkRecs, run]
    have hc0 : s.current < 65536 := by omega
    rw [step_dataRec s z f c hz hf (hc c (by simp)) hc0]
    simp only [Option.bind_some]
    have := ih { s with zoneData := s.zoneData ++ c, current := s.current + c.length } z f hz hf
      (fun x hx => hc x (by simp [hx])) (by simp at hsum ⊢; omega)
    simp only at this
    rw [this]
    simp [Nat.add_assoc]

/-- two ways of cutting the same bytes into records give the same area content -/
theorem splitting_independent (w1 w2 : List Bytes) (s : St) (z f : Nat)
    (hz : s.startZone = some z) (hf : s.startFirst = some f)
    (h1 : ∀ c ∈ w1, c.length < 256) (h2 : ∀ c ∈ w2, c.length < 256)
    (heq : w1.flatten = w2.flatten) (hb : s.current + w1.flatten.length < 65536) :
    run s (chunkRecs s.current w1) = run s (chunkRecs s.current w2) := by
  rw [consecutive_records_accumulate w1 s z f hz hf h1 hb,
      consecutive_records_accumulate w2 s z f hz hf h2 (by rw [← heq]; exact hb), heq]

end Props.C19
end PowHsm
