/-
  C11 — link failures get a device-error reply and are repaired on the next request.
-/
import PowHsm.Spec.C11
import PowHsm.Proofs.Monad
import PowHsm.Proofs.Emits
import PowHsm.Proofs.ConformMgr
import PowHsm.Props.C03
namespace PowHsm
namespace Props.C11
open Ledger Comm Spec Dongle M

/-- transport classification: write / read errors are communication errors, a time-out is a
    time-out (and never a communication error) -/
theorem link_fault_classification :
    classify .writeErr = .error .dongleComm ∧ classify .readErr = .error .dongleComm ∧
    classify .timeout = .error .dongleTimeout := ⟨rfl, rfl, rfl⟩

/-- no repair pending ⇒ `ensure_connection` does nothing at all -/
theorem ensure_noop (w : World) (h : w.commIssue = false) :
    ensureConnection w = ⟨.ok (), [], w⟩ := by
  simp [ensureConnection, M.bind_apply, getWorld, h]

/-- the device-error code is negative in both modes, so the reply is exactly `{errorcode: it}` -/
theorem device_code_reply (m : Mode) :
    finish ((codes m).device, []) = errReply (Spec.C11.deviceErrorCode m) := by
  cases m <;> rfl

/-- every handler that wraps its device work in the common guard: a communication error
    anywhere in that work yields the device-error code **and** raises the repair flag … -/
theorem guard_comm (c : Codes) (b : Bool) (m : M Out) (w : World)
    (h : (m w).val = .error .dongleComm) :
    (deviceGuard c b m w).val = .ok (c.device, []) ∧ (deviceGuard c b m w).w.commIssue = true ∧
    (deviceGuard c b m w).evs = (m w).evs := by
  unfold deviceGuard M.tryCatchIf
  generalize hm : m w = r at h
  obtain ⟨v, e, w'⟩ := r
  simp only at h; subst h
  simp [isComm, isError, isTimeout, setCommIssue, modifyWorld, M.bind_apply]

/-- … while a time-out yields the same code and leaves the flag as it was -/
theorem guard_timeout (c : Codes) (b : Bool) (m : M Out) (w : World)
    (h : (m w).val = .error .dongleTimeout) :
    (deviceGuard c b m w).val = .ok (c.device, []) ∧ (deviceGuard c b m w).w = (m w).w ∧
    (deviceGuard c b m w).evs = (m w).evs := by
  unfold deviceGuard M.tryCatchIf
  generalize hm : m w = r at h
  obtain ⟨v, e, w'⟩ := r
  simp only at h; subst h
  simp [isComm, isError, isTimeout]

/-- repair pending and the connection cannot be re-established: the request gets the
    device-error code, nothing is sent to the device, the flag stays up (so the next request
    tries again) — for every command behind the guard, by induction for any number of failed
    attempts (`conns = false :: …`). -/
theorem reconnect_failure_retries (c : Codes) (b : Bool) (k : M Out) (w : World) (rest : List Bool)
    (hi : w.commIssue = true) (hc : w.conns = false :: rest) :
    let r := deviceGuard c b (do ensureConnection; k) w
    r.val = .ok (c.device, []) ∧ r.evs = [.disconnect, .connect false] ∧
    r.w.commIssue = true ∧ r.w.conns = rest ∧ r.w.script = w.script := by
  have hens : (ensureConnection w).val = .error .dongleComm ∧
      (ensureConnection w).evs = [.disconnect, .connect false] ∧
      (ensureConnection w).w = { w with conns := rest } := by
    simp [ensureConnection, M.bind_apply, getWorld, hi, disconnect, M.emit, initializeDevice, initGuards,
      M.tryCatchIf, connect, hc, Exc.isDongleBase, M.throw']
  have hm : ((do ensureConnection; k : M Out) w).val = .error .dongleComm ∧
      ((do ensureConnection; k : M Out) w).evs = [.disconnect, .connect false] ∧
      ((do ensureConnection; k : M Out) w).w = { w with conns := rest } := by
    obtain ⟨h1, h2, h3⟩ := hens
    show ((ensureConnection >>= fun _ => k) w).val = _ ∧ ((ensureConnection >>= fun _ => k) w).evs = _ ∧
      ((ensureConnection >>= fun _ => k) w).w = _
    rw [M.bind_apply]
    revert h1 h2 h3
    generalize ensureConnection w = r
    obtain ⟨v, e, w'⟩ := r
    intro h1 h2 h3
    simp only at h1 h2 h3; subst h1 h2 h3
    simp
  obtain ⟨g1, g2, g3⟩ := guard_comm c b _ w hm.1
  refine ⟨g1, by rw [g3, hm.2.1], g2, ?_, ?_⟩
  · unfold deviceGuard M.tryCatchIf
    obtain ⟨h1, h2, h3⟩ := hm
    revert h1 h2 h3
    generalize (do ensureConnection; k : M Out) w = r
    obtain ⟨v, e, w'⟩ := r
    intro h1 h2 h3
    simp only at h1 h2 h3; subst h1 h2 h3
    simp [isComm, isError, isTimeout, setCommIssue, modifyWorld, M.bind_apply]
  · unfold deviceGuard M.tryCatchIf
    obtain ⟨h1, h2, h3⟩ := hm
    revert h1 h2 h3
    generalize (do ensureConnection; k : M Out) w = r
    obtain ⟨v, e, w'⟩ := r
    intro h1 h2 h3
    simp only at h1 h2 h3; subst h1 h2 h3
    simp [isComm, isError, isTimeout, setCommIssue, modifyWorld, M.bind_apply]

/-- the bring-up starts by (re-)opening the connection -/
theorem bringup_opens_first (w : World) : ∃ ok rest, (initializeDevice w).evs = .connect ok :: rest := by
  unfold initializeDevice initGuards
  obtain ⟨t1, h1⟩ := bind_evs_prefix (do
      M.tryCatchIf connect Exc.isDongleBase (fun _ => M.throw' .protoError)
      let o ← M.tryCatchIf (do let o ← isOnboarded; if !o then M.throw' .protoError else pure o)
        Exc.isDongleBase (fun _ => M.throw' .protoInterrupt)
      let mode ← getCurrentMode
      pure (o, mode)) (fun om => if om.2 == Generated.Mode_BOOTLOADER.toNat then do
        handleBootloader
        let mode ← getCurrentMode
        afterDispatch mode
      else afterDispatch om.2) w
  obtain ⟨t2, h2⟩ := bind_evs_prefix (M.tryCatchIf connect Exc.isDongleBase (fun _ => M.throw' .protoError))
    (fun _ => do
      let o ← M.tryCatchIf (do let o ← isOnboarded; if !o then M.throw' .protoError else pure o)
        Exc.isDongleBase (fun _ => M.throw' .protoInterrupt)
      let mode ← getCurrentMode
      pure (o, mode)) w
  obtain ⟨t3, h3⟩ := tryCatchIf_evs_prefix connect Exc.isDongleBase (fun _ => M.throw' .protoError) w
  have hc : ∃ ok, (connect w).evs = [.connect ok] := by
    unfold connect
    split
    · exact ⟨true, rfl⟩
    · exact ⟨true, rfl⟩
    · exact ⟨false, rfl⟩
  obtain ⟨ok, hc⟩ := hc
  refine ⟨ok, t3 ++ t2 ++ t1, ?_⟩
  rw [h1, h2, h3, hc]
  simp

/-- **after a link failure the next request first closes and re-opens the connection and repeats
    the full bring-up before anything of the command is sent**: with a repair pending, the trace
    of any guarded command is `disconnect`, then the complete bring-up (which starts with the
    re-open), and the command's own events follow only if the bring-up succeeded — otherwise
    nothing of the command is sent at all -/
theorem repair_precedes_command {α : Type} (k : M α) (w : World) (hi : w.commIssue = true) :
    (∃ e, (initializeDevice w).val = .error e ∧
        ((ensureConnection >>= fun _ => k) w).evs = .disconnect :: (initializeDevice w).evs) ∨
    ((initializeDevice w).val = .ok () ∧
        ((ensureConnection >>= fun _ => k) w).evs =
          .disconnect :: ((initializeDevice w).evs ++ (k { (initializeDevice w).w with commIssue := false }).evs) ∧
        ((ensureConnection >>= fun _ => k) w).val = (k { (initializeDevice w).w with commIssue := false }).val) := by
  have hens : ensureConnection w =
      (M.tryCatchIf (do initializeDevice; setCommIssue false) (fun e => e == .protoError)
        (fun _ => M.throw' .dongleComm) w |> fun r => ⟨r.val, .disconnect :: r.evs, r.w⟩) := by
    simp [ensureConnection, M.bind_apply, getWorld, hi, disconnect, M.emit]
  cases hini : initializeDevice w with
  | mk v e w1 =>
    cases v with
    | error ex =>
      left
      refine ⟨ex, rfl, ?_⟩
      rw [M.bind_apply, hens]
      by_cases hp : (ex == Exc.protoError) = true
      · simp [M.tryCatchIf, M.bind_apply, hini, hp, M.throw']
      · simp [M.tryCatchIf, M.bind_apply, hini, hp]
    | ok u =>
      right
      refine ⟨rfl, ?_, ?_⟩ <;>
      · rw [M.bind_apply, hens]
        simp [M.tryCatchIf, M.bind_apply, hini, setCommIssue, modifyWorld]

/-! ### link failures at any exchange never stop the manager -/

/-- a link fault (time-out, write error, read error) is admitted as the outcome of any exchange -/
theorem link_fault_admitted (apdu : Bytes) (r : Resp) (h : isFault r = true) : respOk true apdu r = true := by
  simp [respOk, h]

/-- **for every command and every point of its device exchange at which the link may fail, the
    manager keeps running and the client gets an answer**: with no repair pending, for every
    request line (any JSON value, any command, both protocol modes) and every script in which each
    exchange is either answered as the device protocol allows or ends in a time-out, a write error
    or a read error — at any position, any number of times — the line is answered with a JSON
    object holding an integer errorcode, no exception leaves the handler and no shutdown is
    requested.  (That the code is the device-error code, and that the repair flag is raised exactly
    for write / read errors, are `guard_comm`, `guard_timeout` and `device_code_reply` above, composed
    per handler by the correspondence streams.) -/
theorem link_faults_never_stop (m : Mode) (hs : Dongle.Hashes) (p : Parsed) (w : World)
    (hci : w.commIssue = false) (hb : ParsedBounded p)
    (hok : deviceOk true w.script (handleLine m hs p w).evs = true) :
    ∃ lo, (handleLine m hs p w).val = .ok lo ∧ lo.exc = none ∧ isReply lo.reply = true ∧
      lo.shutdown = false := by
  obtain ⟨_, lo, h2, h3⟩ := handleLine_top (lf := true) m hs p (fun r => isReply r = true)
    (Props.C03.handleRequest_reply_wellformed m hs) (Props.C03.isReply_errReply _) hb w hci hok
  exact ⟨lo, h2, h3.1, h3.2.1, h3.2.2⟩

/-- non-vacuity: a `getPubKey` whose only exchange ends in a read error is admitted, and answered -/
example :
    let w : World := { script := [.readErr] }
    let req : Json := .obj [("command", .str "getPubKey"), ("version", .int 5), ("keyId", .str "m/44'/0'/0'/0/0")]
    let hs : Dongle.Hashes := { keccak := id, cbHash := id }
    deviceOk true w.script (handleLine .v5 hs (.ok req) w).evs = true ∧
      (handleLine .v5 hs (.ok req) w).evs.length = 1 ∧
      deviceConforms w.script (handleLine .v5 hs (.ok req) w).evs = false := by
  decide

end Props.C11
end PowHsm
