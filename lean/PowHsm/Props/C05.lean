/-
  C05 — advance / ancestor update hand the device the client's blocks intact.
-/
import PowHsm.Spec.C05
import PowHsm.Proofs.Chunks
import PowHsm.Proofs.Blocks
import PowHsm.Proofs.RlpCodec
import PowHsm.Proofs.BlockSuccess
namespace PowHsm
namespace Props.C05
open Dongle M

/-- the order on brother keys is total and transitive, as `List.mergeSort` requires -/
theorem bytesLe_total (a b : Bytes) : bytesLe a b || bytesLe b a := by
  induction a generalizing b with
  | nil => simp [bytesLe]
  | cons x xs ih =>
    cases b with
    | nil => simp [bytesLe]
    | cons y ys =>
      simp only [bytesLe]
      have := ih ys
      by_cases h1 : x < y
      · simp [h1]
      · by_cases h2 : y < x
        · simp [h2]
        · have : x = y := by
            have a1 : ¬ x.toNat < y.toNat := by simpa [UInt8.lt_iff_toNat_lt] using h1
            have a2 : ¬ y.toNat < x.toNat := by simpa [UInt8.lt_iff_toNat_lt] using h2
            exact UInt8.toNat_inj.mp (by omega)
          subst this
          simpa [h1] using ih ys

theorem bytesLe_trans (a b c : Bytes) : bytesLe a b = true → bytesLe b c = true → bytesLe a c = true := by
  induction a generalizing b c with
  | nil => intro _ _; simp [bytesLe]
  | cons x xs ih =>
    cases b with
    | nil => simp [bytesLe]
    | cons y ys =>
      cases c with
      | nil => simp [bytesLe]
      | cons z zs =>
        simp only [bytesLe, Bool.or_eq_true, decide_eq_true_eq, Bool.and_eq_true, beq_iff_eq]
        intro h1 h2
        rcases h1 with h1 | ⟨rfl, h1⟩
        · rcases h2 with h2 | ⟨rfl, _⟩
          · left; exact UInt8.lt_trans h1 h2
          · left; exact h1
        · rcases h2 with h2 | ⟨rfl, h2⟩
          · left; exact h2
          · right; exact ⟨rfl, ih ys zs h1 h2⟩

/-- **Brothers are sent sorted ascending by block hash, and they are exactly the client's
    brothers**: the list handed to the block operation is a permutation of the client's list,
    pairwise ordered by key (and stable, as `mergeSort` is). -/
theorem brothers_sorted (l : List (Bytes × Bytes)) :
    let s := l.mergeSort fun a b => bytesLe a.1 b.1
    s.Perm l ∧ s.Pairwise (fun a b => bytesLe a.1 b.1 = true) := by
  refine ⟨List.mergeSort_perm _ _, ?_⟩
  have := List.pairwise_mergeSort (le := fun (a b : Bytes × Bytes) => bytesLe a.1 b.1)
    (fun a b c h1 h2 => bytesLe_trans a.1 b.1 c.1 h1 h2) (fun a b => bytesLe_total a.1 b.1) l
  exact this

/-- the metadata length field: `int.to_bytes(2, "big")` round-trips for every admissible size -/
theorem mm_size_roundtrip (n : Nat) (h : n < 2 ^ 16) : Bytes.beVal (Bytes.be 2 n) = n :=
  Bytes.beVal_be_of_lt (by simpa using h)

/-- the announced count is the number of blocks, for every list the manager accepts -/
theorem count_roundtrip (n : Nat) (h : n < 2 ^ 32) : Bytes.beVal (Bytes.be 4 n) = n :=
  Bytes.beVal_be_of_lt (by simpa using h)

/-- shape of the main block stream of an advance / update: for a prefix of the client's blocks,
    in the client's order, each block is announced by its metadata message (operation, 2-byte
    merge-mining payload size, coinbase hash for advance) and followed by chunk messages whose
    payloads are a prefix of that block's own bytes; whatever lies between two blocks (the
    brother exchanges) contains no message of the main stream -/
inductive BlocksTrace (h : Hashes) (c : BlockCfg) : List (Option Bytes) → List Ev → Prop
  | stop (bs : List (Option Bytes)) : BlocksTrace h c bs []
  | block (b : Option Bytes) (bs : List (Option Bytes)) (data raw : Bytes) (as : List Bytes) (B rest : List Ev) :
      headerMeta h c false b = some data → b = some raw →
      (∀ a ∈ as, a.take 3 = [CLA, c.cmd, c.opHeaderChunk]) → (∃ k, payloads as = raw.take k) →
      B.all (notMain c) = true → BlocksTrace h c bs rest →
      BlocksTrace h c (b :: bs) (.apdu (CLA :: c.cmd :: data) :: (as.map Ev.apdu ++ (B ++ rest)))

/-- **blocks reach the device in the client's order, byte-exact, none skipped or repeated** —
    for every device behaviour: the trace of the block loop has the shape `BlocksTrace` -/
theorem blocks_in_order (h : Hashes) (c : BlockCfg) (hc : Distinct c) :
    ∀ (blocks : List (Option Bytes)) (brothers : List (List (Option Bytes))) (w : World),
      BlocksTrace h c blocks (blockLoop h c blocks brothers w).evs := by
  intro blocks
  induction blocks with
  | nil => intro brothers w; exact .stop _
  | cons b bs ih =>
    intro brothers w
    unfold blockLoop
    rw [bind_apply]
    rcases sendBlockHeader_spec h c false b w with ⟨h0, hnone⟩ | ⟨data, raw, as, hm, hb, he, hh, hp⟩
    · -- nothing was sent for this block: the loop ends here
      have : (sendBlockHeader h c false b w) = ⟨.ok (.fail c.respComputeMeta), [], w⟩ := by
        unfold sendBlockHeader
        rcases hnone with hn | hn
        · rw [hn]; rfl
        · subst hn
          cases headerMeta h c false none <;> rfl
      rw [this]
      exact .stop _
    · have mk (B rest : List Ev) (hB : B.all (notMain c) = true) (hr : BlocksTrace h c bs rest) :
          BlocksTrace h c (b :: bs) (.apdu (CLA :: c.cmd :: data) :: (as.map Ev.apdu ++ (B ++ rest))) :=
        .block b bs data raw as B rest hm hb (by simpa [headerOpChunk] using hh) hp hB hr
      cases hs : sendBlockHeader h c false b w with
      | mk v e w1 =>
        rw [hs] at he; simp only at he; subst he
        cases v with
        | error ex => simpa using mk [] [] rfl (.stop _)
        | ok r =>
          cases r with
          | fail code => simpa using mk [] [] rfl (.stop _)
          | ok resp0 =>
            simp only
            rw [bind_apply]
            have hB := brothersPart_notMain h c hc brothers resp0 w1
            cases hbp : brothersPart h c brothers resp0 w1 with
            | mk v2 e2 w2 =>
              rw [hbp] at hB; simp only at hB
              cases v2 with
              | error ex => simpa using mk e2 [] hB (.stop _)
              | ok r2 =>
                cases r2 with
                | fail code => simpa using mk e2 [] hB (.stop _)
                | ok resp =>
                  simp only
                  rw [bind_apply]
                  unfold idx
                  cases resp[2]? with
                  | none => simpa [M.throw'] using mk e2 [] hB (.stop _)
                  | some rop =>
                    simp only [pure_apply]
                    split
                    · simpa using mk e2 [] hB (.stop _)
                    · split
                      · simpa using mk e2 [] hB (.stop _)
                      · simpa using mk e2 _ hB (ih (brothers.drop 1) w2)

/-- **the whole block operation**: the announced block count is the client's, and the blocks
    follow as `BlocksTrace` says — for every device behaviour -/
theorem block_operation_trace (h : Hashes) (c : BlockCfg) (hc : Distinct c)
    (blocks : List (Option Bytes)) (brothers : List (List (Option Bytes))) (w : World) :
    (doBlockOperation h c blocks brothers w).evs = [] ∨
    ∃ rest, (doBlockOperation h c blocks brothers w).evs =
        .apdu (CLA :: c.cmd :: c.opInit :: Bytes.be 4 blocks.length) :: rest ∧ BlocksTrace h c blocks rest := by
  unfold doBlockOperation
  split
  · left; rfl
  · right
    simp only
    rw [bind_apply]
    have hinit : ∀ w, (catchResult
        (do let resp ← sendCommand c.cmd (c.opInit :: Bytes.be 4 blocks.length)
            let rop ← idx resp 2
            if rop != c.opHeaderMeta then pure (some c.respUnexpected) else pure none)
        (fun sw => pure (some (Tbl.applyRule c.initRule sw))) w).evs =
        [.apdu (CLA :: c.cmd :: c.opInit :: Bytes.be 4 blocks.length)] := by
      intro w
      unfold catchResult
      rw [tryCatchIf_evs_silent, bind_evs_silent, sendCommand_evs]
      · intro resp
        refine Emits.bind (idx_emits _ _) fun rop => ?_
        split <;> exact Emits.pure _
      · intro e
        split
        · exact Emits.pure _
        · exact Emits.throw _
    have h1 := hinit w
    generalize catchResult _ _ w = r at h1
    obtain ⟨v, e, w1⟩ := r
    simp only at h1; subst h1
    cases v with
    | error ex => exact ⟨[], by simp, .stop _⟩
    | ok o =>
      cases o with
      | some code => exact ⟨[], by simp, .stop _⟩
      | none => exact ⟨_, by simp, blocks_in_order h c hc blocks brothers w1⟩

/-- shape of the brothers of one block on the wire: for a prefix of the (sorted) list, in order,
    each brother's metadata message followed by chunk messages carrying a prefix of its bytes -/
inductive BrosTrace (h : Hashes) (c : BlockCfg) : List (Option Bytes) → List Ev → Prop
  | stop (bs : List (Option Bytes)) : BrosTrace h c bs []
  | bro (b : Option Bytes) (bs : List (Option Bytes)) (data raw : Bytes) (as : List Bytes) (rest : List Ev) :
      headerMeta h c true b = some data → b = some raw →
      (∀ a ∈ as, a.take 3 = [CLA, c.cmd, c.opBroChunk]) → (∃ k, payloads as = raw.take k) →
      BrosTrace h c bs rest →
      BrosTrace h c (b :: bs) (.apdu (CLA :: c.cmd :: data) :: (as.map Ev.apdu ++ rest))

/-- **brothers reach the device in the order of the list handed over (sorted by `brothers_sorted`),
    byte-exact, none skipped or repeated**, for every device behaviour -/
theorem brothers_in_order (h : Hashes) (c : BlockCfg) :
    ∀ (bs : List (Option Bytes)) (last : Bytes) (w : World), BrosTrace h c bs (sendBrothers h c bs last w).evs := by
  intro bs
  induction bs with
  | nil => intro last w; exact .stop _
  | cons b bs ih =>
    intro last w
    unfold sendBrothers
    rw [bind_apply]
    rcases sendBlockHeader_spec h c true b w with ⟨h0, hnone⟩ | ⟨data, raw, as, hm, hb, he, hh, hp⟩
    · have : (sendBlockHeader h c true b w) = ⟨.ok (.fail c.respComputeMeta), [], w⟩ := by
        unfold sendBlockHeader
        rcases hnone with hn | hn
        · rw [hn]; rfl
        · subst hn
          cases headerMeta h c true none <;> rfl
      rw [this]
      exact .stop _
    · have mk (rest : List Ev) (hr : BrosTrace h c bs rest) :
          BrosTrace h c (b :: bs) (.apdu (CLA :: c.cmd :: data) :: (as.map Ev.apdu ++ rest)) :=
        .bro b bs data raw as rest hm hb (by simpa [headerOpChunk] using hh) hp hr
      cases hs : sendBlockHeader h c true b w with
      | mk v e w1 =>
        rw [hs] at he; simp only at he; subst he
        cases v with
        | error ex => simpa using mk [] (.stop _)
        | ok r =>
          cases r with
          | fail code => simpa using mk [] (.stop _)
          | ok resp => simpa using mk _ (ih resp w1)

/-- non-vacuity: both protocol flavours keep the brother operations apart from the main stream -/
example : Distinct advCfg ∧ Distinct updCfg := ⟨advCfg_distinct, updCfg_distinct⟩

/-! ### the RLP codec, the announced size and the ancestor-update form -/

/-- **`rlp.decode(rlp.encode(x)) == x`** for the model of pyrlp's strict decoder and raw encoder:
    every item (any nesting, any field sizes across the short / long forms) whose encoding is
    shorter than 2^64 bytes decodes back to itself — by induction on the decoder's fuel -/
theorem rlp_roundtrip (x : Rlp) (h : (Rlp.enc x).length < 2 ^ 64) : Rlp.decode (Rlp.enc x) = some x :=
  Rlp.decode_enc x h

/-- **the metadata matches the block**: the merge-mining payload size announced for a header is
    the length of the RLP payload of its field list without the merge-mining fields — on both
    sides of every RLP length-form boundary (55/56, 255/256, 65535/65536, …) -/
theorem announced_size_is_payload_length (xs : List Rlp) (h : (Rlp.encList xs).length < 2 ^ 64) :
    Block.listPayloadLength (Rlp.enc (.list xs)) = some (Rlp.encList xs).length :=
  Block.listPayloadLength_enc xs h

/-- **for ancestor updates the merge-mining fields are removed without changing the block's
    hash**: the form sent to the device (`remove_mm_fields_if_present` leaving the BTC header) is a
    fixed point of that removal, so the block hash — Keccak-256 of that form, for any `keccak` — of
    what is sent equals the block hash of what the client gave -/
theorem mm_removal_keeps_hash (keccak : Bytes → Bytes) (raw e : Bytes)
    (h : Block.removeMM raw true = some e) (hlen : e.length < 2 ^ 64) :
    Block.blockHash keccak e = Block.blockHash keccak raw := by
  unfold Block.blockHash
  rw [h, Block.removeMM_idempotent raw e h hlen]

/-- non-vacuity: a 17-field header of one-byte fields -/
example :
    let x : Rlp := .list (List.replicate 17 (.str [7]))
    (Rlp.enc x).length < 2 ^ 64 ∧ Block.removeMM (Rlp.enc x) true = some (Rlp.enc x) := by
  decide +kernel

/-- **the reply is 0 / 1 only when the device reported total / partial success**, for every request and
    every device behaviour: a block operation reports success only with the OK_TOTAL code — which the
    block loop takes exactly when the device's answer after a block names the success operation — or, for
    advance, the OK_PARTIAL code (the answer names the partial-success operation); and the reply codes 0 and
    1 are the translations of OK_TOTAL and OK_PARTIAL and of no other result (`Proofs/BlockSuccess.lean`) -/
theorem success_only_with_ok_codes (h : Hashes) (blocks : List (Option Bytes))
    (brothers : List (List (Option Bytes))) (w : World) (code : Int) :
    ((advanceBlockchain h blocks brothers w).val = .ok (true, code) →
      code = Generated.AdvanceResponse_OK_TOTAL ∨ code = Generated.AdvanceResponse_OK_PARTIAL) ∧
    ((updateAncestor h blocks w).val = .ok (true, code) → code = Generated.UpdateAncestorResponse_OK_TOTAL) :=
  ⟨advanceBlockchain_success h blocks brothers w code, updateAncestor_success h blocks w code⟩

theorem reply_zero_one_iff (code : Int) :
    (Tbl.dictGet Generated.translateAdvance code Generated.translateAdvanceDefault = 0 ↔
      code = Generated.AdvanceResponse_OK_TOTAL) ∧
    (Tbl.dictGet Generated.translateAdvance code Generated.translateAdvanceDefault = 1 ↔
      code = Generated.AdvanceResponse_OK_PARTIAL) ∧
    (Tbl.dictGet Generated.translateUpdate code Generated.translateUpdateDefault = 0 ↔
      code = Generated.UpdateAncestorResponse_OK_TOTAL) ∧
    Tbl.dictGet Generated.translateUpdate code Generated.translateUpdateDefault ≠ 1 :=
  ⟨(advance_zero_one code).1, (advance_zero_one code).2, (update_zero_one code).1, (update_zero_one code).2⟩

end Props.C05
end PowHsm
