/-
  C05 — advance / ancestor update hand the device the client's blocks intact.
-/
import PowHsm.Spec.C05
import PowHsm.Proofs.Chunks
namespace PowHsm
namespace Props.C05
open Dongle

/-- the order on brother keys is total and transitive, as `List.mergeSort` requires -/
theorem bytesLe_total (a b : Bytes) : bytesLe a b || bytesLe b a := by
  induction a generalizing b with
  | nil => simp [bytesLe]
  | cons x xs ih =>
    cases b with
    | nil => simp [bytesLe]
    | cons y ys =>
      simp only [bytesLe]
      have := ih ys
      by_cases h1 : x < y
      · simp [h1]
      · by_cases h2 : y < x
        · simp [h2]
        · have : x = y := by
            have a1 : ¬ x.toNat < y.toNat := by simpa [UInt8.lt_iff_toNat_lt] using h1
            have a2 : ¬ y.toNat < x.toNat := by simpa [UInt8.lt_iff_toNat_lt] using h2
            exact UInt8.toNat_inj.mp (by omega)
          subst this
          simpa [h1] using ih ys

theorem bytesLe_trans (a b c : Bytes) : bytesLe a b = true → bytesLe b c = true → bytesLe a c = true := by
  induction a generalizing b c with
  | nil => intro _ _; simp [bytesLe]
  | cons x xs ih =>
    cases b with
    | nil => simp [bytesLe]
    | cons y ys =>
      cases c with
      | nil => simp [bytesLe]
      | cons z zs =>
        simp only [bytesLe, Bool.or_eq_true, decide_eq_true_eq, Bool.and_eq_true, beq_iff_eq]
        intro h1 h2
        rcases h1 with h1 | ⟨rfl, h1⟩
        · rcases h2 with h2 | ⟨rfl, _⟩
          · left; exact UInt8.lt_trans h1 h2
          · left; exact h1
        · rcases h2 with h2 | ⟨rfl, h2⟩
          · left; exact h2
          · right; exact ⟨rfl, ih ys zs h1 h2⟩

/-- **Brothers are sent sorted ascending by block hash, and they are exactly the client's
    brothers**: the list handed to the block operation is a permutation of the client's list,
    pairwise ordered by key (and stable, as `mergeSort` is). -/
theorem brothers_sorted (l : List (Bytes × Bytes)) :
    let s := l.mergeSort fun a b => bytesLe a.1 b.1
    s.Perm l ∧ s.Pairwise (fun a b => bytesLe a.1 b.1 = true) := by
  refine ⟨List.mergeSort_perm _ _, ?_⟩
  have := List.pairwise_mergeSort (le := fun (a b : Bytes × Bytes) => bytesLe a.1 b.1)
    (fun a b c h1 h2 => bytesLe_trans a.1 b.1 c.1 h1 h2) (fun a b => bytesLe_total a.1 b.1) l
  exact this

/-- the metadata length field: `int.to_bytes(2, "big")` round-trips for every admissible size -/
theorem mm_size_roundtrip (n : Nat) (h : n < 2 ^ 16) : Bytes.beVal (Bytes.be 2 n) = n :=
  Bytes.beVal_be_of_lt (by simpa using h)

/-- the announced count is the number of blocks, for every list the manager accepts -/
theorem count_roundtrip (n : Nat) (h : n < 2 ^ 32) : Bytes.beVal (Bytes.be 4 n) = n :=
  Bytes.beVal_be_of_lt (by simpa using h)

end Props.C05
end PowHsm
