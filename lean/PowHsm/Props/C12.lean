/-
  C12 — concurrent clients never interleave on the device.

  What is proved: for the server class the source instantiates (`socketserver.TCPServer`,
  extracted by the translator and checked below), *every* schedule of the scheduler model
  leaves the device log in contiguous per-request blocks, and replies go out in accept order —
  the manager adds no concurrency of its own.  What is assumed (not proved): that CPython's
  `socketserver.TCPServer.serve_forever` and the kernel behave as the model's `sequential`
  kind says.  For the other kind the counter-schedule is proved, so switching the server
  class breaks `server_is_sequential` for the right reason.
-/
import PowHsm.Conc.Server
namespace PowHsm
namespace Props.C12
open Conc Generated

/-- the class instantiated by `TCPServer.run` handles requests one at a time, and its handler
    class processes the request inline — `protocol.handle_request` is called directly on the
    server's thread — starting nothing concurrent on the way (calls followed through every class
    of comm/server.py); the handling object is built anew for every connection and nothing on that
    path stores into an attribute of a longer-lived object (no state outlives a request) -/
theorem server_is_sequential : kindOfString serverKind = .sequential ∧ serverClass = "socketserver.TCPServer" ∧
    handlerInline = true ∧ handlerSpawns = [] ∧ deliveryDirect = true ∧
    handlerPerConnection = true ∧ handlerStateWrites = [] := by
  decide

/-- the log seen as (closed blocks, block in progress) -/
def logState : List Nat → Option Nat → List Nat → List Nat × Option Nat
  | closed, cur, [] => (closed, cur)
  | closed, cur, x :: xs =>
    if cur == some x then logState closed cur xs
    else logState (pushCur cur closed) (some x) xs

/-- appending one more exchange of the client whose block is in progress (or of a client never
    seen before) keeps the blocks contiguous -/
theorem blocksAux_append (log : List Nat) :
    ∀ (closed : List Nat) (cur : Option Nat) (c : Nat),
      blocksAux closed cur log = true →
      ((logState closed cur log).2 = some c ∨
        (¬ c ∈ (logState closed cur log).1 ∧ (logState closed cur log).2 ≠ some c)) →
      blocksAux closed cur (log ++ [c]) = true := by
  induction log with
  | nil =>
    intro closed cur c _ h
    simp only [logState] at h
    simp only [List.nil_append, blocksAux]
    rcases h with h | ⟨h1, h2⟩
    · simp [h]
    · have : (cur == some c) = false := by simpa using h2
      simp [this, h1]
  | cons x xs ih =>
    intro closed cur c hb h
    simp only [List.cons_append, blocksAux] at hb ⊢
    simp only [logState] at h
    by_cases hc : (cur == some x) = true
    · simp only [hc, if_true] at hb h ⊢
      exact ih closed cur c hb h
    · simp only [hc, Bool.false_eq_true, if_false] at hb h ⊢
      by_cases hcl : closed.contains x = true
      · rw [if_pos hcl] at hb; exact absurd hb (by simp)
      · rw [if_neg hcl] at hb ⊢
        exact ih _ _ c hb h

/-- invariant of the sequential server: at most one handler runs; the log is in blocks; the
    running handler's client is the block in progress or has not talked yet; queued clients have
    not talked; client ids are distinct -/
structure Inv (s : S) : Prop where
  one : s.active.length ≤ 1
  blocks : blocksAux [] none s.log = true
  activeOk : ∀ h ∈ s.active, (logState [] none s.log).2 = some h.client ∨
      (¬ h.client ∈ (logState [] none s.log).1 ∧ (logState [] none s.log).2 ≠ some h.client)
  queuedFresh : ∀ q ∈ s.backlog, ¬ q.1 ∈ (logState [] none s.log).1 ∧ (logState [] none s.log).2 ≠ some q.1
  distinct : (s.backlog.map (·.1) ++ s.active.map (·.client)).Nodup

theorem logState_append (log : List Nat) :
    ∀ (closed : List Nat) (cur : Option Nat) (c : Nat),
      logState closed cur (log ++ [c]) =
        (if (logState closed cur log).2 == some c then logState closed cur log
         else (pushCur (logState closed cur log).2 (logState closed cur log).1, some c)) := by
  induction log with
  | nil => intro closed cur c; simp [logState]
  | cons x xs ih =>
    intro closed cur c
    simp only [List.cons_append, logState]
    split
    · exact ih _ _ c
    · exact ih _ _ c

theorem next_inv (s : S) (ch : Choice) (h : Inv s) : Inv (next .sequential s ch) := by
  cases ch with
  | accept =>
    unfold next
    cases hb : s.backlog with
    | nil => simpa [hb] using h
    | cons q rest =>
      obtain ⟨c, n⟩ := q
      simp only
      by_cases hbusy : s.active.isEmpty = true
      · have hnil : s.active = [] := by simpa using hbusy
        simp only [hbusy, Bool.not_true, Bool.and_false, Bool.false_eq_true, if_false]
        refine ⟨by simp [hnil], h.blocks, ?_, ?_, ?_⟩
        · intro x hx
          simp [hnil] at hx
          subst hx
          have := h.queuedFresh (c, n) (by simp [hb])
          exact Or.inr this
        · intro q hq
          exact h.queuedFresh q (by simp [hb, hq])
        · have := h.distinct
          simp only [hb, hnil, List.map_cons, List.map_nil, List.append_nil, List.nil_append] at this ⊢
          rw [List.nodup_cons] at this
          rw [List.nodup_append]
          refine ⟨this.2, by simp, ?_⟩
          intro a ha b hb'
          simp at hb'; subst hb'
          intro hab; subst hab
          exact this.1 ha
      · simp only [hbusy, Bool.not_false, Bool.and_true]
        simp only [beq_self_eq_true, if_true]
        simpa [hb] using h
  | step i =>
    show Inv (stepHandler s i)
    cases hi : s.active[i]? with
    | none =>
      have : stepHandler s i = s := by simp [stepHandler, hi]
      rw [this]; exact h
    | some hd =>
      have hmem : hd ∈ s.active := List.mem_of_getElem? hi
      have hone := h.one
      have hact : s.active = [hd] := by
        match hs : s.active, hone, hmem with
        | [a], _, hm => simp at hm; subst hm; rfl
        | [], _, hm => simp at hm
        | _ :: _ :: _, ho, _ => simp at ho
      have hi0 : i = 0 := by
        rw [hact] at hi
        cases i with
        | zero => rfl
        | succ j => simp at hi
      subst hi0
      cases hr : hd.remaining with
      | zero =>
        have hs : stepHandler s 0 = { s with active := [], replied := s.replied ++ [hd.client] } := by
          simp [stepHandler, hr, hact]
        rw [hs]
        refine ⟨by simp, h.blocks, ?_, h.queuedFresh, ?_⟩
        · intro x hx; simp at hx
        · have := h.distinct
          simp only [hact, List.map_cons, List.map_nil] at this
          simp only [List.map_nil, List.append_nil]
          exact (List.nodup_append.mp this).1
      | succ n =>
        have hs : stepHandler s 0 =
            { s with active := [{ hd with remaining := n }], log := s.log ++ [hd.client] } := by
          simp [stepHandler, hr, hact]
        rw [hs]
        have hok := h.activeOk hd hmem
        have hb := blocksAux_append s.log [] none hd.client h.blocks hok
        have hls := logState_append s.log [] none hd.client
        refine ⟨by simp, hb, ?_, ?_, ?_⟩
        · intro x hx
          simp at hx
          subst hx
          left
          show (logState [] none (s.log ++ [hd.client])).2 = some hd.client
          rw [hls]
          split <;> simp_all
        · intro q hq
          have hq' := h.queuedFresh q hq
          have hne : q.1 ≠ hd.client := by
            have := h.distinct
            rw [hact] at this
            simp only [List.map_cons, List.map_nil] at this
            rw [List.nodup_append] at this
            intro heq
            exact this.2.2 q.1 (List.mem_map_of_mem hq) hd.client (by simp) heq
          show ¬ q.1 ∈ (logState [] none (s.log ++ [hd.client])).1 ∧ (logState [] none (s.log ++ [hd.client])).2 ≠ some q.1
          rw [hls]
          split
          · exact hq'
          · refine ⟨?_, by simpa using hne.symm⟩
            cases hcur : (logState [] none s.log).2 with
            | none => simpa [pushCur, hcur] using hq'.1
            | some d =>
              simp only [pushCur, List.mem_cons, not_or]
              refine ⟨?_, hq'.1⟩
              intro hqd
              exact hq'.2 (by rw [hcur, hqd])
        · have := h.distinct
          simpa [hact] using this

/-- **for any number of clients and any scheduling**, with the server the source instantiates,
    the device exchanges of each request form one contiguous block -/
theorem never_interleaved (clients : List (Nat × Nat)) (hd : (clients.map (·.1)).Nodup)
    (schedule : List Choice) :
    blocks (run .sequential { backlog := clients } schedule).log = true := by
  have hinit : Inv ({ backlog := clients } : S) :=
    ⟨by simp, by simp [blocksAux], by simp, by intro q _; simp [logState], by simpa using hd⟩
  have : ∀ (sch : List Choice) (s : S), Inv s → Inv (run .sequential s sch) := by
    intro sch
    induction sch with
    | nil => intro s h; exact h
    | cons c cs ih => intro s h; exact ih _ (next_inv s c h)
  exact (this schedule _ hinit).blocks

/-- with a handler per connection the property fails: two clients with two exchanges each can
    interleave `1 2 1 2` -/
theorem concurrent_counter_schedule :
    blocks (run .concurrent { backlog := [(1, 2), (2, 2)] }
      [.accept, .accept, .step 0, .step 1, .step 0, .step 1]).log = false := by decide

/-- non-vacuity: a complete sequential run of three clients -/
example : (run .sequential { backlog := [(7, 2), (8, 1), (9, 3)] }
    [.accept, .accept, .step 0, .step 0, .step 0, .accept, .step 0, .step 0, .accept, .step 0, .step 0,
     .step 0, .step 0]).log = [7, 7, 8, 9, 9, 9] := by decide

end Props.C12
end PowHsm
