/-
  C14 — clearing of signature placeholders is canonical and loses nothing else.
  Property theorems only; helper lemmas live in `Proofs/Script.lean`.
-/
import PowHsm.Spec.C14
import PowHsm.Proofs.Script
namespace PowHsm
namespace Props.C14
open Btc

/-- Everything except the input scripts is carried over as a value: version, outputs,
    lock time, witness. -/
theorem fields_preserved (t t' : Tx) (h : unsignTx t = some t') :
    t'.version = t.version ∧ t'.vout = t.vout ∧ t'.lock = t.lock ∧ t'.wit = t.wit := by
  unfold unsignTx at h
  cases hm : t.vin.mapM clearIn with
  | none => simp [hm] at h
  | some vin => simp [hm] at h; subst h; simp

/-- position-wise relation between two lists of the same length -/
def AllPairs {α β : Type} (R : α → β → Prop) : List α → List β → Prop
  | [], [] => True
  | a :: as, b :: bs => R a b ∧ AllPairs R as bs
  | _, _ => False

theorem AllPairs.imp {α β : Type} {R S : α → β → Prop} (hRS : ∀ a b, R a b → S a b) :
    ∀ {xs : List α} {ys : List β}, AllPairs R xs ys → AllPairs S xs ys
  | [], [], _ => trivial
  | _ :: _, _ :: _, h => ⟨hRS _ _ h.1, AllPairs.imp hRS h.2⟩
  | [], _ :: _, h => h.elim
  | _ :: _, [], h => h.elim

theorem AllPairs.length_eq {α β : Type} {R : α → β → Prop} :
    ∀ {xs : List α} {ys : List β}, AllPairs R xs ys → xs.length = ys.length
  | [], [], _ => rfl
  | _ :: _, _ :: _, h => by simp [AllPairs.length_eq h.2]
  | [], _ :: _, h => h.elim
  | _ :: _, [], h => h.elim

theorem AllPairs.right_mem {α β : Type} {R : α → β → Prop} :
    ∀ {xs : List α} {ys : List β}, AllPairs R xs ys → ∀ y ∈ ys, ∃ x ∈ xs, R x y
  | [], [], _, y, hy => by simp at hy
  | a :: as, b :: bs, h, y, hy => by
    rcases List.mem_cons.mp hy with rfl | hm
    · exact ⟨a, List.mem_cons_self, h.1⟩
    · obtain ⟨x, hx, hr⟩ := AllPairs.right_mem h.2 y hm
      exact ⟨x, List.mem_cons_of_mem _ hx, hr⟩
  | [], _ :: _, h, _, _ => h.elim
  | _ :: _, [], h, _, _ => h.elim

theorem mapM_forall2 {α β : Type} {f : α → Option β} : ∀ {xs : List α} {ys : List β},
    xs.mapM f = some ys → AllPairs (fun x y => f x = some y) xs ys := by
  intro xs
  induction xs with
  | nil => intro ys h; simp at h; subst h; exact trivial
  | cons x xs ih =>
    intro ys h
    rw [List.mapM_cons] at h
    cases hx : f x with
    | none => simp [hx] at h
    | some y =>
      cases hxs : xs.mapM f with
      | none => simp [hx, hxs] at h
      | some ys' =>
        simp [hx, hxs] at h
        subst h
        exact ⟨hx, ih hxs⟩

/-- **per input**, in order: outpoint and sequence number byte for byte, and the script is the
    cleared form of the original one; the number of inputs does not change -/
theorem inputs_preserved (t t' : Tx) (h : unsignTx t = some t') :
    AllPairs (fun i i' => i'.prevHash = i.prevHash ∧ i'.prevN = i.prevN ∧ i'.seq = i.seq ∧
      clearScript i.script = some i'.script) t.vin t'.vin := by
  unfold unsignTx at h
  cases hm : t.vin.mapM clearIn with
  | none => simp [hm] at h
  | some vin =>
    simp [hm] at h; subst h
    refine AllPairs.imp ?_ (mapM_forall2 hm)
    intro i i' hi
    unfold clearIn at hi
    cases hc : clearScript i.script with
    | none => simp [hc] at hi
    | some s => simp [hc] at hi; subst hi; simp

/-- **shape of the relayed script**: `n - 1` empty pushes followed by the original last
    operation, re-encoded canonically; and it decodes to exactly those `n` operations -/
theorem script_shape (s s' : Bytes) (h : clearScript s = some s') :
    ∃ ops l, elems s = some ops ∧ ops.getLast? = some l ∧
      s' = List.replicate (ops.length - 1) (0 : UInt8) ++ l.encode ∧
      elems s' = some (List.replicate (ops.length - 1) Elem.zero ++ [canon l]) := by
  unfold clearScript at h
  cases he : elems s with
  | none => simp [he] at h
  | some ops =>
    cases hl : ops.getLast? with
    | none => simp [he, hl] at h
    | some l =>
      simp [he, hl] at h
      refine ⟨ops, l, rfl, hl, h.symm, ?_⟩
      rw [← h, elems_zeros, elems_encode l (elems_wf s ops he l (List.mem_of_getLast? hl))]
      rfl

theorem canon_encode (l : Elem) : (canon l).encode = l.encode := by
  cases l with
  | zero => rfl
  | op c => rfl
  | push d => cases d <;> rfl

/-- **applying the transformation again changes nothing** -/
theorem clear_idempotent (s s' : Bytes) (h : clearScript s = some s') : clearScript s' = some s' := by
  obtain ⟨ops, l, _, hl, hs', he'⟩ := script_shape s s' h
  have hne : ops ≠ [] := by intro h0; subst h0; simp at hl
  have hlen : ops.length - 1 + 1 = ops.length := by
    have := List.length_pos_iff.mpr hne; omega
  unfold clearScript
  rw [he']
  simp only [List.getLast?_append, List.getLast?_singleton, Option.some_or, List.length_append,
    List.length_replicate, List.length_singleton, Nat.add_sub_cancel, canon_encode]
  rw [hs']

/-- **the result does not depend on which signatures were already present**: two scripts with
    the same number of operations and the same last operation are cleared to the same bytes -/
theorem signature_independent (s₁ s₂ : Bytes) (ops₁ ops₂ : List Elem)
    (h1 : elems s₁ = some ops₁) (h2 : elems s₂ = some ops₂)
    (hlen : ops₁.length = ops₂.length) (hlast : ops₁.getLast? = ops₂.getLast?) :
    clearScript s₁ = clearScript s₂ := by
  unfold clearScript
  rw [h1, h2]
  simp only [hlen, hlast]

/-- a script is refused exactly when it cannot be decoded or is empty -/
theorem clear_refuses_iff (s : Bytes) :
    clearScript s = none ↔ elems s = none ∨ elems s = some [] := by
  unfold clearScript
  cases he : elems s with
  | none => simp
  | some ops =>
    cases ops with
    | nil => simp
    | cons o os =>
      have : (o :: os).getLast? = some ((o :: os).getLast (by simp)) := List.getLast?_eq_some_getLast _
      simp [this]

theorem mapM_none_iff {α β : Type} {f : α → Option β} : ∀ {xs : List α},
    xs.mapM f = none ↔ ∃ x ∈ xs, f x = none := by
  intro xs
  induction xs with
  | nil => simp
  | cons x xs ih =>
    rw [List.mapM_cons]
    cases hx : f x with
    | none => simp [hx]
    | some y =>
      cases hxs : xs.mapM f with
      | none =>
        have := ih.mp hxs
        obtain ⟨z, hz, hfz⟩ := this
        simp only [Option.bind_eq_bind, Option.bind_some, Option.bind_none, List.mem_cons, true_iff]
        exact ⟨z, Or.inr hz, hfz⟩
      | some ys =>
        simp only [Option.bind_eq_bind, Option.bind_some, Option.pure_def, List.mem_cons]
        constructor
        · intro h; cases h
        · rintro ⟨z, hz | hz, hfz⟩
          · subst hz; rw [hx] at hfz; cases hfz
          · have := ih.mpr ⟨z, hz, hfz⟩
            rw [hxs] at this; cases this

/-- **a transaction is refused exactly when some input script cannot be decoded or is empty** -/
theorem unsign_refuses_iff (t : Tx) :
    unsignTx t = none ↔ ∃ i ∈ t.vin, elems i.script = none ∨ elems i.script = some [] := by
  unfold unsignTx
  rw [Option.map_eq_none_iff, mapM_none_iff]
  constructor
  · rintro ⟨i, hi, h⟩
    refine ⟨i, hi, (clear_refuses_iff _).mp ?_⟩
    unfold clearIn at h
    simpa using h
  · rintro ⟨i, hi, h⟩
    refine ⟨i, hi, ?_⟩
    unfold clearIn
    rw [(clear_refuses_iff _).mpr h]
    rfl

theorem mapM_self {α : Type} {f : α → Option α} : ∀ {xs : List α},
    (∀ x ∈ xs, f x = some x) → xs.mapM f = some xs := by
  intro xs
  induction xs with
  | nil => intro _; simp
  | cons x xs ih =>
    intro h
    rw [List.mapM_cons, h x List.mem_cons_self, ih fun y hy => h y (List.mem_cons_of_mem _ hy)]
    rfl

/-- **idempotence at transaction level**: the relayed form is a fixed point -/
theorem unsign_idempotent (t t' : Tx) (h : unsignTx t = some t') : unsignTx t' = some t' := by
  have hin := inputs_preserved t t' h
  unfold unsignTx
  have : t'.vin.mapM clearIn = some t'.vin := by
    apply mapM_self
    intro i' hi'
    obtain ⟨i, _, hi⟩ := AllPairs.right_mem hin i' hi'
    unfold clearIn
    rw [clear_idempotent _ _ hi.2.2.2]
    rfl
  rw [this]
  rfl

/-- non-vacuity: a 2-of-3 multisig script-sig (OP_0, two signatures, PUSHDATA1 redeem script)
    and the same with the signatures missing are cleared to the same bytes, a fixed point -/
example :
    let redeem : Bytes := List.replicate 80 0xAB
    let signed : Bytes := [0] ++ pushData (List.replicate 71 1) ++ pushData (List.replicate 72 2) ++ pushData redeem
    let blank : Bytes := [0, 0, 0] ++ pushData redeem
    clearScript signed = some blank ∧ clearScript blank = some blank := by
  decide +kernel

end Props.C14
end PowHsm
