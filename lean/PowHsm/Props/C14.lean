/-
  C14 — clearing of signature placeholders is canonical and loses nothing else.
  Property theorems only; helper lemmas live in `Proofs/`.
-/
import PowHsm.Spec.C14
namespace PowHsm
namespace Props.C14
open Btc

/-- Everything except the input scripts is carried over as a value: version, outputs,
    lock time, witness; and per input the outpoint and the sequence number. -/
theorem fields_preserved (t t' : Tx) (h : unsignTx t = some t') :
    t'.version = t.version ∧ t'.vout = t.vout ∧ t'.lock = t.lock ∧ t'.wit = t.wit := by
  unfold unsignTx at h
  cases hm : t.vin.mapM clearIn with
  | none => simp [hm] at h
  | some vin => simp [hm] at h; subst h; simp

end Props.C14
end PowHsm
