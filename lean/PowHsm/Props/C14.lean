/-
  C14 — clearing of signature placeholders is canonical and loses nothing else.
  Property theorems only; helper lemmas live in `Proofs/Script.lean`.
-/
import PowHsm.Spec.C14
import PowHsm.Proofs.Script
import PowHsm.Proofs.TxCodec
import PowHsm.Ledger.Protocol
namespace PowHsm
namespace Props.C14
open Btc

/-- Everything except the input scripts is carried over as a value: version, outputs,
    lock time, witness. -/
theorem fields_preserved (t t' : Tx) (h : unsignTx t = some t') :
    t'.version = t.version ∧ t'.vout = t.vout ∧ t'.lock = t.lock ∧ t'.wit = t.wit := by
  unfold unsignTx at h
  cases hm : t.vin.mapM clearIn with
  | none => simp [hm] at h
  | some vin => simp [hm] at h; subst h; simp

/-- **per input**, in order: outpoint and sequence number byte for byte, and the script is the
    cleared form of the original one; the number of inputs does not change -/
theorem inputs_preserved (t t' : Tx) (h : unsignTx t = some t') :
    AllPairs (fun i i' => i'.prevHash = i.prevHash ∧ i'.prevN = i.prevN ∧ i'.seq = i.seq ∧
      clearScript i.script = some i'.script) t.vin t'.vin := by
  unfold unsignTx at h
  cases hm : t.vin.mapM clearIn with
  | none => simp [hm] at h
  | some vin =>
    simp [hm] at h; subst h
    refine AllPairs.imp ?_ (mapM_forall2 hm)
    intro i i' hi
    unfold clearIn at hi
    cases hc : clearScript i.script with
    | none => simp [hc] at hi
    | some s => simp [hc] at hi; subst hi; simp

/-- **shape of the relayed script**: `n - 1` empty pushes followed by the original last
    operation, re-encoded canonically; and it decodes to exactly those `n` operations -/
theorem script_shape (s s' : Bytes) (h : clearScript s = some s') :
    ∃ ops l, elems s = some ops ∧ ops.getLast? = some l ∧
      s' = List.replicate (ops.length - 1) (0 : UInt8) ++ l.encode ∧
      elems s' = some (List.replicate (ops.length - 1) Elem.zero ++ [canon l]) := by
  unfold clearScript at h
  cases he : elems s with
  | none => simp [he] at h
  | some ops =>
    cases hl : ops.getLast? with
    | none => simp [he, hl] at h
    | some l =>
      simp [he, hl] at h
      refine ⟨ops, l, rfl, hl, h.symm, ?_⟩
      rw [← h, elems_zeros, elems_encode l (elems_wf s ops he l (List.mem_of_getLast? hl))]
      rfl

/-- **applying the transformation again changes nothing** -/
theorem clear_idempotent (s s' : Bytes) (h : clearScript s = some s') : clearScript s' = some s' := by
  obtain ⟨ops, l, _, hl, hs', he'⟩ := script_shape s s' h
  have hne : ops ≠ [] := by intro h0; subst h0; simp at hl
  have hlen : ops.length - 1 + 1 = ops.length := by
    have := List.length_pos_iff.mpr hne; omega
  unfold clearScript
  rw [he']
  simp only [List.getLast?_append, List.getLast?_singleton, Option.some_or, List.length_append,
    List.length_replicate, List.length_singleton, Nat.add_sub_cancel, canon_encode]
  rw [hs']

/-- **the result does not depend on which signatures were already present**: two scripts with
    the same number of operations and the same last operation are cleared to the same bytes -/
theorem signature_independent (s₁ s₂ : Bytes) (ops₁ ops₂ : List Elem)
    (h1 : elems s₁ = some ops₁) (h2 : elems s₂ = some ops₂)
    (hlen : ops₁.length = ops₂.length) (hlast : ops₁.getLast? = ops₂.getLast?) :
    clearScript s₁ = clearScript s₂ := by
  unfold clearScript
  rw [h1, h2]
  simp only [hlen, hlast]

/-- a script is refused exactly when it cannot be decoded or is empty -/
theorem clear_refuses_iff (s : Bytes) :
    clearScript s = none ↔ elems s = none ∨ elems s = some [] := by
  unfold clearScript
  cases he : elems s with
  | none => simp
  | some ops =>
    cases ops with
    | nil => simp
    | cons o os =>
      have : (o :: os).getLast? = some ((o :: os).getLast (by simp)) := List.getLast?_eq_some_getLast _
      simp [this]

/-- **a transaction is refused exactly when some input script cannot be decoded or is empty** -/
theorem unsign_refuses_iff (t : Tx) :
    unsignTx t = none ↔ ∃ i ∈ t.vin, elems i.script = none ∨ elems i.script = some [] := by
  unfold unsignTx
  rw [Option.map_eq_none_iff, mapM_none_iff]
  constructor
  · rintro ⟨i, hi, h⟩
    refine ⟨i, hi, (clear_refuses_iff _).mp ?_⟩
    unfold clearIn at h
    simpa using h
  · rintro ⟨i, hi, h⟩
    refine ⟨i, hi, ?_⟩
    unfold clearIn
    rw [(clear_refuses_iff _).mpr h]
    rfl

/-- **idempotence at transaction level**: the relayed form is a fixed point -/
theorem unsign_idempotent (t t' : Tx) (h : unsignTx t = some t') : unsignTx t' = some t' := by
  have hin := inputs_preserved t t' h
  unfold unsignTx
  have : t'.vin.mapM clearIn = some t'.vin := by
    apply mapM_self
    intro i' hi'
    obtain ⟨i, _, hi⟩ := AllPairs.right_mem hin i' hi'
    unfold clearIn
    rw [clear_idempotent _ _ hi.2.2.2]
    rfl
  rw [this]
  rfl

/-- the relayed form of a decodable transaction is itself well-formed for the codec -/
theorem unsign_wf (t t' : Tx) (hw : t.WF0) (hne : t.vin ≠ []) (h : unsignTx t = some t') :
    t'.WF ∧ (t'.wit = [] ∨ WitWF t') := by
  obtain ⟨hv, ho, hl, hwit⟩ := fields_preserved t t' h
  have hin := inputs_preserved t t' h
  have hlen := AllPairs.length_eq hin
  refine ⟨⟨by rw [hv]; exact hw.ver, by rw [hl]; exact hw.lock, ?_, by rw [ho]; exact hw.vout,
    by rw [← hlen]; exact hw.nin, by rw [ho]; exact hw.nout, ?_⟩, ?_⟩
  · intro i' hi'
    obtain ⟨i, hi, h1, h2, h3, h4⟩ := AllPairs.right_mem hin i' hi'
    have hwi := hw.vin i hi
    exact ⟨by rw [h1]; exact hwi.h, by rw [h2]; exact hwi.n, by rw [h3]; exact hwi.q,
      Nat.le_trans (clearScript_length_le _ _ h4) hwi.s⟩
  · intro h0
    have : t.vin.length = 0 := by rw [hlen, h0]; rfl
    exact hne (List.eq_nil_of_length_eq_zero this)
  · rcases hw.wit with h0 | hww
    · left; rw [hwit]; exact h0
    · right
      exact ⟨by rw [hwit, ← hlen]; exact hww.len, by rw [hwit]; exact hww.stacks⟩

/-- **idempotence on the wire**: what the manager relays for a decodable transaction (with at
    least one input) is a fixed point of the transformation — relaying it again yields the very
    same bytes -/
theorem relayed_fixed_point (raw out : Bytes) (h : getUnsignedTx raw = some out)
    (hne : ∀ t, deserialize raw = some t → t.vin ≠ []) : getUnsignedTx out = some out := by
  unfold getUnsignedTx at h
  cases hd : deserialize raw with
  | none => simp [hd] at h
  | some t =>
    simp only [hd] at h
    cases hu : unsignTx t with
    | none => simp [hu] at h
    | some t' =>
      simp only [hu, Option.map_some, Option.some.injEq] at h
      subst h
      obtain ⟨hwf, hwit⟩ := unsign_wf t t' (deserialize_wf0 hd) (hne t hd) hu
      have hfix := unsign_idempotent t t' hu
      unfold getUnsignedTx
      by_cases hnull : witIsNull t'.wit = true
      · rw [deserialize_serialize_legacy t' hwf hnull]
        simp only [unsignTx_wit, hfix, Option.map_some]
        have h0 : witIsNull ([] : List (List Bytes)) = true := rfl
        unfold serialize
        simp only [hnull, h0, if_true]
      · have hnn : witIsNull t'.wit = false := by simpa using hnull
        have hww : WitWF t' := by
          rcases hwit with h0 | hww
          · rw [h0] at hnn; simp [witIsNull] at hnn
          · exact hww
        rw [deserialize_serialize_segwit t' hwf hww hnn]
        simp only [hfix, Option.map_some]

/-- non-vacuity: a 2-of-3 multisig script-sig (OP_0, two signatures, PUSHDATA1 redeem script)
    and the same with the signatures missing are cleared to the same bytes, a fixed point -/
example :
    let redeem : Bytes := List.replicate 80 0xAB
    let signed : Bytes := [0] ++ pushData (List.replicate 71 1) ++ pushData (List.replicate 72 2) ++ pushData redeem
    let blank : Bytes := [0, 0, 0] ++ pushData redeem
    clearScript signed = some blank ∧ clearScript blank = some blank := by
  decide +kernel

/-- **a transaction that cannot be decoded, or has an input with an empty script, is answered
    "invalid message" (-102) without contacting the device**: the authorized-sign handler returns
    that code with no event at all (no APDU, no disconnect, no re-open — even when a link repair
    is pending) and leaves the world untouched -/
theorem undecodable_tx_refused (c : Comm.Codes) (req : List (String × Json)) (path : List Nat) (w : World)
    (m : List (String × Json)) (hm : Json.lookup req "message" = some (.obj m))
    (hh : (Json.lookup m "hash").isSome = false)
    (ha : ¬ Comm.validateAuth c req true < 0) (hv : ¬ Comm.validateMessage c req .tx < 0)
    (hd : ((Ledger.strField? m "tx").bind Py.fromHex).bind Btc.getUnsignedTx = none) :
    Ledger.signV5 c req path w = ⟨.ok (c.invalidMessage, []), [], w⟩ := by
  unfold Ledger.signV5
  simp only [hm, hh, Bool.false_eq_true, if_false, ha, hv, hd]
  rfl

/-- non-vacuity of `relayed_fixed_point`: a one-input transaction whose script-sig holds a
    signature placeholder and a redeem script is relayed with the placeholder emptied -/
example :
    let raw : Bytes := [1, 0, 0, 0, 1] ++ List.replicate 32 7 ++ [0, 0, 0, 0] ++ [4, 1, 0x11, 1, 0xAA] ++
      [0xff, 0xff, 0xff, 0xff] ++ [0] ++ [0, 0, 0, 0]
    let out : Bytes := [1, 0, 0, 0, 1] ++ List.replicate 32 7 ++ [0, 0, 0, 0] ++ [3, 0, 1, 0xAA] ++
      [0xff, 0xff, 0xff, 0xff] ++ [0] ++ [0, 0, 0, 0]
    getUnsignedTx raw = some out ∧ (∀ t, deserialize raw = some t → t.vin ≠ []) := by
  refine ⟨by decide +kernel, ?_⟩
  intro t ht
  have : deserialize ([1, 0, 0, 0, 1] ++ List.replicate 32 7 ++ [0, 0, 0, 0] ++ [4, 1, 0x11, 1, 0xAA] ++
      [0xff, 0xff, 0xff, 0xff] ++ [0] ++ [0, 0, 0, 0]) = some
      ⟨[1, 0, 0, 0], [⟨List.replicate 32 7, [0, 0, 0, 0], [1, 0x11, 1, 0xAA], [0xff, 0xff, 0xff, 0xff]⟩], [], [],
        [0, 0, 0, 0]⟩ := by decide +kernel
  rw [this] at ht
  injection ht with ht; subst ht
  simp

end Props.C14
end PowHsm
