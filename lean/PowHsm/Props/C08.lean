/-
  C08 — verify commands vouch only for the operator's keys and a well-formed message.
-/
import PowHsm.Admin.Verify
namespace PowHsm
namespace Props.C08
open Verify

/-- the powHSM message is accepted only with its header and **exactly** the documented length,
    and its fields are the slices at the documented offsets -/
theorem powhsm_exact (msg : Bytes) (pm : PowHsmMsg) (h : parsePowHsm msg = some pm) :
    ∃ ver hlen, powhsmHeader msg = some (ver, hlen) ∧ msg.length = hlen + 115 ∧ pm.version = ver ∧
      pm.platform = (msg.drop hlen).take 3 ∧ pm.udValue = (msg.drop (hlen + 3)).take 32 ∧
      pm.pubkeysHash = (msg.drop (hlen + 35)).take 32 ∧ pm.bestBlock = (msg.drop (hlen + 67)).take 32 ∧
      pm.lastSignedTx = (msg.drop (hlen + 99)).take 8 ∧
      pm.timestamp = Bytes.beVal ((msg.drop (hlen + 107)).take 8) := by
  unfold parsePowHsm at h
  split at h
  · simp at h
  · rename_i ver hlen hh
    split at h
    · simp at h
    · rename_i hl
      injection h with h; subst h
      refine ⟨ver, hlen, by assumption, by simpa using hl, rfl, rfl, ?_, ?_, ?_, ?_, ?_⟩ <;> simp [List.drop_drop]

/-- a message with the right header but any other length is refused (truncated or extended) -/
theorem powhsm_wrong_length_refused (msg ver : Bytes) (hlen : Nat)
    (hh : powhsmHeader msg = some (ver, hlen)) (hl : msg.length ≠ hlen + 115) :
    parsePowHsm msg = none := by
  unfold parsePowHsm
  simp [hh, hl]

/-- **SGX: finishes without error only if** the quote target is valid, its custom message has
    the powHSM header and exact length, and the public-keys hash inside equals the hash of the
    operator's keys; the printed values are the message's fields and the quote's
    MRENCLAVE / MRSIGNER at their offsets (112 and 176) -/
theorem sgx_ok_only_if (h : Bytes) (q : TV) (p : SgxPrinted) (hv : verifySgx h q = some p) :
    ∃ msg quote pm, q = .valid msg quote ∧ parsePowHsm msg = some pm ∧ pm.pubkeysHash = h ∧
      p.powhsm = pm ∧ p.pubkeysHash = h ∧ p.mrenclave = (quote.drop 112).take 32 ∧
      p.mrsigner = (quote.drop 176).take 32 := by
  unfold verifySgx at hv
  split at hv
  · rename_i msg quote
    split at hv
    · simp at hv
    · split at hv
      · simp at hv
      · rename_i pm hpm
        split at hv
        · simp at hv
        · rename_i hne
          injection hv with hv; subst hv
          exact ⟨msg, quote, pm, rfl, hpm, by simpa using hne, rfl, rfl, rfl, rfl⟩
  · simp at hv

/-- … and conversely it does finish in exactly that situation -/
theorem sgx_ok_if (h msg quote : Bytes) (pm : PowHsmMsg) (hp : parsePowHsm msg = some pm)
    (hh : pm.pubkeysHash = h) : (verifySgx h (.valid msg quote)).isSome = true := by
  unfold verifySgx
  have : (powhsmHeader msg).isNone = false := by
    unfold parsePowHsm at hp
    split at hp <;> simp_all
  simp [this, hp, hh]

/-- **Ledger: finishes without error only if** the operator's file has the BTC key, both
    targets are valid, the UI message has its header and carries exactly that key (compressed)
    at offset header+32, and the signer message reports exactly the operator's keys hash —
    in the legacy format with nothing after it, in the current format with the exact length -/
theorem ledger_ok_only_if (pks : List Pubkey) (h : Bytes) (ui signer : TV) (p : LedgerPrinted)
    (hv : verifyLedger pks h ui signer = some p) :
    (∃ k ∈ pks, k.path = "m/44'/0'/0'/0/0" ∧ p.uiPubKey = k.compressed) ∧
    (∃ m t ver mh, ui = .valid m t ∧ uiHeader m = some (ver, mh) ∧ p.uiPubKey = (m.drop (mh + 32)).take 33 ∧
        p.udValue = (m.drop mh).take 32 ∧ p.signerHashAuth = (m.drop (mh + 65)).take 32 ∧
        p.signerIteration = Bytes.beVal ((m.drop (mh + 97)).take 2) ∧ p.uiHash = t ∧ p.uiVersion = ver) ∧
    (∃ sm st, signer = .valid sm st ∧ p.signerHash = st ∧ p.pubkeysHash = h ∧
        ((∃ ver hl, legacyHeader sm = some (ver, hl) ∧ sm.drop hl = h ∧ (sm.drop (hl + 32)) = [] ∧ p.powhsm = none) ∨
         (∃ pm, parsePowHsm sm = some pm ∧ pm.pubkeysHash = h ∧ p.powhsm = some pm))) := by
  unfold verifyLedger at hv
  split at hv
  · simp at hv
  · rename_i uiKey hk
    have hk1 := List.find?_some hk
    have hk2 := List.mem_of_find?_eq_some hk
    split at hv
    · rename_i m t
      split at hv
      · simp at hv
      · rename_i ver mh hh
        dsimp only at hv
        split at hv
        · simp at hv
        · rename_i hpk
          split at hv
          · rename_i sm st
            split at hv
            · rename_i lver hl hleg
              split at hv
              · simp at hv
              · rename_i hempty
                split at hv
                · simp at hv
                · rename_i hrep
                  injection hv with hv; subst hv
                  refine ⟨⟨uiKey, hk2, by simpa using hk1, by simpa using hpk⟩,
                    ⟨m, t, ver, mh, rfl, hh, rfl, rfl, rfl, rfl, rfl, rfl⟩,
                    ⟨sm, st, rfl, rfl, rfl, Or.inl ⟨lver, hl, hleg, by simpa using hrep, by simpa using hempty, rfl⟩⟩⟩
            · split at hv
              · simp at hv
              · split at hv
                · simp at hv
                · rename_i pm hpm
                  split at hv
                  · simp at hv
                  · rename_i hrep
                    injection hv with hv; subst hv
                    refine ⟨⟨uiKey, hk2, by simpa using hk1, by simpa using hpk⟩,
                      ⟨m, t, ver, mh, rfl, hh, rfl, rfl, rfl, rfl, rfl, rfl⟩,
                      ⟨sm, st, rfl, rfl, rfl, Or.inr ⟨pm, hpm, by simpa using hrep, rfl⟩⟩⟩
          · simp at hv
    · simp at hv

/-- non-vacuity: a well-formed current-format message is parsed -/
example : (parsePowHsm (ascii "POWHSM:5.4::" ++ List.replicate 115 7)).isSome = true := by decide +kernel

/-- **Ledger: it does finish without error if** the operator's file has the BTC key, both targets are
    valid, the UI message has its header and carries that key (compressed) at offset header+32, and the
    signer message — current format — has its header, the exact length, and reports the operator's keys
    hash; what is printed are the fields at the documented offsets -/
theorem ledger_ok_if_current (pks : List Pubkey) (h uiMsg uiHash sMsg sHash ver : Bytes) (mh : Nat)
    (uiKey : Pubkey) (pm : PowHsmMsg)
    (hk : pks.find? (·.path == "m/44'/0'/0'/0/0") = some uiKey)
    (hh : uiHeader uiMsg = some (ver, mh))
    (hpk : (uiMsg.drop (mh + 32)).take 33 = uiKey.compressed)
    (hleg : legacyHeader sMsg = none) (hp : parsePowHsm sMsg = some pm) (hph : pm.pubkeysHash = h) :
    verifyLedger pks h (.valid uiMsg uiHash) (.valid sMsg sHash) =
      some { udValue := (uiMsg.drop mh).take 32, uiPubKey := (uiMsg.drop (mh + 32)).take 33,
             signerHashAuth := (uiMsg.drop (mh + 65)).take 32,
             signerIteration := Bytes.beVal ((uiMsg.drop (mh + 97)).take 2), uiHash := uiHash, uiVersion := ver,
             pubkeysHash := h, signerHash := sHash, signerVersion := pm.version, powhsm := some pm } := by
  have hhdr : (powhsmHeader sMsg).isNone = false := by
    unfold parsePowHsm at hp
    split at hp <;> simp_all
  unfold verifyLedger
  simp [hk, hh, hpk, hleg, hhdr, hp, hph]

/-- …and in the legacy signer format: header, then exactly the operator's keys hash and nothing after it -/
theorem ledger_ok_if_legacy (pks : List Pubkey) (h uiMsg uiHash sMsg sHash ver lver : Bytes) (mh hl : Nat)
    (uiKey : Pubkey)
    (hk : pks.find? (·.path == "m/44'/0'/0'/0/0") = some uiKey)
    (hh : uiHeader uiMsg = some (ver, mh))
    (hpk : (uiMsg.drop (mh + 32)).take 33 = uiKey.compressed)
    (hleg : legacyHeader sMsg = some (lver, hl)) (hrep : sMsg.drop hl = h) (hend : sMsg.drop (hl + 32) = []) :
    verifyLedger pks h (.valid uiMsg uiHash) (.valid sMsg sHash) =
      some { udValue := (uiMsg.drop mh).take 32, uiPubKey := (uiMsg.drop (mh + 32)).take 33,
             signerHashAuth := (uiMsg.drop (mh + 65)).take 32,
             signerIteration := Bytes.beVal ((uiMsg.drop (mh + 97)).take 2), uiHash := uiHash, uiVersion := ver,
             pubkeysHash := h, signerHash := sHash, signerVersion := lver, powhsm := none } := by
  unfold verifyLedger
  simp [hk, hh, hpk, hleg, hrep, hend]

end Props.C08
end PowHsm
