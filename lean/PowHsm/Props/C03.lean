/-
  C03 — no client request can take the manager down or go unanswered.

  Full statement (kept visible):
    ∀ mode hashes line world, world.commIssue = false →
      deviceConforms world.script (run).events →
      isReply (run).reply ∧ (run).shutdown = false
  where `run = handleLine mode hashes line world`.

  Proved here (see DESIGN §5 C03): everything except "no Python exception escapes the
  command handlers while the device conforms" — that part is established by the
  correspondence runs with the oracle `Spec.c03`, not by a theorem.  The `_partial` suffix
  marks this.
-/
import PowHsm.Spec.C03
import PowHsm.Proofs.Monad
namespace PowHsm
namespace Props.C03
open Ledger Comm Spec

theorem isReply_errReply (c : Int) : isReply (errReply c) = true := by
  simp [isReply, errReply, Json.lookup]

theorem isReply_finish (o : Out) : isReply (finish o) = true := by
  unfold finish
  split
  · exact isReply_errReply _
  · have h : (o.2.filter (fun kv => !(kv.1 == "errorcode"))).find? (fun p => p.1 == "errorcode") = none := by
      rw [List.find?_eq_none]
      intro x hx
      simp only [List.mem_filter] at hx
      simpa using hx.2
    simp [isReply, Json.lookup, List.find?_append, h]

/-- Whatever the request and whatever the device does: when `handle_request` returns at all,
    what it returns is a JSON object with an integer `errorcode`. -/
theorem handleRequest_reply_wellformed (m : Mode) (hs : Dongle.Hashes) (j : Json) :
    M.Returns (fun r => isReply r = true) (handleRequest m hs j) := by
  unfold handleRequest
  dsimp only
  repeat' split
  all_goals first
    | exact M.returns_pure (isReply_errReply _)
    | exact M.returns_bind_pure _ _ isReply_finish

/-- `handleLine` never raises: a line always gets a reply written. -/
theorem line_always_replies (m : Mode) (hs : Dongle.Hashes) (p : Parsed) (w : World) :
    ∃ lo, (handleLine m hs p w).val = .ok lo := by
  unfold handleLine
  cases p with
  | notUtf8 => exact ⟨_, rfl⟩
  | notJson => exact ⟨_, rfl⟩
  | ok j =>
    simp only [M.bind_apply, M.attempt_apply]
    cases hv : (handleRequest m hs j w).val with
    | ok r => exact ⟨_, rfl⟩
    | error e => cases e <;> exact ⟨_, rfl⟩

/-- C03 for one line, partial: the reply is a JSON object with an integer errorcode and the
    server goes on **unless a Python exception left the command handler**; undecodable lines
    (bad UTF-8, bad JSON, too deep, oversized numbers) are always answered with the format
    error.  What is missing for the full statement: that no exception leaves the handler while
    the device conforms (validated by the `line.C03` correspondence stream). -/
theorem line_answered_partial (m : Mode) (hs : Dongle.Hashes) (p : Parsed) (w : World)
    (lo : LineOut) (h : (handleLine m hs p w).val = .ok lo) :
    (lo.exc = none → isReply lo.reply = true ∧ lo.shutdown = false) ∧
    (lo.shutdown = true → lo.exc.isSome = true) ∧
    ((∀ j, p ≠ .ok j) → lo.reply = errReply (codes m).formatError ∧ lo.exc = none) := by
  unfold handleLine at h
  cases p with
  | notUtf8 =>
    simp only [M.pure_apply] at h; injection h with h; subst h
    exact ⟨fun _ => ⟨isReply_errReply _, rfl⟩, by simp, fun _ => ⟨rfl, rfl⟩⟩
  | notJson =>
    simp only [M.pure_apply] at h; injection h with h; subst h
    exact ⟨fun _ => ⟨isReply_errReply _, rfl⟩, by simp, fun _ => ⟨rfl, rfl⟩⟩
  | ok j =>
    simp only [M.bind_apply, M.attempt_apply] at h
    cases hv : (handleRequest m hs j w).val with
    | ok r =>
      rw [hv] at h; simp only [M.pure_apply] at h; injection h with h; subst h
      exact ⟨fun _ => ⟨handleRequest_reply_wellformed m hs j w r hv, rfl⟩, by simp,
        fun hj => absurd rfl (hj j)⟩
    | error e =>
      rw [hv] at h
      cases e <;> (simp only [M.pure_apply] at h; injection h with h; subst h;
                   exact ⟨by simp, by simp, fun hj => absurd rfl (hj j)⟩)

/-- the manager's life under any sequence of lines: as long as no exception left a handler,
    every line got exactly one well-formed reply and the server is still serving. -/
theorem histories_partial (m : Mode) (hs : Dongle.Hashes) (ps : List Parsed) :
    ∀ (w : World) (los : List LineOut), (serve m hs ps w).val = .ok los →
      (∀ lo ∈ los, lo.exc = none) →
      los.length = ps.length ∧ ∀ lo ∈ los, isReply lo.reply = true ∧ lo.shutdown = false := by
  induction ps with
  | nil =>
    intro w los h _
    simp only [serve, M.pure_apply] at h; injection h with h; subst h; simp
  | cons p ps ih =>
    intro w los h hex
    unfold serve at h
    rw [M.bind_apply] at h
    obtain ⟨lo, hlo⟩ := line_always_replies m hs p w
    have hl := line_answered_partial m hs p w lo hlo
    revert h
    generalize hr : handleLine m hs p w = r at hlo
    obtain ⟨v, e1, w1⟩ := r
    simp only at hlo; subst hlo
    intro h
    simp only at h
    by_cases hs' : lo.shutdown = true
    · simp only [hs', if_true, M.pure_apply] at h
      injection h with h; subst h
      have := hl.2.1 hs'
      have hn := hex lo (by simp)
      simp [hn] at this
    · simp only [hs', Bool.false_eq_true, if_false] at h
      rw [M.bind_apply] at h
      cases hrest : (serve m hs ps w1).val with
      | error e =>
        revert h; generalize serve m hs ps w1 = q at hrest; obtain ⟨qv, qe, qw⟩ := q
        simp only at hrest; subst hrest; intro h; simp at h
      | ok rest =>
        revert h; generalize hq : serve m hs ps w1 = q at hrest; obtain ⟨qv, qe, qw⟩ := q
        simp only at hrest; subst hrest; intro h
        simp only [M.pure_apply] at h; injection h with h; subst h
        have hrest' : (serve m hs ps w1).val = .ok rest := by rw [hq]
        have ih' := ih w1 rest hrest' (fun x hx => hex x (by simp [hx]))
        refine ⟨by simp [ih'.1], ?_⟩
        intro x hx
        simp only [List.mem_cons] at hx
        rcases hx with rfl | hx
        · exact hl.1 (hex x (by simp))
        · exact ih'.2 x hx

end Props.C03
end PowHsm
