/-
  C03 — no client request can take the manager down or go unanswered.

  Full statement (kept visible):
    ∀ mode hashes line world, world.commIssue = false →
      deviceConforms world.script (run).events →
      isReply (run).reply ∧ (run).shutdown = false
  where `run = handleLine mode hashes line world`.

  Proved here, in full, for the model of the manager (`Ledger/Protocol.lean` and everything
  below it): `request_answered`, `line_answered`, `histories_answered` and
  `line_meets_oracle`.  The proof is a program logic over the scripted-environment monad
  (`Proofs/Conform*.lean`): every computation consumes one script entry per APDU (`Tracks`), and
  against conforming answers every device-level operation returns or raises only what its
  caller handles (`Safe`), by induction over the script for the chunked transfers and over the
  block / brother lists for the block operations.  The only side condition is `Bounded`: a
  `blocks` array has fewer than 2^32 members (a JSON line that long cannot exist; beyond it
  `int.to_bytes(4)` overflows).  The earlier `…_partial` theorems are kept: they hold without
  the conformance hypothesis.
-/
import PowHsm.Spec.C03
import PowHsm.Proofs.Monad
import PowHsm.Proofs.ConformMgr
namespace PowHsm
namespace Props.C03
open Ledger Comm Spec

theorem isReply_errReply (c : Int) : isReply (errReply c) = true := by
  simp [isReply, errReply, Json.lookup]

theorem isReply_finish (o : Out) : isReply (finish o) = true := by
  unfold finish
  split
  · exact isReply_errReply _
  · have h : (o.2.filter (fun kv => !(kv.1 == "errorcode"))).find? (fun p => p.1 == "errorcode") = none := by
      rw [List.find?_eq_none]
      intro x hx
      simp only [List.mem_filter] at hx
      simpa using hx.2
    simp [isReply, Json.lookup, List.find?_append, h]

/-- Whatever the request and whatever the device does: when `handle_request` returns at all,
    what it returns is a JSON object with an integer `errorcode`. -/
theorem handleRequest_reply_wellformed (m : Mode) (hs : Dongle.Hashes) (j : Json) :
    M.Returns (fun r => isReply r = true) (handleRequest m hs j) := by
  unfold handleRequest
  dsimp only
  repeat' split
  all_goals first
    | exact M.returns_pure (isReply_errReply _)
    | exact M.returns_bind_pure _ _ isReply_finish

/-- `handleLine` never raises: a line always gets a reply written. -/
theorem line_always_replies (m : Mode) (hs : Dongle.Hashes) (p : Parsed) (w : World) :
    ∃ lo, (handleLine m hs p w).val = .ok lo := by
  unfold handleLine
  cases p with
  | notUtf8 => exact ⟨_, rfl⟩
  | notJson => exact ⟨_, rfl⟩
  | ok j =>
    simp only [M.bind_apply, M.attempt_apply]
    cases hv : (handleRequest m hs j w).val with
    | ok r => exact ⟨_, rfl⟩
    | error e => cases e <;> exact ⟨_, rfl⟩

/-- C03 for one line, partial: the reply is a JSON object with an integer errorcode and the
    server goes on **unless a Python exception left the command handler**; undecodable lines
    (bad UTF-8, bad JSON, too deep, oversized numbers) are always answered with the format
    error.  What is missing for the full statement: that no exception leaves the handler while
    the device conforms (validated by the `line.C03` correspondence stream). -/
theorem line_answered_partial (m : Mode) (hs : Dongle.Hashes) (p : Parsed) (w : World)
    (lo : LineOut) (h : (handleLine m hs p w).val = .ok lo) :
    (lo.exc = none → isReply lo.reply = true ∧ lo.shutdown = false) ∧
    (lo.shutdown = true → lo.exc.isSome = true) ∧
    ((∀ j, p ≠ .ok j) → lo.reply = errReply (codes m).formatError ∧ lo.exc = none) := by
  unfold handleLine at h
  cases p with
  | notUtf8 =>
    simp only [M.pure_apply] at h; injection h with h; subst h
    exact ⟨fun _ => ⟨isReply_errReply _, rfl⟩, by simp, fun _ => ⟨rfl, rfl⟩⟩
  | notJson =>
    simp only [M.pure_apply] at h; injection h with h; subst h
    exact ⟨fun _ => ⟨isReply_errReply _, rfl⟩, by simp, fun _ => ⟨rfl, rfl⟩⟩
  | ok j =>
    simp only [M.bind_apply, M.attempt_apply] at h
    cases hv : (handleRequest m hs j w).val with
    | ok r =>
      rw [hv] at h; simp only [M.pure_apply] at h; injection h with h; subst h
      exact ⟨fun _ => ⟨handleRequest_reply_wellformed m hs j w r hv, rfl⟩, by simp,
        fun hj => absurd rfl (hj j)⟩
    | error e =>
      rw [hv] at h
      cases e <;> (simp only [M.pure_apply] at h; injection h with h; subst h;
                   exact ⟨by simp, by simp, fun hj => absurd rfl (hj j)⟩)

/-- the manager's life under any sequence of lines: as long as no exception left a handler,
    every line got exactly one well-formed reply and the server is still serving. -/
theorem histories_partial (m : Mode) (hs : Dongle.Hashes) (ps : List Parsed) :
    ∀ (w : World) (los : List LineOut), (serve m hs ps w).val = .ok los →
      (∀ lo ∈ los, lo.exc = none) →
      los.length = ps.length ∧ ∀ lo ∈ los, isReply lo.reply = true ∧ lo.shutdown = false := by
  induction ps with
  | nil =>
    intro w los h _
    simp only [serve, M.pure_apply] at h; injection h with h; subst h; simp
  | cons p ps ih =>
    intro w los h hex
    unfold serve at h
    rw [M.bind_apply] at h
    obtain ⟨lo, hlo⟩ := line_always_replies m hs p w
    have hl := line_answered_partial m hs p w lo hlo
    revert h
    generalize hr : handleLine m hs p w = r at hlo
    obtain ⟨v, e1, w1⟩ := r
    simp only at hlo; subst hlo
    intro h
    simp only at h
    by_cases hs' : lo.shutdown = true
    · simp only [hs', if_true, M.pure_apply] at h
      injection h with h; subst h
      have := hl.2.1 hs'
      have hn := hex lo (by simp)
      simp [hn] at this
    · simp only [hs', Bool.false_eq_true, if_false] at h
      rw [M.bind_apply] at h
      cases hrest : (serve m hs ps w1).val with
      | error e =>
        revert h; generalize serve m hs ps w1 = q at hrest; obtain ⟨qv, qe, qw⟩ := q
        simp only at hrest; subst hrest; intro h; simp at h
      | ok rest =>
        revert h; generalize hq : serve m hs ps w1 = q at hrest; obtain ⟨qv, qe, qw⟩ := q
        simp only at hrest; subst hrest; intro h
        simp only [M.pure_apply] at h; injection h with h; subst h
        have hrest' : (serve m hs ps w1).val = .ok rest := by rw [hq]
        have ih' := ih w1 rest hrest' (fun x hx => hex x (by simp [hx]))
        refine ⟨by simp [ih'.1], ?_⟩
        intro x hx
        simp only [List.mem_cons] at hx
        rcases hx with rfl | hx
        · exact hl.1 (hex x (by simp))
        · exact ih'.2 x hx

/-! ### the full statement -/

/-- **C03 for one request**: with no link repair pending and a device that keeps to its
    protocol, `handle_request` returns (no Python exception leaves it), what it returns is a
    JSON object with an integer errorcode, and no link repair is pending afterwards — for every
    JSON value and both protocol modes. -/
theorem request_answered (m : Mode) (hs : Dongle.Hashes) (j : Json) (w : World)
    (hci : w.commIssue = false) (hb : Bounded j)
    (hconf : deviceConforms w.script (handleRequest m hs j w).evs = true) :
    ∃ r, (handleRequest m hs j w).val = .ok r ∧ isReply r = true ∧
      (handleRequest m hs j w).w.commIssue = false := by
  obtain ⟨h1, r, h2, _⟩ := handleRequest_top (lf := false) m hs j hb w hci (by rw [deviceOk_false]; exact hconf)
  exact ⟨r, h2, handleRequest_reply_wellformed m hs j w r h2, h1 rfl⟩

/-- **C03 for one line**: exactly one reply is produced, it is a JSON object with an integer
    errorcode, no exception left the handler and the server goes on. -/
theorem line_answered (m : Mode) (hs : Dongle.Hashes) (p : Parsed) (w : World)
    (hci : w.commIssue = false) (hb : ParsedBounded p)
    (hconf : deviceConforms w.script (handleLine m hs p w).evs = true) :
    ∃ lo, (handleLine m hs p w).val = .ok lo ∧ lo.exc = none ∧ isReply lo.reply = true ∧
      lo.shutdown = false ∧ (handleLine m hs p w).w.commIssue = false := by
  obtain ⟨h1, lo, h2, h3⟩ := handleLine_top (lf := false) m hs p (fun r => isReply r = true)
    (handleRequest_reply_wellformed m hs) (isReply_errReply _) hb w hci (by rw [deviceOk_false]; exact hconf)
  exact ⟨lo, h2, h3.1, h3.2.1, h3.2.2, h1 rfl⟩

/-- **C03 over a manager lifetime**: any sequence of request lines, in any order — every line
    gets exactly one well-formed reply and the manager is still serving after the last one, as
    long as the device keeps to its protocol throughout. -/
theorem histories_answered (m : Mode) (hs : Dongle.Hashes) (ps : List Parsed) (w : World)
    (hci : w.commIssue = false) (hb : ∀ p ∈ ps, ParsedBounded p)
    (hconf : deviceConforms w.script (serve m hs ps w).evs = true) :
    ∃ los, (serve m hs ps w).val = .ok los ∧ los.length = ps.length ∧
      ∀ lo ∈ los, lo.exc = none ∧ isReply lo.reply = true ∧ lo.shutdown = false := by
  obtain ⟨_, los, h2, h3⟩ := serve_top m hs (fun r => isReply r = true) (handleRequest_reply_wellformed m hs)
    (isReply_errReply _) ps hb w hci (by rw [deviceOk_false]; exact hconf)
  exact ⟨los, h2, h3.1, h3.2⟩

/-- the model's own observation of a line always satisfies the oracle `Spec.c03` that the
    check evaluates on the implementation's observations -/
theorem line_meets_oracle (m : Mode) (hs : Dongle.Hashes) (p : Parsed) (w : World) (hb : ParsedBounded p)
    (lo : LineOut) (h : (handleLine m hs p w).val = .ok lo) :
    c03 w.script w.commIssue
      { reply := lo.reply, shutdown := lo.shutdown, events := (handleLine m hs p w).evs,
        commIssue := (handleLine m hs p w).w.commIssue, exc := "" } = true := by
  unfold c03
  cases hci : w.commIssue with
  | true => rfl
  | false =>
    cases hconf : deviceConforms w.script (handleLine m hs p w).evs with
    | false => simp
    | true =>
      obtain ⟨lo', h1, _, h3, h4, _⟩ := line_answered m hs p w hci hb hconf
      rw [h] at h1
      injection h1 with h1
      subst h1
      simp [h3, h4]

/-- the hypotheses are satisfiable by a non-trivial run: a `blockchainParameters` request
    against a device that answers the parameters query -/
example :
    let w : World := { script := [.data (0x80 :: 0x11 :: 0 :: (List.replicate 68 7 ++ [1]))] }
    let req : Json := .obj [("command", .str "blockchainParameters"), ("version", .int 5)]
    let hs : Dongle.Hashes := { keccak := id, cbHash := id }
    w.commIssue = false ∧ Bounded req ∧
      deviceConforms w.script (handleRequest .v5 hs req w).evs = true ∧
      (handleRequest .v5 hs req w).evs.length = 1 := by
  refine ⟨rfl, ?_, by decide, by decide⟩
  intro kvs hk bs hbs
  injection hk with hk
  subst hk
  simp [Json.lookup] at hbs

end Props.C03
end PowHsm
