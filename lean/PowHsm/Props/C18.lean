/-
  C18 — admin commands touch seed and PIN only under their preconditions.
-/
import PowHsm.Spec.C18
import PowHsm.Admin.Commands
import PowHsm.Proofs.Monad
import PowHsm.Proofs.Admin
import PowHsm.Proofs.AdminServe
import PowHsm.Proofs.AdminChange
import PowHsm.Proofs.AdminKeys
namespace PowHsm
namespace Props.C18
open Admin Ledger Generated M

/-- the model's PIN policy is the property's: 8 alphanumerics with at least one letter, unless
    any-PIN was explicitly allowed (then: alphanumerics only) -/
theorem pin_policy (p : Bytes) :
    (pinValid p false = true ↔ Spec.C18.policyPin p = true) ∧
    (pinValid p true = true ↔ p.all Spec.C18.isAlnum = true) := by
  constructor
  · unfold pinValid Spec.C18.policyPin
    have h1 : isAlnum = Spec.C18.isAlnum := rfl
    have h2 : isAlpha = Spec.C18.isAlpha := rfl
    rw [h1, h2]
    simp only [Bool.false_or, Bool.and_eq_true, beq_iff_eq]
    constructor
    · rintro ⟨a, b, c⟩; exact ⟨⟨b, a⟩, c⟩
    · rintro ⟨⟨b, a⟩, c⟩; exact ⟨a, b, c⟩
  · unfold pinValid
    have h1 : isAlnum = Spec.C18.isAlnum := rfl
    rw [h1]; simp

/-- a PIN given as an option that violates the policy stops onboarding before the device is
    even contacted -/
theorem onboard_bad_pin_no_contact (o : Options) (p : String) (w : World)
    (hp : o.pin = some p) (hv : pinValid (utf8 p) false = false) (ho : o.hasOutput = true) :
    (doOnboard o w).val = .error .exception ∧ (doOnboard o w).evs = [] := by
  unfold doOnboard
  simp [M.bind_apply, Ledger.getWorld, ho, hp, hv, adminError, M.throw', onboardOptPin]

/-- the confirmation loop proceeds only on an explicit yes -/
theorem confirm_needs_yes (w : World) (h : (confirm w).val = .ok ()) :
    Spec.C18.operatorSaidYes w.stdinLines = true := by
  unfold confirm at h
  have key : ∀ (l : List String) (rest : List String), confirm.go l = some (true, rest) →
      Spec.C18.operatorSaidYes l = true := by
    intro l
    induction l with
    | nil => intro rest h; simp [confirm.go] at h
    | cons a as ih =>
      intro rest h
      unfold confirm.go at h
      unfold Spec.C18.operatorSaidYes
      have hr : Spec.C18.rstrip a = rstrip a := rfl
      rw [hr]
      by_cases h1 : ((rstrip a).toLower == "n" || (rstrip a).toLower == "no") = true
      · simp [h1] at h
      · simp only [h1, Bool.false_eq_true, if_false] at h
        by_cases h2 : ((rstrip a).toLower == "yes") = true
        · simp [h2]
        · simp only [h2, Bool.false_eq_true, if_false] at h
          have h1' : ((rstrip a).toLower == "n" || (rstrip a).toLower == "no") = false := by simpa using h1
          simp only [h2, Bool.false_eq_true, if_false, h1']
          exact ih rest h
  cases hg : confirm.go w.stdinLines with
  | none => simp [hg] at h
  | some p =>
    obtain ⟨b, rest⟩ := p
    cases b with
    | true => exact key _ _ hg
    | false => simp [hg] at h

/-- **onboarding changes the device only under its preconditions**: if any of SEED, SEND_PIN,
    WIPE or SGX_ONBOARD is sent during `do_onboard`, then the device checks had handed over with
    bootloader mode, a matching echo and "not onboarded" (as reported in this very run), the
    operator had answered yes, and the PIN that is sent satisfies the policy (8 alphanumerics with
    a letter, or alphanumerics when any-PIN was allowed) — for every device behaviour and every
    operator script -/
theorem onboard_destructive_only_after_checks (o : Options) (w : World)
    (h : (doOnboard o w).evs.all notDestructive = false) :
    ∃ w0 e1 w1, onboardChecks w0 = ⟨.ok (Mode_BOOTLOADER.toNat, true, false), e1, w1⟩ ∧
      (confirm w1).val = .ok () ∧ Spec.C18.operatorSaidYes w1.stdinLines = true ∧
      ∃ pin seed w2, pinValid pin o.anyPin = true ∧ ((onboardDevice seed pin) w2).evs.all notDestructive = false := by
  unfold doOnboard at h
  obtain ⟨w', _, wa, _, h⟩ := Emits.bind_split getWorld_emits h
  split at h
  · simp [adminError, M.throw'] at h
  · obtain ⟨pin, _, w0, hpin, h⟩ := Emits.bind_split (onboardOptPin_emits o) h
    have hp := onboardOptPin_returns o wa pin (by rw [hpin])
    unfold onboardCore at h
    obtain ⟨x, e1, w1, hc, h⟩ := Emits.bind_split onboardChecks_nd h
    obtain ⟨hx1, hx2, hx3⟩ := onboardChecks_returns w0 x (by rw [hc])
    obtain ⟨m, e, ob⟩ := x
    simp only at hx1 hx2 hx3
    subst hx1 hx2 hx3
    obtain ⟨_, _, w2, hcf, h⟩ := Emits.bind_split confirm_emits h
    obtain ⟨p, _, w3, hpn, h⟩ := Emits.bind_split (onboardPin_emits o pin) h
    have hpol := onboardPin_returns o pin hp w2 p (by rw [hpn])
    obtain ⟨wx, _, w4, _, h⟩ := Emits.bind_split getWorld_emits h
    have hdev := Emits.bind_left (fun _ => disposeHsm_nd) h
    exact ⟨w0, e1, w1, hc, by rw [hcf], confirm_needs_yes w1 (by rw [hcf]), p, wx.seed, w4, hpol, hdev⟩

/-- **unlocking sends a PIN only to an onboarded device in bootloader mode**: if any PIN-bearing
    message (SEND_PIN, UNLOCK, SGX_UNLOCK, …) is sent during `do_unlock`, the checks had handed over
    with bootloader mode, "onboarded" and a matching echo, as reported by the device in this run -/
theorem unlock_pin_only_after_checks (o : Options) (exit noExec : Bool) (w : World)
    (h : (doUnlock o exit noExec w).evs.all notPin = false) :
    ∃ w0 e1 w1, unlockChecks w0 = ⟨.ok (Mode_BOOTLOADER.toNat, true, true), e1, w1⟩ := by
  unfold doUnlock at h
  have hopt : Emits notPin (match o.pin with
      | some p => if pinValid (utf8 p) o.anyPin then pure (some (utf8 p)) else adminError
      | none => (pure none : M (Option Bytes))) := by
    split
    · split
      · exact Emits.pure _
      · exact adminError_emits
    · exact Emits.pure _
  obtain ⟨pin, _, w0, _, h⟩ := Emits.bind_split hopt h
  obtain ⟨x, e1, w1, hc, _⟩ := Emits.bind_split unlockChecks_notPin h
  obtain ⟨h1, h2, h3⟩ := unlockChecks_returns w0 x (by rw [hc])
  obtain ⟨m, ob, e⟩ := x
  simp only at h1 h2 h3
  subst h1 h2 h3
  exact ⟨w0, e1, w1, hc⟩

/-- **a PIN change sends only a policy-compliant PIN unless any-PIN was explicitly allowed**: if the
    change-PIN command (Ledger CHANGE_PIN 0x08, SGX change-password 0xA5) is sent at any point of
    `do_changepin` — for every device behaviour and every operator script — then it is sent by the
    new-PIN step for a PIN that satisfies the policy (`pin_policy`: 8 alphanumerics with a letter;
    alphanumerics only with any-PIN); nothing before that step, the unlock included, sends it
    (`Proofs/AdminChange.lean`) -/
theorem changepin_only_policy_pin (o : Options) (w : World)
    (h : (doChangePin o w).evs.all notChange = false) :
    ∃ np w2, pinValid np o.anyPin = true ∧ (platNewPin np w2).evs.all notChange = false :=
  Admin.changepin_only_policy_pin o w h

/-- non-vacuity: on SGX, with no unlock, a device in signer mode and a compliant new PIN the command is
    sent, carrying that PIN -/
example :
    let o : Options := { pin := none, newPin := some "abcd1234", anyPin := false, noUnlock := true, noExec := false }
    let w : World := { script := [.data [0x80, 3], .data [0x80, 0xA5, 1]], platform := .sgx }
    (doChangePin o w).evs.all notChange = false ∧
    apdus (doChangePin o w).evs = [[0x80, 0x43], [0x80, 0xA5, 0, 0x61, 0x62, 0x63, 0x64, 0x31, 0x32, 0x33, 0x34]] := by
  decide +kernel

/-- **the public keys written to disk are the device's keys for the six documented paths**: whenever
    `do_get_pubkeys` ends normally — for every device behaviour and every operator script — its last
    exchanges are GET_PUBLIC_KEY for the six documented paths in the documented order (btc, rsk, mst, tbtc,
    trsk, tmst), followed only by the disconnection, and the six keys handed to the output files are the
    device's answers to exactly those six messages: `w1` is the world the preparation (unlock, wait,
    connect, mode check) leaves, and its script starts with the six keys (`Proofs/AdminKeys.lean`; the
    re-encoding of each key for the files is python-ecdsa's, an input of the model) -/
theorem pubkeys_are_device_keys (o : Options) (w : World) (ks : List Bytes)
    (h : (doGetPubkeys o some w).val = .ok ks) :
    ∃ (pre : List Ev) (w1 : World) (rest : List Resp),
      (doGetPubkeys o some w).evs = pre ++ docPaths.map (fun p => Ev.apdu (keyMsg p)) ++ [.disconnect] ∧
      (pubkeysPrepare o w).evs = pre ∧ (pubkeysPrepare o w).w = w1 ∧
      w1.script = ks.map Resp.data ++ rest ∧ ks.length = 6 :=
  Admin.pubkeys_are_device_keys o w ks h

/-- the six messages are the documented paths, as the firmware reads them (m/44'/0'/0'/0/0 first) -/
example : (docPaths.map keyMsg).length = 6 ∧
    docPaths.head? = some [0x8000002C, 0x80000000, 0x80000000, 0, 0] ∧
    keyMsg [0x8000002C, 0x80000000, 0x80000000, 0, 0] =
      [0x80, 0x04, 5, 0x2c, 0, 0, 0x80, 0, 0, 0, 0x80, 0, 0, 0, 0x80, 0, 0, 0, 0, 0, 0, 0, 0] := by decide +kernel

/-- **when the preconditions hold the operation is carried out** (onboarding, Ledger): against a
    device in bootloader mode that echoes correctly and is not yet onboarded, with an operator who
    answers yes and a policy-compliant PIN, `do_onboard` ends normally having sent — after the four
    checks and nothing else — exactly the 32 bytes the random source produced as seed (one message
    per byte, in order), the length-prefixed PIN, and the wipe command, and then closes the device -/
theorem onboard_carried_out {w : World} (o : Options) (p ans : String) (more : List String)
    (sacks packs : List Bytes) {a b c x : UInt8} {tl : Bytes} {rest : List Resp}
    (ho : o.pin = some p) (hv : pinValid (utf8 p) false = true)
    (hplat : w.platform = .ledger) (hout : o.hasOutput = true) (hc : w.conns = [])
    (hin : w.stdinLines = ans :: more) (hyes : (rstrip ans).toLower = "yes")
    (hseed : w.seed.length = 32) (hsl : sacks.length = w.seed.length) (hpl : packs.length = (utf8 p).length + 1)
    (h : w.script = Resp.data [0x80, 2] :: Resp.data [0x80, 0x02, 0x41, 0x42, 0x43] ::
          Resp.data [0x80, 0, a, b, c] ::
          (sacks.map Resp.data ++ (packs.map Resp.data ++ Resp.data (x :: 2 :: tl) :: rest))) :
    (doOnboard o w).val = .ok () ∧
    (doOnboard o w).evs =
      [.connect true, .apdu [Dongle.CLA, Tbl.u8 Generated.Command_GET_MODE],
        .apdu [Dongle.CLA, Tbl.u8 Generated.Command_ECHO, 0x41, 0x42, 0x43],
        .apdu [Dongle.CLA, Tbl.u8 Generated.Command_IS_ONBOARD]] ++
       (seedMsgs 0 w.seed ++ (pinMsgs 0 (UInt8.ofNat (utf8 p).length :: utf8 p) ++
         [.apdu [Dongle.CLA, Tbl.u8 Generated.Command_WIPE]])) ++ [.disconnect] := by
  have := doOnboard_runs o p ans more sacks packs ho hv hplat hout hc hin hyes hseed hsl hpl h
  unfold Runs at this
  rw [this]
  exact ⟨rfl, rfl⟩

/-- non-vacuity: an operator answer and a PIN that meet the hypotheses -/
example : (rstrip "Yes \n").toLower = "yes" ∧
    pinValid [0x61, 0x62, 0x63, 0x64, 0x31, 0x32, 0x33, 0x34] false = true := by
  refine ⟨?_, by decide⟩
  have : rstrip "Yes \n" = "Yes" := by simp [rstrip]
  rw [this]
  apply String.toList_injective
  simp [String.toLower, String.toList_map]

end Props.C18
end PowHsm
