/-
  C18 — admin commands touch seed and PIN only under their preconditions.
-/
import PowHsm.Spec.C18
import PowHsm.Admin.Commands
import PowHsm.Proofs.Monad
namespace PowHsm
namespace Props.C18
open Admin

/-- the model's PIN policy is the property's: 8 alphanumerics with at least one letter, unless
    any-PIN was explicitly allowed (then: alphanumerics only) -/
theorem pin_policy (p : Bytes) :
    (pinValid p false = true ↔ Spec.C18.policyPin p = true) ∧
    (pinValid p true = true ↔ p.all Spec.C18.isAlnum = true) := by
  constructor
  · unfold pinValid Spec.C18.policyPin
    have h1 : isAlnum = Spec.C18.isAlnum := rfl
    have h2 : isAlpha = Spec.C18.isAlpha := rfl
    rw [h1, h2]
    simp only [Bool.false_or, Bool.and_eq_true, beq_iff_eq]
    constructor
    · rintro ⟨a, b, c⟩; exact ⟨⟨b, a⟩, c⟩
    · rintro ⟨⟨b, a⟩, c⟩; exact ⟨a, b, c⟩
  · unfold pinValid
    have h1 : isAlnum = Spec.C18.isAlnum := rfl
    rw [h1]; simp

/-- a PIN given as an option that violates the policy stops onboarding before the device is
    even contacted -/
theorem onboard_bad_pin_no_contact (o : Options) (p : String) (w : World)
    (hp : o.pin = some p) (hv : pinValid (utf8 p) false = false) (ho : o.hasOutput = true) :
    (doOnboard o w).val = .error .exception ∧ (doOnboard o w).evs = [] := by
  unfold doOnboard
  simp only [M.bind_apply, Ledger.getWorld, ho, hp, hv, adminError, M.throw', Bool.not_true, Bool.and_false,
    Bool.false_eq_true, if_false]
  simp

/-- the confirmation loop proceeds only on an explicit yes -/
theorem confirm_needs_yes (w : World) (h : (confirm w).val = .ok ()) :
    Spec.C18.operatorSaidYes w.stdinLines = true := by
  unfold confirm at h
  have key : ∀ (l : List String) (rest : List String), confirm.go l = some (true, rest) →
      Spec.C18.operatorSaidYes l = true := by
    intro l
    induction l with
    | nil => intro rest h; simp [confirm.go] at h
    | cons a as ih =>
      intro rest h
      unfold confirm.go at h
      unfold Spec.C18.operatorSaidYes
      have hr : Spec.C18.rstrip a = rstrip a := rfl
      rw [hr]
      by_cases h1 : ((rstrip a).toLower == "n" || (rstrip a).toLower == "no") = true
      · simp [h1] at h
      · simp only [h1, Bool.false_eq_true, if_false] at h
        by_cases h2 : ((rstrip a).toLower == "yes") = true
        · simp [h2]
        · simp only [h2, Bool.false_eq_true, if_false] at h
          have h1' : ((rstrip a).toLower == "n" || (rstrip a).toLower == "no") = false := by simpa using h1
          simp only [h2, Bool.false_eq_true, if_false, h1']
          exact ih rest h
  cases hg : confirm.go w.stdinLines with
  | none => simp [hg] at h
  | some p =>
    obtain ⟨b, rest⟩ := p
    cases b with
    | true => exact key _ _ hg
    | false => simp [hg] at h

end Props.C18
end PowHsm
