/-
  C16 — loading an attestation file always terminates with a usable verdict.
  (Proofs: `Proofs/CertWalk.lean`, `Proofs/CertSave.lean`.)
-/
import PowHsm.Proofs.CertSave
namespace PowHsm
namespace Props.C16
open Cert

/-- **Termination of the sanity walk** (the `while True` loop with `visited`): the visited
    names are distinct names of elements, so `|elements| + 1 - |visited|` steps of fuel are never
    exhausted.  (Termination proofs are findings: the Python loop terminates on every input.) -/
theorem sanity_never_out_of_fuel (root : String) (els : List Elem) :
    ∀ (fuel : Nat) (visited : List String) (cur : Elem),
      visited.Nodup → (∀ v ∈ visited, v ∈ els.map (·.name)) → cur ∈ els →
      els.length + 1 ≤ fuel + visited.length →
      sanityWalk root els fuel visited cur ≠ .outOfFuel :=
  Cert.sanity_never_out_of_fuel root els

/-- loading terminates: for every target that names an element, the walk ends with a verdict
    (a path to the root, a cycle, or a dangling signer) within `|elements| + 1` steps -/
theorem sanity_walk_terminates (root : String) (els : List Elem) (target : String) (t : Elem)
    (h : lookup els target = some t) :
    sanityWalk root els (els.length + 1) [] t ≠ .outOfFuel :=
  Cert.sanity_walk_terminates root els target t h

/-- **an accepted certificate has a finite, cycle-free path to the root for the target, and the
    chain walk of validation finds it with the same fuel**: the path's names are distinct, its
    last element is signed by the root. -/
theorem sane_gives_chain (root : String) (els : List Elem) :
    ∀ (fuel : Nat) (visited : List String) (cur : Elem),
      sanityWalk root els fuel visited cur = .ok →
      ∃ chain, chainUp root els fuel cur = some chain ∧
        (chain.getLast?.map (·.signedBy) = some root) ∧
        (∀ e ∈ chain, ¬ e.name ∈ visited) ∧ (chain.map (·.name)).Nodup :=
  Cert.sane_gives_chain root els

/-- **what is saved denotes the dictionary that was loaded**: `to_dict` writes one entry per element
    name, in order of first appearance, with the last value read for that name (`savedElems`); looking
    any name up in the saved list gives what it gave in the loaded one -/
theorem saved_same_dictionary (els : List Elem) (n : String) : lookup (savedElems els) n = lookup els n :=
  (savedElems_sameDict els n).symm

/-- **saving such a certificate and loading it again yields the same verdicts**: for every accepted
    certificate (any number of elements, duplicated names included), every target and every outcome of
    the signature checks, `validate_and_get_values` on the list read back from the saved file gives the
    verdict it gave on the list first loaded — although the two lists differ in length, hence in the
    bound of both walks.  (The element payloads are carried by `to_dict` field by field: hex fields
    through `bytes.fromhex ∘ hex`, X.509 bodies through the base64 codec, `Props.C15.x509_message_roundtrip`.) -/
theorem save_load_same_verdicts (root : String) (els : List Elem) (lv : Option Elem → Elem → Bool)
    (target : String) (t : Elem) (ht : lookup els target = some t)
    (hsane : sanityWalk root els (els.length + 1) [] t = .ok) :
    validateTarget root (savedElems els) lv target = validateTarget root els lv target :=
  (verdict_of_dict root els (savedElems els) lv (savedElems_sameDict els) target t ht hsane).symm

/-- non-vacuity: a certificate with a duplicated name is saved without the duplicate, and the target's
    verdict survives -/
example :
    let els : List Elem := [⟨"a", "b"⟩, ⟨"b", "root"⟩, ⟨"a", "root"⟩]
    savedElems els = [⟨"a", "root"⟩, ⟨"b", "root"⟩] ∧
    sanityWalk "root" els (els.length + 1) [] ⟨"a", "root"⟩ = .ok ∧
    validateTarget "root" els (fun _ _ => true) "a" = some (.valid ⟨"a", "root"⟩) := by decide

end Props.C16
end PowHsm
