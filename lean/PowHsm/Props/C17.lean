/-
  C17 — signer authorizations contain what the device will check.
-/
import PowHsm.Admin.SignerAuth
import PowHsm.Proofs.Monad
namespace PowHsm
namespace Props.C17
open SignerAuth Dongle

/-- value of a most-significant-first decimal string -/
def decVal (cs : List Char) : Nat := cs.foldl (fun a c => a * 10 + (c.toNat - 48)) 0

def revVal : List Char → Nat
  | [] => 0
  | c :: cs => (c.toNat - 48) + 10 * revVal cs

theorem digitsRev_val (fuel n : Nat) (h : n < fuel) : revVal (digitsRev fuel n) = n := by
  induction fuel generalizing n with
  | zero => omega
  | succ fuel ih =>
    unfold digitsRev
    have hall : ∀ d, d < 10 → (digitChar d).toNat - 48 = d := by decide
    have hd : (digitChar (n % 10)).toNat - 48 = n % 10 := hall _ (Nat.mod_lt _ (by omega))
    by_cases hz : n / 10 = 0
    · simp only [hz, if_true, revVal, hd]
      omega
    · simp only [hz, if_false, revVal, hd]
      rw [ih (n / 10) (by omega)]
      omega

theorem decVal_eq_revVal_reverse (cs : List Char) : decVal cs.reverse = revVal cs := by
  induction cs with
  | nil => rfl
  | cons c cs ih =>
    unfold decVal at ih ⊢
    rw [List.reverse_cons, List.foldl_append]
    simp only [List.foldl_cons, List.foldl_nil, revVal]
    rw [ih]; omega

/-- the decimal rendering reads back as the number: `str(n)` is injective -/
theorem decimal_value (n : Nat) : decVal (decimal n) = n := by
  unfold decimal
  rw [decVal_eq_revVal_reverse, digitsRev_val _ _ (Nat.lt_succ_self n)]

theorem decimal_injective {a b : Nat} (h : decimal a = decimal b) : a = b := by
  have := congrArg decVal h
  rwa [decimal_value, decimal_value] at this

/-- **the text to be signed** is exactly `RSK_powHSM_signer_<hash>_iteration_<n>` wrapped as an
    Ethereum personal message with the decimal length of the text -/
theorem msg_and_wrap_exact (v : SignerVersion) :
    msg v = "RSK_powHSM_signer_".toList ++ v.hash.toList ++ "_iteration_".toList ++ decimal v.iteration ∧
    ethMessage (msg v) = [Char.ofNat 0x19] ++ "Ethereum Signed Message:\n".toList ++
      decimal (msg v).length ++ msg v := ⟨rfl, rfl⟩

/-- **different (hash, iteration) pairs give different texts** (hashes being hex strings of
    one length — 64 digits in practice) -/
theorem msg_injective (v v' : SignerVersion) (hl : v.hash.toList.length = v'.hash.toList.length)
    (h : msg v = msg v') : v = v' := by
  unfold msg at h
  simp only [List.append_assoc] at h
  have h1 := List.append_cancel_left h
  have h2 := List.append_inj h1 hl
  have h3 := List.append_cancel_left h2.2
  have hh : v.hash = v'.hash := String.ext (by simpa using h2.1)
  have hi := decimal_injective h3
  cases v; cases v'; simp_all

/-- **iteration bounds**: -1 and 65536 are refused, everything in 0..65535 is accepted (for a
    well-formed hash) -/
theorem iteration_bounds (h : String) (n : Int) (hh : Py.isHexOfLength h 32 = true) :
    (mkVersion (.str h) (.int n)).isSome = true ↔ 0 ≤ n ∧ n < 65536 := by
  unfold mkVersion
  simp only [hh, Bool.not_true, Bool.false_eq_true, if_false]
  by_cases h1 : n < 0
  · simp [h1]; omega
  · by_cases h2 : n ≥ 65536
    · simp [h1, h2]
    · simp [h1, h2]
      omega

/-- a malformed hash is refused whatever the iteration -/
theorem bad_hash_refused (h : String) (it : Json) (hh : Py.isHexOfLength h 32 = false) :
    mkVersion (.str h) it = none := by
  simp [mkVersion, hh]

def signApdu (s : Bytes) : Bytes := CLA :: CMD_AUTH :: OP_SIGN :: s

/-- **signatures are sent in file order until the device reports the signer authorized**:
    whatever the device answers, the messages of the loop are the SIGN messages of a prefix of
    the file's signatures, in order -/
theorem signatures_in_file_order (sigs : List Bytes) :
    ∀ (last : Option UInt8) (w : World),
      ∃ k, apdus (signLoop sigs last w).evs = (sigs.take k).map signApdu := by
  induction sigs with
  | nil =>
    intro last w
    refine ⟨0, ?_⟩
    unfold signLoop
    split <;> simp [M.throw', apdus]
  | cons s rest ih =>
    intro last w
    unfold signLoop
    simp only [M.bind_apply, sendCommand, exchange]
    cases hs : w.script with
    | nil => exact ⟨1, by simp [apdus, signApdu]⟩
    | cons r rs =>
      simp only
      cases hc : classify r with
      | error e => exact ⟨1, by simp [apdus, signApdu]⟩
      | ok resp =>
        simp only [idx]
        cases hi : resp[3]? with
        | none => exact ⟨1, by simp [M.throw', apdus, signApdu]⟩
        | some b =>
          simp only [M.pure_apply]
          by_cases hb : b == RES_SUCCESS
          · exact ⟨1, by simp [hb, apdus, signApdu]⟩
          · simp only [hb, Bool.false_eq_true, if_false]
            obtain ⟨k, hk⟩ := ih (some b) { w with script := rs }
            exact ⟨k + 1, by simp [apdus, signApdu, hk]⟩

/-- …and the call **fails if the device never reports it**: with no signatures at all it is an
    error without a single SIGN message -/
theorem no_signatures_fails (w : World) :
    (signLoop [] none w).val = .error .dongleError ∧ (signLoop [] none w).evs = [] := by
  simp [signLoop, M.throw']

/-- non-vacuity -/
example : decimal 65535 = ['6', '5', '5', '3', '5'] ∧ decimal 0 = ['0'] := by decide

end Props.C17
end PowHsm
