/-
  C09 — bring-up never endangers the device and never serves from an unsafe state.
-/
import PowHsm.Spec.C09
import PowHsm.Proofs.Monad
import PowHsm.Proofs.BringUp
import PowHsm.Proofs.BringUpServe
import PowHsm.Proofs.BringUpServeSgx
namespace PowHsm
namespace Props.C09
open Ledger Generated Dongle M

/-- **the version relation**, for all naturals: the manager supports a running version iff the
    major versions are equal and the running (minor, patch) is lexicographically not newer -/
theorem supports_char (mw fw : Nat × Nat × Nat) :
    supports mw fw = true ↔
      mw.1 = fw.1 ∧ (fw.2.1 < mw.2.1 ∨ (fw.2.1 = mw.2.1 ∧ fw.2.2 ≤ mw.2.2)) := by
  unfold supports
  simp only [Bool.and_eq_true, beq_iff_eq, decide_eq_true_eq, Bool.or_eq_true, ge_iff_le, gt_iff_lt]
  constructor
  · rintro ⟨⟨h1, h2⟩, h3⟩
    refine ⟨h1, ?_⟩
    rcases h3 with h3 | h3
    · left; exact h3
    · rcases Nat.lt_or_ge fw.2.1 mw.2.1 with h | h
      · left; exact h
      · right; exact ⟨Nat.le_antisymm h2 h, h3⟩
  · rintro ⟨h1, h2⟩
    rcases h2 with h2 | ⟨h2, h3⟩
    · exact ⟨⟨h1, Nat.le_of_lt h2⟩, Or.inl h2⟩
    · exact ⟨⟨h1, by omega⟩, Or.inr h3⟩

/-- the model's relation is the one the property states (`Spec.C09.supported`) -/
theorem supports_is_spec (mw fw : Nat × Nat × Nat) : supports mw fw = Spec.C09.supported mw fw := by
  obtain ⟨a, b, c⟩ := mw
  obtain ⟨d, e, f⟩ := fw
  unfold supports Spec.C09.supported
  rw [Bool.eq_iff_iff]
  simp only [Bool.and_eq_true, beq_iff_eq, decide_eq_true_eq, Bool.or_eq_true]
  omega

/-- the manager's constants are those of the property: 5.4.1 for UI and signer, two retries -/
theorem constants_as_specified :
    UI_VERSION = (5, 4, 1) ∧ APP_VERSION = (5, 4, 1) ∧ MIN_AVAILABLE_RETRIES = 2 ∧
    Spec.C09.managerVersion = (5, 4, 1) := by decide

/-! ### the bring-up model, for every device behaviour (every script, any length) -/

/-- **nothing that carries PIN material (SEND_PIN, UNLOCK, CHANGE_PIN, SGX_UNLOCK,
    SGX_CHANGE_PASSWORD) is sent while the checks are running** — neither by the start-up checks
    (connect, onboarded?, mode?) nor by the bootloader checks (UI version, echo, retries), whatever
    the device answers -/
theorem no_pin_during_checks : Emits notPin initGuards ∧ Emits notPin blGuards :=
  ⟨initGuards_notPin, blGuards_notPin⟩

/-- **what the checks establish** when they hand over: the device said it is onboarded; the UI
    version it reported is supported, its echo matched and it reported at least two retries;
    and serving only starts from signer mode with a supported signer version -/
theorem checks_establish :
    Returns (fun x => x.1 = true) initGuards ∧
    Returns (fun x => supports UI_VERSION x.1 = true ∧ x.2.1 = true ∧ 2 ≤ x.2.2) blGuards ∧
    ∀ mode, Returns (fun x => x.1 = mode ∧ x.1 = Mode_SIGNER.toNat ∧ supports APP_VERSION x.2 = true) (signerChecks mode) :=
  ⟨initGuards_returns, blGuards_returns, signerChecks_returns⟩

/-- **the unlock command is sent at most once per bring-up**, whatever the device does -/
theorem unlock_at_most_once : CountLe isUnlock 1 initializeDevice := by
  unfold initializeDevice
  have nu {α : Type} {m : M α} (h : Emits notPin m) : CountLe isUnlock 0 m := CountLe.of_emits
    ((h.mono notPin_notUnlock).mono fun e he => by simpa [notUnlock] using he)
  have tail (mode : Nat) : CountLe isUnlock 0 (afterDispatch mode) :=
    nu (Emits.bind (signerChecks_notPin mode) fun _ => Emits.pure _)
  refine CountLe.mono (CountLe.bind (nu initGuards_notPin) fun om => ?_) (by omega : 0 + 1 ≤ 1)
  split
  · exact CountLe.mono (CountLe.bind handleBootloader_count fun _ =>
      CountLe.bind (nu getCurrentMode_notPin) fun mode => tail mode) (by omega)
  · exact CountLe.mono (tail _) (by omega)

/-- **PIN material is sent only after all checks passed**: if any PIN-bearing message occurs in a
    bring-up, then the start-up checks had handed over with "onboarded" and bootloader mode, and
    the bootloader checks had handed over with a supported UI version, a correct echo and at
    least two retries — all as reported by the device in this very run -/
theorem pin_only_after_checks (w : World) (h : (initializeDevice w).evs.all notPin = false) :
    ∃ e1 w1, initGuards w = ⟨.ok (true, Mode_BOOTLOADER.toNat), e1, w1⟩ ∧
      ∃ v r e2 w2, blGuards w1 = ⟨.ok (v, true, r), e2, w2⟩ ∧ supports UI_VERSION v = true ∧ 2 ≤ r := by
  unfold initializeDevice at h
  have hg := initGuards_notPin w
  have hr := initGuards_returns w
  cases hi : initGuards w with
  | mk val e1 w1 =>
    rw [hi] at hg hr
    cases val with
    | error e => rw [bind_error hi] at h; simp only at h hg; rw [hg] at h; cases h
    | ok om =>
      obtain ⟨o, mode⟩ := om
      have ho : o = true := hr (o, mode) rfl
      subst ho
      rw [bind_ok hi] at h
      simp only [List.all_append, hg, Bool.true_and] at h
      by_cases hm : mode = Mode_BOOTLOADER.toNat
      · subst hm
        refine ⟨e1, w1, rfl, ?_⟩
        simp only [beq_self_eq_true, if_true] at h
        have hb := blGuards_notPin w1
        have hbr := blGuards_returns w1
        cases hbl : blGuards w1 with
        | mk val2 e2 w2 =>
          rw [hbl] at hb hbr
          cases val2 with
          | error e =>
            exfalso
            have h1 : handleBootloader w1 = ⟨.error e, e2, w2⟩ := by
              unfold handleBootloader; exact bind_error hbl
            rw [bind_error h1] at h
            simp only at h hb
            rw [hb] at h; cases h
          | ok x =>
            obtain ⟨v, e, r⟩ := x
            obtain ⟨hs, he, hr2⟩ := hbr (v, e, r) rfl
            simp only at he; subst he
            exact ⟨v, r, e2, w2, rfl, hs, hr2⟩
      · exfalso
        have hne : (mode == Mode_BOOTLOADER.toNat) = false := by simpa using hm
        simp only [hne, Bool.false_eq_true, if_false] at h
        have : Emits notPin (afterDispatch mode) :=
          Emits.bind (signerChecks_notPin mode) fun _ => Emits.pure _
        have := this w1
        rw [this] at h; cases h

/-- **serving starts only from signer mode with a supported signer version**: a bring-up that
    ends in "served" ended with those two facts reported by the device -/
theorem served_only_if (mode : Nat) (w : World) (h : (afterDispatch mode w).val = .ok ()) :
    mode = Mode_SIGNER.toNat ∧ ∃ v e w', signerChecks mode w = ⟨.ok (mode, v), e, w'⟩ ∧ supports APP_VERSION v = true := by
  unfold afterDispatch at h
  cases hs : signerChecks mode w with
  | mk val e w' =>
    cases val with
    | error x => rw [bind_error hs] at h; cases h
    | ok x =>
      obtain ⟨m, v⟩ := x
      obtain ⟨hm, hsig, hsup⟩ := signerChecks_returns mode w (m, v) (by rw [hs])
      simp only at hm hsig hsup
      subst hm
      exact ⟨hsig, v, e, w', rfl, hsup⟩

/-- non-vacuity of `pin_only_after_checks` / `unlock_at_most_once`: an onboarded Ledger in
    bootloader mode, UI 5.4.1, three retries — the PIN bytes and exactly one unlock are sent -/
example :
    let w : World :=
      { script := [.data [0x80, 1, 5, 4, 1], .data [0x80, 2], .data [0x80, 1, 5, 4, 1],
                   .data [0x80, 2, 0x41, 0x42, 0x43], .data [0x80, 69, 3], .data [0x80], .data [0x80],
                   .data [0x80, 0xFE, 1]],
        pin := some { pin := [0x31, 0x32], needsChange := false } }
    (initializeDevice w).evs.all notPin = false ∧ (initializeDevice w).evs.countP isUnlock = 1 := by
  decide +kernel

/-- non-vacuity of the relation around 5.4.1 -/
example : supports (5, 4, 1) (5, 4, 1) = true ∧ supports (5, 4, 1) (5, 3, 9) = true ∧
    supports (5, 4, 1) (5, 4, 2) = false ∧ supports (5, 4, 1) (5, 5, 0) = false ∧
    supports (5, 4, 1) (4, 0, 0) = false := by decide

/-! ### the converse: a safe device is served -/

/-- **it starts serving when the device is onboarded and in signer mode with a supported signer
    version**: against the answers of such a device (onboarded flag 1, mode 3, a version the
    manager supports, a 69-byte parameters answer naming a network) — whatever follows in the
    script and whatever the platform — the bring-up ends in "served" -/
theorem serves_from_signer {w : World} {a b c : UInt8} {params : Bytes} {rest : List Resp}
    (h : w.script = .data [0x80, 1, a, b, c] :: .data [0x80, 3] :: .data [0x80, 1, a, b, c] ::
          .data (0x80 :: 0x11 :: 0 :: params) :: rest)
    (hc : w.conns.head? ≠ some false)
    (hv : supports APP_VERSION (a.toNat, b.toNat, c.toNat) = true) (hp : ParamsOk params) :
    (bringUp w).val = .ok "served" :=
  bringUp_serves_signer h hc hv hp

/-- **…or ends up there after a successful unlock that required no PIN change**: an onboarded
    device in bootloader mode that runs a supported UI version, echoes correctly, has at least
    `MIN_AVAILABLE_RETRIES` PIN retries left and accepts the PIN (every PIN byte acknowledged, a
    non-zero unlock answer), with a PIN that needs no change, and that — whatever became of the
    exit command — is found in signer mode with a supported signer version after the reconnection,
    is served (Ledger and TCP platforms; any PIN length) -/
theorem serves_after_unlock {w : World} {pin : Bytes} {y0 y1 y2 o a b c x r ub sa sb sc : UInt8}
    {acks : List Bytes} {er : Resp} {params : Bytes} {rest : List Resp}
    (h : w.script = Resp.data [0x80, 1, y0, y1, y2] :: Resp.data [0x80, 2] ::
          Resp.data [0x80, o, a, b, c] :: Resp.data [0x80, 0x02, 0x41, 0x42, 0x43] :: Resp.data [0x80, x, r] ::
          (acks.map Resp.data ++ Resp.data [0x80, 0xFE, ub] :: er :: Resp.data [0x80, 3] ::
           Resp.data [0x80, 1, sa, sb, sc] :: Resp.data (0x80 :: 0x11 :: 0 :: params) :: rest))
    (hplat : w.platform ≠ .sgx) (hpin : w.pin = some { pin := pin, needsChange := false })
    (hc1 : w.conns.head? ≠ some false) (hc2 : (w.conns.drop 1).head? ≠ some false)
    (huv : supports UI_VERSION (a.toNat, b.toNat, c.toNat) = true) (hr : MIN_AVAILABLE_RETRIES ≤ r.toNat)
    (hl : acks.length = pin.length) (hub : ub ≠ 0)
    (hav : supports APP_VERSION (sa.toNat, sb.toNat, sc.toNat) = true) (hp : ParamsOk params) :
    (bringUp w).val = .ok "served" :=
  bringUp_serves_bootloader h hplat hpin hc1 hc2 huv hr hl hub hav hp

/-- **…and the same on the SGX platform**: an onboarded SGX powHSM that reports the locked (bootloader)
    mode, runs a supported version, echoes correctly (SGX echo), has at least two password retries left and
    accepts the password (one SGX unlock message), and then runs a supported signer with well-formed
    parameters, is served (`Proofs/BringUpServeSgx.lean`) -/
theorem serves_after_unlock_sgx {w : World} {pin : Bytes} {y0 y1 y2 o a b c x r y ub sa sb sc : UInt8}
    {er : Resp} {params : Bytes} {rest : List Resp}
    (h : w.script = Resp.data [0x80, 1, y0, y1, y2] :: Resp.data [0x80, 2] ::
          Resp.data [0x80, o, a, b, c] :: Resp.data [0x80, 0xA4, 0x41, 0x42, 0x43] :: Resp.data [0x80, x, r] ::
          Resp.data [0x80, y, ub] :: er :: Resp.data [0x80, 3] ::
          Resp.data [0x80, 1, sa, sb, sc] :: Resp.data (0x80 :: 0x11 :: 0 :: params) :: rest)
    (hplat : w.platform = .sgx) (hpin : w.pin = some { pin := pin, needsChange := false })
    (hc1 : w.conns.head? ≠ some false) (hc2 : (w.conns.drop 1).head? ≠ some false)
    (huv : supports UI_VERSION (a.toNat, b.toNat, c.toNat) = true) (hr : MIN_AVAILABLE_RETRIES ≤ r.toNat)
    (hub : ub ≠ 0)
    (hav : supports APP_VERSION (sa.toNat, sb.toNat, sc.toNat) = true) (hp : ParamsOk params) :
    (bringUp w).val = .ok "served" :=
  bringUp_serves_bootloader_sgx h hplat hpin hc1 hc2 huv hr hub hav hp

/-- non-vacuity: the hypotheses of `serves_after_unlock` are met by a concrete device -/
example : ParamsOk (List.replicate 68 0 ++ [2]) ∧ supports UI_VERSION (5, 4, 1) = true ∧
    supports APP_VERSION (5, 3, 7) = true ∧ MIN_AVAILABLE_RETRIES ≤ (3 : UInt8).toNat := by
  refine ⟨⟨by decide, by decide⟩, by decide, by decide, by decide⟩

end Props.C09
end PowHsm
