/-
  C09 — bring-up never endangers the device and never serves from an unsafe state.
-/
import PowHsm.Spec.C09
import PowHsm.Proofs.Monad
namespace PowHsm
namespace Props.C09
open Ledger Generated

/-- **the version relation**, for all naturals: the manager supports a running version iff the
    major versions are equal and the running (minor, patch) is lexicographically not newer -/
theorem supports_char (mw fw : Nat × Nat × Nat) :
    supports mw fw = true ↔
      mw.1 = fw.1 ∧ (fw.2.1 < mw.2.1 ∨ (fw.2.1 = mw.2.1 ∧ fw.2.2 ≤ mw.2.2)) := by
  unfold supports
  simp only [Bool.and_eq_true, beq_iff_eq, decide_eq_true_eq, Bool.or_eq_true, ge_iff_le, gt_iff_lt]
  constructor
  · rintro ⟨⟨h1, h2⟩, h3⟩
    refine ⟨h1, ?_⟩
    rcases h3 with h3 | h3
    · left; exact h3
    · rcases Nat.lt_or_ge fw.2.1 mw.2.1 with h | h
      · left; exact h
      · right; exact ⟨Nat.le_antisymm h2 h, h3⟩
  · rintro ⟨h1, h2⟩
    rcases h2 with h2 | ⟨h2, h3⟩
    · exact ⟨⟨h1, Nat.le_of_lt h2⟩, Or.inl h2⟩
    · exact ⟨⟨h1, by omega⟩, Or.inr h3⟩

/-- the model's relation is the one the property states (`Spec.C09.supported`) -/
theorem supports_is_spec (mw fw : Nat × Nat × Nat) : supports mw fw = Spec.C09.supported mw fw := by
  obtain ⟨a, b, c⟩ := mw
  obtain ⟨d, e, f⟩ := fw
  unfold supports Spec.C09.supported
  rw [Bool.eq_iff_iff]
  simp only [Bool.and_eq_true, beq_iff_eq, decide_eq_true_eq, Bool.or_eq_true]
  omega

/-- the manager's constants are those of the property: 5.4.1 for UI and signer, two retries -/
theorem constants_as_specified :
    UI_VERSION = (5, 4, 1) ∧ APP_VERSION = (5, 4, 1) ∧ MIN_AVAILABLE_RETRIES = 2 ∧
    Spec.C09.managerVersion = (5, 4, 1) := by decide

/-- non-vacuity of the relation around 5.4.1 -/
example : supports (5, 4, 1) (5, 4, 1) = true ∧ supports (5, 4, 1) (5, 3, 9) = true ∧
    supports (5, 4, 1) (5, 4, 2) = false ∧ supports (5, 4, 1) (5, 5, 0) = false ∧
    supports (5, 4, 1) (4, 0, 0) = false := by decide

end Props.C09
end PowHsm
