/-
  C06 — a Ledger attestation is accepted only if every link up to the root key verifies.
  (Also the chain logic of C07: version 2 certificates use the same walk.)
  `linkValid certifier e` stands for "element `e` carries a valid signature over its message
  by the certifier's key (root of trust for `none`), with the certifier key tweaked by
  HMAC-SHA256(tweak, key) whenever the element declares a tweak" — computed in the
  correspondence runs by an implementation independent of the code under test.
-/
import PowHsm.Admin.CertGraph
import PowHsm.Admin.CertLinks
namespace PowHsm
namespace Props.C06
open Cert

/-- the links of a top-down path: each element with its certifier -/
def links : Option Elem → List Elem → List (Option Elem × Elem)
  | _, [] => []
  | c, e :: rest => (c, e) :: links (some e) rest

/-- **valid iff every link verifies**: the walk reports the leaf as valid exactly when every
    element of the path, from the one certified by the root of trust down to the target, is
    valid against its certifier — for paths of any length. -/
theorem valid_iff (lv : Option Elem → Elem → Bool) (path : List Elem) (c : Option Elem) (leaf : Elem) :
    validateDown lv c path = some (.valid leaf) ↔
      path.getLast? = some leaf ∧ ∀ l ∈ links c path, lv l.1 l.2 = true := by
  induction path generalizing c with
  | nil => simp [validateDown]
  | cons e rest ih =>
    cases rest with
    | nil =>
      simp only [validateDown, links, List.getLast?_singleton, List.mem_singleton, forall_eq]
      by_cases h : lv c e = true
      · simp [h]
      · simp [h]
    | cons e' rest' =>
      simp only [validateDown, links, List.getLast?_cons_cons, List.mem_cons, forall_eq_or_imp]
      by_cases h : lv c e = true
      · simp only [h, if_true, true_and]
        rw [ih (some e)]
        simp [links]
      · simp [h]

/-- the code's combination of the library facts is the property's wording of a link: an X.509
    element is inside its validity period and signed by an X.509 certifier; an attestation key / a quote
    is bound to its report data and signed by a certifier that has a key -/
theorem linkValid_iff (f : LinkFacts) : linkValid f = true ↔ LinkHolds f := by
  unfold linkValid LinkHolds
  cases hk : f.kind <;> simp only []
  · -- X.509
    unfold x509Valid
    by_cases h1 : f.certifierIsX509 = true <;> by_cases h2 : f.loads = true <;>
      by_cases h3 : f.notBefore ≤ f.now <;> by_cases h4 : f.now ≤ f.notAfter <;>
      simp [h1, h2, h3, h4, Int.not_le.mp, Int.not_lt.mpr] <;> omega
  · unfold sgxValid
    by_cases h1 : f.loads = true <;> by_cases h2 : f.bound = true <;> by_cases h3 : f.certifierHasKey = true <;>
      simp [h1, h2, h3]
  · unfold sgxValid
    by_cases h1 : f.loads = true <;> by_cases h2 : f.bound = true <;> by_cases h3 : f.certifierHasKey = true <;>
      simp [h1, h2, h3]
  · unfold v1Valid
    cases f.tweaked <;> simp
  · simp

/-- **the property, link by link** (version 1): with the per-link facts of a certificate, a target is
    reported valid if and only if it is the last element of its path and every element of the path
    carries a signature that verifies under its certifier's key (the root key for the topmost one) —
    under the key tweaked by HMAC-SHA256(tweak, key) whenever the element declares a tweak; paths of
    any length -/
theorem valid_iff_conditions (facts : Option Elem → Elem → LinkFacts) (path : List Elem) (c : Option Elem)
    (leaf : Elem) :
    validateDown (fun c e => linkValid (facts c e)) c path = some (.valid leaf) ↔
      path.getLast? = some leaf ∧ ∀ l ∈ links c path, LinkHolds (facts l.1 l.2) := by
  rw [valid_iff]
  constructor
  · rintro ⟨h1, h2⟩
    exact ⟨h1, fun l hl => (linkValid_iff _).1 (h2 l hl)⟩
  · rintro ⟨h1, h2⟩
    exact ⟨h1, fun l hl => (linkValid_iff _).2 (h2 l hl)⟩

/-- a declared tweak is not optional: a signature that verifies only under the untweaked key does not
    make the link valid (non-vacuity of the tweak clause) -/
example : linkValid { kind := .v1, tweaked := true, sigOk := true, sigOkTweaked := false } = false ∧
          linkValid { kind := .v1, tweaked := true, sigOk := false, sigOkTweaked := true } = true ∧
          linkValid { kind := .v1, tweaked := false, sigOk := true } = true := by decide

/-- the first element of a top-down path whose link does not verify, with its certifier -/
def firstFailing (lv : Option Elem → Elem → Bool) : Option Elem → List Elem → Option (Option Elem × Elem)
  | _, [] => none
  | c, e :: rest => if lv c e then firstFailing lv (some e) rest else some (c, e)

/-- `firstFailing` is what its name says: everything above it verifies, it does not, and its
    certifier is the element right above it (the root of trust for the topmost one) -/
theorem firstFailing_spec (lv : Option Elem → Elem → Bool) (path : List Elem) (c cert : Option Elem) (e : Elem)
    (h : firstFailing lv c path = some (cert, e)) :
    ∃ pre post, path = pre ++ e :: post ∧ (∀ l ∈ links c pre, lv l.1 l.2 = true) ∧
      lv cert e = false ∧ (cert, e) ∈ links c (pre ++ [e]) := by
  induction path generalizing c with
  | nil => simp [firstFailing] at h
  | cons x rest ih =>
    unfold firstFailing at h
    by_cases hx : lv c x = true
    · simp only [hx, if_true] at h
      obtain ⟨pre, post, hp, hall, hf, hm⟩ := ih (some x) h
      refine ⟨x :: pre, post, by simp [hp], ?_, hf, ?_⟩
      · intro l hl
        simp only [links, List.mem_cons] at hl
        rcases hl with rfl | hl
        · exact hx
        · exact hall l hl
      · simp only [List.cons_append, links, List.mem_cons]
        right; exact hm
    · simp only [hx] at h
      simp only [Bool.false_eq_true, if_false, Option.some.injEq, Prod.mk.injEq] at h
      obtain ⟨rfl, rfl⟩ := h
      exact ⟨[], rest, rfl, by simp [links], by simpa using hx, by simp [links]⟩

/-- **otherwise the element named as failing is the first one, walking down from the root,
    that does not verify** -/
theorem fails_at_first (lv : Option Elem → Elem → Bool) (path : List Elem) (c : Option Elem) (n : String) :
    validateDown lv c path = some (.invalid n) ↔
      ∃ cert e, firstFailing lv c path = some (cert, e) ∧ e.name = n := by
  induction path generalizing c with
  | nil => simp [validateDown, firstFailing]
  | cons e rest ih =>
    cases rest with
    | nil =>
      by_cases h : lv c e = true
      · simp [validateDown, firstFailing, h]
      · simp only [validateDown, firstFailing, h]
        simp only [Bool.false_eq_true, if_false, Option.some.injEq, Verdict.invalid.injEq, Prod.mk.injEq]
        exact ⟨fun hn => ⟨c, e, ⟨rfl, rfl⟩, hn⟩, fun ⟨_, _, ⟨_, h2⟩, hn⟩ => h2 ▸ hn⟩
    | cons e' rest' =>
      by_cases h : lv c e = true
      · simp only [validateDown, h, if_true]
        rw [ih (some e)]
        simp [firstFailing, h]
      · simp only [validateDown, firstFailing, h]
        simp only [Bool.false_eq_true, if_false, Option.some.injEq, Verdict.invalid.injEq, Prod.mk.injEq]
        exact ⟨fun hn => ⟨c, e, ⟨rfl, rfl⟩, hn⟩, fun ⟨_, _, ⟨_, h2⟩, hn⟩ => h2 ▸ hn⟩

/-- **targets are judged independently**: the verdict for a target is a function of its own
    path to the root only — two certificates that agree on that path (whatever else they
    contain, whatever other targets they name) give the same verdict. -/
theorem verdict_depends_on_path_only (root : String) (els els' : List Elem)
    (lv : Option Elem → Elem → Bool) (t : Elem) (fuel fuel' : Nat) (chain : List Elem)
    (h : chainUp root els fuel t = some chain) (h' : chainUp root els' fuel' t = some chain) :
    (chainUp root els fuel t).bind (fun c => validateDown lv none c.reverse) =
    (chainUp root els' fuel' t).bind (fun c => validateDown lv none c.reverse) := by
  rw [h, h']

/-- non-vacuity: a three-element chain whose middle link does not verify -/
example :
    let d : Elem := ⟨"device", "root"⟩
    let a : Elem := ⟨"attestation", "device"⟩
    let u : Elem := ⟨"ui", "attestation"⟩
    validateDown (fun c e => !(e.name == "attestation" && c == some d)) none [d, a, u]
      = some (.invalid "attestation") := by decide

end Props.C06
end PowHsm
