/-
  Driver operations: decode the case, run the model, evaluate the property oracle on the
  implementation's observed output.
-/
import PowHsm.Basic.Json
import PowHsm.Spec.C14
namespace PowHsm
namespace Ops

def optBytesToJson : Option Bytes → Json
  | none => .null
  | some b => Json.ofBytes b

def optBytesOfJson? : Json → Option (Option Bytes)
  | .null => some none
  | j => (Json.asBytes? j).map some

/-- C14: input `{"tx": hex}`, output hex or null -/
def unsign (input implOut : Json) : Option (Json × Bool) := do
  let raw ← (← input.get? "tx").asBytes?
  let io ← optBytesOfJson? implOut
  pure (optBytesToJson (Btc.getUnsignedTx raw), Spec.c14 raw io)

def run (op : String) (input implOut : Json) : Option (Json × Bool) :=
  match op with
  | "unsign" => unsign input implOut
  | _ => none

end Ops
end PowHsm
