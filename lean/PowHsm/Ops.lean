/-
  Driver operations: decode the case, run the model, evaluate the property oracle on the
  implementation's observed output.
-/
import PowHsm.Admin.Pem
import PowHsm.Basic.Json
import PowHsm.Spec.C14
import PowHsm.Ledger.Protocol
import PowHsm.Spec.C03
import PowHsm.Spec.C02
import PowHsm.Spec.C04
import PowHsm.Spec.C11
import PowHsm.Spec.C01
import PowHsm.Spec.C05
import PowHsm.Spec.C13
import PowHsm.Spec.C09
import PowHsm.Spec.C10
import PowHsm.Spec.Cert
import PowHsm.Admin.CertParse
import PowHsm.Admin.Verify
import PowHsm.Admin.SignerAuth
import PowHsm.Admin.IntelHex
import PowHsm.Admin.Commands
import PowHsm.Spec.C18
import PowHsm.Conc.Server
namespace PowHsm
namespace Ops
open Ledger Comm Dongle Spec

def optBytesToJson : Option Bytes → Json
  | none => .null
  | some b => Json.ofBytes b

def optBytesOfJson? : Json → Option (Option Bytes)
  | .null => some none
  | j => (Json.asBytes? j).map some

/-- C14: input `{"tx": hex}`, output hex or null -/
def unsign (input implOut : Json) : Option (Json × Bool) := do
  let raw ← (← input.get? "tx").asBytes?
  let io ← optBytesOfJson? implOut
  pure (optBytesToJson (Btc.getUnsignedTx raw), Spec.c14 raw io)

/-! ### the manager: one request line -/

def tableOfJson (j : Option Json) : List (Bytes × Bytes) :=
  match j with
  | some (.obj kvs) => kvs.filterMap fun (k, v) => do
      let a ← Bytes.ofHex? k
      let b ← v.asBytes?
      pure (a, b)
  | _ => []

def lookupTable (t : List (Bytes × Bytes)) (k : Bytes) : Bytes :=
  match t.find? (fun p => p.1 == k) with
  | some p => p.2
  | none => List.replicate 32 0

def bytesList (j : Option Json) : List Bytes :=
  match j with
  | some (.arr xs) => xs.filterMap Json.asBytes?
  | _ => []

def hashesOfJson (input : Json) : Hashes :=
  { keccak := lookupTable (tableOfJson (input.get? "keccak")),
    cbHash := lookupTable (tableOfJson (input.get? "cbhash")),
    tooDeep := fun raw => (bytesList (input.get? "rlp_too_deep")).contains raw }

def boolList (j : Option Json) : List Bool :=
  match j with
  | some (.arr xs) => xs.filterMap Json.asBool?
  | _ => []

def pinOfJson : Option Json → Option PinSt
  | some (.obj kvs) => do
    let pin ← (← Json.lookup kvs "pin").asBytes?
    let nc ← (← Json.lookup kvs "needs_change").asBool?
    pure { pin := pin, needsChange := nc }
  | _ => none

def worldOfJson (input : Json) : Option World := do
  let script ← scriptOfJson? (← input.get? "script")
  let plat := match input.get? "platform" with
    | some (.str "sgx") => Platform.sgx
    | some (.str "tcp") => Platform.tcp
    | _ => Platform.ledger
  pure { script := script, conns := boolList (input.get? "conns"),
         commIssue := (input.get? "comm_issue").bind Json.asBool? == some true,
         platform := plat, pin := pinOfJson (input.get? "pin"),
         genPins := bytesList (input.get? "gen_pins"), fsOk := boolList (input.get? "fs_ok") }

def modeOfJson (input : Json) : Mode :=
  match input.get? "mode" with
  | some (.str "v1") => .v1
  | _ => .v5

def parsedOfJson (input : Json) : Option Parsed :=
  match input.get? "parsed" with
  | some (.str "notutf8") => some .notUtf8
  | some (.str "notjson") => some .notJson
  | some (.str "ok") => (input.get? "request").map Parsed.ok
  | _ => none

def _root_.PowHsm.Spec.LineObs.toJson (o : LineObs) : Json :=
  .obj [("reply", o.reply), ("shutdown", .bool o.shutdown), ("events", evsToJson o.events),
        ("comm_issue", .bool o.commIssue), ("exc", .str o.exc)]

def _root_.PowHsm.Spec.LineObs.ofJson? (j : Json) : Option LineObs := do
  pure { reply := ← j.get? "reply", shutdown := ← (← j.get? "shutdown").asBool?,
         events := ← evsOfJson? (← j.get? "events"),
         commIssue := ← (← j.get? "comm_issue").asBool?,
         exc := ← (← j.get? "exc").asStr? }

def runLine (input : Json) : Option LineObs := do
  let w ← worldOfJson input
  let p ← parsedOfJson input
  let r := handleLine (modeOfJson input) (hashesOfJson input) p w
  match r.val with
  | .ok lo => pure { reply := lo.reply, shutdown := lo.shutdown, events := r.evs,
                     commIssue := r.w.commIssue,
                     exc := match lo.exc with | some e => e.name | none => "" }
  | .error _ => none     -- `handleLine` never raises

/-- C03 histories: a whole manager lifetime — the lines of `lines` handled one after the other on one
    manager and one device until a shutdown (`Ledger.serve`).  Expected of the implementation: as
    long as the device keeps to its protocol, every line is answered with a reply that carries an
    integer errorcode and the manager is still running afterwards. -/
def history (input implOut : Json) : Option (Json × Bool) := do
  let w ← worldOfJson input
  let lines ← (← input.get? "lines").asArr?
  let parsed ← lines.mapM fun l => parsedOfJson l
  let r := serve (modeOfJson input) (hashesOfJson input) parsed w
  let los ← (match r.val with | .ok los => some los | .error _ => none)
  let model : Json := .obj [
    ("lines", .arr (los.map fun lo => .obj [("reply", lo.reply), ("shutdown", .bool lo.shutdown),
      ("exc", .str (match lo.exc with | some e => e.name | none => ""))])),
    ("events", evsToJson r.evs), ("comm_issue", .bool r.w.commIssue)]
  let ievs ← evsOfJson? (← implOut.get? "events")
  let ilines ← (← implOut.get? "lines").asArr?
  let conforms := Spec.deviceConforms w.script ievs
  let ok := !conforms ||
    (ilines.length == lines.length &&
     ilines.all fun l => (match l.get? "reply" with | some rj => Spec.isReply rj | none => false) &&
       (l.get? "shutdown").bind Json.asBool? == some false)
  pure (model, ok)

/-- generic `line` op; `spec` is the property oracle evaluated on the implementation's output -/
def line (spec : Json → LineObs → Bool) (input implOut : Json) : Option (Json × Bool) := do
  let m ← runLine input
  let io ← LineObs.ofJson? implOut
  pure (m.toJson, spec input io)

def devViewOfJson (j : Json) : Option Spec.C13.DevView := do
  let nat (k : String) : Option Nat := (j.get? k).bind Json.asNat?
  let bytes (k : String) : Option Bytes := (j.get? k).bind Json.asBytes?
  let keys ← match j.get? "keys" with
    | some (.obj kvs) => kvs.mapM fun (k, v) => v.asBytes?.map fun b => (k, b)
    | _ => none
  let hashes ← match j.get? "hashes" with
    | some (.obj kvs) => kvs.mapM fun (k, v) => do pure ((← k.toNat?), (← v.asBytes?))
    | _ => none
  let flags ← match j.get? "flags" with
    | some (.arr xs) => xs.mapM Json.asNat?
    | _ => none
  pure { keys := keys, hashes := hashes, difficulty := ← nat "difficulty", flags := flags,
         checkpoint := ← bytes "checkpoint", minDifficulty := ← nat "min_difficulty",
         network := ← nat "network", hbSig := ← bytes "hb_sig", hbMsg := ← bytes "hb_msg",
         hbHash := ← bytes "hb_hash", hbPub := ← bytes "hb_pub",
         uiHbSig := ← bytes "ui_hb_sig", uiHbMsg := ← bytes "ui_hb_msg",
         uiHbHash := ← bytes "ui_hb_hash", uiHbPub := ← bytes "ui_hb_pub",
         modeBefore := ← nat "mode_before", modeAfter := ← nat "mode_after" }

/-- C09: bring-up -/
def bringup (input implOut : Json) : Option (Json × Bool) := do
  let w ← worldOfJson input
  let r := Ledger.bringUp w
  let outcome ← (match r.val with | .ok s => some s | .error _ => none)
  let model := Json.obj [("events", evsToJson r.evs), ("outcome", .str outcome),
    ("pin", match r.w.pin with | some p => Json.ofBytes p.pin | none => .null)]
  let ievs ← evsOfJson? (← implOut.get? "events")
  let iout ← (← implOut.get? "outcome").asStr?
  let needs := match w.pin with | some p => p.needsChange | none => false
  let truth : Option Spec.C09.Truth := (input.get? "truth").bind fun t => do
    let nat (k : String) : Option Nat := (t.get? k).bind Json.asNat?
    let ver (k : String) : Option (Nat × Nat × Nat) := do
      match (← t.get? k) with
      | .arr [a, b, c] => pure ((← a.asNat?), (← b.asNat?), (← c.asNat?))
      | _ => none
    pure { onboarded := ← nat "onboarded", mode := ← nat "mode", uiVersion := ← ver "ui_version",
           appVersion := ← ver "app_version", retries := ← nat "retries",
           echoOk := ← (← t.get? "echo_ok").asBool?, unlockOk := ← (← t.get? "unlock_ok").asBool?,
           afterExitMode := ← nat "after_exit_mode", hasPin := ← (← t.get? "has_pin").asBool?,
           network := ← nat "network" }
  pure (model, Spec.C09.c09 w.script needs truth { events := ievs, outcome := iout })

/-- C10: one manager life of the PIN machine -/
def pinrun (input implOut : Json) : Option (Json × Bool) := do
  let optBytes (j : Json) (k : String) : Option (Option Bytes) :=
    match j.get? k with
    | some .null => some none
    | some v => v.asBytes?.map some
    | none => some none
  let w : Spec.C10.PW := { file := ← optBytes input "file", devicePin := ← (← input.get? "device_pin").asBytes?,
                           default := ← optBytes input "default" }
  let dev ← match input.get? "dev" with
    | some (.str "accept") => some Spec.C10.DevAns.accept
    | some (.str "refuse") => some .refuse
    | some (.str "error") => some .error
    | some (.str "linkW") => some .link
    | some (.str "linkR") => some .link
    | some (.str "timeout") => some .timeout
    | _ => none
  let crash ← match input.get? "crash" with
    | some (.str "none") => some Spec.C10.Crash.none
    | some (.str "afterUnlock") => some .afterUnlock
    | some (.str "afterAck") => some .afterAck
    | some (.str "afterOpen") => some .afterOpen
    | some (.str "afterWrite") => some .afterWrite
    | _ => none
  let r : Spec.C10.Run := { force := ← (← input.get? "force").asBool?, newPin := ← (← input.get? "new_pin").asBytes?,
                            dev := dev, openOk := ← (← input.get? "open_ok").asBool?,
                            writeOk := ← (← input.get? "write_ok").asBool?, crash := crash }
  let (w', out, sent) := Spec.C10.run w r
  let outName := match out with
    | .pinError => "pinError" | .unlockFailed => "unlockFailed" | .continued => "continued"
    | .stopped => "stopped" | .crashed => "crashed"
  let model := Json.obj [("file", optBytesToJson w'.file), ("device_pin", Json.ofBytes w'.devicePin),
                         ("outcome", .str outName), ("sent", optBytesToJson sent)]
  -- oracle on the implementation's final world
  let ifile ← optBytes implOut "file"
  let idev ← (← implOut.get? "device_pin").asBytes?
  let iout ← (← implOut.get? "outcome").asStr?
  let iw : Spec.C10.PW := { w with file := ifile, devicePin := idev }
  let ok :=
    -- the file changes only after the device acknowledged, and then the device holds that PIN
    (ifile == w.file || (dev == .accept && idev == r.newPin)) &&
    -- a completed change leaves exactly that PIN in the file
    (match ifile with | some c => ifile == w.file || c.isEmpty || c == idev | none => true) &&
    -- refused / failed: untouched
    (dev == .accept || (ifile == w.file && idev == w.devicePin)) &&
    -- carries on only when no change was needed
    (iout != "continued" || (r.force == false && w.file.isSome && ifile == w.file && idev == w.devicePin)) &&
    -- recoverability
    (!Spec.C10.recoverable w || Spec.C10.recoverable iw)
  pure (model, ok)

/-- C06 / C07: the chain walk over a parsed certificate with oracle link validities.
    The oracle requires the implementation's verdicts to be exactly the ones the property
    prescribes (valid iff every link verifies; first failing element named). -/
def certvalidate (input implOut : Json) : Option (Json × Bool) := do
  let root ← (← input.get? "root").asStr?
  let els ← Spec.CertOps.elemsOfJson (input.get? "elements")
  let targets ← (← (← input.get? "targets").asArr?).mapM Json.asStr?
  -- a root of trust that is not a public key at all cannot be constructed: an error, no verdicts
  let rootOk := (input.get? "root_ok").bind Json.asBool? != some false
  let model := if rootOk then
      (Spec.CertOps.validateAll root els targets
        (match input.get? "facts" with
         | some f => Spec.CertOps.linksOfFacts (some f)
         | none => input.get? "links") (input.get? "values")).getD (.str "error")
    else .str "error"
  pure (model, model.normalize == implOut.normalize)

/-- C16: load a certificate-shaped JSON document, then validate every target with the given
    link table.  Oracle: a loaded certificate yields a verdict for every target (the walks
    terminate), equal to the model's, and survives a save / load cycle. -/
def certload (input implOut : Json) : Option (Json × Bool) := do
  let doc ← input.get? "doc"
  let b64 := boolList (input.get? "b64ok")
  let model : Json :=
    match CertParse.parse doc b64 with
    | none => .str "error"
    | some p =>
      let root := if p.version == 1 then "s:root" else "s:sgx_root"
      let verdicts := (Spec.CertOps.validateAll root p.elems p.targets (input.get? "links") none).getD (.str "no-verdict")
      -- what `save_to_jsonfile` writes and `from_jsonfile` reads back: the element dict (one entry per
      -- name, in order of first insertion, last value), validated again
      let saved := Cert.savedElems p.elems
      let verdicts2 := (Spec.CertOps.validateAll root saved p.targets (input.get? "links") none).getD (.str "no-verdict")
      .obj [("targets", .arr (p.targets.map Json.str)),
            ("elements", .arr (saved.map fun e => .arr [.str e.name, .str e.signedBy])),
            ("verdicts", verdicts),
            ("roundtrip", .str (if verdicts2.normalize == verdicts.normalize then "same" else "differs"))]
  pure (model, model.normalize == implOut.normalize)

/-- C08: the verify commands.  The certificate verdicts come from the chain model with the
    per-case link table; the oracle is equality of (finished without error, printed fields). -/
def verify (input implOut : Json) : Option (Json × Bool) := do
  let hx (b : Bytes) : Json := .str (Bytes.toHex b)
  let str (b : Bytes) : Json := .str (String.ofList (b.map fun c => Char.ofNat c.toNat))
  let fail : Json := .obj [("ok", .bool false)]
  let loaded := (input.get? "loaded_ok").bind Json.asBool? == some true
  let root ← (← input.get? "root").asStr?
  let els ← Spec.CertOps.elemsOfJson (input.get? "elements")
  let targets ← (← (← input.get? "targets").asArr?).mapM Json.asStr?
  let pkh ← (← input.get? "pubkeys_hash").asBytes?
  let tvOf (name k1 k2 : String) : Verify.TV :=
    if !targets.contains name then .absent
    else match Cert.validateTarget root els (Spec.CertOps.linkTable (input.get? "links")) name with
      | some (.valid leaf) =>
        match (input.get? "values").bind (·.get? leaf.name) with
        | some v =>
          match (v.get? k1).bind Json.asBytes?, (v.get? k2).bind Json.asBytes? with
          | some a, some b => .valid a b
          | _, _ => .invalid
        | none => .invalid
      | _ => .invalid
  -- any target whose chain walk fails altogether makes the whole call fail
  let walkOk := targets.all fun t => (Cert.validateTarget root els (Spec.CertOps.linkTable (input.get? "links")) t).isSome
  let pmFields (pm : Verify.PowHsmMsg) : List (String × Json) :=
    [("platform", str pm.platform), ("ud2", hx pm.udValue), ("best_block", hx pm.bestBlock),
     ("last_tx", hx pm.lastSignedTx), ("timestamp", .int pm.timestamp)]
  let model : Json :=
    if !loaded || !walkOk then fail
    else if (input.get? "platform") == some (.str "sgx") then
      match Verify.verifySgx pkh (tvOf "quote" "message" "quote") with
      | none => fail
      | some p => .obj [("ok", .bool true), ("printed", .obj ([("hash", hx p.pubkeysHash),
          ("mrenclave", hx p.mrenclave), ("mrsigner", hx p.mrsigner), ("version", str p.powhsm.version)]
          ++ pmFields p.powhsm))]
    else
      let pks : List Verify.Pubkey := match input.get? "pubkeys" with
        | some (.arr xs) => xs.filterMap fun x => match x with
            | .arr [.str path, c] => c.asBytes?.map fun cb => { path := path, compressed := cb }
            | _ => none
        | _ => []
      match Verify.verifyLedger pks pkh (tvOf "ui" "value" "tweak") (tvOf "signer" "value" "tweak") with
      | none => fail
      | some p => .obj [("ok", .bool true), ("printed", .obj ([("ud", hx p.udValue), ("ui_pubkey", hx p.uiPubKey),
          ("signer_hash_auth", hx p.signerHashAuth), ("iteration", .int p.signerIteration),
          ("ui_hash", hx p.uiHash), ("ui_version", str p.uiVersion), ("hash", hx p.pubkeysHash),
          ("signer_hash", hx p.signerHash), ("signer_version", str p.signerVersion)]
          ++ (match p.powhsm with | some pm => pmFields pm | none => [])))]
  pure (model, model.normalize == implOut.normalize)

/-- C17: signer version message + `authorize_signer` exchange.  Oracle: what the device checks
    (firmware `signer_authorization.c`): SIGVER carries hash ‖ BE16(iteration), signatures follow
    in file order, stopping at the first "authorized". -/
def sigauth (input implOut : Json) : Option (Json × Bool) := do
  let hash ← input.get? "hash"
  let it ← input.get? "iteration"
  let sigs := bytesList (input.get? "signatures")
  let w ← worldOfJson input
  let model : Json :=
    match SignerAuth.mkVersion hash it with
    | none => .obj [("version_ok", .bool false)]
    | some v =>
      let m := SignerAuth.msg v
      let r := SignerAuth.authorizeSigner v sigs w
      .obj [("version_ok", .bool true), ("msg", .str (String.ofList m)),
            ("eth", Json.ofBytes (SignerAuth.toAscii (SignerAuth.ethMessage m))),
            ("stored", .obj [("hash", .str v.hash), ("iteration", .int v.iteration)]),
            ("events", evsToJson r.evs),
            ("result", .str (match r.val with | .ok _ => "ok" | .error e => "error:" ++ e.name))]
  -- property-level oracle on the implementation's trace
  let ok : Bool :=
    match implOut.get? "version_ok" with
    | some (.bool false) => (SignerAuth.mkVersion hash it).isNone
    | some (.bool true) =>
      match SignerAuth.mkVersion hash it, (implOut.get? "events").bind evsOfJson?, (implOut.get? "result").bind Json.asStr? with
      | some v, some evs, some res =>
        let as := apdus evs
        let hashBytes := (Py.fromHex v.hash).getD []
        let answers := w.script.drop 1
        -- index of the first signature the device answers "authorized" (0x02) to
        let firstOk := (sigs.zip answers).findIdx? fun (_, r) =>
          match r with | .data b => b.getD 3 0 == 2 | _ => false
        -- the text to be signed and its Ethereum wrapping, as the property spells them
        implOut.get? "msg" == some (.str (String.ofList (SignerAuth.msg v))) &&
        implOut.get? "eth" == some (Json.ofBytes (SignerAuth.toAscii (SignerAuth.ethMessage (SignerAuth.msg v)))) &&
        as.head? == some ([0x80, 0x51, 0x01] ++ hashBytes ++ Bytes.be 2 v.iteration) &&
        (match w.script.head? with
         | some (.data _) =>
           (match firstOk with
            | some k =>
              -- if every earlier answer was a plain "more", exactly k+1 signatures were sent, in order
              let clean := (answers.take k).all fun r => match r with | .data b => b.length ≥ 4 | _ => false
              !clean || (as.drop 1 == (sigs.take (k + 1)).map (fun s => [0x80, 0x51, 0x02] ++ s) && res == "ok")
            | none =>
              let clean := (answers.take sigs.length).all fun r => match r with | .data b => b.length ≥ 4 | _ => false
              !clean || answers.length < sigs.length ||
                (as.drop 1 == sigs.map (fun s => [0x80, 0x51, 0x02] ++ s) && res != "ok"))
         | _ => res != "ok")
      | _, _, _ => false
    | _ => false
  pure (model, ok)

/-- C19: Intel-HEX parsing and what `compute_app_hash` hashes.  `image` (when present) is the
    generator's own ground truth: the bytes of the image's data areas in address order. -/
def hexhash (input implOut : Json) : Option (Json × Bool) := do
  let recs := bytesList (input.get? "records")
  let model : Json := match IntelHex.parse recs with
    | none => .str "error"
    | some as => .obj [("areas", .arr (as.map fun a => .arr [.int a.start, Json.ofBytes a.data])),
                       ("hashed", Json.ofBytes ((as.map (·.data)).flatten))]
  let ok := match input.get? "image" with
    | some img => (implOut.get? "hashed") == some img
    | none => true
  pure (model, ok && model.normalize == implOut.normalize)

/-- C15: the root of trust / a chain certificate read from PEM text.  Expected: the element holds
    exactly the DER bytes the text encodes. -/
def pem (input implOut : Json) : Option (Json × Bool) := do
  let text ← (← input.get? "text").asStr?
  let der ← (← input.get? "der").asBytes?
  let model : Json := match Pem.load text.toList with
    | some b => Json.ofBytes b
    | none => .str "error"
  pure (model, implOut == Json.ofBytes der)

def strList (j : Option Json) : List String :=
  match j with
  | some (.arr xs) => xs.filterMap Json.asStr?
  | _ => []

/-- C18: the admin commands against a scripted device and a scripted operator -/
def admin (input implOut : Json) : Option (Json × Bool) := do
  let w0 ← worldOfJson input
  let w : World := { w0 with stdinLines := strList (input.get? "stdin"), getpassLines := strList (input.get? "getpass"),
                             seed := ((input.get? "seed").bind Json.asBytes?).getD [] }
  let cmd ← (← input.get? "cmd").asStr?
  let optStr (k : String) : Option String := match input.get? k with | some (.str s) => some s | _ => none
  let flag (k : String) : Bool := (input.get? k).bind Json.asBool? == some true
  let o : Admin.Options := { pin := optStr "pin", newPin := optStr "new_pin", anyPin := flag "any_pin",
                             noUnlock := flag "no_unlock", noExec := flag "no_exec",
                             hasOutput := (input.get? "has_output").bind Json.asBool? != some false }
  let finish {α : Type} (r : Res α) (extra : α → List (String × Json)) : Json :=
    match r.val with
    | .ok a => .obj ([("ok", .bool true), ("events", evsToJson r.evs)] ++ extra a)
    | .error e => .obj [("ok", .bool false), ("events", evsToJson r.evs),
                        ("exc", .str (if e == .exception then "AdminError" else e.name))]
  let model : Json ← (match cmd with
    | "unlock" => some (finish (Admin.doUnlock o true false w) fun _ => [])
    | "onboard" => some (finish (Admin.doOnboard o w) fun _ => [])
    | "changepin" => some (finish (Admin.doChangePin o w) fun _ => [])
    | "pubkeys" =>
      let table : List (Bytes × Option Bytes) := match input.get? "key_norm" with
        | some (.obj kvs) => kvs.filterMap fun (k, v) => (Bytes.ofHex? k).map fun kb => (kb, v.asBytes?)
        | _ => []
      let keyNorm (b : Bytes) : Option Bytes := match table.find? (·.1 == b) with
        | some (_, r) => r
        | none => some b
      let r := Admin.doGetPubkeys o keyNorm w
      let paths := Spec.C18.docPathStrs
      let files : Json := match r.w.pubkeyFiles with
        | none => .obj [("txt", .str "intact"), ("json", .str "intact")]
        | some (n, j) => .obj [("txt", .arr ((paths.take n).map Json.str)),
                               ("json", if j then .arr (paths.map Json.str) else .str "intact")]
      match finish r fun ks => [("pubkeys", .arr (ks.map Json.ofBytes))] with
      | .obj kvs => some (.obj (kvs ++ [("files", files)]))
      | j => some j
    | _ => none)
  let ievs ← evsOfJson? (← implOut.get? "events")
  let iok ← (← implOut.get? "ok").asBool?
  let fileObs (k : String) : Option (List String) := match (implOut.get? "files").bind (·.get? k) with
    | some (.arr xs) => some (xs.filterMap Json.asStr?)
    | _ => none
  -- a genuine device answers GET_PUBLIC_KEY with points of the curve (python-ecdsa's reading, an input)
  let normTable : List (Bytes × Bool) := match input.get? "key_norm" with
    | some (.obj kvs) => kvs.filterMap fun (k, v) => (Bytes.ofHex? k).map fun kb => (kb, v.asBytes?.isSome)
    | _ => []
  let genuineKeys : Bool := (Spec.C09.pairs (apdus ievs) w.script).all fun (a, r) =>
    match r with
    | .data b => Spec.C09.cmdOf a != 0x04 || ((normTable.find? (·.1 == b)).map (·.2)).getD true
    | _ => true
  let ok := Spec.C18.c18 cmd o.anyPin (if cmd == "changepin" then o.newPin.isSome else o.pin.isSome) w.seed
    w.stdinLines w.script { events := ievs, ok := iok } &&
    (cmd != "pubkeys" || !genuineKeys || Spec.C18.filesOk o.hasOutput iok (fileObs "txt") (fileObs "json"))
  pure (model, ok)

/-- C12: the device log of a run of the real server under concurrent clients.  `clients` are
    (id, number of device exchanges of its request) in the order their first APDU was seen. -/
def conc (input implOut : Json) : Option (Json × Bool) := do
  let clients ← (← (← input.get? "clients").asArr?).mapM fun c => match c with
    | .arr [a, b] => do pure ((← a.asNat?), (← b.asNat?))
    | _ => none
  let kind := Conc.kindOfString Generated.serverKind
  let model : Json := if kind == .sequential then
      .obj [("log", .arr ((Conc.sequentialLog clients).map fun n => .int (Int.ofNat n))), ("replies_ok", .bool true)]
    else .str "not-sequential"
  let ilog ← (← (← implOut.get? "log").asArr?).mapM Json.asNat?
  let rok ← (← implOut.get? "replies_ok").asBool?
  pure (model, Conc.blocks ilog && rok)

/-- C15: end to end.  Input: what the simulated genuine device holds (messages, hashes, keys
    hash, raw quote) and whether one of its answers / the root was altered.  Expected: a genuine
    run is accepted with exactly the device's values; an altered one is not accepted. -/
def e2e (input implOut : Json) : Option (Json × Bool) := do
  let hx (b : Bytes) : Json := .str (Bytes.toHex b)
  let str (b : Bytes) : Json := .str (String.ofList (b.map fun c => Char.ofNat c.toNat))
  let altered := (input.get? "altered").bind Json.asBool? == some true
  let bytes (k : String) : Option Bytes := (input.get? k).bind Json.asBytes?
  let pkh ← bytes "pubkeys_hash"
  let pmFields (pm : Verify.PowHsmMsg) : List (String × Json) :=
    [("platform", str pm.platform), ("ud2", hx pm.udValue), ("best_block", hx pm.bestBlock),
     ("last_tx", hx pm.lastSignedTx), ("timestamp", .int pm.timestamp)]
  let fail : Json := .obj [("ok", .bool false)]
  let model : Json :=
    if altered then fail
    else if (input.get? "platform") == some (.str "sgx") then
      match bytes "message", bytes "quote" with
      | some m, some q =>
        (match Verify.verifySgx pkh (.valid m q) with
         | none => fail
         | some p => .obj [("ok", .bool true), ("printed", .obj ([("hash", hx p.pubkeysHash),
             ("mrenclave", hx p.mrenclave), ("mrsigner", hx p.mrsigner), ("version", str p.powhsm.version)]
             ++ pmFields p.powhsm))])
      | _, _ => fail
    else
      let pks : List Verify.Pubkey := match input.get? "pubkeys" with
        | some (.arr xs) => xs.filterMap fun x => match x with
            | .arr [.str path, c] => c.asBytes?.map fun cb => { path := path, compressed := cb }
            | _ => none
        | _ => []
      match bytes "ui_msg", bytes "ui_hash", bytes "signer_msg", bytes "signer_hash" with
      | some um, some uh, some sm, some sh =>
        (match Verify.verifyLedger pks pkh (.valid um uh) (.valid sm sh) with
         | none => fail
         | some p => .obj [("ok", .bool true), ("printed", .obj ([("ud", hx p.udValue), ("ui_pubkey", hx p.uiPubKey),
             ("signer_hash_auth", hx p.signerHashAuth), ("iteration", .int p.signerIteration),
             ("ui_hash", hx p.uiHash), ("ui_version", str p.uiVersion), ("hash", hx p.pubkeysHash),
             ("signer_hash", hx p.signerHash), ("signer_version", str p.signerVersion)]
             ++ (match p.powhsm with | some pm => pmFields pm | none => [])))])
      | _, _, _, _ => fail
  pure (model, model.normalize == implOut.normalize)

def run (op : String) (input implOut : Json) : Option (Json × Bool) :=
  match op with
  | "unsign" => unsign input implOut
  | "line" => line (fun _ _ => true) input implOut
  | "line.C03" => line (fun i o => match worldOfJson i with
      | some w => Spec.c03 w.script w.commIssue o | none => false) input implOut
  | "line.C02" => line (fun i o => match i.get? "request" with
      | some j => Spec.C02.allowedObs (modeOfJson i) j o
      | none => Spec.C02.allowedObs (modeOfJson i) (.str "<undecodable>") o) input implOut
  | "line.C04" => line (fun i o => match worldOfJson i, i.get? "request" with
      | some w, some j => Spec.C04.c04 (modeOfJson i) j w.script w.commIssue o
      | _, _ => false) input implOut
  | "line.C11" => line (fun i o => match worldOfJson i, i.get? "request" with
      | some w, some j => Spec.C11.c11 (modeOfJson i) (Spec.C04.commandOf j) w.script w.commIssue o
      | _, _ => false) input implOut
  | "line.C01" => line (fun i o => match worldOfJson i, i.get? "request" with
      | some w, some j => Spec.C01.c01 (modeOfJson i) j w.script w.commIssue o
      | _, _ => false) input implOut
  | "line.C05" => line (fun i o => match worldOfJson i, i.get? "request" with
      | some w, some j => Spec.C05.c05 j (hashesOfJson i).keccak (hashesOfJson i).cbHash w.script w.commIssue o
      | _, _ => false) input implOut
  | "line.C13" => line (fun i o => match i.get? "request", (i.get? "devstate").bind devViewOfJson with
      | some j, some d => Spec.C13.c13 j d o
      | _, _ => false) input implOut
  | "bringup" => bringup input implOut
  | "pinrun" => pinrun input implOut
  | "genpin" => do
    -- `BasePin.generate_pin` under a scripted random source: the first draw that satisfies the policy
    let draws ← (← (← input.get? "draws").asArr?).mapM Json.asBytes?
    let model := match Spec.C10.generatePin draws with
      | some p => Json.obj [("pin", Json.ofBytes p)]
      | none => Json.obj [("pin", .null)]
    let ok := match (implOut.get? "pin").bind Json.asBytes? with
      | some p => Spec.C10.isValidPin p
      | none => false
    pure (model, ok)
  | "certvalidate" => certvalidate input implOut
  | "certload" => certload input implOut
  | "verify" => verify input implOut
  | "sigauth" => sigauth input implOut
  | "hexhash" => hexhash input implOut
  | "admin" => admin input implOut
  | "conc" => conc input implOut
  | "e2e" => e2e input implOut
  | "pem" => pem input implOut
  | "history" => history input implOut
  | "line.C10" => line (fun i o => match worldOfJson i with
      | some w =>
        -- a request that repairs the link may run the PIN protocol: after any change attempt the
        -- manager stops, and the PIN file is written only once the device acknowledged the new PIN
        let as := apdus o.events
        let isChange (a : Bytes) : Bool := Spec.C09.cmdOf a == 0x08 || Spec.C09.cmdOf a == 0xA5
        let attempted := as.any isChange
        let acked := (Spec.C09.pairs as w.script).any fun (a, r) =>
          isChange a && (match r with
            | .data b => if Spec.C09.cmdOf a == 0xA5 then (b.getD 2 0).toNat == 1 else true
            | _ => false)
        let wrote := o.events.any fun e => match e with | .fileWrite _ _ => true | _ => false
        (!attempted || o.shutdown) && (!wrote || acked)
      | none => false) input implOut
  | "line.C14" => line (fun i o =>
      -- a transaction that cannot be decoded, or has an input with an empty script, is answered
      -- -102 without contacting the device: no event of any kind (no APDU, no disconnect, no connect)
      let bad : Bool := match i.get? "request" with
        | some (.obj kvs) =>
          (match Json.lookup kvs "message" with
           | some (.obj m) =>
             (match Json.lookup m "tx" with
              | some (.str t) => (match Py.fromHex t with
                  | some (b :: bs) => (Btc.getUnsignedTx (b :: bs)).isNone
                  | _ => false)
              | _ => false)
           | _ => false)
        | _ => false
      !bad || (Spec.errorcode? o.reply == some (-102) && o.events.isEmpty && !o.shutdown)) input implOut
  | _ => none

end Ops
end PowHsm
