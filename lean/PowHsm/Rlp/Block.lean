/-
  `ledger/block_utils.py`.  `keccak` and the midstate coinbase hash are parameters.
-/
import PowHsm.Rlp.Rlp
namespace PowHsm
namespace Block
open Rlp

/-- `len(block)` on what `rlp.decode` returned (a list, or a byte string!) -/
def numFields : Rlp → Nat
  | .str b => b.length
  | .list xs => xs.length

/-- `block[:-k]` -/
def dropFields (k : Nat) : Rlp → Rlp
  | .str b => .str (b.take (b.length - k))
  | .list xs => .list (xs.take (xs.length - k))

/-- `remove_mm_fields_if_present(raw, leave_btcblock, hex=False)`; `none` = `ValueError` -/
def removeMM (raw : Bytes) (leaveBtc : Bool) : Option Bytes :=
  match decode raw with
  | none => none
  | some block =>
    let n := numFields block
    if !(n == 17 || n == 18 || n == 19 || n == 20) then none
    else
      let b' :=
        if n == 19 || n == 20 then (if leaveBtc then dropFields 2 block else dropFields 3 block)
        else (if leaveBtc then block else dropFields 1 block)
      some (enc b')

/-- `rlp_first_element_list_payload_length` -/
def listPayloadLength (bs : Bytes) : Option Nat :=
  match bs with
  | [] => none      -- IndexError in Python; unreachable (an encoding is never empty)
  | b :: rest =>
    if 0xC0 ≤ b.toNat && b.toNat ≤ 0xF7 then some (b.toNat - 0xC0)
    else if 0xF8 ≤ b.toNat then
      let n := b.toNat - 0xF7
      if rest.length < n then none else some (Bytes.beVal (rest.take n))
    else none

/-- `rlp_mm_payload_size` -/
def mmPayloadSize (raw : Bytes) : Option Nat :=
  match removeMM raw false with
  | none => none
  | some e => listPayloadLength e

/-- `get_block_hash` (as bytes) -/
def blockHash (keccak : Bytes → Bytes) (raw : Bytes) : Option Bytes :=
  (removeMM raw true).map keccak

/-- `get_coinbase_txn` (as bytes) -/
def coinbaseTxn (raw : Bytes) : Option Bytes :=
  match decode raw with
  | none => none
  | some block =>
    let n := numFields block
    if !(n == 19 || n == 20) then none
    else
      match block with
      | .list xs =>
        match xs.getLast? with
        | some (.str b) => some b
        | _ => none
      | .str _ => none

end Block
end PowHsm
