/-
  pyrlp 5.0.0 (pure Python back end) `decode` (strict) and `encode` on raw items
  (DESIGN Appendix B).  Every failure of `rlp.decode` is turned into `ValueError` by
  `block_utils`, so failures are `none`.  A bounds-checked parser accepts exactly the inputs
  pyrlp accepts: pyrlp's unchecked slices can only run past the buffer in items whose extent
  exceeds the enclosing list / the input, which it rejects afterwards.
  (Not modelled: CPython's recursion limit on nesting deeper than several hundred lists.)
-/
import PowHsm.Basic.Bytes
namespace PowHsm

inductive Rlp where
  | str (b : Bytes)
  | list (xs : List Rlp)
  deriving Repr, Inhabited

namespace Rlp

/-- minimal big-endian (`int_to_big_endian`) for positive numbers -/
def beMin (n : Nat) : Bytes :=
  if n < 256 then [UInt8.ofNat n]
  else beMin (n / 256) ++ [UInt8.ofNat (n % 256)]
decreasing_by omega

/-- `length_prefix(length, offset)` (lengths ≥ 256⁸ do not occur: inputs are decoded blocks) -/
def lengthPrefix (len offset : Nat) : Bytes :=
  if len < 56 then [UInt8.ofNat (offset + len)]
  else
    let lb := beMin len
    UInt8.ofNat (offset + 55 + lb.length) :: lb

mutual
  /-- `encode_raw` -/
  def enc : Rlp → Bytes
    | .str b =>
      match b with
      | [x] => if x.toNat < 128 then [x] else lengthPrefix 1 128 ++ [x]
      | _ => lengthPrefix b.length 128 ++ b
    | .list xs =>
      let payload := encList xs
      lengthPrefix payload.length 192 ++ payload
  def encList : List Rlp → Bytes
    | [] => []
    | x :: xs => enc x ++ encList xs
end

mutual
  /-- one item from the front of the buffer: `consume_item` -/
  def decItem : Nat → Bytes → Option (Rlp × Bytes)
    | 0, _ => none
    | _, [] => none
    | fuel + 1, b0 :: rest =>
      let b := b0.toNat
      if b < 128 then some (.str [b0], rest)
      else if b < 184 then
        let n := b - 128
        if rest.length < n then none
        else if n == 1 && (rest.headD 0).toNat < 128 then none
        else some (.str (rest.take n), rest.drop n)
      else if b < 192 then
        let ll := b - 183
        if rest.length < ll then none
        else
          let lenb := rest.take ll
          if lenb.headD 0 == 0 then none
          else
            let l := Bytes.beVal lenb
            let rest' := rest.drop ll
            if l < 56 || rest'.length < l then none
            else some (.str (rest'.take l), rest'.drop l)
      else if b < 248 then
        let n := b - 192
        if rest.length < n then none
        else (decItems fuel (rest.take n)).map fun xs => (.list xs, rest.drop n)
      else
        let ll := b - 247
        if rest.length < ll then none
        else
          let lenb := rest.take ll
          if lenb.headD 0 == 0 then none
          else
            let l := Bytes.beVal lenb
            let rest' := rest.drop ll
            if l < 56 || rest'.length < l then none
            else (decItems fuel (rest'.take l)).map fun xs => (.list xs, rest'.drop l)
  /-- all the items of a list payload -/
  def decItems : Nat → Bytes → Option (List Rlp)
    | 0, _ => none
    | _, [] => some []
    | fuel + 1, b :: bs =>
      match decItem fuel (b :: bs) with
      | none => none
      | some (x, rest) => (decItems fuel rest).map (x :: ·)
end

/-- `rlp.decode(bs)` (strict) -/
def decode (bs : Bytes) : Option Rlp :=
  match decItem (2 * bs.length + 2) bs with
  | some (x, []) => some x
  | _ => none

end Rlp
end PowHsm
