/-
  `SignerVersion`, `encode_eth_message` (admin/signer_authorization.py, admin/ledger_utils.py)
  and `HSM2Dongle.authorize_signer` (ledger/hsm2dongle.py:1108-1132).
-/
import PowHsm.Dongle.Sign
namespace PowHsm
namespace SignerAuth
open Dongle Generated Tbl

/-- decimal rendering of a natural number (`str(n)`), most significant digit first -/
def digitChar (d : Nat) : Char := ['0', '1', '2', '3', '4', '5', '6', '7', '8', '9'].getD d '0'

def digitsRev : Nat → Nat → List Char
  | 0, _ => []
  | fuel + 1, n => digitChar (n % 10) :: (if n / 10 = 0 then [] else digitsRev fuel (n / 10))

def decimal (n : Nat) : List Char := (digitsRev (n + 1) n).reverse

def hexDigitVal (c : Char) : Option Nat := Bytes.hexVal? c

/-- `int(s, 10)` / `int(s[2:], 16)` for plain ASCII digit strings (Python also accepts signs,
    underscores, surrounding whitespace and non-ASCII digits: not modelled, not generated) -/
def parseIteration (s : String) : Option Nat :=
  let cs := s.toList
  if cs.take 2 == ['0', 'x'] then
    let ds := cs.drop 2
    if ds.isEmpty then none
    else ds.foldl (fun acc c => acc.bind fun a => (hexDigitVal c).map fun d => a * 16 + d) (some 0)
  else if cs.isEmpty then none
  else cs.foldl (fun acc c => acc.bind fun a =>
      if '0' ≤ c ∧ c ≤ '9' then some (a * 10 + (c.toNat - 48)) else none) (some 0)

structure SignerVersion where
  hash : String        -- lower-cased, as stored
  iteration : Nat
  deriving Repr, DecidableEq

/-- `SignerVersion(hash, iteration)`; `none` = ValueError -/
def mkVersion (hash : Json) (iteration : Json) : Option SignerVersion :=
  match hash with
  | .str h =>
    if !Py.isHexOfLength h 32 then none
    else
      let it : Option Int := match iteration with
        | .int n => some n
        | .str s => (parseIteration s).map Int.ofNat
        | _ => none
      match it with
      | some n => if n < 0 || n ≥ 65536 then none else some { hash := h.toLower, iteration := n.toNat }
      | none => none
  | _ => none

/-- `SignerVersion.msg` -/
def msg (v : SignerVersion) : List Char :=
  "RSK_powHSM_signer_".toList ++ v.hash.toList ++ "_iteration_".toList ++ decimal v.iteration

/-- `encode_eth_message(msg)` -/
def ethMessage (m : List Char) : List Char :=
  [Char.ofNat 0x19] ++ "Ethereum Signed Message:\n".toList ++ decimal m.length ++ m

def toAscii (cs : List Char) : Bytes := cs.map fun c => UInt8.ofNat c.toNat

def CMD_AUTH : UInt8 := u8 Command_SIGNER_AUTH
def OP_SIGVER : UInt8 := u8 SignerAuthorizationOps_OP_SIGVER
def OP_SIGN : UInt8 := u8 SignerAuthorizationOps_OP_SIGN
def RES_SUCCESS : UInt8 := u8 SignerAuthorizationOps_OP_SIGN_RES_SUCCESS

/-- the `for signature in signatures` loop; `last` is the previous `result` (`None` at first) -/
def signLoop : List Bytes → Option UInt8 → M Bool
  | [], last => if last == some RES_SUCCESS then pure true else M.throw' .dongleError
  | s :: rest, _ => do
    let r ← sendCommand CMD_AUTH (OP_SIGN :: s)
    let b ← idx r 3
    if b == RES_SUCCESS then pure true else signLoop rest (some b)

/-- `authorize_signer(signer_authorization)` -/
def authorizeSigner (v : SignerVersion) (sigs : List Bytes) : M Bool := do
  let h := (Py.fromHex v.hash).getD []
  if v.iteration ≥ 65536 then M.throw' .overflowError else
  let _ ← sendCommand CMD_AUTH (OP_SIGVER :: (h ++ Bytes.be SIGNER_AUTH_ITERATION_SIZE v.iteration))
  signLoop sigs none

end SignerAuth
end PowHsm
