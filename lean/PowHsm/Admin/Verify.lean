/-
  `do_verify_attestation` of admin/verify_ledger_attestation.py and
  admin/verify_sgx_attestation.py, and `PowHsmAttestationMessage` of
  admin/attestation_utils.py, as decision functions of the certificate verdicts, the
  operator's public keys and the signed messages.  `none` is `AdminError`.
-/
import PowHsm.Basic.Bytes
namespace PowHsm
namespace Verify

def ascii (s : String) : Bytes := s.toList.map fun c => UInt8.ofNat c.toNat

def isDigit (b : UInt8) : Bool := 48 ≤ b.toNat && b.toNat ≤ 57

/-- bytes regex `^<prefix>([<lo>-<hi>].[0-9])<suffix>`: returns (version bytes, header length).
    `.` is any byte but a line feed. -/
def matchHeader (pfx : String) (lo hi : Nat) (sfx : String) (msg : Bytes) : Option (Bytes × Nat) :=
  let p := ascii pfx
  let s := ascii sfx
  if msg.take p.length != p then none
  else
    match msg.drop p.length with
    | a :: b :: c :: rest =>
      if lo ≤ a.toNat && a.toNat ≤ hi && b.toNat != 10 && isDigit c && rest.take s.length == s then
        some ([a, b, c], p.length + 3 + s.length)
      else none
    | _ => none

/-- `UI_MESSAGE_HEADER_REGEX = ^HSM:UI:([2345].[0-9])` -/
def uiHeader := matchHeader "HSM:UI:" 50 53 ""
/-- `SIGNER_LEGACY_MESSAGE_HEADER_REGEX = ^HSM:SIGNER:([2345].[0-9])` -/
def legacyHeader := matchHeader "HSM:SIGNER:" 50 53 ""
/-- `PowHsmAttestationMessage.HEADER_REGEX = ^POWHSM:(5.[0-9])::` -/
def powhsmHeader := matchHeader "POWHSM:" 53 53 "::"

structure PowHsmMsg where
  version : Bytes
  platform : Bytes
  udValue : Bytes
  pubkeysHash : Bytes
  bestBlock : Bytes
  lastSignedTx : Bytes
  timestamp : Nat
  deriving Repr, DecidableEq

/-- `PowHsmAttestationMessage(value)`: header, then exactly 3+32+32+32+8+8 = 115 bytes -/
def parsePowHsm (msg : Bytes) : Option PowHsmMsg :=
  match powhsmHeader msg with
  | none => none
  | some (ver, hlen) =>
    if msg.length != hlen + 115 then none
    else
      let b := msg.drop hlen
      some { version := ver, platform := b.take 3, udValue := (b.drop 3).take 32,
             pubkeysHash := (b.drop 35).take 32, bestBlock := (b.drop 67).take 32,
             lastSignedTx := (b.drop 99).take 8, timestamp := Bytes.beVal ((b.drop 107).take 8) }

/-- a verdict of `validate_and_get_values` for one target -/
inductive TV where
  | absent
  | invalid
  | valid (message : Bytes) (tweak : Bytes)
  deriving Repr

structure Pubkey where
  path : String
  compressed : Bytes
  deriving Repr

structure LedgerPrinted where
  udValue : Bytes
  uiPubKey : Bytes
  signerHashAuth : Bytes
  signerIteration : Nat
  uiHash : Bytes
  uiVersion : Bytes
  pubkeysHash : Bytes
  signerHash : Bytes
  signerVersion : Bytes
  powhsm : Option PowHsmMsg
  deriving Repr

/-- the Ledger flow after the root, the public keys and the certificate were loaded;
    `pubkeysHash` = SHA-256 of the operator's keys, uncompressed, in path order -/
def verifyLedger (pubkeys : List Pubkey) (pubkeysHash : Bytes) (ui signer : TV) : Option LedgerPrinted :=
  match pubkeys.find? (·.path == "m/44'/0'/0'/0/0") with
  | none => none
  | some uiKey =>
    match ui with
    | .valid uiMsg uiHash =>
      match uiHeader uiMsg with
      | none => none
      | some (uiVer, mh) =>
        let ud := (uiMsg.drop mh).take 32
        let pk := (uiMsg.drop (mh + 32)).take 33
        let sh := (uiMsg.drop (mh + 65)).take 32
        let it := Bytes.beVal ((uiMsg.drop (mh + 97)).take 2)
        if pk != uiKey.compressed then none
        else
          match signer with
          | .valid sMsg sHash =>
            let fin (ver : Bytes) (reported : Bytes) (pm : Option PowHsmMsg) : Option LedgerPrinted :=
              if reported != pubkeysHash then none
              else some { udValue := ud, uiPubKey := pk, signerHashAuth := sh, signerIteration := it,
                          uiHash := uiHash, uiVersion := uiVer, pubkeysHash := pubkeysHash,
                          signerHash := sHash, signerVersion := ver, powhsm := pm }
            match legacyHeader sMsg with
            | some (ver, hlen) =>
              if !(sMsg.drop (hlen + 32)).isEmpty then none
              else fin ver (sMsg.drop hlen) none
            | none =>
              if (powhsmHeader sMsg).isNone then none
              else
                match parsePowHsm sMsg with
                | none => none
                | some pm => fin pm.version pm.pubkeysHash (some pm)
          | _ => none
    | _ => none

structure SgxPrinted where
  pubkeysHash : Bytes
  mrenclave : Bytes
  mrsigner : Bytes
  powhsm : PowHsmMsg
  deriving Repr

/-- the SGX flow after the (self-validated) root, the public keys and the certificate were
    loaded: the quote target's custom message and the raw quote -/
def verifySgx (pubkeysHash : Bytes) (quoteT : TV) : Option SgxPrinted :=
  match quoteT with
  | .valid msg quoteRaw =>
    if (powhsmHeader msg).isNone then none
    else
      match parsePowHsm msg with
      | none => none
      | some pm =>
        if pm.pubkeysHash != pubkeysHash then none
        else some { pubkeysHash := pubkeysHash, mrenclave := (quoteRaw.drop (48 + 64)).take 32,
                    mrsigner := (quoteRaw.drop (48 + 128)).take 32, powhsm := pm }
  | _ => none

end Verify
end PowHsm
