/-
  Loading an X.509 certificate from PEM text as `HSMCertificateV2ElementX509.from_pem` does it
  (admin/certificate_v2.py:225-234): collapse white space, delete the two markers, strip, and
  `base64.b64decode` (non-validating: characters outside the alphabet are skipped).
-/
import PowHsm.Basic.Bytes
import PowHsm.Basic.PyStr
namespace PowHsm
namespace Pem

def alphabet : List Char :=
  "ABCDEFGHIJKLMNOPQRSTUVWXYZabcdefghijklmnopqrstuvwxyz0123456789+/".toList

def b64Char (n : Nat) : Char := alphabet.getD n 'A'

def sextet? (c : Char) : Option Nat :=
  let i := alphabet.idxOf c
  if i < 64 then some i else none

/-- `base64.b64encode` -/
def encode : Bytes → List Char
  | a :: b :: c :: rest =>
    let n := a.toNat * 65536 + b.toNat * 256 + c.toNat
    b64Char (n / 262144) :: b64Char (n / 4096 % 64) :: b64Char (n / 64 % 64) :: b64Char (n % 64) :: encode rest
  | [a, b] =>
    let n := a.toNat * 65536 + b.toNat * 256
    [b64Char (n / 262144), b64Char (n / 4096 % 64), b64Char (n / 64 % 64), '=']
  | [a] =>
    let n := a.toNat * 65536
    [b64Char (n / 262144), b64Char (n / 4096 % 64), '=', '=']
  | [] => []

/-- groups of four sextets to bytes; the tail of 2 or 3 sextets needs its padding -/
def decodeSextets : List Nat → Nat → Option Bytes
  | s0 :: s1 :: s2 :: s3 :: rest, pads =>
    let n := s0 * 262144 + s1 * 4096 + s2 * 64 + s3
    (decodeSextets rest pads).map fun t =>
      UInt8.ofNat (n / 65536) :: UInt8.ofNat (n / 256 % 256) :: UInt8.ofNat (n % 256) :: t
  | [s0, s1, s2], pads =>
    let n := s0 * 262144 + s1 * 4096 + s2 * 64
    if pads ≥ 1 then some [UInt8.ofNat (n / 65536), UInt8.ofNat (n / 256 % 256)] else none
  | [s0, s1], pads =>
    let n := s0 * 262144 + s1 * 4096
    if pads ≥ 2 then some [UInt8.ofNat (n / 65536)] else none
  | [_], _ => none
  | [], _ => some []

/-- `binascii.a2b_base64` without `strict_mode`, for texts in which data characters do not
    follow padding (what `b64encode` and PEM writers produce) -/
def decode (cs : List Char) : Option Bytes :=
  let body := cs.takeWhile (· != '=')
  let pads := (cs.dropWhile (· != '=')).countP (· == '=')
  decodeSextets (body.filterMap sextet?) pads

/-- `re.sub(r"[\s\n\r]+", " ", s)` on ASCII text -/
def collapse (inWs : Bool) : List Char → List Char
  | [] => []
  | c :: cs =>
    if Py.isSpace c then (if inWs then collapse true cs else ' ' :: collapse true cs)
    else c :: collapse false cs

def collapseWs : List Char → List Char := collapse false

/-- `str.replace(pat, "")` -/
def removeAll (pat : List Char) : Nat → List Char → List Char
  | 0, s => s
  | _, [] => []
  | fuel + 1, c :: cs =>
    if pat ≠ [] ∧ pat.isPrefixOf (c :: cs) then removeAll pat fuel ((c :: cs).drop pat.length)
    else c :: removeAll pat fuel cs

def strip (s : List Char) : List Char :=
  ((s.dropWhile Py.isSpace).reverse.dropWhile Py.isSpace).reverse

def headerBegin : List Char := "-----BEGIN CERTIFICATE-----".toList
def headerEnd : List Char := "-----END CERTIFICATE-----".toList

/-- the `message` bytes of the element `from_pem` builds (`none`: "Invalid message") -/
def load (text : List Char) : Option Bytes :=
  let a := collapseWs text
  let b := removeAll headerEnd a.length a
  let c := removeAll headerBegin b.length b
  decode (strip c)

/-- PEM text as certificate tools write it: markers on their own lines, body in lines of `w` -/
def chunk (w : Nat) : Nat → List Char → List (List Char)
  | 0, _ => []
  | _, [] => []
  | fuel + 1, cs => cs.take (w + 1) :: chunk w fuel (cs.drop (w + 1))

def text (w : Nat) (der : Bytes) : List Char :=
  headerBegin ++ ['\n'] ++
    ((chunk w (encode der).length (encode der)).map (· ++ ['\n'])).flatten ++ headerEnd ++ ['\n']

end Pem
end PowHsm
