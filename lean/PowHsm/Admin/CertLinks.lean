/-
  `is_valid(certifier)` of the three version-2 element classes (admin/certificate_v2.py) and of the
  version-1 element (admin/certificate_v1.py), over the primitive facts the cryptographic libraries
  deliver: ECDSA verification, SHA-256 comparison, X.509 parsing and the clock are inputs (`LinkFacts`);
  what is modelled is how the code combines them — the order of the checks, which failures and
  exceptions mean "not valid", the comparison against the validity period.
-/
namespace PowHsm
namespace Cert

inductive ElemKind where
  | x509 | attKey | quote | v1 | other
  deriving DecidableEq, Repr, Inhabited

/-- what the libraries say about one element and the element (or root of trust) offered as its certifier -/
structure LinkFacts where
  kind : ElemKind
  /-- the certifier is an X.509 element (`isinstance(certifier, type(self))`; the SGX root of trust is one) -/
  certifierIsX509 : Bool := false
  /-- the element's own material and the certifier's parse (certificate loads, key is a point) -/
  loads : Bool := false
  /-- the clock and the subject's validity period, microseconds since the epoch -/
  now : Int := 0
  notBefore : Int := 0
  notAfter : Int := 0
  /-- the report data begins with SHA-256(key ‖ auth data) / SHA-256(custom data) -/
  bound : Bool := false
  /-- `certifier.get_pubkey()` delivers a key (an X.509 certificate with a P-256 key, an attestation key) -/
  certifierHasKey : Bool := false
  /-- the signature verifies under the certifier's key over the prescribed digest
      (v1: under the key tweaked by HMAC-SHA256(tweak, key) when `tweaked`) -/
  sigOk : Bool := false
  /-- v1: the element declares a tweak; the signature then has to verify under the tweaked key -/
  tweaked : Bool := false
  sigOkTweaked : Bool := false
  deriving Repr, Inhabited

/-- `HSMCertificateV2ElementX509.is_valid` -/
def x509Valid (f : LinkFacts) : Bool :=
  if !f.certifierIsX509 then false
  else if !f.loads then false                                  -- `.certificate` raises: caught
  else if f.notBefore > f.now || f.notAfter < f.now then false -- 1. validity period
  else f.sigOk                                                 -- 2. issuer signature (raises if bad: caught)

/-- `HSMCertificateV2ElementSGXAttestationKey.is_valid` and `…SGXQuote.is_valid`: the binding first,
    then the certifier's key and signature; any exception is "not valid" -/
def sgxValid (f : LinkFacts) : Bool :=
  if !f.loads then false
  else if !f.bound then false
  else if !f.certifierHasKey then false
  else f.sigOk

/-- `HSMCertificateElement.is_valid` (version 1) -/
def v1Valid (f : LinkFacts) : Bool :=
  if f.tweaked then f.sigOkTweaked else f.sigOk

def linkValid (f : LinkFacts) : Bool :=
  match f.kind with
  | .x509 => x509Valid f
  | .attKey => sgxValid f
  | .quote => sgxValid f
  | .v1 => v1Valid f
  | .other => false

/-- the property's wording of one link -/
def LinkHolds (f : LinkFacts) : Prop :=
  match f.kind with
  | .x509 => f.certifierIsX509 = true ∧ f.loads = true ∧ f.notBefore ≤ f.now ∧ f.now ≤ f.notAfter ∧ f.sigOk = true
  | .attKey => f.loads = true ∧ f.bound = true ∧ f.certifierHasKey = true ∧ f.sigOk = true
  | .quote => f.loads = true ∧ f.bound = true ∧ f.certifierHasKey = true ∧ f.sigOk = true
  | .v1 => (f.tweaked = true → f.sigOkTweaked = true) ∧ (f.tweaked = false → f.sigOk = true)
  | .other => False

end Cert
end PowHsm
