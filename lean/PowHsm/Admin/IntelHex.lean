/-
  ledgerblue's `IntelHexParser` (the loop over records, zone flushes, sorted insertion) and
  `compute_app_hash` (admin/ledger_utils.py:27-34).  A record is the decoded bytes of one line
  (`bytearray.fromhex(line[1:])`); checksums are not verified by the parser.  `none` = an
  exception (short record, data record without a zone, record types 02 / 03).
-/
import PowHsm.Basic.Bytes
namespace PowHsm
namespace IntelHex

structure Area where
  start : Nat
  data : Bytes
  deriving Repr, DecidableEq, Inhabited

/-- `insertAreaSorted`: before the first area that starts later -/
def insertSorted (areas : List Area) (a : Area) : List Area :=
  match areas with
  | [] => [a]
  | x :: xs => if a.start < x.start then a :: x :: xs else x :: insertSorted xs a

structure St where
  areas : List Area := []
  startZone : Option Nat := none
  startFirst : Option Nat := none
  current : Nat := 0
  zoneData : Bytes := []
  deriving Repr, Inhabited

def flush (s : St) : St :=
  { s with areas := insertSorted s.areas ⟨(s.startZone.getD 0) * 65536 + s.startFirst.getD 0, s.zoneData⟩,
           zoneData := [] }

def reset (s : St) : St := { s with startZone := none, startFirst := none, current := 0 }

/-- one line of the file -/
def step (s : St) (rec : Bytes) : Option St :=
  match rec with
  | count :: ah :: al :: typ :: payload =>
    let address := ah.toNat * 256 + al.toNat
    let t := typ.toNat
    if t == 0 then
      if s.startZone.isNone then none
      else
        let s1 := if s.startFirst.isNone then { s with startFirst := some address, current := address } else s
        let s2 := if address != s1.current then
            { (flush s1) with startFirst := some address, current := address } else s1
        some { s2 with zoneData := s2.zoneData ++ payload.take count.toNat, current := s2.current + count.toNat }
    else if t == 1 then
      some (if s.zoneData.isEmpty then s else reset (flush s))
    else if t == 2 || t == 3 then none
    else if t == 4 then
      match payload with
      | zh :: zl :: _ =>
        let s1 := if s.zoneData.isEmpty then s else reset (flush s)
        some { s1 with startZone := some (zh.toNat * 256 + zl.toNat) }
      | _ => none
    else if t == 5 then (if payload.length < 4 then none else some s)
    else some s
  | _ => none

def run : St → List Bytes → Option St
  | s, [] => some s
  | s, r :: rs => (step s r).bind fun s' => run s' rs

/-- `IntelHexParser(file).getAreas()` -/
def parse (recs : List Bytes) : Option (List Area) :=
  (run {} recs).map fun s => if s.zoneData.isEmpty then s.areas else (flush s).areas

/-- what `compute_app_hash` feeds to SHA-256 -/
def hashInput (recs : List Bytes) : Option Bytes := (parse recs).map fun as => (as.map (·.data)).flatten

end IntelHex
end PowHsm
