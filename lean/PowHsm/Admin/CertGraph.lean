/-
  The element graph of an attestation certificate (admin/certificate_v1.py:152-271, shared by
  v2): the element map, the parse-time sanity walk with its `visited` list, the chain walk of
  `validate_and_get_values`.  Signature checks are an abstract `linkValid`.
  The two `while True` loops of the Python code have no bound; here they carry fuel, and the
  theorems in `Props/C16` show that `|elements| + 1` always suffices.
-/
namespace PowHsm
namespace Cert

structure Elem where
  name : String
  signedBy : String
  deriving DecidableEq, Repr, Inhabited

/-- `self._elements[name]`: a later element with the same name replaced the earlier one -/
def lookup (els : List Elem) (n : String) : Option Elem := els.reverse.find? (·.name == n)

/-- the elements `to_dict` writes: the dictionary in insertion order — one entry per name, in the order
    the names first appeared, each with the last value read for it -/
def savedElems (els : List Elem) : List Elem :=
  (els.map (·.name)).eraseDups.filterMap (lookup els)

inductive Walk where
  | ok | noPath | missingSigner | outOfFuel
  deriving DecidableEq, Repr

/-- the sanity check of `_parse` for one target: `visited`, `current` -/
def sanityWalk (root : String) (els : List Elem) : Nat → List String → Elem → Walk
  | 0, _, _ => .outOfFuel
  | fuel + 1, visited, cur =>
    if visited.contains cur.name then .noPath
    else if cur.signedBy == root then .ok
    else
      match lookup els cur.signedBy with
      | none => .missingSigner
      | some parent => sanityWalk root els fuel (visited ++ [cur.name]) parent

/-- the chain of `validate_and_get_values`, bottom-up: `[target, …, top]`, `top` signed by root -/
def chainUp (root : String) (els : List Elem) : Nat → Elem → Option (List Elem)
  | 0, _ => none
  | fuel + 1, cur =>
    if cur.signedBy == root then some [cur]
    else
      match lookup els cur.signedBy with
      | none => none                 -- KeyError in Python; excluded by the sanity check
      | some parent => (chainUp root els fuel parent).map (cur :: ·)

inductive Verdict where
  | valid (leaf : Elem)
  | invalid (failing : String)
  deriving DecidableEq, Repr

/-- validation from the root down: `certifier = none` is the root of trust -/
def validateDown (linkValid : Option Elem → Elem → Bool) : Option Elem → List Elem → Option Verdict
  | _, [] => none
  | certifier, [e] => if linkValid certifier e then some (.valid e) else some (.invalid e.name)
  | certifier, e :: e' :: rest =>
    if linkValid certifier e then validateDown linkValid (some e) (e' :: rest)
    else some (.invalid e.name)

/-- the verdict for one target (fuel as explained above) -/
def validateTarget (root : String) (els : List Elem) (linkValid : Option Elem → Elem → Bool)
    (target : String) : Option Verdict :=
  match lookup els target with
  | none => none
  | some t =>
    match chainUp root els (els.length + 1) t with
    | none => none
    | some chain => validateDown linkValid none chain.reverse

end Cert
end PowHsm
