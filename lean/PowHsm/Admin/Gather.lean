/-
  The framing on the way from the device to the attestation file:
  * `SgxEnvelope` (sgx/envelope.py): sgx_quote_t (432) ‖ sgx_quote_tail_t (4) ‖
    sgx_quote_auth_data_t (64+64+384+64) ‖ qe_auth_data (u16 size ‖ data) ‖
    qe_cert_data (u16 type ‖ u32 size ‖ data) ‖ custom message
  * message paging of `get_ui_attestation` / `PowHsmAttestation.run`
    (`[more flag] ‖ chunk` per page)
-/
import PowHsm.Basic.Bytes
namespace PowHsm
namespace Gather

structure Envelope where
  quote : Bytes            -- 432
  sigLen : Bytes           -- 4
  quoteSig : Bytes         -- 64 (r ‖ s)
  attKey : Bytes           -- 64 (x ‖ y)
  qeReport : Bytes         -- 384
  qeReportSig : Bytes      -- 64
  qeAuthData : Bytes
  certType : Bytes         -- 2
  certData : Bytes
  custom : Bytes
  deriving Repr, DecidableEq

def build (e : Envelope) : Bytes :=
  e.quote ++ e.sigLen ++ e.quoteSig ++ e.attKey ++ e.qeReport ++ e.qeReportSig ++
  Bytes.le 2 e.qeAuthData.length ++ e.qeAuthData ++
  e.certType ++ Bytes.le 4 e.certData.length ++ e.certData ++ e.custom

/-- the next `n` bytes, or `none` if the buffer is shorter (struct.unpack_from failing, or the
    explicit length checks of the two variable-length parts) -/
def takeN (n : Nat) (b : Bytes) : Option (Bytes × Bytes) :=
  if b.length < n then none else some (b.take n, b.drop n)

/-- `SgxEnvelope(envelope_bytes, custom_message_bytes)`; `none` = ValueError -/
def parse (b custom : Bytes) : Option Envelope := do
  let (quote, b) ← takeN 432 b
  let (sigLen, b) ← takeN 4 b
  let (quoteSig, b) ← takeN 64 b
  let (attKey, b) ← takeN 64 b
  let (qeReport, b) ← takeN 384 b
  let (qeReportSig, b) ← takeN 64 b
  let (n, b) ← takeN 2 b
  let (auth, b) ← takeN (Bytes.leVal n) b
  let (ctype, b) ← takeN 2 b
  let (m, b) ← takeN 4 b
  let (cdata, b) ← takeN (Bytes.leVal m) b
  if b != custom then none
  else some { quote, sigLen, quoteSig, attKey, qeReport, qeReportSig, qeAuthData := auth,
              certType := ctype, certData := cdata, custom }

/-- pages as the device sends them: `(more, chunk)`; the host concatenates chunks until a page
    says there is no more (at most `maxPages`, else an error) -/
def reassemble (maxPages : Nat) : List (Bool × Bytes) → Option Bytes
  | [] => none
  | (more, chunk) :: rest =>
    match maxPages with
    | 0 => none
    | k + 1 => if more then (reassemble k rest).map (chunk ++ ·) else some chunk

/-- the device's side: cut a message into pages of the given sizes -/
def paginate : List Bytes → List (Bool × Bytes)
  | [] => []
  | [c] => [(false, c)]
  | c :: c' :: cs => (true, c) :: paginate (c' :: cs)

end Gather
end PowHsm
