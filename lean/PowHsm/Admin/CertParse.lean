/-
  `HSMCertificate.from_jsonfile` / `_parse` and the element factories of version 1 and 2
  (admin/certificate_v1.py:54-81,152-171,237-271; admin/certificate_v2.py).  Every exception
  is an error report, so failures are `none`.  Opaque third-party checks (base64 decoding of an
  X.509 `message`) are inputs: `b64ok` tells whether `base64.b64decode` accepted the value.
  Dictionary keys follow Python equality for the JSON scalars that can be keys
  (`True == 1`, `1.0 == 1`).
-/
import PowHsm.Admin.CertGraph
import PowHsm.Basic.Json
import PowHsm.Basic.PyStr
namespace PowHsm
namespace CertParse
open Cert

/-- canonical text of a hashable JSON scalar as a dict key; `none` for unhashable values and for
    floats that are not integers (not generated) -/
def keyOf : Json → Option String
  | .str s => some ("s:" ++ s)
  | .int n => some ("n:" ++ toString n)
  | .bool b => some ("n:" ++ (if b then "1" else "0"))
  | .float (some n) => some ("n:" ++ toString n)
  | .null => some "null"
  | _ => none

def nonemptyHex : Option Json → Bool
  | some (.str s) => Py.isNonemptyHex s
  | _ => false

def v1Names : List String := ["device", "attestation", "ui", "signer"]

/-- `HSMCertificateElement(element_map)` -/
def parseElemV1 (item : Json) : Option Elem :=
  match item with
  | .obj kvs =>
    match Json.lookup kvs "name" with
    | some (.str n) =>
      if !v1Names.contains n then none
      else
        match Json.lookup kvs "signed_by" with
        | none => none
        | some sb =>
          if (match Json.lookup kvs "tweak" with | some t => !nonemptyHex (some t) | none => false) then none
          else if !nonemptyHex (Json.lookup kvs "message") then none
          else if !nonemptyHex (Json.lookup kvs "signature") then none
          else
            -- `signed_by` is only ever compared / used as a key; an unhashable one fails later
            some { name := "s:" ++ n, signedBy := (keyOf sb).getD "<unhashable>" }
    | _ => none
  | _ => none

/-- `HSMCertificateV2Element.from_dict(element_map)` -/
def parseElemV2 (b64ok : Bool) (item : Json) : Option Elem :=
  match item with
  | .obj kvs =>
    let common : Option Elem :=
      match Json.lookup kvs "name", Json.lookup kvs "signed_by" with
      | some n, some sb =>
        match keyOf n with
        | some k => some { name := k, signedBy := (keyOf sb).getD "<unhashable>" }
        | none => none         -- TypeError when used as a dict key
      | _, _ => none
    match Json.lookup kvs "type" with
    | some (.str "sgx_quote") =>
      if nonemptyHex (Json.lookup kvs "message") && nonemptyHex (Json.lookup kvs "custom_data")
         && nonemptyHex (Json.lookup kvs "signature") then common else none
    | some (.str "sgx_attestation_key") =>
      if nonemptyHex (Json.lookup kvs "message") && nonemptyHex (Json.lookup kvs "key")
         && (Json.lookup kvs "auth_data" == some (.str "") || nonemptyHex (Json.lookup kvs "auth_data"))
         && nonemptyHex (Json.lookup kvs "signature") then common
      else none
    | some (.str "x509_pem") => if b64ok then common else none
    | _ => none
  | _ => none

structure Parsed where
  version : Nat
  targets : List String      -- as dict keys
  elems : List Elem
  deriving Repr

/-- iterate `certificate_map["elements"]`: a list gives its items; an empty string / object gives
    nothing; anything else ends in an exception (non-iterable, or items that are not objects) -/
def elementItems : Json → Option (List Json)
  | .arr xs => some xs
  | .str s => if s.isEmpty then some [] else none
  | .obj kvs => if kvs.isEmpty then some [] else none
  | _ => none

/-- `_parse` (after the version dispatch of `from_jsonfile`) -/
def parse (doc : Json) (b64oks : List Bool) : Option Parsed :=
  match doc with
  | .obj kvs =>
    let version : Option Nat := match Json.lookup kvs "version" with
      | some v => if v.pyEqInt 1 then some 1 else if v.pyEqInt 2 then some 2 else none
      | none => none
    match version with
    | none => none
    | some ver =>
      let root := if ver == 1 then "s:root" else "s:sgx_root"
      match Json.lookup kvs "targets" with
      | some (.arr ts) =>
        match Json.lookup kvs "elements" with
        | none => none
        | some ej =>
          match elementItems ej with
          | none => none
          | some items =>
            let parsedItems : Option (List Elem) :=
              if ver == 1 then items.mapM parseElemV1
              else (items.zip (b64oks ++ List.replicate items.length true)).mapM fun (it, ok) => parseElemV2 ok it
            match parsedItems with
            | none => none
            | some els =>
              -- sanity: every target is an element with a cycle-free path to the root
              match ts.mapM keyOf with
              | none => none
              | some tks =>
                if tks.all fun t =>
                    match lookup els t with
                    | none => false
                    | some e => sanityWalk root els (els.length + 1) [] e == .ok
                then some { version := ver, targets := tks, elems := els }
                else none
      | _ => none
  | _ => none

end CertParse
end PowHsm
