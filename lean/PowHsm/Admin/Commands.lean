/-
  `do_unlock`, `do_onboard` (up to the device being onboarded), `do_changepin`,
  `do_get_pubkeys` (admin/unlock.py, onboard.py, changepin.py, pubkeys.py) with
  `HSM2Dongle.onboard` / `HSM2DongleSGX.onboard` and `BasePin.is_valid`.
  `Exc.exception` stands for `AdminError`.
-/
import PowHsm.Ledger.Protocol
namespace PowHsm
namespace Admin
open Dongle Ledger Generated Tbl

def adminError : M α := M.throw' .exception

def isAlnum (c : UInt8) : Bool :=
  (48 ≤ c.toNat && c.toNat ≤ 57) || (65 ≤ c.toNat && c.toNat ≤ 90) || (97 ≤ c.toNat && c.toNat ≤ 122)
def isAlpha (c : UInt8) : Bool := (65 ≤ c.toNat && c.toNat ≤ 90) || (97 ≤ c.toNat && c.toNat ≤ 122)

/-- `BasePin.is_valid(pin, any_pin)` -/
def pinValid (p : Bytes) (anyPin : Bool) : Bool :=
  p.all isAlnum && (anyPin || (p.length == 8 && p.any isAlpha))

structure Options where
  pin : Option String := none
  newPin : Option String := none
  anyPin : Bool := false
  noUnlock : Bool := false
  noExec : Bool := false
  hasOutput : Bool := true
  deriving Repr, Inhabited

def utf8 (s : String) : Bytes := s.toUTF8.toList

/-- `ask_for_pin(any_pin)`: keep asking until the policy accepts the answer -/
def askForPin (anyPin : Bool) : M Bytes := fun w =>
  let rec go : List String → Option (Bytes × List String)
    | [] => none
    | a :: rest => if pinValid (utf8 a) anyPin then some (utf8 a, rest) else go rest
  match go w.getpassLines with
  | some (p, rest) => ⟨.ok p, [], { w with getpassLines := rest }⟩
  | none => ⟨.error .exception, [], { w with getpassLines := [] }⟩   -- operator script exhausted

def getHsm : M Unit := connect
def disposeHsm : M Unit := disconnect

/-- the checks of `do_unlock` that precede the PIN: returns (mode, onboarded, echo matched) as the
    device reported them (`onboarded` is only asked in bootloader / signer mode) -/
def unlockChecks : M (Nat × Bool × Bool) := do
  getHsm
  let mode ← getCurrentMode
  let onb ← (if mode == Mode_BOOTLOADER.toNat || mode == Mode_SIGNER.toNat then do
      let o ← isOnboarded
      if !o then adminError else pure o
    else pure true)
  if mode == Mode_UNKNOWN.toNat then adminError else
  if mode == Mode_SIGNER.toNat || mode == Mode_UI_HEARTBEAT.toNat then adminError else
  let e ← platEcho
  if !e then adminError else
  pure (mode, onb, e)

/-- `do_unlock(options, exit, no_exec)` -/
def doUnlock (o : Options) (exit : Bool := true) (noExec : Bool := false) : M Unit := do
  let pin : Option Bytes ← (match o.pin with
    | some p => if pinValid (utf8 p) o.anyPin then pure (some (utf8 p)) else adminError
    | none => pure none)
  let _ ← unlockChecks
  let pin ← (match pin with | some p => pure p | none => askForPin true)
  if !(← platUnlock pin) then adminError
  if (← getWorld).platform == .ledger && exit then
    let _ ← M.attempt (exitMenu (!(o.noExec || noExec)))
  disposeHsm

/-- `str.rstrip()` -/
def rstrip (s : String) : String :=
  String.ofList ((s.toList.reverse.dropWhile fun c => c == ' ' || c == '\t' || c == '\n' || c == '\r' || c.toNat == 11 || c.toNat == 12).reverse)

/-- the confirmation loop of `do_onboard` -/
def confirm : M Unit := fun w =>
  let rec go : List String → Option (Bool × List String)
    | [] => none
    | a :: rest =>
      let l := (rstrip a).toLower
      if l == "n" || l == "no" then some (false, rest)
      else if l == "yes" then some (true, rest)
      else go rest
  match go w.stdinLines with
  | some (true, rest) => ⟨.ok (), [], { w with stdinLines := rest }⟩
  | some (false, rest) => ⟨.error .exception, [], { w with stdinLines := rest }⟩
  | none => ⟨.error .exception, [], { w with stdinLines := [] }⟩

/-- `HSM2Dongle.onboard` / `HSM2DongleSGX.onboard` -/
def onboardDevice (seed pin : Bytes) : M Unit := do
  if seed.length != 32 then M.throw' .dongleError
  match (← getWorld).platform with
  | .sgx =>
    let r ← sendCommand (u8 SgxCommand_SGX_ONBOARD) (0 :: (seed ++ pin))
    let b ← idx r 2
    if b != 1 then M.throw' .dongleError
  | _ =>
    let rec sendSeed : Nat → Bytes → M Unit
      | _, [] => pure ()
      | i, b :: bs => do
        let _ ← sendCommand (u8 Command_SEED) [UInt8.ofNat i, b]
        sendSeed (i + 1) bs
    sendSeed 0 seed
    sendPin pin true
    let r ← sendCommand (u8 Command_WIPE)
    let b ← idx r 1
    if b != 2 then M.throw' .dongleError

/-- the device checks of `do_onboard`: returns (mode, echo matched, onboarded) as reported -/
def onboardChecks : M (Nat × Bool × Bool) := do
  getHsm
  let mode ← getCurrentMode
  if mode != Mode_BOOTLOADER.toNat then adminError else
  let e ← platEcho
  if !e then adminError else
  let onb ← isOnboarded
  if onb then adminError else
  pure (mode, e, onb)

/-- the PIN `do_onboard` will use: the option's (already checked) or the operator's answer -/
def onboardPin (o : Options) (pin : Option Bytes) : M Bytes :=
  match pin with | some p => pure p | none => askForPin o.anyPin

/-- the `--pin` option of `do_onboard`, checked against the policy before anything else -/
def onboardOptPin (o : Options) : M (Option Bytes) :=
  match o.pin with
  | some p => if pinValid (utf8 p) false then pure (some (utf8 p)) else adminError
  | none => pure none

/-- `do_onboard` from the device checks to "Onboarded" -/
def onboardCore (o : Options) (pin : Option Bytes) : M Unit := do
  let _ ← onboardChecks
  confirm
  let pin ← onboardPin o pin
  let seed := (← getWorld).seed
  onboardDevice seed pin
  disposeHsm

/-- `do_onboard` up to "Onboarded" -/
def doOnboard (o : Options) : M Unit := do
  if (← getWorld).platform == .ledger && !o.hasOutput then adminError else
  let pin ← onboardOptPin o
  onboardCore o pin

/-- the new PIN given on the command line, validated before anything else -/
def chgOptPin (o : Options) : M (Option Bytes) :=
  match o.newPin with
  | some p => if pinValid (utf8 p) o.anyPin then pure (some (utf8 p)) else adminError
  | none => pure none

/-- the new PIN to send: the one given, or the one the operator types (asked until valid) -/
def chgPin (o : Options) (newPin : Option Bytes) : M Bytes :=
  match newPin with
  | some p => pure p
  | none => askForPin o.anyPin

/-- unlock (unless told not to) and check the device is where a PIN change can be made -/
def chgPrepare (o : Options) : M Unit := do
  if !o.noUnlock then
    M.tryCatchIf (doUnlock o false) (fun _ => true) (fun _ => adminError)
  getHsm
  let mode ← getCurrentMode
  if (← getWorld).platform == .ledger && mode != Mode_BOOTLOADER.toNat then adminError

/-- `do_changepin` -/
def doChangePin (o : Options) : M Unit := do
  let newPin ← chgOptPin o
  chgPrepare o
  let np ← chgPin o newPin
  if !(← platNewPin np) then adminError
  disposeHsm

def docPaths : List (List Nat) :=
  let h := 2 ^ 31
  [[h + 44, h + 0, h + 0, 0, 0], [h + 44, h + 137, h + 0, 0, 0], [h + 44, h + 137, h + 1, 0, 0],
   [h + 44, h + 1, h + 0, 0, 0], [h + 44, h + 1, h + 1, 0, 0], [h + 44, h + 1, h + 2, 0, 0]]

/-- the output files of `pubkeys -o` after a run that got as far as writing -/
def wrote (f : Nat × Bool) : M Unit := fun w => ⟨.ok (), [], { w with pubkeyFiles := some f }⟩

/-- `do_get_pubkeys` up to the point where the keys are asked for: unlock (unless told not to), wait,
    connect, and refuse a device that is not running the signer -/
def pubkeysPrepare (o : Options) : M Unit := do
  if !o.noUnlock then
    M.tryCatchIf (doUnlock o) (fun _ => true) (fun _ => adminError)
  M.emit .sleep
  getHsm
  let mode ← getCurrentMode
  if mode == Mode_UNKNOWN.toNat || mode == Mode_BOOTLOADER.toNat then adminError

/-- writing the gathered keys: re-encoded uncompressed (`keyNorm`: python-ecdsa's reading of the
    device's answer, an uninterpreted input); an answer that is no curve point is "Error writing
    output"; the text file is opened (truncated) only now, after every key has been gathered -/
def pubkeysWrite (o : Options) (keyNorm : Bytes → Option Bytes) (keys : List Bytes) : M (List Bytes) := do
  match keys.mapM keyNorm with
  | none =>
    if o.hasOutput then
      wrote ((keys.takeWhile fun k => (keyNorm k).isSome).length, false)
    adminError
  | some ks =>
    if o.hasOutput then wrote (keys.length, true)
    disposeHsm
    pure ks

/-- `do_get_pubkeys` up to the gathered keys (in the order btc, rsk, mst, tbtc, trsk, tmst) -/
def doGetPubkeys (o : Options) (keyNorm : Bytes → Option Bytes := some) : M (List Bytes) := do
  pubkeysPrepare o
  let keys ← docPaths.mapM getPublicKey
  pubkeysWrite o keyNorm keys

end Admin
end PowHsm
