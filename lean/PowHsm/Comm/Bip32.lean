/-
  `comm/bip32.py`: BIP32Path parsing and `to_binary`.
-/
import PowHsm.Basic.PyStr
namespace PowHsm
namespace Bip32

/-- `BIP32Element.__init__`: the index, or `none` for `ValueError` -/
def parseElement (spec : List Char) : Option Nat :=
  if spec.isEmpty then none
  else
    let hardened := spec.getLast? == some '\''
    let sindex := if hardened then spec.dropLast else spec
    if !Py.isDecimal sindex then none
    else
      let v := Py.decimalVal sindex
      if v ≥ 2 ^ 31 then none
      else some ((if hardened then 2 ^ 31 else 0) + v)

/-- `BIP32Path.__init__(spec, nelements=5)`: element indices or `none` for `ValueError` -/
def parsePath (spec : String) : Option (List Nat) :=
  let cs := spec.toList
  if cs.isEmpty then none
  else if cs.take 2 != ['m', '/'] then none
  else
    match (Py.splitOnChar '/' (cs.drop 2)).mapM parseElement with
    | none => none
    | some els => if els.length != 5 then none else some els

/-- `BIP32Path.to_binary()` (little endian) -/
def toBinary (els : List Nat) : Bytes :=
  UInt8.ofNat els.length :: (els.map (Bytes.le 4)).flatten

end Bip32
end PowHsm
