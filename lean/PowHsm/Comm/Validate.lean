/-
  `comm/protocol.py` / `comm/protocol_v1.py`: the generic gate and the per-command
  validators.  A validator returns `0` or the (negative) error code.
-/
import PowHsm.Basic.Json
import PowHsm.Comm.Bip32
import PowHsm.Generated.Protocol
namespace PowHsm
namespace Comm
open Generated

inductive Mode where
  | v5 | v1
  deriving Repr, DecidableEq, Inhabited

structure Codes where
  formatError : Int
  invalidRequest : Int
  commandUnknown : Int
  wrongVersion : Int
  device : Int
  unknown : Int
  invalidAuth : Int
  invalidMessage : Int
  invalidKeyId : Int
  invalidBlocks : Int
  invalidBrothers : Int
  invalidUd : Int
  version : Int
  commands : List String

def codes : Mode → Codes
  | .v5 => { formatError := v5_ERROR_CODE_FORMAT_ERROR, invalidRequest := v5_ERROR_CODE_INVALID_REQUEST,
             commandUnknown := v5_ERROR_CODE_COMMAND_UNKNOWN, wrongVersion := v5_ERROR_CODE_WRONG_VERSION,
             device := v5_ERROR_CODE_DEVICE, unknown := v5_ERROR_CODE_UNKNOWN,
             invalidAuth := v5_ERROR_CODE_INVALID_AUTH, invalidMessage := v5_ERROR_CODE_INVALID_MESSAGE,
             invalidKeyId := v5_ERROR_CODE_INVALID_KEYID, invalidBlocks := v5_ERROR_CODE_INVALID_INPUT_BLOCKS,
             invalidBrothers := v5_ERROR_CODE_INVALID_BROTHERS,
             invalidUd := v5_ERROR_CODE_INVALID_HEARTBEAT_UD_VALUE,
             version := v5_VERSION, commands := v5_commands }
  | .v1 => { formatError := v1_ERROR_CODE_FORMAT_ERROR, invalidRequest := v1_ERROR_CODE_INVALID_REQUEST,
             commandUnknown := v1_ERROR_CODE_COMMAND_UNKNOWN, wrongVersion := v1_ERROR_CODE_WRONG_VERSION,
             device := v1_ERROR_CODE_DEVICE, unknown := v1_ERROR_CODE_UNKNOWN,
             invalidAuth := v1_ERROR_CODE_INVALID_AUTH, invalidMessage := v1_ERROR_CODE_INVALID_MESSAGE,
             invalidKeyId := v1_ERROR_CODE_INVALID_KEYID, invalidBlocks := v1_ERROR_CODE_INVALID_INPUT_BLOCKS,
             invalidBrothers := v1_ERROR_CODE_INVALID_BROTHERS,
             invalidUd := v1_ERROR_CODE_INVALID_HEARTBEAT_UD_VALUE,
             version := v1_VERSION, commands := v1_commands }

/-- `type(x) == str and is_nonempty_hex_string(x)` -/
def nonemptyHexStr : Json → Bool
  | .str s => Py.isNonemptyHex s
  | _ => false

def hexStrOfLength (n : Nat) : Json → Bool
  | .str s => Py.isHexOfLength s n
  | _ => false

/-- `_validate_key_id`: the parsed path or the error -/
def validateKeyId (c : Codes) (req : List (String × Json)) : Except Int (List Nat) :=
  match Json.lookup req "keyId" with
  | some (.str s) =>
    match Bip32.parsePath s with
    | some p => .ok p
    | none => .error c.invalidKeyId
  | _ => .error c.invalidKeyId

/-- `_validate_auth(request, mandatory)` -/
def validateAuth (c : Codes) (req : List (String × Json)) (mandatory : Bool) : Int :=
  match Json.lookup req "auth" with
  | none => if mandatory then c.invalidAuth else 0
  | some (.obj auth) =>
    if !(match Json.lookup auth "receipt" with | some r => nonemptyHexStr r | none => false) then c.invalidAuth
    else
      match Json.lookup auth "receipt_merkle_proof" with
      | some (.arr nodes) =>
        if nodes.isEmpty then c.invalidAuth
        else if !nodes.all nonemptyHexStr then c.invalidAuth
        else 0
      | _ => c.invalidAuth
  | some _ => c.invalidAuth

inductive What where
  | any | hash | tx
  deriving DecidableEq

def hasField (m : List (String × Json)) (k : String) (p : Json → Bool) : Bool :=
  match Json.lookup m k with
  | some v => p v
  | none => false

def intInRange (lo hi : Int) : Json → Bool
  | .int n => lo ≤ n && n ≤ hi
  | _ => false

/-- `_validate_message(request, what)` -/
def validateMessage (c : Codes) (req : List (String × Json)) (what : What) : Int :=
  match Json.lookup req "message" with
  | some (.obj m) =>
    if (what == .any || what == .hash) && m.length == 1 && hasField m "hash" (hexStrOfLength 32) then 0
    else if (what == .any || what == .tx) && m.length == 3 && hasField m "tx" nonemptyHexStr
        && hasField m "input" (intInRange 0 0xffffffff)
        && hasField m "sighashComputationMode" (·.pyEqStr "legacy") then 0
    else if (what == .any || what == .tx) && m.length == 5 && hasField m "tx" nonemptyHexStr
        && hasField m "input" (intInRange 0 0xffffffff)
        && hasField m "sighashComputationMode" (·.pyEqStr "segwit")
        && hasField m "witnessScript" nonemptyHexStr
        && hasField m "outpointValue" (intInRange 1 0xffffffffffffffff) then 0
    else c.invalidMessage
  | _ => c.invalidMessage

/-- `_validate_advance_blockchain` -/
def validateAdvance (c : Codes) (req : List (String × Json)) : Int :=
  match Json.lookup req "blocks" with
  | some (.arr blocks) =>
    if blocks.isEmpty then c.invalidBlocks
    else if !blocks.all Json.isStr then c.invalidBlocks
    else
      match Json.lookup req "brothers" with
      | some (.arr bros) =>
        if bros.length != blocks.length then c.invalidBrothers
        else if !bros.all Json.isArr then c.invalidBrothers
        else if !bros.all (fun bl => match bl with | .arr xs => xs.all nonemptyHexStr | _ => true)
          then c.invalidBrothers
        else 0
      | _ => c.invalidBrothers
  | _ => c.invalidBlocks

/-- `_validate_update_ancestor_block` -/
def validateUpdate (c : Codes) (req : List (String × Json)) : Int :=
  match Json.lookup req "blocks" with
  | some (.arr blocks) =>
    if blocks.length < MINIMUM_UPDATE_ANCESTOR_BLOCKS then c.invalidBlocks
    else if !blocks.all Json.isStr then c.invalidBlocks
    else 0
  | _ => c.invalidBlocks

def validateUd (c : Codes) (req : List (String × Json)) (size : Nat) : Int :=
  match Json.lookup req "udValue" with
  | some v => if hexStrOfLength size v then 0 else c.invalidUd
  | none => c.invalidUd

/-- `_validate_sign` of the two protocol versions: the parsed key id, or the error -/
def validateSign (m : Mode) (req : List (String × Json)) : Except Int (List Nat) :=
  let c := codes m
  match validateKeyId c req with
  | .error e => .error e
  | .ok path =>
    match m with
    | .v5 =>
      let a := validateAuth c req false
      if a < 0 then .error a
      else
        let v := validateMessage c req .any
        if v < 0 then .error v else .ok path
    | .v1 =>
      if hasField req "message" (hexStrOfLength 32) then .ok path else .error c.invalidMessage

end Comm
end PowHsm
