/-
  `Tracks` / `Safe` for the chunked transfer `_send_data_in_chunks` (by induction on the script).
-/
import PowHsm.Proofs.Conform
import PowHsm.Dongle.Chunks
namespace PowHsm
namespace Dongle
open M Spec

theorem sendChunksAux_rest (cmd op : UInt8) (nexts : List UInt8) (data : Bytes) (full : Bool)
    (s : List Resp) : ∀ (offset req : Nat),
    (sendChunksAux cmd op nexts data full offset req s).2.2 =
      s.drop (sendChunksAux cmd op nexts data full offset req s).2.1.length := by
  induction s with
  | nil => intro offset req; simp [sendChunksAux]
  | cons r rest ih =>
    intro offset req
    unfold sendChunksAux
    dsimp only
    repeat' split
    all_goals first
      | (simp; done)
      | skip
    rename_i n _
    simpa using ih (offset + (slice data offset req).length) n.toNat

theorem apdus_map_apdu (as : List Bytes) : apdus (as.map Ev.apdu) = as := by
  induction as with
  | nil => rfl
  | cons a as ih => simp [apdus, ih]

theorem all_map_apdu_noConnFail (as : List Bytes) :
    (as.map Ev.apdu).all (fun e => e != Ev.connect false) = true := by
  induction as with
  | nil => rfl
  | cons a as ih => simp [ih]

theorem sendChunks_tracks (cmd op : UInt8) (nexts : List UInt8) (data : Bytes) (full : Bool) (init : Nat) :
    Tracks (sendChunks cmd op nexts data full init) := by
  intro w
  unfold sendChunks
  have h := sendChunksAux_rest cmd op nexts data full w.script 0 init
  generalize sendChunksAux cmd op nexts data full 0 init w.script = r at h
  obtain ⟨v, as, s'⟩ := r
  simp only at h ⊢
  rw [apdus_map_apdu, h]

/-- what a transfer needs from the answers: long enough to carry the operation byte, and the
    size byte too whenever the device asks for more of the same operation -/
def ChunkAnswers (cmd op : UInt8) : Prop :=
  ∀ (d r : Bytes), respConforms (CLA :: cmd :: op :: d) (.data r) = true →
    3 ≤ r.length ∧ (r[2]? = some op → 4 ≤ r.length)

theorem sendChunksAux_safe (lf : Bool) (cmd op : UInt8) (nexts : List UInt8) (data : Bytes) (full : Bool)
    (hx : cmd.toNat ≠ 0xFF ∧ cmd.toNat ≠ 0xFA) (hc : ChunkAnswers cmd op)
    (s : List Resp) : ∀ (offset req : Nat),
    pairsOk lf (sendChunksAux cmd op nexts data full offset req s).2.1 s = true →
      match (sendChunksAux cmd op nexts data full offset req s).1 with
      | .ok p => ∃ d, respConforms (CLA :: cmd :: op :: d) (.data p.2) = true
      | .error e => Ledger.isResult e = true ∨ (lf = true ∧ isLink e = true) := by
  induction s with
  | nil => intro offset req h; simp [sendChunksAux, pairsOk] at h
  | cons r rest ih =>
    intro offset req
    unfold sendChunksAux
    dsimp only
    cases r with
    | data b =>
      simp only [classify]
      have hro : ∀ a, respOk lf a (.data b) = respConforms a (.data b) := by
        intro a; simp [respOk, isFault]
      cases h2 : b[2]? with
      | none =>
        simp only [pairsOk, Bool.and_true, hro]
        intro hr
        have := (hc _ b hr).1
        have : b[2]? ≠ none := by
          rw [List.getElem?_eq_getElem (by omega)]; simp
        exact absurd h2 this
      | some rop =>
        simp only
        split
        · simp only [pairsOk, Bool.and_true, hro]
          intro hr; exact ⟨_, hr⟩
        · split
          · split
            · simp only [pairsOk, Bool.and_true, hro]
              intro hr; exact ⟨_, hr⟩
            · simp only [pairsOk, Bool.and_true, hro]
              intro hr; exact ⟨_, hr⟩
          · rename_i hne
            have hop : rop = op := by simpa using hne
            cases h3 : b[3]? with
            | none =>
              simp only [pairsOk, Bool.and_true, hro]
              intro hr
              have := (hc _ b hr).2 (by rw [h2, hop])
              have : b[3]? ≠ none := by
                rw [List.getElem?_eq_getElem (by omega)]; simp
              exact absurd h3 this
            | some n =>
              simp only [pairsOk, Bool.and_eq_true]
              intro hr
              exact ih _ _ hr.2
    | sw x =>
      simp only [classify]
      by_cases hu : isUserDefined x = true
      · simp [hu, Ledger.isResult]
      · simp [hu, pairsOk, respOk, respConforms, isFault]
    | timeout =>
      simp only [classify, pairsOk, respOk, respConforms, isFault, Bool.and_true, Bool.false_or]
      intro hr
      exact Or.inr ⟨hr, by simp [isLink]⟩
    | other => simp [classify, pairsOk, respOk, respConforms, isFault]
    | writeErr =>
      simp only [classify, pairsOk, respOk, respConforms, isFault, List.getD_cons_succ, List.getD_cons_zero,
        Bool.and_true, Bool.or_eq_true, beq_iff_eq]
      intro hr
      rcases hr with (h | h) | h
      · exact absurd h hx.1
      · exact absurd h hx.2
      · exact Or.inr ⟨h, by simp [isLink]⟩
    | readErr =>
      simp only [classify, pairsOk, respOk, respConforms, isFault, List.getD_cons_succ, List.getD_cons_zero,
        Bool.and_true, Bool.or_eq_true, beq_iff_eq]
      intro hr
      rcases hr with (h | h) | h
      · exact absurd h hx.1
      · exact absurd h hx.2
      · exact Or.inr ⟨h, by simp [isLink]⟩

/-- the chunked transfer against a conforming device: it ends with a conforming answer of the
    same exchange kind, or with an error status of the device's own range -/
theorem sendChunks_safe {lf : Bool} (cmd op : UInt8) (nexts : List UInt8) (data : Bytes) (full : Bool) (init : Nat)
    (hx : cmd.toNat ≠ 0xFF ∧ cmd.toNat ≠ 0xFA) (hc : ChunkAnswers cmd op) :
    Safe lf (sendChunks cmd op nexts data full init)
      (fun p => ∃ d, respConforms (CLA :: cmd :: op :: d) (.data p.2) = true)
      (fun e => Ledger.isResult e = true) := by
  intro w hci hconf
  unfold sendChunks at hconf ⊢
  have h := sendChunksAux_safe lf cmd op nexts data full hx hc w.script 0 init
  generalize sendChunksAux cmd op nexts data full 0 init w.script = r at h hconf
  obtain ⟨v, as, s'⟩ := r
  simp only at h hconf ⊢
  refine ⟨hci, ?_⟩
  unfold deviceOk at hconf
  rw [apdus_map_apdu] at hconf
  simp only [Bool.and_eq_true] at hconf
  have h' := h hconf.1
  cases v with
  | ok p => exact h'
  | error e => exact h'

end Dongle
end PowHsm
