/-
  Trace facts about `Dongle.signAuthorized` / `signUnauthorized` (used by Props/C01).
-/
import PowHsm.Proofs.Emits
import PowHsm.Proofs.Chunks
import PowHsm.Dongle.Sign
namespace PowHsm
namespace Dongle
open M Generated Tbl

theorem sendChunks_emits {P : Ev → Bool} (cmd op : UInt8) (nexts : List UInt8) (data : Bytes) (full : Bool)
    (init : Nat) (h : ∀ a : Bytes, a.take 3 = [CLA, cmd, op] → P (.apdu a) = true) :
    Emits P (sendChunks cmd op nexts data full init) := by
  intro w
  unfold sendChunks
  have hs := (sendChunksAux_shape cmd op nexts data full w.script 0 init).1
  generalize sendChunksAux cmd op nexts data full 0 init w.script = r at hs
  obtain ⟨v, as, s'⟩ := r
  simp only [List.all_map, List.all_eq_true, Function.comp]
  intro a ha
  exact h a (hs a ha)

theorem catchResult_emits {P : Ev → Bool} {m : M α} {h : Nat → M α} (hm : Emits P m) (hh : ∀ sw, Emits P (h sw)) :
    Emits P (catchResult m h) := by
  unfold catchResult
  refine Emits.tryCatchIf hm fun e => ?_
  split
  · exact hh _
  · exact Emits.throw _

/-- a message of the SIGN command with the given operation byte -/
def isSignOp (op : UInt8) : Ev → Bool
  | .apdu a => a.take 3 == [CLA, CMD_SIGN, op]
  | _ => false

/-- a message of the SIGN command -/
def isSign : Ev → Bool
  | .apdu a => a.take 2 == [CLA, CMD_SIGN]
  | _ => false

theorem isSignOp_isSign (op : UInt8) (e : Ev) (h : isSignOp op e = true) : isSign e = true := by
  cases e with
  | apdu a =>
    simp only [isSignOp, isSign, beq_iff_eq] at h ⊢
    have := congrArg (List.take 2) h
    simpa [List.take_take] using this
  | _ => cases h

theorem sendChunks_apply (cmd op : UInt8) (nexts : List UInt8) (data : Bytes) (full : Bool) (init : Nat) (w : World) :
    sendChunks cmd op nexts data full init w =
      ⟨(sendChunksAux cmd op nexts data full 0 init w.script).1,
       (sendChunksAux cmd op nexts data full 0 init w.script).2.1.map Ev.apdu,
       { w with script := (sendChunksAux cmd op nexts data full 0 init w.script).2.2 }⟩ := rfl

/-- what one chunked step does, for every device: it sends messages of its own operation only,
    whose payloads form a prefix of the step's data; and if it reports success (`ok`), the whole
    data was sent -/
theorem chunkStep_spec {β : Type} (op : UInt8) (nexts : List UInt8) (data : Bytes) (init : Nat)
    (rule : List (List Nat × Int) × Int) (post : Bytes → M (Except Int β))
    (hpost : ∀ resp w, (post resp w).evs = []) (w : World) :
    ∃ as : List Bytes, (chunkStep op nexts data init rule post w).evs = as.map Ev.apdu ∧
      (∀ a ∈ as, a.take 3 = [CLA, CMD_SIGN, op]) ∧ (∃ k, payloads as = data.take k) ∧
      (∀ x, (chunkStep op nexts data init rule post w).val = .ok (.ok x) → payloads as = data) := by
  have hshape := sendChunksAux_shape CMD_SIGN op nexts data true w.script 0 init
  have hok := sendChunksAux_ok CMD_SIGN op nexts data true w.script 0 init
  refine ⟨(sendChunksAux CMD_SIGN op nexts data true 0 init w.script).2.1, ?_, hshape.1, by simpa using hshape.2, ?_⟩
  all_goals
    unfold chunkStep catchResult M.tryCatchIf
    rw [bind_apply, sendChunks_apply]
    generalize sendChunksAux CMD_SIGN op nexts data true 0 init w.script = r at hok
    obtain ⟨v, as, s'⟩ := r
    cases v with
    | error e =>
      simp only
      cases e <;> simp [M.throw']
    | ok p =>
      obtain ⟨okb, resp⟩ := p
      simp only
      cases okb with
      | false =>
        simp
      | true =>
        simp only [Bool.not_true, Bool.false_eq_true, if_false]
        have hp := hpost resp { w with script := s' }
        generalize post resp { w with script := s' } = q at hp
        obtain ⟨qv, qe, qw⟩ := q
        simp only at hp; subst hp
        cases qv with
        | error e => cases e <;> simp [M.throw']
        | ok y =>
          simp
          try (intro _ _; simpa using (hok resp rfl).2 rfl (Nat.zero_le _))

/-- the first message of an authorized signature: path and input index -/
def pathMsg (a : SignAuthArgs) : Bytes :=
  CLA :: CMD_SIGN :: OP_PATH :: (Bip32.toBinary a.path ++ Bytes.le 4 a.input.toNat)

theorem nextSize_silent (resp : Bytes) : Silent (nextSize resp) := by
  unfold nextSize
  exact Emits.bind (idx_emits _ _) fun _ => Emits.pure _

theorem signStep1_evs (a : SignAuthArgs) (w : World) : (signStep1 a w).evs = [.apdu (pathMsg a)] := by
  unfold signStep1 catchResult
  rw [tryCatchIf_evs_silent, bind_evs_silent, sendCommand_evs]
  · rfl
  · intro resp
    refine Emits.bind (idx_emits _ _) fun rop => ?_
    split
    · exact Emits.pure _
    · exact nextSize_silent _
  · intro e
    split
    · exact Emits.pure _
    · exact Emits.throw _

/-- a continuation that only runs when the step succeeded: the trace is the step's trace followed
    by the continuation's, and the final result is a signature only if the step succeeded -/
theorem step_then {β : Type} (m : M (Except Int β)) (k : β → M SignOut) (w : World) :
    (((m >>= fun s => orFail s k) w).evs = (m w).evs ∧
      ∀ rr ss, ((m >>= fun s => orFail s k) w).val ≠ .ok (.sig rr ss)) ∨
    (∃ x, (m w).val = .ok (.ok x) ∧
      ((m >>= fun s => orFail s k) w).evs = (m w).evs ++ (k x (m w).w).evs ∧
      ((m >>= fun s => orFail s k) w).val = (k x (m w).w).val) := by
  rw [bind_apply]
  cases hm : m w with
  | mk v e w1 =>
    cases v with
    | error ex => left; simp
    | ok s =>
      cases s with
      | error c => left; simp [orFail]
      | ok x => right; exact ⟨x, rfl, by simp [orFail], by simp [orFail]⟩

theorem pure_silent {α : Type} (a : α) : Silent (pure a : M α) := Emits.pure _

/-- what a part looks like on the wire: messages of one operation whose payloads form a prefix
    of the part's bytes -/
def PartOf (op : UInt8) (data : Bytes) (as : List Bytes) : Prop :=
  (∀ x ∈ as, x.take 3 = [CLA, CMD_SIGN, op]) ∧ ∃ k, payloads as = data.take k

theorem partOf_nil (op : UInt8) (data : Bytes) : PartOf op data [] := ⟨by simp, 0, by simp⟩

theorem tail4_spec (pp : Bytes) (req3 : Nat) (w : World) :
    ∃ as4, (signTail4 pp req3 w).evs = as4.map Ev.apdu ∧ PartOf OP_MERKLE_PROOF pp as4 ∧
      (∀ rr ss, (signTail4 pp req3 w).val = .ok (.sig rr ss) → payloads as4 = pp) := by
  obtain ⟨as4, he, hh, hp, hs⟩ := chunkStep_spec OP_MERKLE_PROOF [OP_SUCCESS] pp req3 Generated.signAuthorized_3
    (fun resp => pure (Except.ok resp)) (fun _ _ => rfl) w
  refine ⟨as4, ?_, ⟨hh, hp⟩, ?_⟩
  · unfold signTail4
    rcases (step_then _ _ w) with ⟨h1, _⟩ | ⟨x, _, h2, _⟩
    · rw [h1, he]
    · rw [h2, he]; simp
  · intro rr ss hv
    unfold signTail4 at hv
    rcases (step_then _ _ w) with ⟨_, h1⟩ | ⟨x, hx, _, _⟩
    · exact absurd hv (h1 rr ss)
    · exact hs x hx

theorem tail3_spec (a : SignAuthArgs) (req2 : Nat) (w : World) :
    ∃ as3 as4, (signTail3 a req2 w).evs = (as3 ++ as4).map Ev.apdu ∧ PartOf OP_TX_RECEIPT a.receipt as3 ∧
      PartOf OP_MERKLE_PROOF ((proofPayload a.proof).getD []) as4 ∧
      (∀ rr ss, (signTail3 a req2 w).val = .ok (.sig rr ss) →
        payloads as3 = a.receipt ∧ proofPayload a.proof = some (payloads as4)) := by
  obtain ⟨as3, he, hh, hp, hs⟩ := chunkStep_spec OP_TX_RECEIPT [OP_MERKLE_PROOF] a.receipt req2
    Generated.signAuthorized_2 nextSize (fun r w => (nextSize_silent r).evs w) w
  unfold signTail3
  rcases (step_then _ (signProof a) w) with ⟨h1, h1'⟩ | ⟨x, hx, h2, h2'⟩
  · refine ⟨as3, [], by rw [h1, he]; simp, ⟨hh, hp⟩, partOf_nil _ _, fun rr ss hv => absurd hv (h1' rr ss)⟩
  · cases hpp : proofPayload a.proof with
    | none =>
      refine ⟨as3, [], ?_, ⟨hh, hp⟩, partOf_nil _ _, ?_⟩
      · rw [h2, he]; simp [signProof, hpp]
      · intro rr ss hv; rw [h2'] at hv; simp [signProof, hpp] at hv
    | some pp =>
      obtain ⟨as4, he4, hp4, hs4⟩ := tail4_spec pp x _
      refine ⟨as3, as4, ?_, ⟨hh, hp⟩, by simpa [hpp] using hp4, ?_⟩
      · rw [h2, he]; simp only [signProof, hpp]; rw [he4]; simp
      · intro rr ss hv
        rw [h2'] at hv; simp only [signProof, hpp] at hv
        exact ⟨hs x hx, by rw [hs4 rr ss hv]⟩

theorem tail2_spec (a : SignAuthArgs) (req1 : Nat) (w : World) :
    ∃ as2 as3 as4, (signTail2 a req1 w).evs = (as2 ++ as3 ++ as4).map Ev.apdu ∧
      PartOf OP_BTC_TX ((btcPayload a).getD []) as2 ∧ PartOf OP_TX_RECEIPT a.receipt as3 ∧
      PartOf OP_MERKLE_PROOF ((proofPayload a.proof).getD []) as4 ∧
      (∀ rr ss, (signTail2 a req1 w).val = .ok (.sig rr ss) →
        btcPayload a = some (payloads as2) ∧ payloads as3 = a.receipt ∧
        proofPayload a.proof = some (payloads as4)) := by
  unfold signTail2
  cases hb : btcPayload a with
  | none =>
    exact ⟨[], [], [], rfl, partOf_nil _ _, partOf_nil _ _, partOf_nil _ _, fun rr ss hv => by simp at hv⟩
  | some p =>
    simp only
    obtain ⟨as2, he, hh, hp, hs⟩ := chunkStep_spec OP_BTC_TX [OP_TX_RECEIPT] p req1
      Generated.signAuthorized_1 nextSize (fun r w => (nextSize_silent r).evs w) w
    rcases (step_then _ (signTail3 a) w) with ⟨h1, h1'⟩ | ⟨x, hx, h2, h2'⟩
    · exact ⟨as2, [], [], by rw [h1, he]; simp, ⟨hh, by simpa using hp⟩, partOf_nil _ _, partOf_nil _ _,
        fun rr ss hv => absurd hv (h1' rr ss)⟩
    · obtain ⟨as3, as4, he3, hp3, hp4, hs3⟩ := tail3_spec a x _
      refine ⟨as2, as3, as4, ?_, ⟨hh, by simpa using hp⟩, hp3, hp4, ?_⟩
      · rw [h2, he, he3]; simp
      · intro rr ss hv
        rw [h2'] at hv
        obtain ⟨r3, r4⟩ := hs3 rr ss hv
        exact ⟨by rw [hs x hx], r3, r4⟩

end Dongle
end PowHsm
