/-
  Trace facts about `Dongle.signAuthorized` / `signUnauthorized` (used by Props/C01).
-/
import PowHsm.Proofs.Emits
import PowHsm.Proofs.Chunks
import PowHsm.Dongle.Sign
namespace PowHsm
namespace Dongle
open M Generated Tbl

theorem sendChunks_emits {P : Ev → Bool} (cmd op : UInt8) (nexts : List UInt8) (data : Bytes) (full : Bool)
    (init : Nat) (h : ∀ a : Bytes, a.take 3 = [CLA, cmd, op] → P (.apdu a) = true) :
    Emits P (sendChunks cmd op nexts data full init) := by
  intro w
  unfold sendChunks
  have hs := (sendChunksAux_shape cmd op nexts data full w.script 0 init).1
  generalize sendChunksAux cmd op nexts data full 0 init w.script = r at hs
  obtain ⟨v, as, s'⟩ := r
  simp only [List.all_map, List.all_eq_true, Function.comp]
  intro a ha
  exact h a (hs a ha)

theorem catchResult_emits {P : Ev → Bool} {m : M α} {h : Nat → M α} (hm : Emits P m) (hh : ∀ sw, Emits P (h sw)) :
    Emits P (catchResult m h) := by
  unfold catchResult
  refine Emits.tryCatchIf hm fun e => ?_
  split
  · exact hh _
  · exact Emits.throw _

/-- a message of the SIGN command with the given operation byte -/
def isSignOp (op : UInt8) : Ev → Bool
  | .apdu a => a.take 3 == [CLA, CMD_SIGN, op]
  | _ => false

/-- a message of the SIGN command -/
def isSign : Ev → Bool
  | .apdu a => a.take 2 == [CLA, CMD_SIGN]
  | _ => false

theorem isSignOp_isSign (op : UInt8) (e : Ev) (h : isSignOp op e = true) : isSign e = true := by
  cases e with
  | apdu a =>
    simp only [isSignOp, isSign, beq_iff_eq] at h ⊢
    have := congrArg (List.take 2) h
    simpa [List.take_take] using this
  | _ => cases h

end Dongle
end PowHsm
