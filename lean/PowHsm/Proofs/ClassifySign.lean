/-
  C02 for `sign` of protocol version 5: both validation stages (comm/protocol.py `_validate_sign`,
  ledger/protocol.py `_sign`) against `Spec.C02.judge`, for every JSON object.
-/
import PowHsm.Proofs.Classify
namespace PowHsm
namespace Classify
open Ledger Comm Spec Spec.C02 Generated

/-! ### hex strings -/

theorem char_le_toNat (a b : Char) (h : a ≤ b) : a.toNat ≤ b.toNat := by
  rw [Char.le_def] at h
  exact UInt32.le_iff_toNat_le.1 h

theorem hex_not_space (c : Char) (h : (Bytes.hexVal? c).isSome = true) : Py.isSpace c = false := by
  have hn : 48 ≤ c.toNat := by
    unfold Bytes.hexVal? at h
    split at h
    · rename_i hh; exact char_le_toNat '0' c hh.1
    · split at h
      · rename_i hh; have := char_le_toNat 'a' c hh.1; have h2 : ('a' : Char).toNat = 97 := rfl; omega
      · split at h
        · rename_i hh; have := char_le_toNat 'A' c hh.1; have h2 : ('A' : Char).toNat = 65 := rfl; omega
        · cases h
  unfold Py.isSpace
  have h1 : (c.toNat == 0x20) = false := by simp; omega
  have h2 : (c.toNat ≤ 0x0D) = false := by simp; omega
  simp [h1, h2]

theorem fromHexChars_of_hex : ∀ (n : Nat) (cs : List Char), cs.length = 2 * n →
    (cs.all fun c => (Bytes.hexVal? c).isSome) = true → ∃ b, Py.fromHexChars cs = some b ∧ b.length = n := by
  intro n
  induction n with
  | zero =>
    intro cs hl _
    have : cs = [] := List.length_eq_zero_iff.1 (by omega)
    subst this
    exact ⟨[], rfl, rfl⟩
  | succ k ih =>
    intro cs hl hall
    match cs, hl, hall with
    | c :: d :: rest, hl, hall =>
      simp only [List.all_cons, Bool.and_eq_true] at hall
      obtain ⟨hc, hd, hrest⟩ := hall
      obtain ⟨b, hb, hbl⟩ := ih rest (by simp at hl; omega) hrest
      unfold Py.fromHexChars
      rw [hex_not_space c hc]
      simp only [Bool.false_eq_true, if_false]
      cases hx : Bytes.hexVal? c with
      | none => rw [hx] at hc; cases hc
      | some x =>
        cases hy : Bytes.hexVal? d with
        | none => rw [hy] at hd; cases hd
        | some y =>
          simp only [hb, Option.map_some]
          exact ⟨_, rfl, by simp [hbl]⟩
    | [_], hl, _ => simp at hl; omega
    | [], hl, _ => simp at hl

/-- a string of the documents' `hhhh` form is a non-empty hex string for the validators -/
theorem strictHex_nonempty (s : String) (h : strictHex s = true) : ∃ b bs, Py.fromHex s = some (b :: bs) := by
  unfold strictHex at h
  simp only [Bool.and_eq_true, Bool.not_eq_true', beq_iff_eq] at h
  obtain ⟨⟨hne, heven⟩, hall⟩ := h
  obtain ⟨b, hb, hbl⟩ := fromHexChars_of_hex (s.toList.length / 2) s.toList (by omega) hall
  unfold Py.fromHex
  rw [hb]
  cases b with
  | nil =>
    exfalso
    have : s.toList.length = 0 := by simp at hbl; omega
    have := List.length_eq_zero_iff.1 this
    simp [this] at hne
  | cons x xs => exact ⟨x, xs, rfl⟩

theorem hexZone_valid_nonempty (j : Json) (okLen : Nat → Bool) (h : hexZone j okLen = .valid) :
    nonemptyHexStr j = true := by
  cases j <;> simp only [hexZone] at h <;> try (cases h; done)
  rename_i s
  split at h
  · rename_i hs
    obtain ⟨b, bs, hb⟩ := strictHex_nonempty s (by simp only [Bool.and_eq_true] at hs; exact hs.1)
    simp [nonemptyHexStr, Py.isNonemptyHex, hb]
  · split at h <;> cases h

theorem hexZone_nonempty_not_invalid (j : Json) (okLen : Nat → Bool) (h : nonemptyHexStr j = true) :
    hexZone j okLen ≠ .invalid := by
  cases j <;> simp only [nonemptyHexStr] at h <;> try (cases h; done)
  rename_i s
  unfold Py.isNonemptyHex at h
  simp only [hexZone]
  split
  · simp
  · cases hf : Py.fromHex s with
    | none => rw [hf] at h; cases h
    | some b =>
      cases b with
      | nil => rw [hf] at h; cases h
      | cons x xs => simp

end Classify
end PowHsm
