/-
  C02 for `sign` of protocol version 5: both validation stages (comm/protocol.py `_validate_sign`,
  ledger/protocol.py `_sign`) against `Spec.C02.judge`, for every JSON object.
-/
import PowHsm.Proofs.Classify
import Batteries.Data.List.Perm
namespace PowHsm
namespace Classify
open Ledger Comm Spec Spec.C02 Generated

/-! ### hex strings -/

theorem char_le_toNat (a b : Char) (h : a ≤ b) : a.toNat ≤ b.toNat := by
  rw [Char.le_def] at h
  exact UInt32.le_iff_toNat_le.1 h

theorem hex_not_space (c : Char) (h : (Bytes.hexVal? c).isSome = true) : Py.isSpace c = false := by
  have hn : 48 ≤ c.toNat := by
    unfold Bytes.hexVal? at h
    split at h
    · rename_i hh; exact char_le_toNat '0' c hh.1
    · split at h
      · rename_i hh; have := char_le_toNat 'a' c hh.1; have h2 : ('a' : Char).toNat = 97 := rfl; omega
      · split at h
        · rename_i hh; have := char_le_toNat 'A' c hh.1; have h2 : ('A' : Char).toNat = 65 := rfl; omega
        · cases h
  unfold Py.isSpace
  have h1 : (c.toNat == 0x20) = false := by simp; omega
  have h2 : (c.toNat ≤ 0x0D) = false := by simp; omega
  simp [h1, h2]

theorem fromHexChars_of_hex : ∀ (n : Nat) (cs : List Char), cs.length = 2 * n →
    (cs.all fun c => (Bytes.hexVal? c).isSome) = true → ∃ b, Py.fromHexChars cs = some b ∧ b.length = n := by
  intro n
  induction n with
  | zero =>
    intro cs hl _
    have : cs = [] := List.length_eq_zero_iff.1 (by omega)
    subst this
    exact ⟨[], rfl, rfl⟩
  | succ k ih =>
    intro cs hl hall
    match cs, hl, hall with
    | c :: d :: rest, hl, hall =>
      simp only [List.all_cons, Bool.and_eq_true] at hall
      obtain ⟨hc, hd, hrest⟩ := hall
      obtain ⟨b, hb, hbl⟩ := ih rest (by simp at hl; omega) hrest
      unfold Py.fromHexChars
      rw [hex_not_space c hc]
      simp only [Bool.false_eq_true, if_false]
      cases hx : Bytes.hexVal? c with
      | none => rw [hx] at hc; cases hc
      | some x =>
        cases hy : Bytes.hexVal? d with
        | none => rw [hy] at hd; cases hd
        | some y =>
          simp only [hb, Option.map_some]
          exact ⟨_, rfl, by simp [hbl]⟩
    | [_], hl, _ => simp at hl; omega
    | [], hl, _ => simp at hl

/-- a string of the documents' `hhhh` form is a non-empty hex string for the validators -/
theorem strictHex_nonempty (s : String) (h : strictHex s = true) : ∃ b bs, Py.fromHex s = some (b :: bs) := by
  unfold strictHex at h
  simp only [Bool.and_eq_true, Bool.not_eq_true', beq_iff_eq] at h
  obtain ⟨⟨hne, heven⟩, hall⟩ := h
  obtain ⟨b, hb, hbl⟩ := fromHexChars_of_hex (s.toList.length / 2) s.toList (by omega) hall
  unfold Py.fromHex
  rw [hb]
  cases b with
  | nil =>
    exfalso
    have : s.toList.length = 0 := by simp at hbl; omega
    have := List.length_eq_zero_iff.1 this
    simp [this] at hne
  | cons x xs => exact ⟨x, xs, rfl⟩

theorem hexZone_valid_nonempty (j : Json) (okLen : Nat → Bool) (h : hexZone j okLen = .valid) :
    nonemptyHexStr j = true := by
  cases j <;> simp only [hexZone] at h <;> try (cases h; done)
  rename_i s
  split at h
  · rename_i hs
    obtain ⟨b, bs, hb⟩ := strictHex_nonempty s (by simp only [Bool.and_eq_true] at hs; exact hs.1)
    simp [nonemptyHexStr, Py.isNonemptyHex, hb]
  · split at h <;> cases h

theorem hexZone_nonempty_not_invalid (j : Json) (okLen : Nat → Bool) (h : nonemptyHexStr j = true) :
    hexZone j okLen ≠ .invalid := by
  cases j <;> simp only [nonemptyHexStr] at h <;> try (cases h; done)
  rename_i s
  unfold Py.isNonemptyHex at h
  simp only [hexZone]
  split
  · simp
  · cases hf : Py.fromHex s with
    | none => rw [hf] at h; cases h
    | some b =>
      cases b with
      | nil => rw [hf] at h; cases h
      | cons x xs => simp

/-! ### an object with exactly these keys has no other -/

theorem lookup_isSome_mem (m : List (String × Json)) (k : String) (h : (Json.lookup m k).isSome = true) :
    k ∈ m.map (·.1) := by
  unfold Json.lookup at h
  cases hf : m.find? (fun p => p.1 == k) with
  | none => simp [hf] at h
  | some p =>
    have hm := List.mem_of_find?_eq_some hf
    have hk := List.find?_some hf
    simp only [beq_iff_eq] at hk
    exact List.mem_map.2 ⟨p, hm, hk⟩

theorem mem_lookup_isSome (m : List (String × Json)) (k : String) (h : k ∈ m.map (·.1)) :
    (Json.lookup m k).isSome = true := by
  unfold Json.lookup
  obtain ⟨p, hp, hk⟩ := List.mem_map.1 h
  cases hf : m.find? (fun p => p.1 == k) with
  | some _ => rfl
  | none =>
    have := List.find?_eq_none.1 hf p hp
    simp [hk] at this

/-- pigeonhole: `n` distinct keys found in an object of `n` members are all its keys -/
theorem keys_exact (m : List (String × Json)) (ks : List String) (hnd : ks.Nodup) (hl : m.length = ks.length)
    (hall : ∀ k ∈ ks, (Json.lookup m k).isSome = true) (k' : String)
    (h : (Json.lookup m k').isSome = true) : k' ∈ ks := by
  have hsub : ks ⊆ m.map (·.1) := fun k hk => lookup_isSome_mem m k (hall k hk)
  have hperm := (List.subperm_of_subset hnd hsub).perm_of_length_le (by simp [hl])
  exact hperm.symm.subset (lookup_isSome_mem m k' h)

theorem keysAre_iff (m : List (String × Json)) (ks : List String) :
    keysAre m ks = true ↔ m.length = ks.length ∧ ∀ k ∈ ks, (Json.lookup m k).isSome = true := by
  simp [keysAre]

/-! ### zones -/

theorem worst_eq_valid (a b : Zone) : worst a b = .valid ↔ a = .valid ∧ b = .valid := by
  cases a <;> cases b <;> simp [worst]

theorem worst_ne_invalid (a b : Zone) : worst a b ≠ .invalid ↔ a ≠ .invalid ∧ b ≠ .invalid := by
  cases a <;> cases b <;> simp [worst]

theorem foldl_worst_valid (zs : List Zone) (a : Zone) :
    zs.foldl worst a = .valid ↔ a = .valid ∧ ∀ z ∈ zs, z = .valid := by
  induction zs generalizing a with
  | nil => simp
  | cons z zs ih =>
    simp only [List.foldl_cons, ih, worst_eq_valid, List.mem_cons, forall_eq_or_imp]
    constructor
    · rintro ⟨⟨h1, h2⟩, h3⟩; exact ⟨h1, h2, h3⟩
    · rintro ⟨h1, h2, h3⟩; exact ⟨⟨h1, h2⟩, h3⟩

theorem worstAll_eq_valid (zs : List Zone) : worstAll zs = .valid ↔ ∀ z ∈ zs, z = .valid := by
  unfold worstAll
  rw [foldl_worst_valid]
  simp

theorem foldl_worst_ne_invalid (zs : List Zone) (a : Zone) :
    zs.foldl worst a ≠ .invalid ↔ a ≠ .invalid ∧ ∀ z ∈ zs, z ≠ .invalid := by
  induction zs generalizing a with
  | nil => simp
  | cons z zs ih =>
    simp only [List.foldl_cons, ih, worst_ne_invalid, List.mem_cons, forall_eq_or_imp]
    constructor
    · rintro ⟨⟨h1, h2⟩, h3⟩; exact ⟨h1, h2, h3⟩
    · rintro ⟨h1, h2, h3⟩; exact ⟨⟨h1, h2⟩, h3⟩

theorem worstAll_ne_invalid (zs : List Zone) : worstAll zs ≠ .invalid ↔ ∀ z ∈ zs, z ≠ .invalid := by
  unfold worstAll
  rw [foldl_worst_ne_invalid]
  simp

/-! ### auth -/

/-- the zone of an `auth` object's two fields -/
def authObjZone (a : List (String × Json)) : Zone :=
  worst (hexZone ((Json.lookup a "receipt").getD .null))
    (match Json.lookup a "receipt_merkle_proof" with
     | some (.arr ns) =>
       if ns.isEmpty then Zone.invalid
       else worst (worstAll (ns.map fun n => hexZone n (fun l => l ≤ 255)))
                  (if ns.length ≤ 255 then .valid else .unspec)
     | _ => .invalid)

/-- the validator's verdict on an `auth` object -/
def authObjOk (a : List (String × Json)) : Bool :=
  (match Json.lookup a "receipt" with | some r => nonemptyHexStr r | none => false) &&
  (match Json.lookup a "receipt_merkle_proof" with
   | some (.arr nodes) => !nodes.isEmpty && nodes.all nonemptyHexStr
   | _ => false)

theorem authZone_obj (kvs a : List (String × Json)) (kind : MsgKind) (h : Json.lookup kvs "auth" = some (.obj a)) :
    authZone kvs kind = if kind == .tx then authObjZone a else worst (authObjZone a) .unspec := by
  unfold authZone authObjZone
  simp only [h]
  cases Json.lookup a "receipt_merkle_proof" with
  | none => rfl
  | some v => cases v <;> rfl

theorem validateAuth_obj (c : Codes) (kvs a : List (String × Json)) (mand : Bool)
    (h : Json.lookup kvs "auth" = some (.obj a)) :
    validateAuth c kvs mand = if authObjOk a then 0 else c.invalidAuth := by
  unfold validateAuth authObjOk
  simp only [h]
  cases Json.lookup a "receipt" with
  | none => simp
  | some r =>
    simp only
    by_cases hr : nonemptyHexStr r = true
    · simp only [hr, Bool.not_true, Bool.false_eq_true, if_false, Bool.true_and]
      cases Json.lookup a "receipt_merkle_proof" with
      | none => simp
      | some v =>
        cases v with
        | arr nodes =>
          simp only []
          by_cases hn : nodes.isEmpty = true
          · rw [if_pos hn, if_neg (by simp [hn])]
          · rw [if_neg hn]
            by_cases ha : nodes.all nonemptyHexStr = true
            · rw [if_neg (by simp [ha]), if_pos (by simp [hn, ha])]
            · rw [if_pos (by simpa using ha), if_neg (by simp [ha])]
        | _ => simp
    · simp [hr]

theorem authObj_valid_ok (a : List (String × Json)) (h : authObjZone a = .valid) : authObjOk a = true := by
  unfold authObjZone at h
  rw [worst_eq_valid] at h
  obtain ⟨hr, hp⟩ := h
  unfold authObjOk
  have h1 : (match Json.lookup a "receipt" with | some r => nonemptyHexStr r | none => false) = true := by
    cases hl : Json.lookup a "receipt" with
    | none => rw [hl] at hr; simp [hexZone] at hr
    | some r => rw [hl] at hr; exact hexZone_valid_nonempty r _ (by simpa using hr)
  rw [h1, Bool.true_and]
  cases hl : Json.lookup a "receipt_merkle_proof" with
  | none => rw [hl] at hp; cases hp
  | some v =>
    rw [hl] at hp
    cases v <;> simp only at hp <;> try (cases hp; done)
    rename_i ns
    simp only
    cases hn : ns.isEmpty with
    | true => simp [hn] at hp
    | false =>
      simp only [hn, Bool.false_eq_true, if_false, worst_eq_valid, worstAll_eq_valid] at hp
      simp only [Bool.not_false, Bool.true_and, List.all_eq_true]
      intro n hmem
      exact hexZone_valid_nonempty n _ (hp.1 _ (List.mem_map.2 ⟨n, hmem, rfl⟩))

theorem authObj_ok_not_invalid (a : List (String × Json)) (h : authObjOk a = true) : authObjZone a ≠ .invalid := by
  unfold authObjOk at h
  simp only [Bool.and_eq_true] at h
  obtain ⟨hr, hp⟩ := h
  unfold authObjZone
  rw [worst_ne_invalid]
  constructor
  · cases hl : Json.lookup a "receipt" with
    | none => rw [hl] at hr; cases hr
    | some r => rw [hl] at hr; simpa using hexZone_nonempty_not_invalid r _ hr
  · cases hl : Json.lookup a "receipt_merkle_proof" with
    | none => rw [hl] at hp; cases hp
    | some v =>
      rw [hl] at hp
      cases v <;> simp only at hp <;> try (cases hp; done)
      rename_i ns
      simp only [Bool.and_eq_true, Bool.not_eq_true', List.all_eq_true] at hp
      simp only [hp.1, Bool.false_eq_true, if_false]
      rw [worst_ne_invalid, worstAll_ne_invalid]
      refine ⟨fun z hz => ?_, by split <;> simp⟩
      obtain ⟨n, hn, rfl⟩ := List.mem_map.1 hz
      exact hexZone_nonempty_not_invalid n _ (hp.2 n hn)

/-- a refusal by `_validate_auth` names an `auth` the documents do not call valid -/
theorem auth_refusal (c : Codes) (kvs : List (String × Json)) (mand : Bool) (kind : MsgKind)
    (h : validateAuth c kvs mand ≠ 0) (hk : mand = true → kind = .tx) :
    validateAuth c kvs mand = c.invalidAuth ∧ authZone kvs kind ≠ .valid := by
  cases hl : Json.lookup kvs "auth" with
  | none =>
    unfold validateAuth at h ⊢
    unfold authZone
    simp only [hl] at h ⊢
    cases mand with
    | false => simp at h
    | true => simp [hk rfl]
  | some v =>
    cases v with
    | obj a =>
      rw [validateAuth_obj c kvs a mand hl] at h ⊢
      rw [authZone_obj kvs a kind hl]
      cases hok : authObjOk a with
      | true => simp [hok] at h
      | false =>
        refine ⟨by simp, ?_⟩
        have hz : authObjZone a ≠ .valid := fun hv => by
          have := authObj_valid_ok a hv; rw [hok] at this; cases this
        split
        · exact hz
        · rw [Ne, worst_eq_valid]; simp
    | _ => exact ⟨by simp [validateAuth, hl], by simp [authZone, hl]⟩

/-- an `auth` that `_validate_auth` accepts is not forbidden by the documents -/
theorem auth_accept (c : Codes) (kvs : List (String × Json)) (mand : Bool) (kind : MsgKind) (hc : c.invalidAuth ≠ 0)
    (h : validateAuth c kvs mand = 0) (hk : kind = .tx → mand = true) : authZone kvs kind ≠ .invalid := by
  cases hl : Json.lookup kvs "auth" with
  | none =>
    unfold validateAuth at h
    unfold authZone
    simp only [hl] at h ⊢
    cases mand with
    | true => simp at h; exact absurd h hc
    | false =>
      cases kind <;> simp
      exact absurd (hk rfl) (by simp)
  | some v =>
    cases v with
    | obj a =>
      rw [validateAuth_obj c kvs a mand hl] at h
      rw [authZone_obj kvs a kind hl]
      cases hok : authObjOk a with
      | false => simp [hok] at h; exact absurd h hc
      | true =>
        have hz := authObj_ok_not_invalid a hok
        split
        · exact hz
        · rw [worst_ne_invalid]; exact ⟨hz, by simp⟩
    | _ => simp [validateAuth, hl] at h; exact absurd h hc

/-! ### message -/

def hashOk (m : List (String × Json)) : Bool :=
  m.length == 1 && hasField m "hash" (hexStrOfLength 32)

def legacyOk (m : List (String × Json)) : Bool :=
  m.length == 3 && hasField m "tx" nonemptyHexStr && hasField m "input" (intInRange 0 0xffffffff)
    && hasField m "sighashComputationMode" (·.pyEqStr "legacy")

def segwitOk (m : List (String × Json)) : Bool :=
  m.length == 5 && hasField m "tx" nonemptyHexStr && hasField m "input" (intInRange 0 0xffffffff)
    && hasField m "sighashComputationMode" (·.pyEqStr "segwit")
    && hasField m "witnessScript" nonemptyHexStr
    && hasField m "outpointValue" (intInRange 1 0xffffffffffffffff)

theorem validateMessage_obj (c : Codes) (kvs m : List (String × Json)) (what : What)
    (h : Json.lookup kvs "message" = some (.obj m)) :
    validateMessage c kvs what =
      if (what == .any || what == .hash) && hashOk m then 0
      else if (what == .any || what == .tx) && (legacyOk m || segwitOk m) then 0
      else c.invalidMessage := by
  unfold validateMessage hashOk legacyOk segwitOk
  simp only [h, Bool.and_assoc]
  cases what <;> simp <;> (repeat' split) <;> first | (simp_all; done) | grind

theorem validateMessage_nonobj (c : Codes) (kvs : List (String × Json)) (what : What)
    (h : ∀ m, Json.lookup kvs "message" ≠ some (.obj m)) : validateMessage c kvs what = c.invalidMessage := by
  unfold validateMessage
  cases hl : Json.lookup kvs "message" with
  | none => rfl
  | some v => cases v <;> first | rfl | (rename_i m; exact absurd hl (h m))

theorem hasField_iff (m : List (String × Json)) (k : String) (p : Json → Bool) :
    hasField m k p = true ↔ ∃ v, Json.lookup m k = some v ∧ p v = true := by
  unfold hasField
  cases Json.lookup m k with
  | none => simp
  | some v => simp

theorem intZone_valid_iff (j : Option Json) (lo hi : Int) :
    intZone j lo hi = .valid ↔ ∃ v, j = some v ∧ intInRange lo hi v = true := by
  cases j with
  | none => simp [intZone]
  | some v => cases v <;> simp [intZone, intInRange]

theorem intZone_ne_invalid_iff (j : Option Json) (lo hi : Int) :
    intZone j lo hi ≠ .invalid ↔ intZone j lo hi = .valid := by
  cases j with
  | none => simp [intZone]
  | some v =>
    cases v <;> simp [intZone]

theorem txZone_valid (j : Option Json) (h : txZone j = .valid) :
    ∃ v, j = some v ∧ nonemptyHexStr v = true := by
  cases j with
  | none => simp [txZone] at h
  | some v =>
    cases v <;> simp only [txZone] at h <;> try (cases h; done)
    rename_i s
    refine ⟨_, rfl, ?_⟩
    cases hf : Py.fromHex s with
    | none => rw [hf] at h; cases h
    | some b =>
      cases b with
      | nil => rw [hf] at h; cases h
      | cons x xs => simp [nonemptyHexStr, Py.isNonemptyHex, hf]

theorem txZone_ne_invalid (s : String) (b : Bytes) (u : Bytes) (hf : Py.fromHex s = some b) (hb : b ≠ [])
    (hu : Btc.getUnsignedTx b = some u) : txZone (some (.str s)) ≠ .invalid := by
  cases b with
  | nil => exact absurd rfl hb
  | cons x xs =>
    simp only [txZone, hf, hu]
    split <;> simp

def legacyFlag (m : List (String × Json)) : Bool :=
  (Json.lookup m "sighashComputationMode").map (·.pyEqStr "legacy") == some true
def segwitFlag (m : List (String × Json)) : Bool :=
  (Json.lookup m "sighashComputationMode").map (·.pyEqStr "segwit") == some true

def keysL : List String := ["tx", "input", "sighashComputationMode"]
def keysS : List String := ["tx", "input", "sighashComputationMode", "witnessScript", "outpointValue"]

def zoneL (m : List (String × Json)) : Zone :=
  worst (txZone (Json.lookup m "tx")) (intZone (Json.lookup m "input") 0 0xffffffff)
def zoneS (m : List (String × Json)) : Zone :=
  worstAll [txZone (Json.lookup m "tx"), intZone (Json.lookup m "input") 0 0xffffffff,
            hexZone ((Json.lookup m "witnessScript").getD .null) (fun n => n + 3 + 8 < 65536),
            intZone (Json.lookup m "outpointValue") 1 0xffffffffffffffff]

theorem messageZone_obj (kvs m : List (String × Json)) (h : Json.lookup kvs "message" = some (.obj m)) :
    messageZone kvs =
      if keysAre m ["hash"] then (hexOfLenZone ((Json.lookup m "hash").getD .null) 32 false, .hash)
      else if keysAre m keysL && legacyFlag m then (zoneL m, .tx)
      else if keysAre m keysS && segwitFlag m then (zoneS m, .tx)
      else (.invalid, .bad) := by
  unfold messageZone legacyFlag segwitFlag keysL keysS zoneL zoneS
  simp only [h]

theorem messageZone_nonobj (kvs : List (String × Json)) (h : ∀ m, Json.lookup kvs "message" ≠ some (.obj m)) :
    messageZone kvs = (.invalid, .bad) := by
  unfold messageZone
  cases hl : Json.lookup kvs "message" with
  | none => rfl
  | some v => cases v <;> first | rfl | (rename_i m; exact absurd hl (h m))

theorem legacyFlag_iff (m : List (String × Json)) :
    legacyFlag m = true ↔ hasField m "sighashComputationMode" (·.pyEqStr "legacy") = true := by
  unfold legacyFlag hasField
  cases Json.lookup m "sighashComputationMode" with
  | none => simp
  | some v => cases h : v.pyEqStr "legacy" <;> simp [h]

theorem segwitFlag_iff (m : List (String × Json)) :
    segwitFlag m = true ↔ hasField m "sighashComputationMode" (·.pyEqStr "segwit") = true := by
  unfold segwitFlag hasField
  cases Json.lookup m "sighashComputationMode" with
  | none => simp
  | some v => cases h : v.pyEqStr "segwit" <;> simp [h]

theorem hasField_isSome {m : List (String × Json)} {k : String} {p : Json → Bool} (h : hasField m k p = true) :
    (Json.lookup m k).isSome = true := by
  obtain ⟨v, hv, _⟩ := (hasField_iff m k p).1 h
  simp [hv]

theorem hashOk_spec (m : List (String × Json)) (h : hashOk m = true) :
    keysAre m ["hash"] = true ∧ hexOfLenZone ((Json.lookup m "hash").getD .null) 32 false ≠ .invalid := by
  unfold hashOk at h
  simp only [Bool.and_eq_true, beq_iff_eq] at h
  obtain ⟨hl, hf⟩ := h
  obtain ⟨v, hv, hp⟩ := (hasField_iff _ _ _).1 hf
  refine ⟨(keysAre_iff m _).2 ⟨by simp [hl], by simp [hv]⟩, ?_⟩
  rw [hv]
  exact (hexOfLen_sound v 32 false).2 hp

theorem hashOk_of_valid (m : List (String × Json)) (hk : keysAre m ["hash"] = true)
    (hz : hexOfLenZone ((Json.lookup m "hash").getD .null) 32 false = .valid) : hashOk m = true := by
  obtain ⟨hl, hall⟩ := (keysAre_iff m _).1 hk
  have hs := hall "hash" (by simp)
  cases hv : Json.lookup m "hash" with
  | none => simp [hv] at hs
  | some v =>
    rw [hv] at hz
    have := (hexOfLen_sound v 32 false).1 (by simpa using hz)
    unfold hashOk
    simp only [Bool.and_eq_true, beq_iff_eq]
    exact ⟨by simpa using hl, (hasField_iff _ _ _).2 ⟨v, hv, this⟩⟩

theorem legacyOk_spec (m : List (String × Json)) (h : legacyOk m = true) :
    keysAre m ["hash"] = false ∧ keysAre m keysL = true ∧ legacyFlag m = true ∧
    intZone (Json.lookup m "input") 0 0xffffffff = .valid ∧
    ∃ v, Json.lookup m "tx" = some v ∧ nonemptyHexStr v = true := by
  unfold legacyOk at h
  simp only [Bool.and_eq_true, beq_iff_eq] at h
  obtain ⟨⟨⟨hl, htx⟩, hin⟩, hmode⟩ := h
  refine ⟨?_, ?_, (legacyFlag_iff m).2 hmode, ?_, ?_⟩
  · cases hk : keysAre m ["hash"] with
    | false => rfl
    | true => have := ((keysAre_iff m _).1 hk).1; simp at this; omega
  · refine (keysAre_iff m _).2 ⟨by simp [keysL, hl], ?_⟩
    intro k hk
    simp only [keysL, List.mem_cons, List.mem_nil_iff, or_false] at hk
    rcases hk with rfl | rfl | rfl
    · exact hasField_isSome htx
    · exact hasField_isSome hin
    · exact hasField_isSome hmode
  · obtain ⟨v, hv, hp⟩ := (hasField_iff _ _ _).1 hin
    exact (intZone_valid_iff _ _ _).2 ⟨v, hv, hp⟩
  · obtain ⟨v, hv, hp⟩ := (hasField_iff _ _ _).1 htx
    exact ⟨v, hv, hp⟩

theorem legacyOk_of_valid (m : List (String × Json)) (hk : keysAre m keysL = true) (hf : legacyFlag m = true)
    (hz : zoneL m = .valid) : legacyOk m = true := by
  obtain ⟨hl, _⟩ := (keysAre_iff m _).1 hk
  unfold zoneL at hz
  rw [worst_eq_valid] at hz
  obtain ⟨v, hv, hp⟩ := txZone_valid _ hz.1
  obtain ⟨i, hi, hip⟩ := (intZone_valid_iff _ _ _).1 hz.2
  unfold legacyOk
  simp only [Bool.and_eq_true, beq_iff_eq]
  exact ⟨⟨⟨by simpa [keysL] using hl, (hasField_iff _ _ _).2 ⟨v, hv, hp⟩⟩, (hasField_iff _ _ _).2 ⟨i, hi, hip⟩⟩,
    (legacyFlag_iff m).1 hf⟩

theorem segwitOk_spec (m : List (String × Json)) (h : segwitOk m = true) :
    keysAre m ["hash"] = false ∧ keysAre m keysL = false ∧ keysAre m keysS = true ∧ segwitFlag m = true ∧
    intZone (Json.lookup m "input") 0 0xffffffff = .valid ∧
    intZone (Json.lookup m "outpointValue") 1 0xffffffffffffffff = .valid ∧
    hexZone ((Json.lookup m "witnessScript").getD .null) (fun n => n + 3 + 8 < 65536) ≠ .invalid ∧
    ∃ v, Json.lookup m "tx" = some v ∧ nonemptyHexStr v = true := by
  unfold segwitOk at h
  simp only [Bool.and_eq_true, beq_iff_eq] at h
  obtain ⟨⟨⟨⟨⟨hl, htx⟩, hin⟩, hmode⟩, hws⟩, hop⟩ := h
  refine ⟨?_, ?_, ?_, (segwitFlag_iff m).2 hmode, ?_, ?_, ?_, ?_⟩
  · cases hk : keysAre m ["hash"] with
    | false => rfl
    | true => have := ((keysAre_iff m _).1 hk).1; simp at this; omega
  · cases hk : keysAre m keysL with
    | false => rfl
    | true => have := ((keysAre_iff m _).1 hk).1; simp [keysL] at this; omega
  · refine (keysAre_iff m _).2 ⟨by simp [keysS, hl], ?_⟩
    intro k hk
    simp only [keysS, List.mem_cons, List.mem_nil_iff, or_false] at hk
    rcases hk with rfl | rfl | rfl | rfl | rfl
    · exact hasField_isSome htx
    · exact hasField_isSome hin
    · exact hasField_isSome hmode
    · exact hasField_isSome hws
    · exact hasField_isSome hop
  · obtain ⟨v, hv, hp⟩ := (hasField_iff _ _ _).1 hin
    exact (intZone_valid_iff _ _ _).2 ⟨v, hv, hp⟩
  · obtain ⟨v, hv, hp⟩ := (hasField_iff _ _ _).1 hop
    exact (intZone_valid_iff _ _ _).2 ⟨v, hv, hp⟩
  · obtain ⟨v, hv, hp⟩ := (hasField_iff _ _ _).1 hws
    rw [hv]
    exact hexZone_nonempty_not_invalid v _ hp
  · obtain ⟨v, hv, hp⟩ := (hasField_iff _ _ _).1 htx
    exact ⟨v, hv, hp⟩

theorem segwitOk_of_valid (m : List (String × Json)) (hk : keysAre m keysS = true) (hf : segwitFlag m = true)
    (hz : zoneS m = .valid) : segwitOk m = true := by
  obtain ⟨hl, _⟩ := (keysAre_iff m _).1 hk
  unfold zoneS at hz
  rw [worstAll_eq_valid] at hz
  obtain ⟨v, hv, hp⟩ := txZone_valid _ (hz (txZone (Json.lookup m "tx")) (by simp))
  obtain ⟨i, hi, hip⟩ := (intZone_valid_iff _ _ _).1 (hz (intZone (Json.lookup m "input") 0 0xffffffff) (by simp))
  obtain ⟨o, ho, hop⟩ := (intZone_valid_iff _ _ _).1
    (hz (intZone (Json.lookup m "outpointValue") 1 0xffffffffffffffff) (by simp))
  have hw := hexZone_valid_nonempty _ _
    (hz (hexZone ((Json.lookup m "witnessScript").getD .null) (fun n => n + 3 + 8 < 65536)) (by simp))
  have hws : hasField m "witnessScript" nonemptyHexStr = true := by
    cases hl2 : Json.lookup m "witnessScript" with
    | none => rw [hl2] at hw; simp [nonemptyHexStr] at hw
    | some w => rw [hl2] at hw; exact (hasField_iff _ _ _).2 ⟨w, hl2, by simpa using hw⟩
  unfold segwitOk
  simp only [Bool.and_eq_true, beq_iff_eq]
  exact ⟨⟨⟨⟨⟨by simpa [keysS] using hl, (hasField_iff _ _ _).2 ⟨v, hv, hp⟩⟩, (hasField_iff _ _ _).2 ⟨i, hi, hip⟩⟩,
    (segwitFlag_iff m).1 hf⟩, hws⟩, (hasField_iff _ _ _).2 ⟨o, ho, hop⟩⟩

/-! ### the message validators against the message zone -/

/-- `request["message"]` as `_sign` reads it -/
def msgObjOf (kvs : List (String × Json)) : List (String × Json) :=
  match Json.lookup kvs "message" with | some (.obj m) => m | _ => []

/-- the unsigned transaction `_sign` computes -/
def utxOf (kvs : List (String × Json)) : Option Bytes :=
  ((strField? (msgObjOf kvs) "tx").bind Py.fromHex).bind Btc.getUnsignedTx

theorem msgObjOf_obj {kvs m : List (String × Json)} (h : Json.lookup kvs "message" = some (.obj m)) :
    msgObjOf kvs = m := by simp [msgObjOf, h]

theorem msgObjOf_nonobj {kvs : List (String × Json)} (h : ∀ m, Json.lookup kvs "message" ≠ some (.obj m)) :
    msgObjOf kvs = [] := by
  unfold msgObjOf
  cases hl : Json.lookup kvs "message" with
  | none => rfl
  | some v => cases v <;> first | rfl | (rename_i m; exact absurd hl (h m))

theorem obj_or_not (kvs : List (String × Json)) :
    (∃ m, Json.lookup kvs "message" = some (.obj m)) ∨ (∀ m, Json.lookup kvs "message" ≠ some (.obj m)) := by
  cases hl : Json.lookup kvs "message" with
  | none => right; intro m h; cases h
  | some v =>
    cases v
    case obj m => left; exact ⟨m, rfl⟩
    all_goals (right; intro m h; cases h)

theorem hash_not_in_keysL : "hash" ∉ keysL := by decide
theorem hash_not_in_keysS : "hash" ∉ keysS := by decide
theorem keysL_nodup : keysL.Nodup := by decide
theorem keysS_nodup : keysS.Nodup := by decide

theorem no_hash_of_keysL (m : List (String × Json)) (hk : keysAre m keysL = true) : Json.lookup m "hash" = none := by
  obtain ⟨hl, hall⟩ := (keysAre_iff m _).1 hk
  cases h : Json.lookup m "hash" with
  | none => rfl
  | some v => exact absurd (keys_exact m keysL keysL_nodup hl hall "hash" (by simp [h])) hash_not_in_keysL

theorem no_hash_of_keysS (m : List (String × Json)) (hk : keysAre m keysS = true) : Json.lookup m "hash" = none := by
  obtain ⟨hl, hall⟩ := (keysAre_iff m _).1 hk
  cases h : Json.lookup m "hash" with
  | none => rfl
  | some v => exact absurd (keys_exact m keysS keysS_nodup hl hall "hash" (by simp [h])) hash_not_in_keysS

/-- the message zone is `valid` only in one of the three documented shapes -/
theorem mz_valid_cases (kvs : List (String × Json)) (h : (messageZone kvs).1 = .valid) :
    ∃ m, Json.lookup kvs "message" = some (.obj m) ∧
      ((hashOk m = true ∧ (Json.lookup m "hash").isSome = true) ∨
       ((legacyOk m = true ∨ segwitOk m = true) ∧ Json.lookup m "hash" = none)) := by
  rcases obj_or_not kvs with ⟨m, hm⟩ | hn
  · refine ⟨m, hm, ?_⟩
    rw [messageZone_obj kvs m hm] at h
    split at h
    · rename_i hk
      left
      exact ⟨hashOk_of_valid m hk h, ((keysAre_iff m _).1 hk).2 "hash" (by simp)⟩
    · split at h
      · rename_i hk
        simp only [Bool.and_eq_true] at hk
        right
        exact ⟨Or.inl (legacyOk_of_valid m hk.1 hk.2 h), no_hash_of_keysL m hk.1⟩
      · split at h
        · rename_i hk
          simp only [Bool.and_eq_true] at hk
          right
          exact ⟨Or.inr (segwitOk_of_valid m hk.1 hk.2 h), no_hash_of_keysS m hk.1⟩
        · cases h
  · rw [messageZone_nonobj kvs hn] at h; cases h

/-- a refusal by `_validate_message` names a message the documents do not call valid: for any shape;
    for the hash shape when the message has a `hash` member; for the transaction shapes when it has none -/
theorem message_refusal (c : Codes) (kvs : List (String × Json)) (what : What)
    (h : validateMessage c kvs what ≠ 0)
    (hw : what = .any ∨ (what = .hash ∧ (Json.lookup (msgObjOf kvs) "hash").isSome = true) ∨
          (what = .tx ∧ Json.lookup (msgObjOf kvs) "hash" = none)) :
    validateMessage c kvs what = c.invalidMessage ∧ (messageZone kvs).1 ≠ .valid := by
  rcases obj_or_not kvs with ⟨m, hm⟩ | hn
  · rw [validateMessage_obj c kvs m what hm] at h ⊢
    rw [msgObjOf_obj hm] at hw
    have hcode : (if (what == .any || what == .hash) && hashOk m then (0 : Int)
        else if (what == .any || what == .tx) && (legacyOk m || segwitOk m) then 0 else c.invalidMessage)
        = c.invalidMessage := by
      split at h
      · exact absurd rfl h
      · split at h
        · exact absurd rfl h
        · rename_i h1 h2; simp [h1, h2]
    refine ⟨hcode, fun hv => ?_⟩
    obtain ⟨m', hm', hcase⟩ := mz_valid_cases kvs hv
    rw [hm] at hm'
    injection hm' with hm'
    injection hm' with hm'
    subst hm'
    rcases hcase with ⟨hok, hsome⟩ | ⟨hok, hnone⟩
    · rcases hw with rfl | ⟨rfl, _⟩ | ⟨rfl, hno⟩
      · simp [hok] at h
      · simp [hok] at h
      · rw [hno] at hsome; cases hsome
    · have hor : (legacyOk m || segwitOk m) = true := by simpa using hok
      rcases hw with rfl | ⟨rfl, hyes⟩ | ⟨rfl, _⟩
      · simp [hor] at h
      · rw [hnone] at hyes; cases hyes
      · simp [hor] at h
  · rw [validateMessage_nonobj c kvs what hn]
    rw [messageZone_nonobj kvs hn]
    exact ⟨rfl, by simp⟩

theorem accepted_obj (c : Codes) (kvs : List (String × Json)) (what : What) (hc : c.invalidMessage ≠ 0)
    (h : validateMessage c kvs what = 0) :
    ∃ m, Json.lookup kvs "message" = some (.obj m) ∧
      (((what = .any ∨ what = .hash) ∧ hashOk m = true) ∨
       ((what = .any ∨ what = .tx) ∧ (legacyOk m = true ∨ segwitOk m = true))) := by
  rcases obj_or_not kvs with ⟨m, hm⟩ | hn
  · refine ⟨m, hm, ?_⟩
    rw [validateMessage_obj c kvs m what hm] at h
    split at h
    · rename_i h1
      left
      simp only [Bool.and_eq_true, Bool.or_eq_true, beq_iff_eq] at h1
      exact h1
    · split at h
      · rename_i h1 h2
        right
        simp only [Bool.and_eq_true, Bool.or_eq_true, beq_iff_eq] at h2
        exact h2
      · exact absurd h hc
  · rw [validateMessage_nonobj c kvs what hn] at h
    exact absurd h hc

theorem messageZone_hashOk (kvs m : List (String × Json)) (hm : Json.lookup kvs "message" = some (.obj m))
    (hok : hashOk m = true) : (messageZone kvs).1 ≠ .invalid ∧ (messageZone kvs).2 = .hash := by
  obtain ⟨hk, hz⟩ := hashOk_spec m hok
  rw [messageZone_obj kvs m hm, if_pos hk]
  exact ⟨hz, rfl⟩

theorem messageZone_legacyOk (kvs m : List (String × Json)) (hm : Json.lookup kvs "message" = some (.obj m))
    (hok : legacyOk m = true) : messageZone kvs = (zoneL m, .tx) := by
  obtain ⟨h1, h2, h3, _, _⟩ := legacyOk_spec m hok
  rw [messageZone_obj kvs m hm, if_neg (by simp [h1]), if_pos (by simp [h2, h3])]

theorem messageZone_segwitOk (kvs m : List (String × Json)) (hm : Json.lookup kvs "message" = some (.obj m))
    (hok : segwitOk m = true) : messageZone kvs = (zoneS m, .tx) := by
  obtain ⟨h1, h2, h3, h4, _⟩ := segwitOk_spec m hok
  rw [messageZone_obj kvs m hm, if_neg (by simp [h1]), if_neg (by simp [h2]), if_pos (by simp [h3, h4])]

/-- the hash shape, accepted: not forbidden, and the kind the `auth` rule looks at is "hash" -/
theorem message_accept_hash (c : Codes) (kvs : List (String × Json)) (hc : c.invalidMessage ≠ 0)
    (h : validateMessage c kvs .hash = 0) :
    (messageZone kvs).1 ≠ .invalid ∧ (messageZone kvs).2 = .hash := by
  obtain ⟨m, hm, hcase⟩ := accepted_obj c kvs .hash hc h
  rcases hcase with ⟨_, hok⟩ | ⟨hw, _⟩
  · exact messageZone_hashOk kvs m hm hok
  · rcases hw with hw | hw <;> cases hw

/-- what passed the first stage and has no `hash` member is of the transaction kind -/
theorem kind_tx_of_any (c : Codes) (kvs : List (String × Json)) (hc : c.invalidMessage ≠ 0)
    (h : validateMessage c kvs .any = 0) (hno : Json.lookup (msgObjOf kvs) "hash" = none) :
    (messageZone kvs).2 = .tx := by
  obtain ⟨m, hm, hcase⟩ := accepted_obj c kvs .any hc h
  rw [msgObjOf_obj hm] at hno
  rcases hcase with ⟨_, hok⟩ | ⟨_, hok | hok⟩
  · have := (hashOk_spec m hok).1
    have := ((keysAre_iff m _).1 this).2 "hash" (by simp)
    rw [hno] at this; cases this
  · rw [messageZone_legacyOk kvs m hm hok]
  · rw [messageZone_segwitOk kvs m hm hok]

theorem tx_field (kvs m : List (String × Json)) (hm : Json.lookup kvs "message" = some (.obj m))
    (v : Json) (hv : Json.lookup m "tx" = some v) (hp : nonemptyHexStr v = true) :
    ∃ s b bs, v = .str s ∧ Py.fromHex s = some (b :: bs) ∧ utxOf kvs = Btc.getUnsignedTx (b :: bs) := by
  cases v <;> simp only [nonemptyHexStr] at hp <;> try (cases hp; done)
  rename_i s
  unfold Py.isNonemptyHex at hp
  cases hf : Py.fromHex s with
  | none => rw [hf] at hp; cases hp
  | some bb =>
    cases bb with
    | nil => rw [hf] at hp; cases hp
    | cons b bs =>
      refine ⟨s, b, bs, rfl, hf, ?_⟩
      unfold utxOf strField?
      rw [msgObjOf_obj hm, hv]
      simp [hf]

/-- the transaction shapes, accepted by the validator: the zone is decided by whether the transaction
    decodes -/
theorem message_tx_zone (c : Codes) (kvs : List (String × Json)) (hc : c.invalidMessage ≠ 0)
    (h : validateMessage c kvs .tx = 0) :
    (messageZone kvs).2 = .tx ∧
    ((utxOf kvs).isSome = true → (messageZone kvs).1 ≠ .invalid) ∧
    (utxOf kvs = none → (messageZone kvs).1 ≠ .valid) := by
  obtain ⟨m, hm, hcase⟩ := accepted_obj c kvs .tx hc h
  rcases hcase with ⟨hw, _⟩ | ⟨_, hok | hok⟩
  · rcases hw with hw | hw <;> cases hw
  · obtain ⟨_, _, _, hin, v, hv, hp⟩ := legacyOk_spec m hok
    obtain ⟨s, b, bs, rfl, hf, hu⟩ := tx_field kvs m hm v hv hp
    rw [messageZone_legacyOk kvs m hm hok]
    refine ⟨rfl, fun hs => ?_, fun hn => ?_⟩
    · simp only [zoneL]
      rw [worst_ne_invalid, hv, hin]
      rw [hu] at hs
      cases hg : Btc.getUnsignedTx (b :: bs) with
      | none => rw [hg] at hs; cases hs
      | some u => exact ⟨txZone_ne_invalid s _ u hf (by simp) hg, by simp⟩
    · simp only [zoneL]
      rw [Ne, worst_eq_valid, hv]
      rw [hu] at hn
      simp [txZone, hf, hn]
  · obtain ⟨_, _, _, _, hin, hop, hws, v, hv, hp⟩ := segwitOk_spec m hok
    obtain ⟨s, b, bs, rfl, hf, hu⟩ := tx_field kvs m hm v hv hp
    rw [messageZone_segwitOk kvs m hm hok]
    refine ⟨rfl, fun hs => ?_, fun hn => ?_⟩
    · simp only [zoneS]
      rw [worstAll_ne_invalid]
      rw [hu] at hs
      cases hg : Btc.getUnsignedTx (b :: bs) with
      | none => rw [hg] at hs; cases hs
      | some u =>
        intro z hz
        simp only [List.mem_cons, List.mem_nil_iff, or_false] at hz
        rcases hz with rfl | rfl | rfl | rfl
        · rw [hv]; exact txZone_ne_invalid s _ u hf (by simp) hg
        · rw [hin]; simp
        · exact hws
        · rw [hop]; simp
    · simp only [zoneS]
      rw [Ne, worstAll_eq_valid]
      intro hall
      have := hall (txZone (Json.lookup m "tx")) (by simp)
      rw [hu] at hn
      rw [hv] at this
      simp [txZone, hf, hn] at this

/-! ### `sign`, version 5: both stages -/

/-- the verdict `sign` reaches before any exchange with the device: the refusal code of
    `_validate_sign` (comm/protocol.py) or of `_sign`'s own validation (ledger/protocol.py), or `none`
    when the request goes on to the device -/
def signV5Verdict (kvs : List (String × Json)) : Option Int :=
  let c := codes .v5
  match validateSign .v5 kvs with
  | .error e => some e
  | .ok _ =>
    if (Json.lookup (msgObjOf kvs) "hash").isSome then
      if validateMessage c kvs .hash < 0 then some (validateMessage c kvs .hash) else none
    else if validateAuth c kvs true < 0 then some (validateAuth c kvs true)
    else if validateMessage c kvs .tx < 0 then some (validateMessage c kvs .tx)
    else match utxOf kvs with
      | none => some c.invalidMessage
      | some _ => none

theorem v5_codes : (codes .v5).invalidKeyId = -103 ∧ (codes .v5).invalidMessage = -102 ∧
    (codes .v5).invalidAuth = -101 := by decide

theorem fieldZones_sign (kvs : List (String × Json)) :
    fieldZones .v5 "sign" kvs =
      [(-103, keyIdZone kvs), (-102, (messageZone kvs).1), (-101, authZone kvs (messageZone kvs).2)] := by
  simp [fieldZones]

theorem validateSign_v5_ok (kvs : List (String × Json)) (p : List Nat) (h : validateSign .v5 kvs = .ok p) :
    validateKeyId (codes .v5) kvs = .ok p ∧ validateAuth (codes .v5) kvs false = 0 ∧
    validateMessage (codes .v5) kvs .any = 0 := by
  unfold validateSign at h
  simp only at h
  cases hk : validateKeyId (codes .v5) kvs with
  | error e => rw [hk] at h; cases h
  | ok path =>
    rw [hk] at h
    simp only at h
    split at h
    · cases h
    · rename_i ha
      split at h
      · cases h
      · rename_i hm
        injection h with h
        subst h
        have a0 : validateAuth (codes .v5) kvs false = 0 := by
          rcases Classical.em (validateAuth (codes .v5) kvs false = 0) with h0 | h0
          · exact h0
          · have := (auth_refusal (codes .v5) kvs false .hash h0 (by simp)).1
            rw [this] at ha; exact absurd (by decide) ha
        have m0 : validateMessage (codes .v5) kvs .any = 0 := by
          rcases Classical.em (validateMessage (codes .v5) kvs .any = 0) with h0 | h0
          · exact h0
          · have := (message_refusal (codes .v5) kvs .any h0 (Or.inl rfl)).1
            rw [this] at hm; exact absurd (by decide) hm
        exact ⟨rfl, a0, m0⟩

/-- **every refusal of `sign` carries the code of a field the documents do not call valid** -/
theorem sign_refusal_allowed (kvs : List (String × Json)) (e : Int) (h : signV5Verdict kvs = some e) :
    e < 0 ∧ ∃ z, (e, z) ∈ fieldZones .v5 "sign" kvs ∧ z ≠ .valid := by
  obtain ⟨ck, cm, ca⟩ := v5_codes
  rw [fieldZones_sign]
  unfold signV5Verdict at h
  simp only at h
  cases hv : validateSign .v5 kvs with
  | error e' =>
    rw [hv] at h
    injection h with h
    subst h
    -- first stage
    unfold validateSign at hv
    simp only at hv
    cases hk : validateKeyId (codes .v5) kvs with
    | error e'' =>
      rw [hk] at hv
      injection hv with hv
      obtain ⟨hcode, hz⟩ := keyId_refusal _ _ _ hk
      rw [← hv, hcode, ck]
      exact ⟨by decide, _, by simp, hz⟩
    | ok path =>
      rw [hk] at hv
      simp only at hv
      split at hv
      · rename_i ha
        injection hv with hv
        obtain ⟨hcode, hz⟩ := auth_refusal (codes .v5) kvs false (messageZone kvs).2 (by omega) (by simp)
        rw [← hv, hcode, ca]
        exact ⟨by decide, _, by simp, hz⟩
      · split at hv
        · rename_i hm
          injection hv with hv
          obtain ⟨hcode, hz⟩ := message_refusal (codes .v5) kvs .any (by omega) (Or.inl rfl)
          rw [← hv, hcode, cm]
          exact ⟨by decide, _, by simp, hz⟩
        · cases hv
  | ok path =>
    rw [hv] at h
    simp only at h
    obtain ⟨_, a0, m0⟩ := validateSign_v5_ok kvs path hv
    split at h
    · rename_i hyes
      split at h
      · rename_i hm
        injection h with h
        obtain ⟨hcode, hz⟩ := message_refusal (codes .v5) kvs .hash (by omega) (Or.inr (Or.inl ⟨rfl, hyes⟩))
        rw [← h, hcode, cm]
        exact ⟨by decide, _, by simp, hz⟩
      · cases h
    · rename_i hno
      have hno' : Json.lookup (msgObjOf kvs) "hash" = none := by
        cases hl : Json.lookup (msgObjOf kvs) "hash" with
        | none => rfl
        | some v => rw [hl] at hno; simp at hno
      have hkind := kind_tx_of_any (codes .v5) kvs (by rw [cm]; decide) m0 hno'
      split at h
      · rename_i ha
        injection h with h
        obtain ⟨hcode, hz⟩ := auth_refusal (codes .v5) kvs true (messageZone kvs).2 (by omega) (fun _ => hkind)
        rw [← h, hcode, ca]
        exact ⟨by decide, _, by simp, hz⟩
      · split at h
        · rename_i hm
          injection h with h
          obtain ⟨hcode, hz⟩ := message_refusal (codes .v5) kvs .tx (by omega) (Or.inr (Or.inr ⟨rfl, hno'⟩))
          rw [← h, hcode, cm]
          exact ⟨by decide, _, by simp, hz⟩
        · rename_i hm
          have t0 : validateMessage (codes .v5) kvs .tx = 0 := by
            rcases Classical.em (validateMessage (codes .v5) kvs .tx = 0) with h0 | h0
            · exact h0
            · have := (message_refusal (codes .v5) kvs .tx h0 (Or.inr (Or.inr ⟨rfl, hno'⟩))).1
              rw [this] at hm; exact absurd (by decide) hm
          cases hu : utxOf kvs with
          | some u => rw [hu] at h; cases h
          | none =>
            rw [hu] at h
            injection h with h
            have hz := (message_tx_zone (codes .v5) kvs (by rw [cm]; decide) t0).2.2 hu
            rw [← h, cm]
            exact ⟨by decide, _, by simp, hz⟩

theorem zero_of_not_neg_auth (kvs : List (String × Json)) (mand : Bool) (kind : MsgKind)
    (hk : mand = true → kind = .tx) (h : ¬ validateAuth (codes .v5) kvs mand < 0) :
    validateAuth (codes .v5) kvs mand = 0 := by
  rcases Classical.em (validateAuth (codes .v5) kvs mand = 0) with h0 | h0
  · exact h0
  · have := (auth_refusal (codes .v5) kvs mand kind h0 hk).1
    rw [this] at h; exact absurd (by decide) h

/-- **what `sign` lets through to the device the documents do not forbid** -/
theorem sign_pass_not_forbidden (kvs : List (String × Json)) (h : signV5Verdict kvs = none) :
    ∀ cz ∈ fieldZones .v5 "sign" kvs, cz.2 ≠ .invalid := by
  obtain ⟨ck, cm, ca⟩ := v5_codes
  rw [fieldZones_sign]
  unfold signV5Verdict at h
  simp only at h
  cases hv : validateSign .v5 kvs with
  | error e' => rw [hv] at h; cases h
  | ok path =>
    rw [hv] at h
    simp only at h
    obtain ⟨k0, a0, m0⟩ := validateSign_v5_ok kvs path hv
    have hkz := keyId_accept_not_invalid _ _ _ k0
    split at h
    · rename_i hyes
      split at h
      · cases h
      · rename_i hm
        have h0 : validateMessage (codes .v5) kvs .hash = 0 := by
          rcases Classical.em (validateMessage (codes .v5) kvs .hash = 0) with h0 | h0
          · exact h0
          · have := (message_refusal (codes .v5) kvs .hash h0 (Or.inr (Or.inl ⟨rfl, hyes⟩))).1
            rw [this] at hm; exact absurd (by decide) hm
        obtain ⟨hmz, hkind⟩ := message_accept_hash (codes .v5) kvs (by rw [cm]; decide) h0
        have haz := auth_accept (codes .v5) kvs false (messageZone kvs).2 (by rw [ca]; decide) a0
          (by rw [hkind]; intro hh; cases hh)
        intro cz hcz
        simp only [List.mem_cons, List.mem_nil_iff, or_false] at hcz
        rcases hcz with rfl | rfl | rfl
        · exact hkz
        · exact hmz
        · exact haz
    · rename_i hno
      have hno' : Json.lookup (msgObjOf kvs) "hash" = none := by
        cases hl : Json.lookup (msgObjOf kvs) "hash" with
        | none => rfl
        | some v => rw [hl] at hno; simp at hno
      have hkind := kind_tx_of_any (codes .v5) kvs (by rw [cm]; decide) m0 hno'
      split at h
      · cases h
      · rename_i ha
        have a1 := zero_of_not_neg_auth kvs true (messageZone kvs).2 (fun _ => hkind) ha
        split at h
        · cases h
        · rename_i hm
          have t0 : validateMessage (codes .v5) kvs .tx = 0 := by
            rcases Classical.em (validateMessage (codes .v5) kvs .tx = 0) with h0 | h0
            · exact h0
            · have := (message_refusal (codes .v5) kvs .tx h0 (Or.inr (Or.inr ⟨rfl, hno'⟩))).1
              rw [this] at hm; exact absurd (by decide) hm
          cases hu : utxOf kvs with
          | none => rw [hu] at h; cases h
          | some u =>
            have hmz := (message_tx_zone (codes .v5) kvs (by rw [cm]; decide) t0).2.1 (by simp [hu])
            have haz := auth_accept (codes .v5) kvs true (messageZone kvs).2 (by rw [ca]; decide) a1 (fun _ => rfl)
            intro cz hcz
            simp only [List.mem_cons, List.mem_nil_iff, or_false] at hcz
            rcases hcz with rfl | rfl | rfl
            · exact hkz
            · exact hmz
            · exact haz

/-- `signV5` with the message object as a parameter -/
def signV5body (c : Codes) (req : List (String × Json)) (path : List Nat) (msgObj : List (String × Json)) : M Out :=
  if (Json.lookup msgObj "hash").isSome then
    let v := validateMessage c req .hash
    if v < 0 then pure (v, [])
    else
      let h := (strField? msgObj "hash").bind Py.fromHex
      signGuard c (do ensureConnection; Dongle.signUnauthorized path h)
        (signReply translateSign translateSignDefault)
  else
    let a := validateAuth c req true
    if a < 0 then pure (a, [])
    else
      let v := validateMessage c req .tx
      if v < 0 then pure (v, [])
      else
        match ((strField? msgObj "tx").bind Py.fromHex).bind Btc.getUnsignedTx with
        | none => pure (c.invalidMessage, [])
        | some utx =>
          let auth := match Json.lookup req "auth" with | some (.obj a) => a | _ => []
          let receipt := ((strField? auth "receipt").bind Py.fromHex).getD []
          let proof := match Json.lookup auth "receipt_merkle_proof" with
            | some (.arr ns) => ns.map fun n => (match n with | .str s => (Py.fromHex s).getD [] | _ => [])
            | _ => []
          let segwit := (Json.lookup msgObj "sighashComputationMode").map (·.pyEqStr "segwit") == some true
          let args : Dongle.SignAuthArgs := {
            path := path, receipt := receipt, proof := proof, btcTx := utx,
            input := (match Json.lookup msgObj "input" with | some (.int n) => n | _ => 0),
            segwit := segwit,
            witnessScript := ((strField? msgObj "witnessScript").bind Py.fromHex).getD [],
            outpoint := (match Json.lookup msgObj "outpointValue" with | some (.int n) => n | _ => 0) }
          signGuard c (do ensureConnection; Dongle.signAuthorized args)
            (signReply translateSign translateSignDefault)

theorem signV5_eq_body (c : Codes) (req : List (String × Json)) (path : List Nat) :
    signV5 c req path = signV5body c req path (msgObjOf req) := by
  unfold signV5 signV5body msgObjOf
  cases Json.lookup req "message" with
  | none => rfl
  | some v => cases v <;> rfl

/-- the model of the manager answers a refused `sign` with that code and without any event -/
theorem sign_refusal_observed (hs : Dongle.Hashes) (kvs : List (String × Json)) (w : World) (e : Int)
    (hg : gate (codes .v5) kvs = .ok "sign") (h : signV5Verdict kvs = some e) :
    (handleRequest .v5 hs (.obj kvs) w).val = .ok (errReply e) ∧ (handleRequest .v5 hs (.obj kvs) w).evs = [] ∧
    (handleRequest .v5 hs (.obj kvs) w).w = w := by
  have hneg := (sign_refusal_allowed kvs e h).1
  unfold signV5Verdict at h
  simp only at h
  cases hv : validateSign .v5 kvs with
  | error e' =>
    rw [hv] at h
    injection h with h
    subst h
    have hvc : validateCmd .v5 "sign" kvs = .error e' := by simp [validateCmd, hv]
    simp only [handleRequest, hg, hvc]
    exact ⟨rfl, rfl, rfl⟩
  | ok path =>
    rw [hv] at h
    have hvc : validateCmd .v5 "sign" kvs = .ok path := by simp [validateCmd, hv]
    have hop : operate .v5 hs "sign" kvs path = signV5 (codes .v5) kvs path := by simp [operate]
    have hfin : finish (e, []) = errReply e := by simp [finish, hneg]
    have key : signV5 (codes .v5) kvs path w = ⟨.ok (e, []), [], w⟩ := by
      rw [signV5_eq_body]
      unfold signV5body
      simp only at h ⊢
      split at h
      · rename_i hyes
        rw [if_pos hyes]
        split at h
        · rename_i hm
          injection h with h
          rw [if_pos hm, h]; rfl
        · cases h
      · rename_i hno
        rw [if_neg hno]
        split at h
        · rename_i ha
          injection h with h
          rw [if_pos ha, h]; rfl
        · rename_i ha
          rw [if_neg ha]
          split at h
          · rename_i hm
            injection h with h
            rw [if_pos hm, h]; rfl
          · rename_i hm
            rw [if_neg hm]
            have hu : utxOf kvs = ((strField? (msgObjOf kvs) "tx").bind Py.fromHex).bind Btc.getUnsignedTx := rfl
            cases hx : utxOf kvs with
            | some u => rw [hx] at h; cases h
            | none =>
              rw [hx] at h
              injection h with h
              rw [hu] at hx
              simp only [hx, h]; rfl
    simp only [handleRequest, hg, hvc, hop]
    rw [M.bind_ok key]
    simp only [hfin]
    exact ⟨rfl, rfl, rfl⟩

end Classify
end PowHsm
