/-
  C16, "saving such a certificate and loading it again yields the same verdicts": a certificate file
  denotes a dictionary name ↦ element (`self._elements`); saving writes that dictionary, so the list of
  elements read back may differ from the one first read (duplicates gone, so a different length — the
  walks' fuel) but denotes the same dictionary.  Everything validation computes depends on the list only
  through that dictionary.
-/
import PowHsm.Proofs.CertWalk
namespace PowHsm
namespace Cert

/-- two element lists that denote the same dictionary -/
def SameDict (els els' : List Elem) : Prop := ∀ n, lookup els n = lookup els' n

theorem sanityWalk_sameDict (root : String) (els els' : List Elem) (h : SameDict els els') :
    ∀ (fuel : Nat) (visited : List String) (cur : Elem),
      sanityWalk root els fuel visited cur = sanityWalk root els' fuel visited cur := by
  intro fuel
  induction fuel with
  | zero => intro v c; rfl
  | succ f ih =>
    intro v c
    unfold sanityWalk
    rw [h c.signedBy]
    split
    · rfl
    · split
      · rfl
      · split
        · rfl
        · exact ih _ _

theorem chainUp_sameDict (root : String) (els els' : List Elem) (h : SameDict els els') :
    ∀ (fuel : Nat) (cur : Elem), chainUp root els fuel cur = chainUp root els' fuel cur := by
  intro fuel
  induction fuel with
  | zero => intro c; rfl
  | succ f ih =>
    intro c
    unfold chainUp
    rw [h c.signedBy]
    split
    · rfl
    · split
      · rfl
      · rw [ih]

/-- more fuel does not change a walk that ended -/
theorem sanityWalk_mono (root : String) (els : List Elem) :
    ∀ (fuel k : Nat) (visited : List String) (cur : Elem),
      sanityWalk root els fuel visited cur ≠ .outOfFuel →
      sanityWalk root els (fuel + k) visited cur = sanityWalk root els fuel visited cur := by
  intro fuel
  induction fuel with
  | zero => intro k v c h; exact absurd rfl h
  | succ f ih =>
    intro k v c h
    have e : f + 1 + k = (f + k) + 1 := by omega
    rw [e]
    unfold sanityWalk at h ⊢
    by_cases hvis : v.contains c.name = true
    · rw [if_pos hvis, if_pos hvis]
    · rw [if_neg hvis, if_neg hvis] at *
      by_cases hroot : (c.signedBy == root) = true
      · rw [if_pos hroot, if_pos hroot]
      · rw [if_neg hroot, if_neg hroot] at *
        cases hp : lookup els c.signedBy with
        | none => rfl
        | some parent =>
          rw [hp] at h
          exact ih k _ _ h

theorem chainUp_mono (root : String) (els : List Elem) :
    ∀ (fuel k : Nat) (cur : Elem) (chain : List Elem),
      chainUp root els fuel cur = some chain → chainUp root els (fuel + k) cur = some chain := by
  intro fuel
  induction fuel with
  | zero => intro k c ch h; simp [chainUp] at h
  | succ f ih =>
    intro k c ch h
    have e : f + 1 + k = (f + k) + 1 := by omega
    rw [e]
    unfold chainUp at h ⊢
    split
    · rename_i hroot; simpa [hroot] using h
    · rename_i hroot
      simp only [hroot] at h
      split
      · rename_i hp; simp [hp] at h
      · rename_i parent hp
        rw [hp] at h
        simp only at h
        cases hcp : chainUp root els f parent with
        | none => rw [hcp] at h; cases h
        | some c' =>
          rw [hcp] at h
          rw [ih k parent c' hcp]
          exact h

/-- **the verdicts are those of the dictionary**: for a target the sanity check of `_parse` accepts, the
    verdict of `validate_and_get_values` is the same for any two element lists denoting the same
    dictionary — in particular for the list first loaded and the list read back after saving, whatever
    their lengths -/
theorem verdict_of_dict (root : String) (els els' : List Elem) (lv : Option Elem → Elem → Bool)
    (hd : SameDict els els') (target : String) (t : Elem) (ht : lookup els target = some t)
    (hsane : sanityWalk root els (els.length + 1) [] t = .ok) :
    validateTarget root els lv target = validateTarget root els' lv target := by
  have ht' : lookup els' target = some t := by rw [← hd target]; exact ht
  -- the reloaded list is sane for the target too
  have hne' : sanityWalk root els' (els'.length + 1) [] t ≠ .outOfFuel :=
    sanity_walk_terminates root els' target t ht'
  have hsane' : sanityWalk root els' (els'.length + 1) [] t = .ok := by
    have h1 : sanityWalk root els (els'.length + 1) [] t ≠ .outOfFuel := by
      rw [sanityWalk_sameDict root els els' hd]; exact hne'
    have a := sanityWalk_mono root els (els'.length + 1) (els.length + 1) [] t h1
    have b := sanityWalk_mono root els (els.length + 1) (els'.length + 1) [] t (by rw [hsane]; simp)
    have e : els'.length + 1 + (els.length + 1) = els.length + 1 + (els'.length + 1) := by omega
    rw [e, b, hsane] at a
    rw [← sanityWalk_sameDict root els els' hd, ← a]
  obtain ⟨c, hc, _⟩ := sane_gives_chain root els _ _ _ hsane
  obtain ⟨c', hc', _⟩ := sane_gives_chain root els' _ _ _ hsane'
  have hcc : c = c' := by
    have a := chainUp_mono root els (els.length + 1) (els'.length + 1) t c hc
    have b := chainUp_mono root els' (els'.length + 1) (els.length + 1) t c' hc'
    have e : els'.length + 1 + (els.length + 1) = els.length + 1 + (els'.length + 1) := by omega
    rw [e, ← chainUp_sameDict root els els' hd, a] at b
    injection b
  unfold validateTarget
  rw [ht, ht']
  simp only [hc, hc', hcc]

/-! ### what saving writes -/

theorem nodup_eraseDups : ∀ (n : Nat) (l : List String), l.length ≤ n → l.eraseDups.Nodup := by
  intro n
  induction n with
  | zero => intro l h; have : l = [] := List.length_eq_zero_iff.1 (by omega); subst this; simp
  | succ k ih =>
    intro l h
    cases l with
    | nil => simp
    | cons a as =>
      rw [List.eraseDups_cons, List.nodup_cons]
      refine ⟨?_, ih _ ?_⟩
      · intro hm
        rw [List.mem_eraseDups, List.mem_filter] at hm
        simp at hm
      · have := List.length_filter_le (fun b => !b == a) as
        simp at h; omega

/-- looking a name up in `ns.filterMap f`, when the names are distinct and `f` answers with an element
    of that name -/
theorem lookup_filterMap (f : String → Option Elem) (hf : ∀ n e, f n = some e → e.name = n) :
    ∀ (ns : List String), ns.Nodup → ∀ n, lookup (ns.filterMap f) n = if n ∈ ns then f n else none := by
  intro ns
  induction ns with
  | nil => intro _ n; simp [lookup]
  | cons a rest ih =>
    intro hnd n
    rw [List.nodup_cons] at hnd
    have ihn := ih hnd.2 n
    cases hfa : f a with
    | none =>
      simp only [List.filterMap_cons, hfa]
      rw [ihn]
      by_cases hna : n = a
      · subst hna; simp [hnd.1, hfa]
      · simp [hna]
    | some e =>
      have hen := hf a e hfa
      simp only [List.filterMap_cons, hfa]
      have : lookup (e :: rest.filterMap f) n =
          (lookup (rest.filterMap f) n).or (if e.name == n then some e else none) := by
        unfold lookup
        rw [List.reverse_cons, List.find?_append]
        simp only [List.find?_cons, List.find?_nil]
        cases (e.name == n) <;> rfl
      rw [this, ihn]
      by_cases hna : n = a
      · subst hna; simp [hnd.1, hen, hfa]
      · have : (e.name == n) = false := by rw [hen]; simpa using fun h => hna h.symm
        simp [hna, this]

/-- **what is saved denotes the same dictionary as what was loaded** -/
theorem savedElems_sameDict (els : List Elem) : SameDict els (savedElems els) := by
  intro n
  unfold savedElems
  rw [lookup_filterMap (lookup els) (fun n e h => (lookup_name h).1) _
    (nodup_eraseDups _ _ (Nat.le_refl _)) n]
  split
  · rfl
  · rename_i hnot
    rw [List.mem_eraseDups] at hnot
    cases hl : lookup els n with
    | none => rfl
    | some e =>
      exfalso
      apply hnot
      obtain ⟨hname, hmem⟩ := lookup_name hl
      exact List.mem_map.2 ⟨e, hmem, hname⟩

end Cert
end PowHsm
