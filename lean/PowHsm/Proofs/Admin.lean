/-
  Trace facts about the admin command models (`Admin.doOnboard`, `Admin.doUnlock`).
-/
import PowHsm.Proofs.BringUp
import PowHsm.Admin.Commands
namespace PowHsm
namespace Admin
open Dongle Ledger Generated Tbl M

/-- the messages with which onboarding changes the device: SEED, SEND_PIN, WIPE (Ledger) and
    SGX_ONBOARD -/
def destructive (a : Bytes) : Bool :=
  Spec.C09.cmdOf a == 0x44 || Spec.C09.cmdOf a == 0x41 || Spec.C09.cmdOf a == 0x07 || Spec.C09.cmdOf a == 0xA0

def notDestructive : Ev → Bool
  | .apdu a => !destructive a
  | _ => true

theorem getHsm_emits {P : Ev → Bool} (h : ∀ ok, P (.connect ok) = true) : Emits P getHsm := connect_emits h

theorem adminError_emits {P : Ev → Bool} {α : Type} : Emits P (adminError : M α) := Emits.throw _

theorem confirm_emits {P : Ev → Bool} : Emits P confirm := by
  intro w; unfold confirm; split <;> rfl

theorem askForPin_emits {P : Ev → Bool} (b : Bool) : Emits P (askForPin b) := by
  intro w; unfold askForPin; split <;> rfl

theorem onboardPin_emits {P : Ev → Bool} (o : Options) (p : Option Bytes) : Emits P (onboardPin o p) := by
  unfold onboardPin; split
  · exact Emits.pure _
  · exact askForPin_emits _

syntax "emits_nd" : tactic
macro_rules
  | `(tactic| emits_nd) => `(tactic| first
    | with_reducible exact M.Emits.pure _
    | with_reducible exact M.Emits.throw _
    | with_reducible exact adminError_emits
    | with_reducible exact Dongle.idx_emits _ _
    | with_reducible exact getWorld_emits
    | (with_reducible refine Dongle.sendCommand_emits _ _ ?_; first | decide | rfl)
    | (with_reducible refine getHsm_emits ?_; intro ok; cases ok <;> rfl)
    | with_reducible refine M.Emits.bind ?_ ?_
    | with_reducible refine M.Emits.tryCatchIf ?_ ?_
    | with_reducible intro _
    | split
    | (dsimp only; split))

theorem getCurrentMode_nd : Emits notDestructive getCurrentMode := by
  unfold getCurrentMode; repeat' emits_nd
theorem platEcho_nd : Emits notDestructive platEcho := by
  unfold platEcho echo; repeat' emits_nd
theorem isOnboarded_nd : Emits notDestructive isOnboarded := by
  unfold isOnboarded; repeat' emits_nd

/-- the device checks of onboarding send nothing that changes the device -/
theorem onboardChecks_nd : Emits notDestructive onboardChecks := by
  unfold onboardChecks
  refine Emits.bind (getHsm_emits fun ok => by cases ok <;> rfl) fun _ => Emits.bind getCurrentMode_nd fun mode => ?_
  split
  · exact adminError_emits
  · refine Emits.bind platEcho_nd fun e => ?_
    split
    · exact adminError_emits
    · refine Emits.bind isOnboarded_nd fun o => ?_
      split
      · exact adminError_emits
      · exact Emits.pure _

/-- …and when they hand over, the device had reported bootloader mode, a matching echo and
    "not onboarded" -/
theorem onboardChecks_returns :
    Returns (fun x => x.1 = Mode_BOOTLOADER.toNat ∧ x.2.1 = true ∧ x.2.2 = false) onboardChecks := by
  unfold onboardChecks
  refine returns_bind _ _ fun _ => returns_bind _ _ fun mode => ?_
  split
  · exact returns_throw _
  · rename_i hm
    refine returns_bind _ _ fun e => ?_
    split
    · exact returns_throw _
    · rename_i he
      refine returns_bind _ _ fun o => ?_
      split
      · exact returns_throw _
      · rename_i ho
        exact returns_pure ⟨by simpa using hm, by simpa using he, by simpa using ho⟩

theorem askForPin_returns (b : Bool) : Returns (fun p => pinValid p b = true) (askForPin b) := by
  intro w p h
  unfold askForPin at h
  have key : ∀ (l : List String) (p : Bytes) (rest : List String), askForPin.go b l = some (p, rest) → pinValid p b = true := by
    intro l
    induction l with
    | nil => intro p rest h; simp [askForPin.go] at h
    | cons a as ih =>
      intro p rest h
      unfold askForPin.go at h
      split at h
      · rename_i hv
        injection h with h; injection h with h1 _; subst h1; exact hv
      · exact ih p rest h
  split at h
  · rename_i p' rest hg
    injection h with h; subst h
    exact key _ _ _ hg
  · cases h

theorem pinValid_mono (p : Bytes) (h : pinValid p false = true) (b : Bool) : pinValid p b = true := by
  unfold pinValid at h ⊢
  cases b <;> simp_all

theorem onboardPin_returns (o : Options) (pin : Option Bytes) (hp : ∀ p, pin = some p → pinValid p false = true) :
    Returns (fun p => pinValid p o.anyPin = true) (onboardPin o pin) := by
  unfold onboardPin
  split
  · rename_i p
    exact returns_pure (pinValid_mono p (hp p rfl) _)
  · exact askForPin_returns _

theorem onboardOptPin_emits {P : Ev → Bool} (o : Options) : Emits P (onboardOptPin o) := by
  unfold onboardOptPin
  split
  · split
    · exact Emits.pure _
    · exact adminError_emits
  · exact Emits.pure _

theorem onboardOptPin_returns (o : Options) :
    Returns (fun pin => ∀ p, pin = some p → pinValid p false = true) (onboardOptPin o) := by
  unfold onboardOptPin
  split
  · split
    · rename_i hv
      exact returns_pure fun p hp => by injection hp with hp; subst hp; exact hv
    · exact returns_throw _
  · exact returns_pure fun p hp => by cases hp

theorem disposeHsm_nd : Emits notDestructive disposeHsm := disconnect_emits rfl

/-- `get_current_mode` only returns one of the four defined modes -/
theorem getCurrentMode_returns :
    Returns (fun m => m = Mode_BOOTLOADER.toNat ∨ m = Mode_SIGNER.toNat ∨ m = Mode_UI_HEARTBEAT.toNat ∨
      m = Mode_UNKNOWN.toNat) getCurrentMode := by
  unfold getCurrentMode
  refine returns_tryCatchIf _ _ _ (returns_bind _ _ fun r => returns_bind _ _ fun m => ?_) fun _ =>
    returns_pure (Or.inr (Or.inr (Or.inr rfl)))
  split
  · rename_i hc
    refine returns_pure ?_
    simp only [enumMode, List.map_cons, List.map_nil, List.contains_cons, List.contains_nil, Bool.or_false,
      Bool.or_eq_true, beq_iff_eq] at hc
    have e1 : Mode_BOOTLOADER.toNat = 2 := rfl
    have e2 : Mode_SIGNER.toNat = 3 := rfl
    have e3 : Mode_UI_HEARTBEAT.toNat = 4 := rfl
    have e4 : Mode_UNKNOWN.toNat = 255 := rfl
    rw [e1, e2, e3, e4]
    have hc' : (m.toNat : Int) = 2 ∨ (m.toNat : Int) = 3 ∨ (m.toNat : Int) = 4 ∨ (m.toNat : Int) = 255 := hc
    omega
  · exact returns_throw _

theorem unlockChecks_notPin : Emits notPin unlockChecks := by
  unfold unlockChecks
  refine Emits.bind (getHsm_emits fun ok => by cases ok <;> rfl) fun _ => Emits.bind getCurrentMode_notPin fun mode =>
    Emits.bind ?_ fun onb => ?_
  · split
    · refine Emits.bind isOnboarded_notPin fun o => ?_
      split
      · exact adminError_emits
      · exact Emits.pure _
    · exact Emits.pure _
  · split
    · exact adminError_emits
    · split
      · exact adminError_emits
      · refine Emits.bind platEcho_notPin fun e => ?_
        split
        · exact adminError_emits
        · exact Emits.pure _

/-- when the unlock checks hand over, the device had reported bootloader mode, "onboarded" and a
    matching echo -/
theorem unlockChecks_returns :
    Returns (fun x => x.1 = Mode_BOOTLOADER.toNat ∧ x.2.1 = true ∧ x.2.2 = true) unlockChecks := by
  unfold unlockChecks
  refine returns_bind _ _ fun _ => returns_bind_of _ _ fun mode hmode => ?_
  obtain ⟨wm, hwm⟩ := hmode
  have hmodes := getCurrentMode_returns wm mode hwm
  by_cases hbl : mode = Mode_BOOTLOADER.toNat
  · subst hbl
    refine returns_bind_of _ _ fun onb honb => ?_
    have honb' : onb = true := by
      obtain ⟨wo, hwo⟩ := honb
      have : Returns (fun o => o = true) (do let o ← isOnboarded; if !o then adminError else pure o) := by
        refine returns_bind _ _ fun o => ?_
        split
        · exact returns_throw _
        · rename_i h; exact returns_pure (by simpa using h)
      simp only [beq_self_eq_true, Bool.true_or, if_true] at hwo
      exact this wo onb hwo
    subst honb'
    split
    · exact returns_throw _
    · split
      · exact returns_throw _
      · refine returns_bind _ _ fun e => ?_
        split
        · exact returns_throw _
        · rename_i he
          exact returns_pure ⟨rfl, rfl, by simpa using he⟩
  · refine returns_bind _ _ fun onb => ?_
    split
    · exact returns_throw _
    · rename_i h1
      split
      · exact returns_throw _
      · rename_i h2
        exfalso
        simp only [Bool.or_eq_true, beq_iff_eq, not_or] at h1 h2
        rcases hmodes with h | h | h | h
        · exact hbl h
        · exact h2.1 h
        · exact h2.2 h
        · exact h1 h

end Admin
end PowHsm
