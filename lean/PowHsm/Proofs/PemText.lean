/-
  `HSMCertificateV2ElementX509.from_pem` on PEM text as certificate tools write it: the element holds
  exactly the DER bytes the text encodes (C15: "load back without loss"), for every certificate and
  every line width.
-/
import PowHsm.Proofs.Base64
namespace PowHsm
namespace Pem

/-- characters of base64 text -/
def IsB64 (c : Char) : Prop := c ∈ alphabet ∨ c = '='

theorem alphabet_props : ∀ c ∈ alphabet, Py.isSpace c = false ∧ c ≠ '-' := by decide +kernel

theorem b64_not_space {c : Char} (h : IsB64 c) : Py.isSpace c = false := by
  rcases h with h | rfl
  · exact (alphabet_props c h).1
  · decide

theorem b64_not_dash {c : Char} (h : IsB64 c) : c ≠ '-' := by
  rcases h with h | rfl
  · exact (alphabet_props c h).2
  · decide

theorem b64Char_mem_fin : ∀ n : Fin 64, b64Char n.val ∈ alphabet := by decide +kernel

theorem b64Char_mem (n : Nat) (h : n < 64) : b64Char n ∈ alphabet := b64Char_mem_fin ⟨n, h⟩

theorem encode_b64 (b : Bytes) : ∀ c ∈ encode b, IsB64 c := by
  rw [encode_eq]
  intro c hc
  rcases List.mem_append.1 hc with h | h
  · obtain ⟨s, hs, rfl⟩ := List.mem_map.1 h
    exact Or.inl (b64Char_mem s (encBody_lt b s hs))
  · exact Or.inr (List.eq_of_mem_replicate h)

/-! ### lines -/

theorem chunk_spec (w : Nat) : ∀ (fuel : Nat) (cs : List Char), cs.length ≤ fuel →
    (chunk w fuel cs).flatten = cs ∧ ∀ l ∈ chunk w fuel cs, l ≠ [] ∧ ∀ c ∈ l, c ∈ cs := by
  intro fuel
  induction fuel with
  | zero =>
    intro cs h
    have : cs = [] := List.length_eq_zero_iff.1 (by omega)
    subst this
    simp [chunk]
  | succ f ih =>
    intro cs h
    cases cs with
    | nil => simp [chunk]
    | cons c rest =>
      have hlen : ((c :: rest).drop (w + 1)).length ≤ f := by simp at h ⊢; omega
      obtain ⟨h1, h2⟩ := ih ((c :: rest).drop (w + 1)) hlen
      simp only [chunk, List.flatten_cons, h1, List.take_append_drop, true_and]
      intro l hl
      rcases List.mem_cons.1 hl with rfl | hl
      · exact ⟨by simp, fun x hx => List.mem_of_mem_take hx⟩
      · obtain ⟨a, b⟩ := h2 l hl
        exact ⟨a, fun x hx => List.mem_of_mem_drop (b x hx)⟩

/-! ### white space -/

theorem collapse_block (xs : List Char) (hx : ∀ c ∈ xs, Py.isSpace c = false) (hne : xs ≠ []) (b : Bool)
    (ys : List Char) : collapse b (xs ++ ys) = xs ++ collapse false ys := by
  induction xs generalizing b with
  | nil => exact absurd rfl hne
  | cons c rest ih =>
    have hc : Py.isSpace c = false := hx c (by simp)
    simp only [List.cons_append, collapse, hc, Bool.false_eq_true, if_false]
    cases rest with
    | nil => rfl
    | cons d rest' =>
      rw [ih (fun x h => hx x (by simp [h])) (by simp) false]

theorem collapse_block_sep (xs : List Char) (hx : ∀ c ∈ xs, Py.isSpace c = false) (hne : xs ≠ []) (b : Bool)
    (s : Char) (hs : Py.isSpace s = true) (ys : List Char) :
    collapse b (xs ++ s :: ys) = xs ++ ' ' :: collapse true ys := by
  rw [collapse_block xs hx hne b]
  simp [collapse, hs]

theorem collapse_lines (lines : List (List Char)) (hl : ∀ l ∈ lines, l ≠ [] ∧ ∀ c ∈ l, Py.isSpace c = false)
    (tail : List Char) :
    collapse true ((lines.map (· ++ ['\n'])).flatten ++ tail) =
      (lines.map (· ++ [' '])).flatten ++ collapse true tail := by
  induction lines with
  | nil => rfl
  | cons l rest ih =>
    obtain ⟨hne, hns⟩ := hl l (by simp)
    simp only [List.map_cons, List.flatten_cons, List.append_assoc, List.singleton_append, List.cons_append]
    rw [collapse_block_sep l hns hne true '\n' (by decide)]
    simp only [List.nil_append]
    rw [ih (fun x hx => hl x (by simp [hx]))]

/-! ### removing the markers -/

theorem removeAll_skip (p : List Char) (c : Char) (hc : c ≠ '-') (f : Nat) (cs : List Char) :
    removeAll ('-' :: p) (f + 1) (c :: cs) = c :: removeAll ('-' :: p) f cs := by
  have : List.isPrefixOf ('-' :: p) (c :: cs) = false := by
    simp only [List.isPrefixOf]
    have : ('-' == c) = false := by simpa using fun h => hc h.symm
    simp [this]
  rw [removeAll]
  simp only [this, Bool.false_eq_true, and_false, if_false]

theorem removeAll_block (p : List Char) (xs : List Char) (hx : ∀ c ∈ xs, c ≠ '-') (f : Nat) (ys : List Char) :
    removeAll ('-' :: p) (f + xs.length) (xs ++ ys) = xs ++ removeAll ('-' :: p) f ys := by
  induction xs generalizing f with
  | nil => simp
  | cons c rest ih =>
    have e : f + (c :: rest).length = (f + rest.length) + 1 := by simp; omega
    rw [e, List.cons_append, removeAll_skip p c (hx c (by simp))]
    rw [ih (fun x h => hx x (by simp [h]))]
    rfl

theorem removeAll_match (pat : List Char) (hne : pat ≠ []) (f : Nat) (ys : List Char) :
    removeAll pat (f + 1) (pat ++ ys) = removeAll pat f ys := by
  cases pat with
  | nil => exact absurd rfl hne
  | cons c rest =>
    simp only [List.cons_append]
    have hp : List.isPrefixOf (c :: rest) (c :: (rest ++ ys)) = true := by
      simp [List.isPrefixOf, List.isPrefixOf_iff_prefix]
    rw [removeAll]
    simp only [hp, and_true, ne_eq, reduceCtorEq, not_false_eq_true, if_true]
    simp

theorem removeAll_nomatch (pat : List Char) (c : Char) (cs : List Char) (f : Nat)
    (h : pat.isPrefixOf (c :: cs) = false) : removeAll pat (f + 1) (c :: cs) = c :: removeAll pat f cs := by
  rw [removeAll]
  simp [h]

theorem removeAll_nil (pat : List Char) (f : Nat) : removeAll pat f [] = [] := by
  cases f <;> rfl

theorem hb_eq : headerBegin = ['-','-','-','-','-','B','E','G','I','N',' ','C','E','R','T','I','F','I','C','A','T','E','-','-','-','-','-'] := by decide
theorem he_eq : headerEnd = ['-','-','-','-','-','E','N','D',' ','C','E','R','T','I','F','I','C','A','T','E','-','-','-','-','-'] := by decide

/-- the END marker does not occur inside the BEGIN marker and the blank after it -/
theorem removeAll_end_over_begin (f : Nat) (ys : List Char) :
    removeAll headerEnd (f + 28) (headerBegin ++ ' ' :: ys) = headerBegin ++ ' ' :: removeAll headerEnd f ys := by
  have e : f + 28 = f+1+1+1+1+1+1+1+1+1+1+1+1+1+1+1+1+1+1+1+1+1+1+1+1+1+1+1+1 := by omega
  rw [e, hb_eq, he_eq]
  simp only [List.cons_append, List.nil_append]
  repeat (rw [removeAll_nomatch _ _ _ _ (by rfl)])

/-- removing both markers from the collapsed text leaves the body between two blanks -/
theorem remove_markers (body : List Char) (hb : ∀ c ∈ body, c ≠ '-') :
    let a := headerBegin ++ ' ' :: (body ++ (headerEnd ++ [' ']))
    let b := removeAll headerEnd a.length a
    removeAll headerBegin b.length b = ' ' :: (body ++ [' ']) := by
  intro a b
  have hbl : headerBegin.length = 27 := by decide
  have hel : headerEnd.length = 25 := by decide
  have ha : (headerBegin ++ ' ' :: (body ++ (headerEnd ++ [' ']))).length = (24 + 1 + 1 + body.length) + 28 := by
    rw [List.length_append, List.length_cons, List.length_append, List.length_append, hbl, hel]
    simp only [List.length_cons, List.length_nil]
    omega
  have hbv : b = headerBegin ++ ' ' :: (body ++ [' ']) := by
    show removeAll headerEnd (headerBegin ++ ' ' :: (body ++ (headerEnd ++ [' ']))).length
      (headerBegin ++ ' ' :: (body ++ (headerEnd ++ [' ']))) = _
    rw [ha]
    rw [removeAll_end_over_begin]
    have hd : headerEnd = '-' :: headerEnd.tail := by rw [he_eq]; rfl
    rw [hd, removeAll_block _ body hb, ← hd]
    rw [removeAll_match headerEnd (by rw [he_eq]; simp)]
    rw [removeAll_nomatch _ _ _ _ (by rw [he_eq]; rfl), removeAll_nil]
  rw [hbv]
  have hlen : (headerBegin ++ ' ' :: (body ++ [' '])).length = (26 + (' ' :: (body ++ [' '])).length) + 1 := by
    rw [List.length_append, hbl]
    omega
  rw [hlen, removeAll_match headerBegin (by rw [hb_eq]; simp)]
  have hd : headerBegin = '-' :: headerBegin.tail := by rw [hb_eq]; rfl
  have hno : ∀ c ∈ ' ' :: (body ++ [' ']), c ≠ '-' := by
    intro c hc
    simp only [List.mem_cons, List.mem_append, List.mem_nil_iff, or_false] at hc
    rcases hc with rfl | hc | rfl
    · decide
    · exact hb c hc
    · decide
  have := removeAll_block headerBegin.tail (' ' :: (body ++ [' '])) hno 26 []
  rw [← hd] at this
  simpa [removeAll_nil] using this

/-! ### decoding ignores white space -/

def notSpace (c : Char) : Bool := !Py.isSpace c

theorem space_cases (c : Char) (h : Py.isSpace c = true) :
    c = ' ' ∨ c = '\t' ∨ c = '\n' ∨ c = Char.ofNat 11 ∨ c = Char.ofNat 12 ∨ c = '\r' := by
  unfold Py.isSpace at h
  simp only [Bool.or_eq_true, beq_iff_eq, Bool.and_eq_true, decide_eq_true_eq] at h
  have hc : c = Char.ofNat c.toNat := (Char.ofNat_toNat c).symm
  have : c.toNat = 32 ∨ c.toNat = 9 ∨ c.toNat = 10 ∨ c.toNat = 11 ∨ c.toNat = 12 ∨ c.toNat = 13 := by omega
  rcases this with h | h | h | h | h | h <;> rw [h] at hc
  · left; exact hc
  · right; left; exact hc
  · right; right; left; exact hc
  · right; right; right; left; exact hc
  · right; right; right; right; left; exact hc
  · right; right; right; right; right; exact hc

theorem space_props (c : Char) (h : Py.isSpace c = true) : (c != '=') = true ∧ sextet? c = none ∧ (c == '=') = false := by
  rcases space_cases c h with rfl | rfl | rfl | rfl | rfl | rfl <;> decide

theorem takeWhile_filterMap_skip (cs : List Char) :
    ((cs.filter notSpace).takeWhile (· != '=')).filterMap sextet? = (cs.takeWhile (· != '=')).filterMap sextet? := by
  induction cs with
  | nil => rfl
  | cons c rest ih =>
    by_cases hs : Py.isSpace c = true
    · obtain ⟨h1, h2, _⟩ := space_props c hs
      simp only [List.filter_cons, notSpace, hs, Bool.not_true, Bool.false_eq_true, if_false]
      rw [List.takeWhile_cons, if_pos h1, List.filterMap_cons, h2]
      exact ih
    · have hs' : Py.isSpace c = false := by simpa using hs
      simp only [List.filter_cons, notSpace, hs', Bool.not_false, if_true]
      rw [List.takeWhile_cons, List.takeWhile_cons]
      split
      · simp only [List.filterMap_cons]; rw [ih]
      · rfl

theorem dropWhile_countP_skip (cs : List Char) :
    ((cs.filter notSpace).dropWhile (· != '=')).countP (· == '=') = (cs.dropWhile (· != '=')).countP (· == '=') := by
  -- once the first '=' is reached nothing is dropped any more, but white space is still filtered: count directly
  have key : ∀ l : List Char, (l.filter notSpace).countP (· == '=') = l.countP (· == '=') := by
    intro l
    induction l with
    | nil => rfl
    | cons c rest ih =>
      by_cases hs : Py.isSpace c = true
      · obtain ⟨_, _, h3⟩ := space_props c hs
        simp only [List.filter_cons, notSpace, hs, Bool.not_true, Bool.false_eq_true, if_false, List.countP_cons, h3]
        simpa using ih
      · have hs' : Py.isSpace c = false := by simpa using hs
        simp only [List.filter_cons, notSpace, hs', Bool.not_false, if_true, List.countP_cons, ih]
  induction cs with
  | nil => rfl
  | cons c rest ih =>
    by_cases hs : Py.isSpace c = true
    · obtain ⟨h1, _, _⟩ := space_props c hs
      simp only [List.filter_cons, notSpace, hs, Bool.not_true, Bool.false_eq_true, if_false]
      rw [List.dropWhile_cons, if_pos h1]
      exact ih
    · have hs' : Py.isSpace c = false := by simpa using hs
      simp only [List.filter_cons, notSpace, hs', Bool.not_false, if_true]
      rw [List.dropWhile_cons, List.dropWhile_cons]
      split
      · exact ih
      · have := key (c :: rest)
        simp only [List.filter_cons, notSpace, hs', Bool.not_false, if_true] at this
        exact this

/-- `b64decode` skips white space -/
theorem decode_skips_space (cs : List Char) : decode (cs.filter notSpace) = decode cs := by
  unfold decode
  simp only
  rw [takeWhile_filterMap_skip, dropWhile_countP_skip]

theorem filter_dropWhile_space (l : List Char) : (l.dropWhile Py.isSpace).filter notSpace = l.filter notSpace := by
  induction l with
  | nil => rfl
  | cons c rest ih =>
    by_cases hs : Py.isSpace c = true
    · simp [List.dropWhile_cons, hs, notSpace, ih]
    · have hs' : Py.isSpace c = false := by simpa using hs
      simp [List.dropWhile_cons, hs']

theorem filter_strip (l : List Char) : (strip l).filter notSpace = l.filter notSpace := by
  unfold strip
  rw [List.filter_reverse, filter_dropWhile_space, List.filter_reverse, List.reverse_reverse, filter_dropWhile_space]

theorem filter_lines (lines : List (List Char)) (h : ∀ l ∈ lines, ∀ c ∈ l, Py.isSpace c = false) :
    ((lines.map (· ++ [' '])).flatten).filter notSpace = lines.flatten := by
  induction lines with
  | nil => rfl
  | cons l rest ih =>
    simp only [List.map_cons, List.flatten_cons, List.filter_append]
    rw [ih (fun x hx => h x (by simp [hx]))]
    have h1 : l.filter notSpace = l := by
      apply List.filter_eq_self.2
      intro c hc
      simp [notSpace, h l (by simp) c hc]
    have h2 : ([' '] : List Char).filter notSpace = [] := by decide
    rw [h1, h2, List.append_nil]

/-! ### the whole of `from_pem` -/

def blkBegin : List Char := "-----BEGIN".toList
def blkEnd : List Char := "-----END".toList
def blkCert : List Char := "CERTIFICATE-----".toList

theorem hb_blocks : headerBegin = blkBegin ++ ' ' :: blkCert := by decide
theorem he_blocks : headerEnd = blkEnd ++ ' ' :: blkCert := by decide
theorem blk_nospace : (∀ c ∈ blkBegin, Py.isSpace c = false) ∧ (∀ c ∈ blkEnd, Py.isSpace c = false) ∧
    (∀ c ∈ blkCert, Py.isSpace c = false) := by decide

theorem collapse_text (lines : List (List Char))
    (hl : ∀ l ∈ lines, l ≠ [] ∧ ∀ c ∈ l, Py.isSpace c = false) :
    collapseWs (headerBegin ++ ['\n'] ++ (lines.map (· ++ ['\n'])).flatten ++ headerEnd ++ ['\n']) =
      headerBegin ++ ' ' :: ((lines.map (· ++ [' '])).flatten ++ (headerEnd ++ [' '])) := by
  obtain ⟨n1, n2, n3⟩ := blk_nospace
  unfold collapseWs
  rw [hb_blocks, he_blocks]
  simp only [List.append_assoc, List.cons_append, List.nil_append]
  rw [collapse_block_sep blkBegin n1 (by decide) false ' ' (by decide)]
  rw [collapse_block_sep blkCert n3 (by decide) true '\n' (by decide)]
  rw [collapse_lines lines hl]
  rw [collapse_block_sep blkEnd n2 (by decide) true ' ' (by decide)]
  rw [collapse_block_sep blkCert n3 (by decide) true '\n' (by decide)]
  simp [collapse]

/-- **`from_pem` gives back the certificate's bytes**: for every byte string `der` and every line width,
    the PEM text a certificate tool writes for it — BEGIN marker, the base64 body in lines, END marker —
    loads as exactly `der`: white space collapsed, both markers removed (neither occurs inside the other
    or in base64 text), stripped, and decoded with a decoder that skips the remaining blanks -/
theorem load_text (w : Nat) (der : Bytes) : load (text w der) = some der := by
  have hch := chunk_spec w (encode der).length (encode der) (Nat.le_refl _)
  obtain ⟨hflat, hlines⟩ := hch
  have hl : ∀ l ∈ chunk w (encode der).length (encode der), l ≠ [] ∧ ∀ c ∈ l, Py.isSpace c = false :=
    fun l hl' => ⟨(hlines l hl').1, fun c hc => b64_not_space (encode_b64 der c ((hlines l hl').2 c hc))⟩
  have hnodash : ∀ c ∈ ((chunk w (encode der).length (encode der)).map (· ++ [' '])).flatten, c ≠ '-' := by
    intro c hc
    obtain ⟨l', hl', hc'⟩ := List.mem_flatten.1 hc
    obtain ⟨l, hlm, rfl⟩ := List.mem_map.1 hl'
    rcases List.mem_append.1 hc' with h | h
    · exact b64_not_dash (encode_b64 der c ((hlines l hlm).2 c h))
    · simp at h; subst h; decide
  unfold load text
  simp only
  rw [collapse_text _ hl]
  have hrm := remove_markers _ hnodash
  simp only at hrm
  rw [hrm]
  rw [← decode_skips_space, filter_strip]
  have hf : ((' ' : Char) :: (((chunk w (encode der).length (encode der)).map (· ++ [' '])).flatten ++ [' '])).filter notSpace
      = encode der := by
    have h0 : ([' '] : List Char).filter notSpace = [] := by decide
    rw [List.filter_cons]
    have : notSpace ' ' = false := by decide
    simp only [this, Bool.false_eq_true, if_false, List.filter_append, h0, List.append_nil]
    rw [filter_lines _ (fun l hl' => (hl l hl').2), hflat]
  rw [hf]
  exact decode_encode der

end Pem
end PowHsm
