/-
  C09, the converse direction on the SGX platform: an onboarded, locked SGX powHSM that echoes, has
  retries left and accepts the password, and then runs a supported signer, is served.
-/
import PowHsm.Proofs.BringUpServe
namespace PowHsm
open M Dongle Ledger Generated Tbl

theorem platEcho_sgx_evals {w : World} {rest : List Resp} (hplat : w.platform = .sgx)
    (h : w.script = Resp.data [0x80, 0xA4, 0x41, 0x42, 0x43] :: rest) :
    Evals platEcho w true { w with script := rest } := by
  have hs : Evals (do
      let msg : Bytes := [0x41, 0x42, 0x43]
      let r ← sendCommand (u8 SgxCommand_SGX_ECHO) msg
      pure (r == Dongle.CLA :: u8 SgxCommand_SGX_ECHO :: msg)) w true { w with script := rest } := by
    refine Evals.bind (sendCommand_evals _ _ h) ?_
    have : (([0x80, 0xA4, 0x41, 0x42, 0x43] : Bytes) == Dongle.CLA :: u8 SgxCommand_SGX_ECHO :: [0x41, 0x42, 0x43]) = true := by
      decide
    rw [this]
    exact Evals.pure _ _
  obtain ⟨e, he⟩ := hs
  refine ⟨e, ?_⟩
  unfold platEcho
  rw [M.bind_apply]
  simp only [getWorld]
  cases hpf : w.platform with
  | sgx => simp [hpf, he]
  | ledger => rw [hpf] at hplat; cases hplat
  | tcp => rw [hpf] at hplat; cases hplat

theorem platRetries_sgx_evals {w : World} {x r : UInt8} {rest : List Resp} (hplat : w.platform = .sgx)
    (h : w.script = Resp.data [0x80, x, r] :: rest) :
    Evals platRetries w r.toNat { w with script := rest } := by
  have hs : Evals (do let rr ← sendCommand (u8 SgxCommand_SGX_RETRIES); let a ← idx rr 2; pure a.toNat) w r.toNat
      { w with script := rest } :=
    (sendCommand_evals _ _ h).bind ((idx_evals _ rfl).bind (Evals.pure _ _))
  obtain ⟨e, he⟩ := hs
  refine ⟨e, ?_⟩
  unfold platRetries
  rw [M.bind_apply]
  simp only [getWorld]
  cases hpf : w.platform with
  | sgx => simp [hpf, he]
  | ledger => rw [hpf] at hplat; cases hplat
  | tcp => rw [hpf] at hplat; cases hplat

theorem platUnlock_sgx_evals {w : World} (pin : Bytes) {y x : UInt8} {rest : List Resp} (hplat : w.platform = .sgx)
    (h : w.script = Resp.data [0x80, y, x] :: rest) :
    Evals (platUnlock pin) w (x != 0) { w with script := rest } := by
  have hs : Evals (do let rr ← sendCommand (u8 SgxCommand_SGX_UNLOCK) (0 :: pin); let b ← idx rr 2; pure (b != 0)) w
      (x != 0) { w with script := rest } :=
    (sendCommand_evals _ _ h).bind ((idx_evals _ rfl).bind (Evals.pure _ _))
  obtain ⟨e, he⟩ := hs
  refine ⟨e, ?_⟩
  unfold platUnlock
  rw [M.bind_apply]
  simp only [getWorld]
  cases hpf : w.platform with
  | sgx => simp [hpf, he]
  | ledger => rw [hpf] at hplat; cases hplat
  | tcp => rw [hpf] at hplat; cases hplat

/-- the bootloader checks pass on SGX: a supported UI version, a correct echo, enough retries -/
theorem blGuards_sgx_evals {w : World} {o a b c x r : UInt8} {rest : List Resp} (hplat : w.platform = .sgx)
    (h : w.script = Resp.data [0x80, o, a, b, c] :: Resp.data [0x80, 0xA4, 0x41, 0x42, 0x43] ::
          Resp.data [0x80, x, r] :: rest)
    (hv : supports UI_VERSION (a.toNat, b.toNat, c.toNat) = true) (hr : MIN_AVAILABLE_RETRIES ≤ r.toNat) :
    Evals blGuards w ((a.toNat, b.toNat, c.toNat), true, r.toNat) { w with script := rest } := by
  unfold blGuards
  have h1 := getVersion_evals h
  have h2 := checkVersion_evals (a.toNat, b.toNat, c.toNat) UI_VERSION
    { w with script := Resp.data [0x80, 0xA4, 0x41, 0x42, 0x43] :: Resp.data [0x80, x, r] :: rest } hv
  have h3 : Evals platEcho
      { w with script := Resp.data [0x80, 0xA4, 0x41, 0x42, 0x43] :: Resp.data [0x80, x, r] :: rest } true
      { w with script := Resp.data [0x80, x, r] :: rest } :=
    platEcho_sgx_evals (w := { w with script := Resp.data [0x80, 0xA4, 0x41, 0x42, 0x43] :: Resp.data [0x80, x, r] :: rest })
      hplat rfl
  have h4 : Evals platRetries { w with script := Resp.data [0x80, x, r] :: rest } r.toNat
      { w with script := rest } :=
    platRetries_sgx_evals (w := { w with script := Resp.data [0x80, x, r] :: rest }) hplat rfl
  refine Evals.bind h1 (Evals.bind h2 (Evals.bind h3 ?_))
  simp only [Bool.not_true, Bool.false_eq_true, if_false]
  refine Evals.bind (a := r.toNat) (Evals.tryCatchIf (Evals.bind h4 ?_)) (Evals.pure _ _)
  have : ¬ r.toNat < MIN_AVAILABLE_RETRIES := by omega
  rw [if_neg this]
  exact Evals.pure _ _

theorem handleBootloader_sgx_evals {w : World} {pin : Bytes} {o a b c x r y ub : UInt8}
    {er : Resp} {rest : List Resp} (hplat : w.platform = .sgx)
    (hpin : w.pin = some { pin := pin, needsChange := false })
    (h : w.script = Resp.data [0x80, o, a, b, c] :: Resp.data [0x80, 0xA4, 0x41, 0x42, 0x43] ::
          Resp.data [0x80, x, r] :: Resp.data [0x80, y, ub] :: er :: rest)
    (hv : supports UI_VERSION (a.toNat, b.toNat, c.toNat) = true) (hr : MIN_AVAILABLE_RETRIES ≤ r.toNat)
    (hub : ub ≠ 0) (hc : w.conns.head? ≠ some false) :
    Evals handleBootloader w () { w with script := rest, conns := w.conns.drop 1 } := by
  unfold handleBootloader
  have h1 := blGuards_sgx_evals hplat h hv hr
  have h2 : Evals pinObj { w with script := Resp.data [0x80, y, ub] :: er :: rest }
      { pin := pin, needsChange := false } { w with script := Resp.data [0x80, y, ub] :: er :: rest } :=
    pinObj_evals (w := { w with script := Resp.data [0x80, y, ub] :: er :: rest }) hpin
  have h3 : Evals (platUnlock pin) { w with script := Resp.data [0x80, y, ub] :: er :: rest } (ub != 0)
      { w with script := er :: rest } :=
    platUnlock_sgx_evals (w := { w with script := Resp.data [0x80, y, ub] :: er :: rest }) pin hplat rfl
  refine Evals.bind h1 (Evals.bind h2 (Evals.bind h3 ?_))
  have hne : (ub != 0) = true := by simpa using hub
  simp only [hne, Bool.not_true, Bool.false_eq_true, if_false]
  unfold blAfterUnlock
  have h4 : Evals pinObj { w with script := er :: rest } { pin := pin, needsChange := false }
      { w with script := er :: rest } := pinObj_evals (w := { w with script := er :: rest }) hpin
  refine Evals.bind h4 ?_
  simp only [Bool.false_eq_true, if_false]
  exact leaveBootloader_evals (w := { w with script := er :: rest }) rfl hc

/-- **serving after a successful unlock, SGX**: an onboarded SGX powHSM that reports the locked
    (bootloader) mode, runs a supported version, echoes correctly, has at least two password retries left
    and accepts the password, and then runs a supported signer with well-formed parameters, is served -/
theorem bringUp_serves_bootloader_sgx {w : World} {pin : Bytes} {y0 y1 y2 o a b c x r y ub sa sb sc : UInt8}
    {er : Resp} {params : Bytes} {rest : List Resp}
    (h : w.script = Resp.data [0x80, 1, y0, y1, y2] :: Resp.data [0x80, 2] ::
          Resp.data [0x80, o, a, b, c] :: Resp.data [0x80, 0xA4, 0x41, 0x42, 0x43] :: Resp.data [0x80, x, r] ::
          Resp.data [0x80, y, ub] :: er :: Resp.data [0x80, 3] ::
          Resp.data [0x80, 1, sa, sb, sc] :: Resp.data (0x80 :: 0x11 :: 0 :: params) :: rest)
    (hplat : w.platform = .sgx) (hpin : w.pin = some { pin := pin, needsChange := false })
    (hc1 : w.conns.head? ≠ some false) (hc2 : (w.conns.drop 1).head? ≠ some false)
    (huv : supports UI_VERSION (a.toNat, b.toNat, c.toNat) = true) (hr : MIN_AVAILABLE_RETRIES ≤ r.toNat)
    (hub : ub ≠ 0)
    (hav : supports APP_VERSION (sa.toNat, sb.toNat, sc.toNat) = true) (hp : ParamsOk params) :
    (bringUp w).val = .ok "served" := by
  have hi := initGuards_evals (m := 2) h (by decide) hc1
  have hb := handleBootloader_sgx_evals
    (w := { w with conns := w.conns.drop 1, script := Resp.data [0x80, o, a, b, c] :: Resp.data [0x80, 0xA4, 0x41, 0x42, 0x43] ::
              Resp.data [0x80, x, r] :: Resp.data [0x80, y, ub] :: er ::
              Resp.data [0x80, 3] :: Resp.data [0x80, 1, sa, sb, sc] :: Resp.data (0x80 :: 0x11 :: 0 :: params) :: rest })
    (pin := pin) (er := er)
    (rest := Resp.data [0x80, 3] :: Resp.data [0x80, 1, sa, sb, sc] :: Resp.data (0x80 :: 0x11 :: 0 :: params) :: rest)
    hplat hpin rfl huv hr hub hc2
  have hm := getCurrentMode_evals (m := 3)
    (w := { w with conns := (w.conns.drop 1).drop 1, script := Resp.data [0x80, 3] :: Resp.data [0x80, 1, sa, sb, sc] ::
              Resp.data (0x80 :: 0x11 :: 0 :: params) :: rest })
    (rest := Resp.data [0x80, 1, sa, sb, sc] :: Resp.data (0x80 :: 0x11 :: 0 :: params) :: rest) rfl (by decide)
  have ha := afterDispatch_evals
    (w := { w with conns := (w.conns.drop 1).drop 1,
                   script := Resp.data [0x80, 1, sa, sb, sc] :: Resp.data (0x80 :: 0x11 :: 0 :: params) :: rest })
    (rest := rest) rfl hav hp
  have hinit : Evals initializeDevice w () { w with script := rest, conns := (w.conns.drop 1).drop 1 } := by
    unfold initializeDevice
    refine Evals.bind hi ?_
    have : ((2 : UInt8).toNat == Mode_BOOTLOADER.toNat) = true := by decide
    simp only [this, if_true]
    exact Evals.bind hb (Evals.bind hm ha)
  obtain ⟨e, he⟩ := hinit
  unfold bringUp
  simp [M.bind_apply, M.attempt_apply, he]

end PowHsm
