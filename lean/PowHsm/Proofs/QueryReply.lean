/-
  C13, the last step: from what the device layer returns to the fields of the JSON reply, for the query
  handlers of ledger/protocol.py (no repair pending).
-/
import PowHsm.Proofs.Monad
import PowHsm.Ledger.Protocol
namespace PowHsm
namespace Ledger
open M Dongle Comm Generated Tbl

theorem ensure_noop' (w : World) (h : w.commIssue = false) : ensureConnection w = ⟨.ok (), [], w⟩ := by
  simp [ensureConnection, M.bind_apply, getWorld, h]

/-- a guarded computation that ends normally is not touched by its guard -/
theorem tryCatchIf_ok {α : Type} (m : M α) (p : Exc → Bool) (hd : Exc → M α) (w : World) (a : α)
    (h : (m w).val = .ok a) : M.tryCatchIf m p hd w = m w := by
  unfold M.tryCatchIf
  cases hm : m w with
  | mk v e w1 =>
    rw [hm] at h
    simp only at h
    subst h
    rfl

/-- `getPubKey`: the reply is `{pubKey: <the device's answer, hex>, errorcode: 0}` -/
theorem getPubkey_reply (c : Codes) (path : List Nat) (w : World) (k : Bytes) (hw : w.commIssue = false)
    (h : (getPublicKey path w).val = .ok k) :
    (getPubkey c path w).val = .ok (0, [("pubKey", hexJ k)]) ∧ (getPubkey c path w).evs = (getPublicKey path w).evs := by
  have inner : (do ensureConnection
                   let pk ← getPublicKey path
                   pure ((0 : Int), [("pubKey", hexJ pk)]) : M Out) w =
      ⟨.ok (0, [("pubKey", hexJ k)]), (getPublicKey path w).evs, (getPublicKey path w).w⟩ := by
    rw [M.bind_apply, ensure_noop' w hw]
    simp only [List.nil_append]
    rw [M.bind_apply]
    cases hg : getPublicKey path w with
    | mk v e w1 =>
      rw [hg] at h
      simp only at h
      subst h
      simp [M.pure_apply]
  unfold getPubkey
  rw [tryCatchIf_ok _ _ _ w (0, [("pubKey", hexJ k)]) (by rw [inner]), inner]
  exact ⟨rfl, rfl⟩

/-- `blockchainParameters`: checkpoint (hex), minimum difficulty (number) and network (name) as the
    device layer returned them -/
theorem blockchainParameters_reply (c : Codes) (w : World) (p : Params) (hw : w.commIssue = false)
    (h : (getSignerParameters w).val = .ok p) :
    (blockchainParameters c w).val = .ok (0, [("parameters", .obj [
      ("checkpoint", hexJ p.checkpoint), ("minimum_difficulty", .int p.minDifficulty),
      ("network", .str p.network.toLower)])]) := by
  have inner : ((do ensureConnection
                    let p ← getSignerParameters
                    pure ((0 : Int), [("parameters", Json.obj [
                      ("checkpoint", hexJ p.checkpoint), ("minimum_difficulty", .int p.minDifficulty),
                      ("network", .str p.network.toLower)])]) : M Out) w).val =
      .ok (0, [("parameters", .obj [("checkpoint", hexJ p.checkpoint), ("minimum_difficulty", .int p.minDifficulty),
        ("network", .str p.network.toLower)])]) := by
    rw [M.bind_apply, ensure_noop' w hw]
    simp only
    rw [M.bind_apply]
    cases hg : getSignerParameters w with
    | mk v e w1 =>
      rw [hg] at h
      simp only at h
      subst h
      simp [M.pure_apply]
  unfold blockchainParameters deviceGuard
  rw [tryCatchIf_ok _ _ _ w _ inner]
  exact inner

/-- `signerHeartbeat`: public key, message, tweak and the two signature components as the device layer
    returned them -/
theorem signerHb_reply (c : Codes) (req : List (String × Json)) (w : World) (hb : Heartbeat)
    (hw : w.commIssue = false) (h : (signerHeartbeat (udBytes req) w).val = .ok (some hb)) :
    (signerHb c req w).val = .ok (0, [("pubKey", hexJ hb.pubKey), ("message", hexJ hb.message),
      ("tweak", hexJ hb.tweak), ("signature", .obj [("r", hexJ hb.r), ("s", hexJ hb.s)])]) := by
  have inner : ((do ensureConnection
                    let x ← signerHeartbeat (udBytes req)
                    pure (hbReply c x) : M Out) w).val = .ok (hbReply c (some hb)) := by
    rw [M.bind_apply, ensure_noop' w hw]
    simp only
    rw [M.bind_apply]
    cases hg : signerHeartbeat (udBytes req) w with
    | mk v e w1 =>
      rw [hg] at h
      simp only at h
      subst h
      simp [M.pure_apply]
  unfold signerHb deviceGuard
  rw [tryCatchIf_ok _ _ _ w _ inner]
  exact inner

/-- the `state` object of a `blockchainState` reply for what the device layer returned -/
def stateReply (st : BcState) : Out :=
  let h (k : String) : Json := hexJ (dictGet st.hashes k [])
  (0, [("state", .obj [
      ("best_block", h "best_block"),
      ("newest_valid_block", h "newest_valid_block"),
      ("ancestor_block", h "ancestor_block"),
      ("ancestor_receipts_root", h "ancestor_receipts_root"),
      ("updating", .obj [
        ("best_block", h "updating.best_block"),
        ("newest_valid_block", h "updating.newest_valid_block"),
        ("next_expected_block", h "updating.next_expected_block"),
        ("total_difficulty", .int st.totalDifficulty),
        ("in_progress", .bool st.inProgress),
        ("already_validated", .bool st.alreadyValidated),
        ("found_best_block", .bool st.foundBestBlock)])])])

/-- `blockchainState`: the seven hashes, the total difficulty and the three flags, under the documented
    field names, as the device layer returned them -/
theorem blockchainState_reply (c : Codes) (w : World) (st : BcState) (hw : w.commIssue = false)
    (h : (getBlockchainState w).val = .ok st) : (blockchainState c w).val = .ok (stateReply st) := by
  have inner : ((do ensureConnection
                    let st ← getBlockchainState
                    pure (stateReply st) : M Out) w).val = .ok (stateReply st) := by
    rw [M.bind_apply, ensure_noop' w hw]
    simp only
    rw [M.bind_apply]
    cases hg : getBlockchainState w with
    | mk v e w1 =>
      rw [hg] at h
      simp only at h
      subst h
      simp [M.pure_apply]
  unfold blockchainState deviceGuard
  exact (congrArg Res.val (tryCatchIf_ok _ _ _ w _ inner)).trans inner

end Ledger
end PowHsm
