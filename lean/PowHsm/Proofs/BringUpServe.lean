/-
  The converse direction of C09: against a device that answers the start-up queries as a genuine
  device in a safe state does, the bring-up ends in "served".  `Evals m w a w'` — in world `w` the
  computation `m` returns `a` and leaves world `w'` (events are not tracked here).
-/
import PowHsm.Proofs.BringUp
namespace PowHsm
open M Dongle Ledger Generated Tbl

def Evals (m : M α) (w : World) (a : α) (w' : World) : Prop := ∃ e, m w = ⟨.ok a, e, w'⟩

namespace Evals

theorem pure (a : α) (w : World) : Evals (Pure.pure a : M α) w a w := ⟨[], rfl⟩

theorem bind {m : M α} {f : α → M β} {w w1 w2 : World} {a : α} {b : β}
    (h1 : Evals m w a w1) (h2 : Evals (f a) w1 b w2) : Evals (m >>= f) w b w2 := by
  obtain ⟨e1, h1⟩ := h1
  obtain ⟨e2, h2⟩ := h2
  refine ⟨e1 ++ e2, ?_⟩
  rw [M.bind_ok h1, h2]

theorem tryCatchIf {m : M α} {p : Exc → Bool} {h : Exc → M α} {w w1 : World} {a : α}
    (h1 : Evals m w a w1) : Evals (M.tryCatchIf m p h) w a w1 := by
  obtain ⟨e1, h1⟩ := h1
  exact ⟨e1, by unfold M.tryCatchIf; rw [h1]⟩

theorem emit (e : Ev) (w : World) : Evals (M.emit e) w () w := ⟨[e], rfl⟩

end Evals

/-- a world whose next answers are `rs` -/
def World.next (w : World) (rs : List Resp) (rest : List Resp) : Prop := w.script = rs ++ rest

theorem sendCommand_evals (c : UInt8) (d : Bytes) {w : World} {r : Bytes} {rest : List Resp}
    (h : w.script = .data r :: rest) : Evals (sendCommand c d) w r { w with script := rest } := by
  refine ⟨[.apdu (CLA :: c :: d)], ?_⟩
  unfold sendCommand exchange
  simp [h, classify]

theorem idx_evals {b : Bytes} {i : Nat} {x : UInt8} (w : World) (h : b[i]? = some x) : Evals (idx b i) w x w := by
  refine ⟨[], ?_⟩
  unfold idx; rw [h]; rfl

theorem connect_evals (w : World) (h : w.conns.head? ≠ some false) :
    Evals connect w () { w with conns := w.conns.drop 1 } := by
  refine ⟨[.connect true], ?_⟩
  unfold connect
  cases hc : w.conns with
  | nil =>
    have : ({ w with conns := [] } : World) = w := by cases w; simp_all
    simp [this]
  | cons b bs =>
    cases b with
    | true => simp
    | false => rw [hc] at h; simp at h

theorem isOnboarded_evals {w : World} {o a b c : UInt8} {rest : List Resp}
    (h : w.script = .data [0x80, o, a, b, c] :: rest) :
    Evals isOnboarded w (o == 1) { w with script := rest } := by
  unfold isOnboarded
  exact (sendCommand_evals _ _ h).bind ((idx_evals _ rfl).bind (Evals.pure _ _))

theorem getVersion_evals {w : World} {o a b c : UInt8} {rest : List Resp}
    (h : w.script = .data [0x80, o, a, b, c] :: rest) :
    Evals getVersion w (a.toNat, b.toNat, c.toNat) { w with script := rest } := by
  unfold getVersion
  exact (sendCommand_evals _ _ h).bind ((idx_evals _ rfl).bind ((idx_evals _ rfl).bind
    ((idx_evals _ rfl).bind (Evals.pure _ _))))

theorem getCurrentMode_evals {w : World} {m : UInt8} {rest : List Resp}
    (h : w.script = .data [0x80, m] :: rest) (hm : m.toNat = 2 ∨ m.toNat = 3 ∨ m.toNat = 4) :
    Evals getCurrentMode w m.toNat { w with script := rest } := by
  unfold getCurrentMode
  refine Evals.tryCatchIf ?_
  refine (sendCommand_evals _ _ h).bind ((idx_evals _ rfl).bind ?_)
  have hcont : (enumMode.map (·.2)).contains (Int.ofNat m.toNat) = true := by
    rcases hm with h | h | h <;> rw [h] <;> decide
  rw [if_pos hcont]
  exact Evals.pure _ _

/-- a well-formed parameters answer: 69 bytes whose last one names a network -/
def ParamsOk (params : Bytes) : Prop :=
  params.length = 69 ∧ (networks.find? (fun n => n.2 == (params.getD 68 0).toNat)).isSome = true

theorem getSignerParameters_evals {w : World} {params : Bytes} {rest : List Resp}
    (h : w.script = .data (0x80 :: 0x11 :: 0 :: params) :: rest) (hp : ParamsOk params) :
    ∃ p, Evals getSignerParameters w p { w with script := rest } := by
  unfold getSignerParameters
  cases hf : networks.find? (fun n => n.2 == (params.getD 68 0).toNat) with
  | none => have := hp.2; rw [hf] at this; simp at this
  | some nm =>
    obtain ⟨name, v⟩ := nm
    refine ⟨{ checkpoint := params.take 32, minDifficulty := Bytes.beVal ((params.drop 32).take 36),
              network := name }, ?_⟩
    refine Evals.bind (sendCommand_evals _ _ h) ?_
    have hlen : ((List.drop 3 (0x80 :: 0x11 :: 0 :: params)).length != 69) = false := by
      simp [hp.1]
    simp only [List.drop_succ_cons, List.drop_zero, hf]
    have hlen' : (params.length != 69) = false := by simp [hp.1]
    rw [if_neg (by simp [hlen'])]
    exact Evals.pure _ _

theorem checkVersion_evals (fw mw : Nat × Nat × Nat) (w : World) (h : supports mw fw = true) :
    Evals (checkVersion fw mw) w () w := by
  unfold checkVersion
  rw [if_pos h]
  exact Evals.pure _ _

/-- the tail of the bring-up from signer mode: a supported signer version and well-formed
    parameters -/
theorem afterDispatch_evals {w : World} {o a b c : UInt8} {params : Bytes} {rest : List Resp}
    (h : w.script = .data [0x80, o, a, b, c] :: .data (0x80 :: 0x11 :: 0 :: params) :: rest)
    (hv : supports APP_VERSION (a.toNat, b.toNat, c.toNat) = true) (hp : ParamsOk params) :
    Evals (afterDispatch Mode_SIGNER.toNat) w () { w with script := rest } := by
  unfold afterDispatch signerChecks
  have hm : (Mode_SIGNER.toNat != Mode_SIGNER.toNat) = false := by simp
  simp only [hm, Bool.false_eq_true, if_false]
  obtain ⟨p, hp'⟩ := getSignerParameters_evals (w := { w with script := .data (0x80 :: 0x11 :: 0 :: params) :: rest })
    (rest := rest) rfl hp
  have h1 := getVersion_evals h
  have h2 := checkVersion_evals (a.toNat, b.toNat, c.toNat) APP_VERSION
    { w with script := .data (0x80 :: 0x11 :: 0 :: params) :: rest } hv
  refine Evals.bind (a := (Mode_SIGNER.toNat, (a.toNat, b.toNat, c.toNat))) ?_ (Evals.pure _ _)
  exact Evals.bind h1 (Evals.bind h2 (Evals.bind hp' (Evals.pure _ _)))

theorem initGuards_evals {w : World} {a b c m : UInt8} {rest : List Resp}
    (h : w.script = .data [0x80, 1, a, b, c] :: .data [0x80, m] :: rest)
    (hm : m.toNat = 2 ∨ m.toNat = 3 ∨ m.toNat = 4) (hc : w.conns.head? ≠ some false) :
    Evals initGuards w (true, m.toNat) { w with script := rest, conns := w.conns.drop 1 } := by
  unfold initGuards
  have h0 : Evals (M.tryCatchIf connect Exc.isDongleBase (fun _ => M.throw' .protoError)) w ()
      { w with conns := w.conns.drop 1 } := Evals.tryCatchIf (connect_evals w hc)
  have h1 : Evals (M.tryCatchIf (do let o ← isOnboarded; if !o then M.throw' .protoError else pure o)
      Exc.isDongleBase (fun _ => M.throw' .protoInterrupt)) { w with conns := w.conns.drop 1 } true
      { w with script := .data [0x80, m] :: rest, conns := w.conns.drop 1 } := by
    refine Evals.tryCatchIf ?_
    refine Evals.bind (isOnboarded_evals (w := { w with conns := w.conns.drop 1 }) h) ?_
    simp only [beq_self_eq_true, Bool.not_true, Bool.false_eq_true, if_false]
    exact Evals.pure _ _
  have h2 : Evals getCurrentMode { w with script := .data [0x80, m] :: rest, conns := w.conns.drop 1 } m.toNat
      { w with script := rest, conns := w.conns.drop 1 } :=
    getCurrentMode_evals (w := { w with script := .data [0x80, m] :: rest, conns := w.conns.drop 1 }) rfl hm
  exact Evals.bind h0 (Evals.bind h1 (Evals.bind h2 (Evals.pure _ _)))

/-- **serving from signer mode**: an onboarded device in signer mode with a supported signer version
    and well-formed parameters is served -/
theorem bringUp_serves_signer {w : World} {a b c : UInt8} {params : Bytes} {rest : List Resp}
    (h : w.script = .data [0x80, 1, a, b, c] :: .data [0x80, 3] :: .data [0x80, 1, a, b, c] ::
          .data (0x80 :: 0x11 :: 0 :: params) :: rest)
    (hc : w.conns.head? ≠ some false)
    (hv : supports APP_VERSION (a.toNat, b.toNat, c.toNat) = true) (hp : ParamsOk params) :
    (bringUp w).val = .ok "served" := by
  have hi := initGuards_evals (m := 3) h (by decide) hc
  have ha := afterDispatch_evals
    (w := { w with script := .data [0x80, 1, a, b, c] :: .data (0x80 :: 0x11 :: 0 :: params) :: rest,
                   conns := w.conns.drop 1 }) (rest := rest) rfl hv hp
  have hinit : Evals initializeDevice w () { w with script := rest, conns := w.conns.drop 1 } := by
    unfold initializeDevice
    refine Evals.bind hi ?_
    have : ((3 : UInt8).toNat == Mode_BOOTLOADER.toNat) = false := by decide
    simp only [this, Bool.false_eq_true, if_false]
    exact ha
  obtain ⟨e, he⟩ := hinit
  unfold bringUp
  simp [M.bind_apply, M.attempt_apply, he]

/-! ### the bootloader path (Ledger / TCP platforms) -/

theorem sendCommand_world (c : UInt8) (d : Bytes) {w : World} {r : Resp} {rest : List Resp}
    (h : w.script = r :: rest) : (sendCommand c d w).w = { w with script := rest } := by
  unfold sendCommand exchange
  simp [h]

theorem echo_evals {w : World} {rest : List Resp}
    (h : w.script = .data [0x80, 0x02, 0x41, 0x42, 0x43] :: rest) :
    Evals echo w true { w with script := rest } := by
  unfold echo
  refine Evals.bind (sendCommand_evals _ _ h) ?_
  have : (([0x80, 0x02, 0x41, 0x42, 0x43] : Bytes) == Dongle.CLA :: u8 Command_ECHO :: [0x41, 0x42, 0x43]) = true := by decide
  rw [this]
  exact Evals.pure _ _

theorem getRetries_evals {w : World} {x r : UInt8} {rest : List Resp}
    (h : w.script = .data [0x80, x, r] :: rest) : Evals getRetries w r.toNat { w with script := rest } := by
  unfold getRetries
  exact (sendCommand_evals _ _ h).bind ((idx_evals _ rfl).bind (Evals.pure _ _))

/-- every PIN byte is acknowledged with some data -/
theorem sendPin_go_evals (bs : Bytes) : ∀ (i : Nat) (w : World) (acks : List Bytes) (rest : List Resp),
    acks.length = bs.length → w.script = acks.map Resp.data ++ rest →
    Evals (sendPin.go i bs) w () { w with script := rest } := by
  induction bs with
  | nil =>
    intro i w acks rest hl hs
    cases acks with
    | nil =>
      simp only [List.map_nil, List.nil_append] at hs
      unfold sendPin.go
      have : ({ w with script := rest } : World) = w := by cases w; simp_all
      rw [this]
      exact Evals.pure _ _
    | cons a as => simp at hl
  | cons b bs ih =>
    intro i w acks rest hl hs
    cases acks with
    | nil => simp at hl
    | cons a as =>
      simp only [List.map_cons, List.cons_append] at hs
      unfold sendPin.go
      refine Evals.bind (sendCommand_evals _ _ hs) ?_
      have := ih (i + 1) { w with script := as.map Resp.data ++ rest } as rest (by simpa using hl) rfl
      exact this

theorem unlock_evals {w : World} (pin : Bytes) (acks : List Bytes) {x : UInt8} {rest : List Resp}
    (hl : acks.length = pin.length)
    (h : w.script = acks.map Resp.data ++ .data [0x80, 0xFE, x] :: rest) :
    Evals (unlock pin) w (x != 0) { w with script := rest } := by
  unfold unlock sendPin
  dsimp only
  have h1 := sendPin_go_evals pin 0 w acks (.data [0x80, 0xFE, x] :: rest) hl h
  refine Evals.bind h1 ?_
  refine Evals.bind (sendCommand_evals (w := { w with script := .data [0x80, 0xFE, x] :: rest }) _ _ rfl) ?_
  exact (idx_evals _ rfl).bind (Evals.pure _ _)

theorem pinObj_evals {w : World} {p : PinSt} (h : w.pin = some p) : Evals pinObj w p w := by
  refine ⟨[], ?_⟩
  unfold pinObj
  simp [getWorld, M.bind_apply, h]

/-- leaving the bootloader: whatever the exit command's outcome (it is expected to drop the link),
    then wait, close and re-open -/
theorem leaveBootloader_evals {w : World} {r : Resp} {rest : List Resp} (h : w.script = r :: rest)
    (hc : w.conns.head? ≠ some false) :
    Evals (do let _ ← M.attempt (exitMenu true); waitAndReconnect) w ()
      { w with script := rest, conns := w.conns.drop 1 } := by
  have hw : (exitMenu true w).w = { w with script := rest } := by
    unfold exitMenu
    simp only [if_true]
    rw [M.bind_apply]
    have := sendCommand_world (u8 Command_EXIT_MENU) [0, 0] h
    cases hr : sendCommand (u8 Command_EXIT_MENU) [0, 0] w with
    | mk v e w1 =>
      rw [hr] at this
      simp only at this
      subst this
      cases v <;> rfl
  have h1 : Evals (M.attempt (exitMenu true)) w (exitMenu true w).val { w with script := rest } :=
    ⟨(exitMenu true w).evs, by rw [M.attempt_apply, hw]⟩
  refine Evals.bind h1 ?_
  unfold waitAndReconnect
  refine Evals.bind (Evals.emit _ _) (Evals.bind (Evals.emit _ _) ?_)
  exact connect_evals { w with script := rest } hc

theorem platEcho_evals {w : World} {rest : List Resp} (hplat : w.platform ≠ .sgx)
    (h : w.script = Resp.data [0x80, 0x02, 0x41, 0x42, 0x43] :: rest) :
    Evals platEcho w true { w with script := rest } := by
  obtain ⟨e, he⟩ := echo_evals h
  refine ⟨e, ?_⟩
  unfold platEcho
  rw [M.bind_apply]
  simp only [getWorld]
  cases hpf : w.platform with
  | sgx => exact absurd hpf hplat
  | ledger => simp [hpf, he]
  | tcp => simp [hpf, he]

theorem platRetries_evals {w : World} {x r : UInt8} {rest : List Resp} (hplat : w.platform ≠ .sgx)
    (h : w.script = Resp.data [0x80, x, r] :: rest) :
    Evals platRetries w r.toNat { w with script := rest } := by
  obtain ⟨e, he⟩ := getRetries_evals h
  refine ⟨e, ?_⟩
  unfold platRetries
  rw [M.bind_apply]
  simp only [getWorld]
  cases hpf : w.platform with
  | sgx => exact absurd hpf hplat
  | ledger => simp [hpf, he]
  | tcp => simp [hpf, he]

theorem platUnlock_evals {w : World} (pin : Bytes) (acks : List Bytes) {x : UInt8} {rest : List Resp}
    (hplat : w.platform ≠ .sgx) (hl : acks.length = pin.length)
    (h : w.script = acks.map Resp.data ++ Resp.data [0x80, 0xFE, x] :: rest) :
    Evals (platUnlock pin) w (x != 0) { w with script := rest } := by
  obtain ⟨e, he⟩ := unlock_evals pin acks hl h
  refine ⟨e, ?_⟩
  unfold platUnlock
  rw [M.bind_apply]
  simp only [getWorld]
  cases hpf : w.platform with
  | sgx => exact absurd hpf hplat
  | ledger => simp [hpf, he]
  | tcp => simp [hpf, he]

/-- the bootloader checks pass: a supported UI version, a correct echo, enough retries -/
theorem blGuards_evals {w : World} {o a b c x r : UInt8} {rest : List Resp} (hplat : w.platform ≠ .sgx)
    (h : w.script = Resp.data [0x80, o, a, b, c] :: Resp.data [0x80, 0x02, 0x41, 0x42, 0x43] ::
          Resp.data [0x80, x, r] :: rest)
    (hv : supports UI_VERSION (a.toNat, b.toNat, c.toNat) = true) (hr : MIN_AVAILABLE_RETRIES ≤ r.toNat) :
    Evals blGuards w ((a.toNat, b.toNat, c.toNat), true, r.toNat) { w with script := rest } := by
  unfold blGuards
  have h1 := getVersion_evals h
  have h2 := checkVersion_evals (a.toNat, b.toNat, c.toNat) UI_VERSION
    { w with script := Resp.data [0x80, 0x02, 0x41, 0x42, 0x43] :: Resp.data [0x80, x, r] :: rest } hv
  have h3 : Evals platEcho
      { w with script := Resp.data [0x80, 0x02, 0x41, 0x42, 0x43] :: Resp.data [0x80, x, r] :: rest } true
      { w with script := Resp.data [0x80, x, r] :: rest } :=
    platEcho_evals (w := { w with script := Resp.data [0x80, 0x02, 0x41, 0x42, 0x43] :: Resp.data [0x80, x, r] :: rest })
      hplat rfl
  have h4 : Evals platRetries { w with script := Resp.data [0x80, x, r] :: rest } r.toNat
      { w with script := rest } :=
    platRetries_evals (w := { w with script := Resp.data [0x80, x, r] :: rest }) hplat rfl
  refine Evals.bind h1 (Evals.bind h2 (Evals.bind h3 ?_))
  simp only [Bool.not_true, Bool.false_eq_true, if_false]
  refine Evals.bind (a := r.toNat) (Evals.tryCatchIf (Evals.bind h4 ?_)) (Evals.pure _ _)
  have : ¬ r.toNat < MIN_AVAILABLE_RETRIES := by omega
  rw [if_neg this]
  exact Evals.pure _ _

/-- the whole bootloader handling when the PIN needs no change: checks, unlock, exit, re-open -/
theorem handleBootloader_evals {w : World} {pin : Bytes} {o a b c x r ub : UInt8} {acks : List Bytes}
    {er : Resp} {rest : List Resp} (hplat : w.platform ≠ .sgx)
    (hpin : w.pin = some { pin := pin, needsChange := false })
    (h : w.script = Resp.data [0x80, o, a, b, c] :: Resp.data [0x80, 0x02, 0x41, 0x42, 0x43] ::
          Resp.data [0x80, x, r] :: (acks.map Resp.data ++ Resp.data [0x80, 0xFE, ub] :: er :: rest))
    (hv : supports UI_VERSION (a.toNat, b.toNat, c.toNat) = true) (hr : MIN_AVAILABLE_RETRIES ≤ r.toNat)
    (hl : acks.length = pin.length) (hub : ub ≠ 0) (hc : w.conns.head? ≠ some false) :
    Evals handleBootloader w () { w with script := rest, conns := w.conns.drop 1 } := by
  unfold handleBootloader
  have h1 := blGuards_evals hplat h hv hr
  have h2 : Evals pinObj { w with script := acks.map Resp.data ++ Resp.data [0x80, 0xFE, ub] :: er :: rest }
      { pin := pin, needsChange := false }
      { w with script := acks.map Resp.data ++ Resp.data [0x80, 0xFE, ub] :: er :: rest } :=
    pinObj_evals (w := { w with script := acks.map Resp.data ++ Resp.data [0x80, 0xFE, ub] :: er :: rest }) hpin
  have h3 : Evals (platUnlock pin)
      { w with script := acks.map Resp.data ++ Resp.data [0x80, 0xFE, ub] :: er :: rest } (ub != 0)
      { w with script := er :: rest } :=
    platUnlock_evals (w := { w with script := acks.map Resp.data ++ Resp.data [0x80, 0xFE, ub] :: er :: rest })
      pin acks hplat hl rfl
  refine Evals.bind h1 (Evals.bind h2 (Evals.bind h3 ?_))
  have hne : (ub != 0) = true := by simpa using hub
  simp only [hne, Bool.not_true, Bool.false_eq_true, if_false]
  unfold blAfterUnlock
  have h4 : Evals pinObj { w with script := er :: rest } { pin := pin, needsChange := false }
      { w with script := er :: rest } := pinObj_evals (w := { w with script := er :: rest }) hpin
  refine Evals.bind h4 ?_
  simp only [Bool.false_eq_true, if_false]
  exact leaveBootloader_evals (w := { w with script := er :: rest }) rfl hc

/-- **serving after a successful unlock that required no PIN change**: an onboarded Ledger in
    bootloader mode that runs a supported UI version, echoes correctly, has at least two PIN
    retries left and accepts the PIN, and then runs a supported signer with well-formed
    parameters, is served -/
theorem bringUp_serves_bootloader {w : World} {pin : Bytes} {y0 y1 y2 o a b c x r ub sa sb sc : UInt8}
    {acks : List Bytes} {er : Resp} {params : Bytes} {rest : List Resp}
    (h : w.script = Resp.data [0x80, 1, y0, y1, y2] :: Resp.data [0x80, 2] ::
          Resp.data [0x80, o, a, b, c] :: Resp.data [0x80, 0x02, 0x41, 0x42, 0x43] :: Resp.data [0x80, x, r] ::
          (acks.map Resp.data ++ Resp.data [0x80, 0xFE, ub] :: er :: Resp.data [0x80, 3] ::
           Resp.data [0x80, 1, sa, sb, sc] :: Resp.data (0x80 :: 0x11 :: 0 :: params) :: rest))
    (hplat : w.platform ≠ .sgx) (hpin : w.pin = some { pin := pin, needsChange := false })
    (hc1 : w.conns.head? ≠ some false) (hc2 : (w.conns.drop 1).head? ≠ some false)
    (huv : supports UI_VERSION (a.toNat, b.toNat, c.toNat) = true) (hr : MIN_AVAILABLE_RETRIES ≤ r.toNat)
    (hl : acks.length = pin.length) (hub : ub ≠ 0)
    (hav : supports APP_VERSION (sa.toNat, sb.toNat, sc.toNat) = true) (hp : ParamsOk params) :
    (bringUp w).val = .ok "served" := by
  have hi := initGuards_evals (m := 2) h (by decide) hc1
  have hb := handleBootloader_evals
    (w := { w with conns := w.conns.drop 1, script := Resp.data [0x80, o, a, b, c] :: Resp.data [0x80, 0x02, 0x41, 0x42, 0x43] ::
              Resp.data [0x80, x, r] :: (acks.map Resp.data ++ Resp.data [0x80, 0xFE, ub] :: er ::
              Resp.data [0x80, 3] :: Resp.data [0x80, 1, sa, sb, sc] :: Resp.data (0x80 :: 0x11 :: 0 :: params) :: rest) })
    (pin := pin) (acks := acks) (er := er)
    (rest := Resp.data [0x80, 3] :: Resp.data [0x80, 1, sa, sb, sc] :: Resp.data (0x80 :: 0x11 :: 0 :: params) :: rest)
    hplat hpin rfl huv hr hl hub hc2
  have hm := getCurrentMode_evals (m := 3)
    (w := { w with conns := (w.conns.drop 1).drop 1, script := Resp.data [0x80, 3] :: Resp.data [0x80, 1, sa, sb, sc] ::
              Resp.data (0x80 :: 0x11 :: 0 :: params) :: rest })
    (rest := Resp.data [0x80, 1, sa, sb, sc] :: Resp.data (0x80 :: 0x11 :: 0 :: params) :: rest) rfl (by decide)
  have ha := afterDispatch_evals
    (w := { w with conns := (w.conns.drop 1).drop 1,
                   script := Resp.data [0x80, 1, sa, sb, sc] :: Resp.data (0x80 :: 0x11 :: 0 :: params) :: rest })
    (rest := rest) rfl hav hp
  have hinit : Evals initializeDevice w () { w with script := rest, conns := (w.conns.drop 1).drop 1 } := by
    unfold initializeDevice
    refine Evals.bind hi ?_
    have : ((2 : UInt8).toNat == Mode_BOOTLOADER.toNat) = true := by decide
    simp only [this, if_true]
    exact Evals.bind hb (Evals.bind hm ha)
  obtain ⟨e, he⟩ := hinit
  unfold bringUp
  simp [M.bind_apply, M.attempt_apply, he]

end PowHsm
