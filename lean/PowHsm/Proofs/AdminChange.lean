/-
  C18, PIN change: the change-PIN command (Ledger CHANGE_PIN, SGX change-password) is only ever sent
  for a PIN that satisfies the policy (or, with any-PIN explicitly allowed, the relaxed one).
-/
import PowHsm.Proofs.Admin
namespace PowHsm
namespace Admin
open Dongle Ledger Generated Tbl M

/-- every event but the change-PIN command itself -/
def notChange : Ev → Bool
  | .apdu a => !(Spec.C09.cmdOf a == 0x08 || Spec.C09.cmdOf a == 0xA5)
  | _ => true

syntax "emits_nc" : tactic
macro_rules
  | `(tactic| emits_nc) => `(tactic| first
    | with_reducible exact M.Emits.pure _
    | with_reducible exact M.Emits.throw _
    | with_reducible exact adminError_emits
    | with_reducible exact askForPin_emits _
    | with_reducible exact Dongle.idx_emits _ _
    | with_reducible exact getWorld_emits
    | (with_reducible refine Dongle.sendCommand_emits _ _ ?_; first | decide | rfl)
    | (with_reducible refine getHsm_emits ?_; intro ok; cases ok <;> rfl)
    | with_reducible refine M.Emits.bind ?_ ?_
    | with_reducible refine M.Emits.tryCatchIf ?_ ?_
    | with_reducible refine M.Emits.attempt ?_
    | with_reducible intro _
    | split
    | (dsimp only; split))

theorem sendPin_go_nc : ∀ (bs : Bytes) (i : Nat), Emits notChange (sendPin.go i bs) := by
  intro bs
  induction bs with
  | nil => intro i; unfold sendPin.go; exact Emits.pure _
  | cons b rest ih =>
    intro i
    unfold sendPin.go
    refine Emits.bind (Dongle.sendCommand_emits _ _ (by rfl)) fun _ => ih _

theorem sendPin_nc (pin : Bytes) (prepend : Bool) : Emits notChange (sendPin pin prepend) := by
  unfold sendPin; exact sendPin_go_nc _ _

theorem getCurrentMode_nc : Emits notChange getCurrentMode := by
  unfold getCurrentMode; repeat' emits_nc
theorem platEcho_nc : Emits notChange platEcho := by
  unfold platEcho echo; repeat' emits_nc
theorem isOnboarded_nc : Emits notChange isOnboarded := by
  unfold isOnboarded; repeat' emits_nc
theorem disposeHsm_nc : Emits notChange disposeHsm := disconnect_emits rfl
theorem getHsm_nc : Emits notChange getHsm := getHsm_emits fun ok => by cases ok <;> rfl
theorem exitMenu_nc (b : Bool) : Emits notChange (exitMenu b) := by
  unfold exitMenu
  refine Emits.bind ?_ fun _ => Emits.pure _
  cases b <;> exact Dongle.sendCommand_emits _ _ (by rfl)

theorem unlockChecks_nc : Emits notChange unlockChecks := by
  unfold unlockChecks
  refine Emits.bind (getHsm_emits fun ok => by cases ok <;> rfl) fun _ => Emits.bind getCurrentMode_nc fun mode =>
    Emits.bind ?_ fun onb => ?_
  · split
    · refine Emits.bind isOnboarded_nc fun o => ?_
      split
      · exact adminError_emits
      · exact Emits.pure _
    · exact Emits.pure _
  · split
    · exact adminError_emits
    · split
      · exact adminError_emits
      · refine Emits.bind platEcho_nc fun e => ?_
        split
        · exact adminError_emits
        · exact Emits.pure _

theorem platUnlock_nc (pin : Bytes) : Emits notChange (platUnlock pin) := by
  unfold platUnlock
  refine Emits.bind getWorld_emits fun w => ?_
  split
  · refine Emits.bind (Dongle.sendCommand_emits _ _ (by rfl)) fun r => ?_
    repeat' emits_nc
  · unfold unlock
    refine Emits.bind (sendPin_nc _ _) fun _ => ?_
    refine Emits.bind (Dongle.sendCommand_emits _ _ (by rfl)) fun r => ?_
    repeat' emits_nc

syntax "emits_nc2" : tactic
macro_rules
  | `(tactic| emits_nc2) => `(tactic| first
    | with_reducible exact unlockChecks_nc
    | with_reducible exact getHsm_nc
    | with_reducible exact platUnlock_nc _
    | with_reducible exact disposeHsm_nc
    | with_reducible exact exitMenu_nc _
    | with_reducible exact getCurrentMode_nc
    | emits_nc)

/-- unlocking never sends the change-PIN command -/
theorem doUnlock_nc (o : Options) (exit noExec : Bool) : Emits notChange (doUnlock o exit noExec) := by
  unfold doUnlock
  repeat' emits_nc2

theorem chgOptPin_emits {P : Ev → Bool} (o : Options) : Emits P (chgOptPin o) := by
  unfold chgOptPin
  split
  · split
    · exact Emits.pure _
    · exact adminError_emits
  · exact Emits.pure _

theorem chgOptPin_returns (o : Options) :
    Returns (fun pin => ∀ p, pin = some p → pinValid p o.anyPin = true) (chgOptPin o) := by
  unfold chgOptPin
  split
  · split
    · rename_i hv
      exact returns_pure fun p hp => by injection hp with hp; subst hp; exact hv
    · exact returns_throw _
  · exact returns_pure fun p hp => by cases hp

theorem chgPin_emits {P : Ev → Bool} (o : Options) (np : Option Bytes) : Emits P (chgPin o np) := by
  unfold chgPin
  split
  · exact Emits.pure _
  · exact askForPin_emits _

theorem chgPin_returns (o : Options) (pin : Option Bytes) (hp : ∀ p, pin = some p → pinValid p o.anyPin = true) :
    Returns (fun p => pinValid p o.anyPin = true) (chgPin o pin) := by
  unfold chgPin
  split
  · rename_i p; exact returns_pure (hp p rfl)
  · exact askForPin_returns _

theorem chgPrepare_nc (o : Options) : Emits notChange (chgPrepare o) := by
  unfold chgPrepare
  have hrest : Emits notChange (do
      getHsm
      let mode ← getCurrentMode
      let w ← getWorld
      if (w.platform == Platform.ledger && mode != Mode_BOOTLOADER.toNat) = true then (adminError : M Unit) else pure ()) := by
    repeat' emits_nc2
  dsimp only
  split
  · exact Emits.bind (Emits.tryCatchIf (doUnlock_nc o false false) fun _ => adminError_emits) fun _ => hrest
  · exact hrest

/-- **a PIN change sends only a policy-compliant PIN**: if the change-PIN command (Ledger CHANGE_PIN,
    SGX change-password) is sent during `do_changepin` — for every device behaviour and every operator
    script — it is sent by `platNewPin np` for a PIN `np` that satisfies the policy (8 alphanumerics
    with a letter; alphanumerics only when any-PIN was explicitly allowed); nothing before that step —
    the unlock included — sends it -/
theorem changepin_only_policy_pin (o : Options) (w : World)
    (h : (doChangePin o w).evs.all notChange = false) :
    ∃ np w2, pinValid np o.anyPin = true ∧ (platNewPin np w2).evs.all notChange = false := by
  unfold doChangePin at h
  obtain ⟨pin, _, w0, hpin, h⟩ := Emits.bind_split (chgOptPin_emits o) h
  have hp := chgOptPin_returns o w pin (by rw [hpin])
  obtain ⟨_, _, w1, _, h⟩ := Emits.bind_split (chgPrepare_nc o) h
  obtain ⟨np, _, w2, hnp, h⟩ := Emits.bind_split (chgPin_emits o pin) h
  have hpol := chgPin_returns o pin hp w1 np (by rw [hnp])
  refine ⟨np, w2, hpol, ?_⟩
  refine Emits.bind_left (fun ok => ?_) h
  split
  · exact Emits.bind adminError_emits fun _ => disposeHsm_nc
  · exact disposeHsm_nc

end Admin
end PowHsm
