/-
  `Tracks` for every computation of the manager model: one script entry is consumed per APDU
  emitted (so that conformance of a trace can be split along binds).
-/
import PowHsm.Proofs.ConformChunks
import PowHsm.Ledger.Protocol
namespace PowHsm
open M Dongle Ledger Generated Tbl

theorem getWorld_tracks : Tracks getWorld := by intro w; simp [getWorld, apdus]

theorem modifyWorld_tracks (f : World → World) (h : ∀ w, (f w).script = w.script) : Tracks (modifyWorld f) := by
  intro w; simp [modifyWorld, apdus, h]

theorem catchResult_tracks {m : M α} {h : Nat → M α} (hm : Tracks m) (hh : ∀ sw, Tracks (h sw)) :
    Tracks (catchResult m h) := by
  unfold catchResult
  refine Tracks.tryCatchIf hm fun e => ?_
  split
  · exact hh _
  · exact Tracks.throw _

syntax "tracks_step" : tactic
macro_rules
  | `(tactic| tracks_step) => `(tactic| first
    | with_reducible exact M.Tracks.pure _
    | with_reducible exact M.Tracks.throw _
    | with_reducible exact Dongle.idx_tracks _ _
    | with_reducible exact Dongle.sendCommand_tracks _ _
    | with_reducible exact Dongle.sendChunks_tracks _ _ _ _ _ _
    | with_reducible exact Dongle.connect_tracks
    | with_reducible exact Dongle.disconnect_tracks
    | with_reducible exact getWorld_tracks
    | ((with_reducible refine modifyWorld_tracks _ ?_); intro _; rfl)
    | assumption
    | with_reducible refine M.Tracks.bind ?_ ?_
    | with_reducible refine M.Tracks.tryCatchIf ?_ ?_
    | with_reducible refine catchResult_tracks ?_ ?_
    | with_reducible refine M.Tracks.attempt ?_
    | ((with_reducible refine M.Tracks.emit ?_); intro b h; cases h)
    | with_reducible intro _
    | split
    | (dsimp only; split))

namespace Dongle

/-! ### signing -/

theorem nextSize_tracks (resp : Bytes) : Tracks (nextSize resp) := by
  unfold nextSize; repeat' tracks_step
macro_rules | `(tactic| tracks_step) => `(tactic| with_reducible apply PowHsm.Dongle.nextSize_tracks)

theorem chunkStep_tracks {β : Type} (op : UInt8) (nexts : List UInt8) (data : Bytes) (init : Nat)
    (rule : List (List Nat × Int) × Int) (post : Bytes → M (Except Int β)) (hp : ∀ r, Tracks (post r)) :
    Tracks (chunkStep op nexts data init rule post) := by
  unfold chunkStep
  refine catchResult_tracks (Tracks.bind (sendChunks_tracks _ _ _ _ _ _) fun p => ?_) fun _ => Tracks.pure _
  dsimp only
  split
  · exact Tracks.pure _
  · exact hp _

theorem signStep1_tracks (a : SignAuthArgs) : Tracks (signStep1 a) := by
  unfold signStep1
  repeat' tracks_step
macro_rules | `(tactic| tracks_step) => `(tactic| with_reducible apply PowHsm.Dongle.signStep1_tracks)

theorem orFail_tracks {β : Type} (s : Except Int β) (k : β → M SignOut) (hk : ∀ x, Tracks (k x)) :
    Tracks (orFail s k) := by
  unfold orFail; split
  · exact Tracks.pure _
  · exact hk _

theorem signTail4_tracks (pp : Bytes) (req3 : Nat) : Tracks (signTail4 pp req3) := by
  unfold signTail4
  exact Tracks.bind (chunkStep_tracks _ _ _ _ _ _ fun _ => Tracks.pure _) fun s =>
    orFail_tracks _ _ fun _ => Tracks.pure _
macro_rules | `(tactic| tracks_step) => `(tactic| with_reducible apply PowHsm.Dongle.signTail4_tracks)

theorem signProof_tracks (a : SignAuthArgs) (req3 : Nat) : Tracks (signProof a req3) := by
  unfold signProof; split
  · exact Tracks.pure _
  · exact signTail4_tracks _ _
macro_rules | `(tactic| tracks_step) => `(tactic| with_reducible apply PowHsm.Dongle.signProof_tracks)

theorem signTail3_tracks (a : SignAuthArgs) (req2 : Nat) : Tracks (signTail3 a req2) := by
  unfold signTail3
  exact Tracks.bind (chunkStep_tracks _ _ _ _ _ _ nextSize_tracks) fun s =>
    orFail_tracks _ _ (signProof_tracks a)
macro_rules | `(tactic| tracks_step) => `(tactic| with_reducible apply PowHsm.Dongle.signTail3_tracks)

theorem signTail2_tracks (a : SignAuthArgs) (req1 : Nat) : Tracks (signTail2 a req1) := by
  unfold signTail2; split
  · exact Tracks.pure _
  · exact Tracks.bind (chunkStep_tracks _ _ _ _ _ _ nextSize_tracks) fun s =>
      orFail_tracks _ _ (signTail3_tracks a)
macro_rules | `(tactic| tracks_step) => `(tactic| with_reducible apply PowHsm.Dongle.signTail2_tracks)

theorem signAuthorized_tracks (a : SignAuthArgs) : Tracks (signAuthorized a) := by
  unfold signAuthorized; split
  · exact Tracks.throw _
  · exact Tracks.bind (signStep1_tracks a) fun s => orFail_tracks _ _ (signTail2_tracks a)
macro_rules | `(tactic| tracks_step) => `(tactic| with_reducible apply PowHsm.Dongle.signAuthorized_tracks)

theorem signUnauthorized_tracks (path : List Nat) (hash : Option Bytes) : Tracks (signUnauthorized path hash) := by
  unfold signUnauthorized; repeat' tracks_step
macro_rules | `(tactic| tracks_step) => `(tactic| with_reducible apply PowHsm.Dongle.signUnauthorized_tracks)

theorem getPublicKey_tracks (path : List Nat) : Tracks (getPublicKey path) := sendCommand_tracks _ _

/-! ### simple commands -/
macro_rules | `(tactic| tracks_step) => `(tactic| with_reducible apply PowHsm.Dongle.getPublicKey_tracks)

theorem getCurrentMode_tracks : Tracks getCurrentMode := by unfold getCurrentMode; repeat' tracks_step
macro_rules | `(tactic| tracks_step) => `(tactic| with_reducible apply PowHsm.Dongle.getCurrentMode_tracks)

theorem echo_tracks : Tracks echo := by unfold echo; repeat' tracks_step
macro_rules | `(tactic| tracks_step) => `(tactic| with_reducible apply PowHsm.Dongle.echo_tracks)

theorem isOnboarded_tracks : Tracks isOnboarded := by unfold isOnboarded; repeat' tracks_step
macro_rules | `(tactic| tracks_step) => `(tactic| with_reducible apply PowHsm.Dongle.isOnboarded_tracks)

theorem getVersion_tracks : Tracks getVersion := by unfold getVersion; repeat' tracks_step
macro_rules | `(tactic| tracks_step) => `(tactic| with_reducible apply PowHsm.Dongle.getVersion_tracks)

theorem getRetries_tracks : Tracks getRetries := by unfold getRetries; repeat' tracks_step
macro_rules | `(tactic| tracks_step) => `(tactic| with_reducible apply PowHsm.Dongle.getRetries_tracks)

theorem sendPin_go_tracks (bs : Bytes) : ∀ i, Tracks (sendPin.go i bs) := by
  induction bs with
  | nil => intro i; unfold sendPin.go; exact Tracks.pure _
  | cons b bs ih =>
    intro i; unfold sendPin.go
    exact Tracks.bind (sendCommand_tracks _ _) fun _ => ih _
macro_rules | `(tactic| tracks_step) => `(tactic| with_reducible apply PowHsm.Dongle.sendPin_go_tracks)

theorem sendPin_tracks (pin : Bytes) (p : Bool) : Tracks (sendPin pin p) := by
  unfold sendPin; exact sendPin_go_tracks _ _
macro_rules | `(tactic| tracks_step) => `(tactic| with_reducible apply PowHsm.Dongle.sendPin_tracks)

theorem unlock_tracks (pin : Bytes) : Tracks (unlock pin) := by
  unfold unlock
  repeat' tracks_step
macro_rules | `(tactic| tracks_step) => `(tactic| with_reducible apply PowHsm.Dongle.unlock_tracks)

theorem newPin_tracks (pin : Bytes) : Tracks (newPin pin) := by
  unfold newPin
  repeat' tracks_step
macro_rules | `(tactic| tracks_step) => `(tactic| with_reducible apply PowHsm.Dongle.newPin_tracks)

theorem exitMenu_tracks (b : Bool) : Tracks (exitMenu b) := by unfold exitMenu; repeat' tracks_step
macro_rules | `(tactic| tracks_step) => `(tactic| with_reducible apply PowHsm.Dongle.exitMenu_tracks)

theorem exitApp_tracks : Tracks exitApp := by unfold exitApp; repeat' tracks_step
macro_rules | `(tactic| tracks_step) => `(tactic| with_reducible apply PowHsm.Dongle.exitApp_tracks)

theorem getSignerParameters_tracks : Tracks getSignerParameters := by
  unfold getSignerParameters; repeat' tracks_step
macro_rules | `(tactic| tracks_step) => `(tactic| with_reducible apply PowHsm.Dongle.getSignerParameters_tracks)

theorem getStateHash_tracks (sel : Nat) : Tracks (getStateHash sel) := by
  unfold getStateHash; repeat' tracks_step
macro_rules | `(tactic| tracks_step) => `(tactic| with_reducible apply PowHsm.Dongle.getStateHash_tracks)

theorem getStateHashes_tracks : ∀ l, Tracks (getStateHashes l) := by
  intro l
  induction l with
  | nil => unfold getStateHashes; exact Tracks.pure _
  | cons x xs ih =>
    obtain ⟨k, sel⟩ := x
    unfold getStateHashes
    exact Tracks.bind (getStateHash_tracks _) fun _ => Tracks.bind ih fun _ => Tracks.pure _
macro_rules | `(tactic| tracks_step) => `(tactic| with_reducible apply PowHsm.Dongle.getStateHashes_tracks)

theorem getBlockchainState_tracks : Tracks getBlockchainState := by
  unfold getBlockchainState
  repeat' tracks_step
macro_rules | `(tactic| tracks_step) => `(tactic| with_reducible apply PowHsm.Dongle.getBlockchainState_tracks)

theorem resetAdvanceBlockchain_tracks : Tracks resetAdvanceBlockchain := by
  unfold resetAdvanceBlockchain; repeat' tracks_step
macro_rules | `(tactic| tracks_step) => `(tactic| with_reducible apply PowHsm.Dongle.resetAdvanceBlockchain_tracks)

theorem heartbeatRun_tracks (cmd : Nat) (ops : List (String × Nat)) (ud : Bytes) :
    Tracks (heartbeatRun cmd ops ud) := by
  unfold heartbeatRun; repeat' tracks_step

/-! ### block operations -/
macro_rules | `(tactic| tracks_step) => `(tactic| with_reducible apply PowHsm.Dongle.heartbeatRun_tracks)

theorem headerMetaStep_tracks (c : BlockCfg) (isB : Bool) (data : Bytes) : Tracks (headerMetaStep c isB data) := by
  unfold headerMetaStep; repeat' tracks_step
macro_rules | `(tactic| tracks_step) => `(tactic| with_reducible apply PowHsm.Dongle.headerMetaStep_tracks)

theorem headerChunkStep_tracks (c : BlockCfg) (isB : Bool) (raw : Bytes) (req : Nat) :
    Tracks (headerChunkStep c isB raw req) := by
  unfold headerChunkStep; repeat' tracks_step
macro_rules | `(tactic| tracks_step) => `(tactic| with_reducible apply PowHsm.Dongle.headerChunkStep_tracks)

theorem sendBlockHeader_tracks (h : Hashes) (c : BlockCfg) (isB : Bool) (b : Option Bytes) :
    Tracks (sendBlockHeader h c isB b) := by
  unfold sendBlockHeader
  repeat' tracks_step
macro_rules | `(tactic| tracks_step) => `(tactic| with_reducible apply PowHsm.Dongle.sendBlockHeader_tracks)

theorem sendBrothers_tracks (h : Hashes) (c : BlockCfg) : ∀ bs last, Tracks (sendBrothers h c bs last) := by
  intro bs
  induction bs with
  | nil => intro last; unfold sendBrothers; exact Tracks.pure _
  | cons b bs ih =>
    intro last
    unfold sendBrothers
    refine Tracks.bind (sendBlockHeader_tracks h c true b) fun r => ?_
    split
    · exact Tracks.pure _
    · exact ih _
macro_rules | `(tactic| tracks_step) => `(tactic| with_reducible apply PowHsm.Dongle.sendBrothers_tracks)

theorem brothersPart_tracks (h : Hashes) (c : BlockCfg) (bros : List (List (Option Bytes))) (resp0 : Bytes) :
    Tracks (brothersPart h c bros resp0) := by
  unfold brothersPart
  repeat' tracks_step
macro_rules | `(tactic| tracks_step) => `(tactic| with_reducible apply PowHsm.Dongle.brothersPart_tracks)

theorem blockLoop_tracks (h : Hashes) (c : BlockCfg) : ∀ blocks bros, Tracks (blockLoop h c blocks bros) := by
  intro blocks
  induction blocks with
  | nil => intro bros; unfold blockLoop; exact Tracks.throw _
  | cons b bs ih =>
    intro bros
    unfold blockLoop
    refine Tracks.bind (sendBlockHeader_tracks h c false b) fun r => ?_
    split
    · exact Tracks.pure _
    · refine Tracks.bind (brothersPart_tracks h c bros _) fun r2 => ?_
      split
      · exact Tracks.pure _
      · refine Tracks.bind (idx_tracks _ _) fun rop => ?_
        split
        · exact Tracks.pure _
        · split
          · exact Tracks.pure _
          · exact ih _
macro_rules | `(tactic| tracks_step) => `(tactic| with_reducible apply PowHsm.Dongle.blockLoop_tracks)

theorem doBlockOperation_tracks (h : Hashes) (c : BlockCfg) (blocks : List (Option Bytes))
    (bros : List (List (Option Bytes))) : Tracks (doBlockOperation h c blocks bros) := by
  unfold doBlockOperation
  repeat' tracks_step
macro_rules | `(tactic| tracks_step) => `(tactic| with_reducible apply PowHsm.Dongle.doBlockOperation_tracks)

theorem advanceBlockchain_tracks (h : Hashes) (blocks : List (Option Bytes))
    (bros : List (List (Option Bytes))) : Tracks (advanceBlockchain h blocks bros) := by
  unfold advanceBlockchain
  dsimp only
  split
  · exact Tracks.pure _
  · exact doBlockOperation_tracks _ _ _ _
macro_rules | `(tactic| tracks_step) => `(tactic| with_reducible apply PowHsm.Dongle.advanceBlockchain_tracks)

theorem updateAncestor_tracks (h : Hashes) (blocks : List (Option Bytes)) : Tracks (updateAncestor h blocks) := by
  unfold updateAncestor
  split
  · exact Tracks.pure _
  · exact doBlockOperation_tracks _ _ _ _

end Dongle

namespace Ledger

/-! ### bring-up and the PIN object -/
macro_rules | `(tactic| tracks_step) => `(tactic| with_reducible apply PowHsm.Dongle.updateAncestor_tracks)

theorem pinObj_tracks : Tracks pinObj := by unfold pinObj; repeat' tracks_step
macro_rules | `(tactic| tracks_step) => `(tactic| with_reducible apply PowHsm.Ledger.pinObj_tracks)

theorem setPin_tracks (p : PinSt) : Tracks (setPin p) := by unfold setPin; repeat' tracks_step
macro_rules | `(tactic| tracks_step) => `(tactic| with_reducible apply PowHsm.Ledger.setPin_tracks)

theorem setCommIssue_tracks (b : Bool) : Tracks (setCommIssue b) := by unfold setCommIssue; repeat' tracks_step
macro_rules | `(tactic| tracks_step) => `(tactic| with_reducible apply PowHsm.Ledger.setCommIssue_tracks)

theorem pinStartChange_tracks : Tracks pinStartChange := by
  unfold pinStartChange
  repeat' tracks_step
macro_rules | `(tactic| tracks_step) => `(tactic| with_reducible apply PowHsm.Ledger.pinStartChange_tracks)

theorem pinGetNew_tracks : Tracks pinGetNew := by
  unfold pinGetNew; repeat' tracks_step
macro_rules | `(tactic| tracks_step) => `(tactic| with_reducible apply PowHsm.Ledger.pinGetNew_tracks)

theorem pinCommit_tracks : Tracks pinCommit := by
  unfold pinCommit
  repeat' tracks_step
macro_rules | `(tactic| tracks_step) => `(tactic| with_reducible apply PowHsm.Ledger.pinCommit_tracks)

theorem pinAbort_tracks : Tracks pinAbort := by
  unfold pinAbort
  repeat' tracks_step
macro_rules | `(tactic| tracks_step) => `(tactic| with_reducible apply PowHsm.Ledger.pinAbort_tracks)

theorem platEcho_tracks : Tracks platEcho := by
  unfold platEcho; repeat' tracks_step
macro_rules | `(tactic| tracks_step) => `(tactic| with_reducible apply PowHsm.Ledger.platEcho_tracks)

theorem platRetries_tracks : Tracks platRetries := by
  unfold platRetries; repeat' tracks_step
macro_rules | `(tactic| tracks_step) => `(tactic| with_reducible apply PowHsm.Ledger.platRetries_tracks)

theorem platUnlock_tracks (pin : Bytes) : Tracks (platUnlock pin) := by
  unfold platUnlock; repeat' tracks_step
macro_rules | `(tactic| tracks_step) => `(tactic| with_reducible apply PowHsm.Ledger.platUnlock_tracks)

theorem platNewPin_tracks (pin : Bytes) : Tracks (platNewPin pin) := by
  unfold platNewPin; repeat' tracks_step
macro_rules | `(tactic| tracks_step) => `(tactic| with_reducible apply PowHsm.Ledger.platNewPin_tracks)

theorem checkVersion_tracks (a b : Nat × Nat × Nat) : Tracks (checkVersion a b) := by
  unfold checkVersion; repeat' tracks_step
macro_rules | `(tactic| tracks_step) => `(tactic| with_reducible apply PowHsm.Ledger.checkVersion_tracks)

theorem waitAndReconnect_tracks : Tracks waitAndReconnect := by
  unfold waitAndReconnect; repeat' tracks_step
macro_rules | `(tactic| tracks_step) => `(tactic| with_reducible apply PowHsm.Ledger.waitAndReconnect_tracks)

theorem blGuards_tracks : Tracks blGuards := by
  unfold blGuards
  repeat' tracks_step
macro_rules | `(tactic| tracks_step) => `(tactic| with_reducible apply PowHsm.Ledger.blGuards_tracks)

theorem blAfterUnlock_tracks : Tracks blAfterUnlock := by
  unfold blAfterUnlock
  repeat' tracks_step
macro_rules | `(tactic| tracks_step) => `(tactic| with_reducible apply PowHsm.Ledger.blAfterUnlock_tracks)

theorem handleBootloader_tracks : Tracks handleBootloader := by
  unfold handleBootloader
  repeat' tracks_step
macro_rules | `(tactic| tracks_step) => `(tactic| with_reducible apply PowHsm.Ledger.handleBootloader_tracks)

theorem initGuards_tracks : Tracks initGuards := by
  unfold initGuards
  repeat' tracks_step
macro_rules | `(tactic| tracks_step) => `(tactic| with_reducible apply PowHsm.Ledger.initGuards_tracks)

theorem signerChecks_tracks (mode : Nat) : Tracks (signerChecks mode) := by
  unfold signerChecks
  repeat' tracks_step
macro_rules | `(tactic| tracks_step) => `(tactic| with_reducible apply PowHsm.Ledger.signerChecks_tracks)

theorem afterDispatch_tracks (mode : Nat) : Tracks (afterDispatch mode) := by
  unfold afterDispatch; repeat' tracks_step
macro_rules | `(tactic| tracks_step) => `(tactic| with_reducible apply PowHsm.Ledger.afterDispatch_tracks)

theorem initializeDevice_tracks : Tracks initializeDevice := by
  unfold initializeDevice
  repeat' tracks_step
macro_rules | `(tactic| tracks_step) => `(tactic| with_reducible apply PowHsm.Ledger.initializeDevice_tracks)

theorem ensureConnection_tracks : Tracks ensureConnection := by
  unfold ensureConnection
  repeat' tracks_step

end Ledger
end PowHsm
macro_rules | `(tactic| tracks_step) => `(tactic| with_reducible apply PowHsm.Ledger.ensureConnection_tracks)
