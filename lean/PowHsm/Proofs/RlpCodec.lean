/-
  The RLP codec of the model (pyrlp's strict `decode` / `encode_raw`): decoding an encoding gives
  the item back — for every item whose encoding is shorter than 2^64 bytes.  Used by Props/C05
  (removing the merge-mining fields does not change a block's hash).
-/
import PowHsm.Rlp.Block
namespace PowHsm
namespace Rlp

theorem u8_toNat {n : Nat} (h : n < 256) : (UInt8.ofNat n).toNat = n := by
  simp [UInt8.toNat_ofNat']; omega

/-! ### minimal big-endian numbers -/

theorem beMin_ne_nil (n : Nat) : beMin n ≠ [] := by
  unfold beMin
  split
  · simp
  · simp

theorem beVal_beMin (n : Nat) : Bytes.beVal (beMin n) = n := by
  induction n using Nat.strongRecOn with
  | _ n ih =>
    unfold beMin
    split
    · rename_i h
      simp [Bytes.beVal, u8_toNat h]
    · rename_i h
      rw [Bytes.beVal_append, ih (n / 256) (by omega)]
      have : (n % 256) < 256 := Nat.mod_lt _ (by decide)
      simp [Bytes.beVal, u8_toNat this]
      omega

theorem beMin_head_ne_zero (n : Nat) (h : 0 < n) : (beMin n).headD 0 ≠ 0 := by
  induction n using Nat.strongRecOn with
  | _ n ih =>
    unfold beMin
    split
    · rename_i hlt
      simp only [List.headD_cons]
      intro hz
      have := congrArg UInt8.toNat hz
      rw [u8_toNat hlt] at this
      simp at this
      omega
    · rename_i hge
      have hpos : 0 < n / 256 := by omega
      have hne := beMin_ne_nil (n / 256)
      cases hb : beMin (n / 256) with
      | nil => exact absurd hb hne
      | cons x xs =>
        have := ih (n / 256) (by omega) hpos
        rw [hb] at this
        simpa using this

theorem beMin_length_le (n : Nat) (k : Nat) (h : n < 256 ^ k) (hk : 0 < k) : (beMin n).length ≤ k := by
  induction k generalizing n with
  | zero => omega
  | succ k ih =>
    unfold beMin
    split
    · simp
    · rename_i hge
      have hk' : 0 < k := by
        cases k with
        | zero => simp at h; omega
        | succ k => omega
      have : n / 256 < 256 ^ k := by
        rw [Nat.pow_succ] at h
        exact Nat.div_lt_of_lt_mul (by omega)
      have := ih (n / 256) this hk'
      simp
      omega

theorem beMin_length_pos (n : Nat) : 0 < (beMin n).length := by
  have := beMin_ne_nil n
  cases h : beMin n with
  | nil => exact absurd h this
  | cons _ _ => simp

/-! ### shape of a length prefix -/

theorem lengthPrefix_short (len offset : Nat) (h : len < 56) :
    lengthPrefix len offset = [UInt8.ofNat (offset + len)] := by
  simp [lengthPrefix, h]

theorem lengthPrefix_long (len offset : Nat) (h : ¬ len < 56) :
    lengthPrefix len offset = UInt8.ofNat (offset + 55 + (beMin len).length) :: beMin len := by
  simp [lengthPrefix, h]

theorem lengthPrefix_length_pos (len offset : Nat) : 0 < (lengthPrefix len offset).length := by
  unfold lengthPrefix; split <;> simp

/-- decoding the header of a string item whose length prefix is `lengthPrefix len 128` -/
theorem decItem_str (fuel : Nat) (b rest : Bytes) (hlen : b.length < 2 ^ 64)
    (hnot : ¬ (∃ x, b = [x] ∧ x.toNat < 128)) :
    decItem (fuel + 1) (lengthPrefix b.length 128 ++ b ++ rest) = some (.str b, rest) := by
  by_cases hs : b.length < 56
  · rw [lengthPrefix_short _ _ hs]
    simp only [List.cons_append, List.nil_append, decItem]
    have h1 : (UInt8.ofNat (128 + b.length)).toNat = 128 + b.length := u8_toNat (by omega)
    rw [h1]
    have e1 : ¬ (128 + b.length < 128) := by omega
    have e2 : 128 + b.length < 184 := by omega
    simp only [e1, e2, if_false, if_true, Nat.add_sub_cancel_left]
    have e3 : ¬ ((b ++ rest).length < b.length) := by simp
    simp only [e3, if_false]
    have e4 : (b.length == 1 && decide (((b ++ rest).headD 0).toNat < 128)) = false := by
      cases b with
      | nil => simp
      | cons x xs =>
        cases xs with
        | nil =>
          have : ¬ x.toNat < 128 := fun hx => hnot ⟨x, rfl, hx⟩
          simp [this]
        | cons y ys => simp
    simp only [e4, Bool.false_eq_true, if_false, List.take_left', List.drop_left']
  · rw [lengthPrefix_long _ _ hs]
    have hl8 : (beMin b.length).length ≤ 8 := beMin_length_le _ 8 (by simpa using hlen) (by decide)
    have hl1 := beMin_length_pos b.length
    simp only [List.cons_append, decItem]
    have h1 : (UInt8.ofNat (128 + 55 + (beMin b.length).length)).toNat = 183 + (beMin b.length).length :=
      by rw [u8_toNat (by omega)]
    rw [h1]
    have e1 : ¬ (183 + (beMin b.length).length < 128) := by omega
    have e2 : ¬ (183 + (beMin b.length).length < 184) := by omega
    have e3 : 183 + (beMin b.length).length < 192 := by omega
    simp only [e1, e2, e3, if_false, if_true, Nat.add_sub_cancel_left]
    have e4 : ¬ ((beMin b.length ++ b ++ rest).length < (beMin b.length).length) := by simp
    rw [List.append_assoc] at e4 ⊢
    simp only [e4, if_false, List.take_left', List.drop_left']
    have e5 : ((beMin b.length).headD 0 == 0) = false := by
      have := beMin_head_ne_zero b.length (by omega)
      simpa using this
    simp only [e5, Bool.false_eq_true, if_false, beVal_beMin]
    have e6 : (decide (b.length < 56) || decide ((b ++ rest).length < b.length)) = false := by simp; omega
    simp only [e6, Bool.false_eq_true, if_false, List.take_left', List.drop_left']

/-- decoding the header of a list item whose length prefix is `lengthPrefix payload.length 192` -/
theorem decItem_list (fuel : Nat) (payload rest : Bytes) (hlen : payload.length < 2 ^ 64) :
    decItem (fuel + 1) (lengthPrefix payload.length 192 ++ payload ++ rest) =
      (decItems fuel payload).map fun xs => (Rlp.list xs, rest) := by
  by_cases hs : payload.length < 56
  · rw [lengthPrefix_short _ _ hs]
    simp only [List.cons_append, List.nil_append, decItem]
    have h1 : (UInt8.ofNat (192 + payload.length)).toNat = 192 + payload.length := u8_toNat (by omega)
    rw [h1]
    have e1 : ¬ (192 + payload.length < 128) := by omega
    have e2 : ¬ (192 + payload.length < 184) := by omega
    have e3 : ¬ (192 + payload.length < 192) := by omega
    have e4 : 192 + payload.length < 248 := by omega
    simp only [e1, e2, e3, e4, if_false, if_true, Nat.add_sub_cancel_left]
    have e5 : ¬ ((payload ++ rest).length < payload.length) := by simp
    simp only [e5, if_false, List.take_left', List.drop_left']
  · rw [lengthPrefix_long _ _ hs]
    have hl8 : (beMin payload.length).length ≤ 8 := beMin_length_le _ 8 (by simpa using hlen) (by decide)
    have hl1 := beMin_length_pos payload.length
    simp only [List.cons_append, decItem]
    have h1 : (UInt8.ofNat (192 + 55 + (beMin payload.length).length)).toNat = 247 + (beMin payload.length).length :=
      by rw [u8_toNat (by omega)]
    rw [h1]
    have e1 : ¬ (247 + (beMin payload.length).length < 128) := by omega
    have e2 : ¬ (247 + (beMin payload.length).length < 184) := by omega
    have e3 : ¬ (247 + (beMin payload.length).length < 192) := by omega
    have e3' : ¬ (247 + (beMin payload.length).length < 248) := by omega
    simp only [e1, e2, e3, e3', if_false, Nat.add_sub_cancel_left]
    have e4 : ¬ ((beMin payload.length ++ payload ++ rest).length < (beMin payload.length).length) := by simp
    rw [List.append_assoc] at e4 ⊢
    simp only [e4, if_false, List.take_left', List.drop_left']
    have e5 : ((beMin payload.length).headD 0 == 0) = false := by
      have := beMin_head_ne_zero payload.length (by omega)
      simpa using this
    simp only [e5, Bool.false_eq_true, if_false, beVal_beMin]
    have e6 : (decide (payload.length < 56) || decide ((payload ++ rest).length < payload.length)) = false := by
      simp; omega
    simp only [e6, Bool.false_eq_true, if_false, List.take_left', List.drop_left']

theorem enc_length_pos (x : Rlp) : 0 < (enc x).length := by
  cases x with
  | str b =>
    unfold enc
    split
    · split
      · simp
      · simp
    · have := lengthPrefix_length_pos b.length 128
      simp; omega
  | list xs =>
    unfold enc
    have := lengthPrefix_length_pos (encList xs).length 192
    simp; omega

theorem enc_list_length (xs : List Rlp) :
    (enc (.list xs)).length = (lengthPrefix (encList xs).length 192).length + (encList xs).length := by
  simp [enc]

/-- **decode ∘ encode = id**, with the fuel the decoder is given: for every item / item list whose
    encoding is shorter than 2^64 bytes -/
theorem roundtrip_fuel (fuel : Nat) :
    (∀ x rest, (enc x).length < 2 ^ 64 → 2 * (enc x).length ≤ fuel → decItem fuel (enc x ++ rest) = some (x, rest)) ∧
    (∀ xs, (encList xs).length < 2 ^ 64 → 2 * (encList xs).length + 1 ≤ fuel → decItems fuel (encList xs) = some xs) := by
  induction fuel with
  | zero =>
    refine ⟨?_, ?_⟩
    · intro x rest _ h
      have := enc_length_pos x
      omega
    · intro xs _ h; omega
  | succ fuel ih =>
    refine ⟨?_, ?_⟩
    · intro x rest hlen hf
      cases x with
      | str b =>
        by_cases hsmall : ∃ x, b = [x] ∧ x.toNat < 128
        · obtain ⟨x, rfl, hx⟩ := hsmall
          have henc : enc (.str [x]) = [x] := by simp [enc, hx]
          rw [henc]
          show decItem (fuel + 1) (x :: rest) = some (.str [x], rest)
          rw [decItem]
          simp only [hx, if_true]
        · have henc : enc (.str b) = lengthPrefix b.length 128 ++ b := by
            unfold enc
            split
            · rename_i x
              split
              · rename_i hx; exact absurd ⟨x, rfl, hx⟩ hsmall
              · rfl
            · rfl
          rw [henc] at hlen ⊢
          have hb : b.length < 2 ^ 64 := by simp at hlen; omega
          exact decItem_str fuel b rest hb hsmall
      | list xs =>
        have hl := enc_list_length xs
        have hp := lengthPrefix_length_pos (encList xs).length 192
        have henc : enc (.list xs) = lengthPrefix (encList xs).length 192 ++ encList xs := by simp [enc]
        rw [henc, decItem_list fuel _ rest (by omega)]
        rw [ih.2 xs (by omega) (by omega)]
        rfl
    · intro xs hlen hf
      cases xs with
      | nil => simp [encList, decItems]
      | cons x xs =>
        have hx := enc_length_pos x
        have hsplit : encList (x :: xs) = enc x ++ encList xs := by simp [encList]
        rw [hsplit] at hlen hf ⊢
        simp only [List.length_append] at hlen hf
        cases hex : enc x with
        | nil => rw [hex] at hx; simp at hx
        | cons b t =>
          have h1 := ih.1 x (encList xs) (by omega) (by omega)
          rw [hex] at h1
          simp only [List.cons_append] at h1 ⊢
          simp only [decItems, h1]
          rw [ih.2 xs (by omega) (by rw [hex] at hf; simp at hf; omega)]
          rfl

/-- `rlp.decode(rlp.encode(x)) == x` -/
theorem decode_enc (x : Rlp) (h : (enc x).length < 2 ^ 64) : decode (enc x) = some x := by
  unfold decode
  have := (roundtrip_fuel (2 * (enc x).length + 2)).1 x [] h (by omega)
  simp only [List.append_nil] at this
  rw [this]

end Rlp

namespace Block
open Rlp

theorem numFields_dropFields (k : Nat) (x : Rlp) : numFields (dropFields k x) = numFields x - k := by
  cases x with
  | str b => simp [numFields, dropFields]
  | list xs => simp [numFields, dropFields]

/-- the announced size: the payload length read back from an encoded list is the length of its payload -/
theorem listPayloadLength_enc (xs : List Rlp) (h : (encList xs).length < 2 ^ 64) :
    listPayloadLength (enc (.list xs)) = some (encList xs).length := by
  have henc : enc (.list xs) = lengthPrefix (encList xs).length 192 ++ encList xs := by simp [enc]
  rw [henc]
  by_cases hs : (encList xs).length < 56
  · rw [lengthPrefix_short _ _ hs]
    simp only [List.cons_append, List.nil_append, listPayloadLength]
    have h1 : (UInt8.ofNat (192 + (encList xs).length)).toNat = 192 + (encList xs).length := u8_toNat (by omega)
    rw [h1]
    have : (decide (0xC0 ≤ 192 + (encList xs).length) && decide (192 + (encList xs).length ≤ 0xF7)) = true := by
      simp; omega
    rw [if_pos this]
    simp
  · rw [lengthPrefix_long _ _ hs]
    have hl8 : (beMin (encList xs).length).length ≤ 8 := beMin_length_le _ 8 (by simpa using h) (by decide)
    have hl1 := beMin_length_pos (encList xs).length
    simp only [List.cons_append, listPayloadLength]
    have h1 : (UInt8.ofNat (192 + 55 + (beMin (encList xs).length).length)).toNat =
        247 + (beMin (encList xs).length).length := by rw [u8_toNat (by omega)]
    rw [h1]
    have e1 : (decide (0xC0 ≤ 247 + (beMin (encList xs).length).length) &&
        decide (247 + (beMin (encList xs).length).length ≤ 0xF7)) = false := by simp; omega
    have e2 : 0xF8 ≤ 247 + (beMin (encList xs).length).length := by omega
    simp only [e1, Bool.false_eq_true, if_false, e2, decide_true, if_true, Nat.add_sub_cancel_left]
    have e3 : ¬ ((beMin (encList xs).length ++ encList xs).length < (beMin (encList xs).length).length) := by simp
    simp only [e3, if_false, List.take_left', beVal_beMin]

/-- **removing the merge-mining fields is idempotent** (leaving the BTC header in): what
    `remove_mm_fields_if_present` returns is left unchanged by it -/
theorem removeMM_idempotent (raw e : Bytes) (h : removeMM raw true = some e) (hlen : e.length < 2 ^ 64) :
    removeMM e true = some e := by
  unfold removeMM at h
  cases hd : decode raw with
  | none => simp [hd] at h
  | some block =>
    simp only [hd] at h
    split at h
    · cases h
    · rename_i hn
      simp only [Bool.not_eq_true, Bool.not_eq_false', Bool.or_eq_true, beq_iff_eq, if_true] at hn h
      injection h with h
      subst h
      by_cases h19 : numFields block = 19 ∨ numFields block = 20
      · have hcond : (numFields block == 19 || numFields block == 20) = true := by
          rcases h19 with h' | h' <;> simp [h']
        rw [if_pos h19] at hlen ⊢
        unfold removeMM
        rw [decode_enc _ hlen]
        simp only [numFields_dropFields]
        rcases h19 with h' | h' <;> simp [h']
      · have hcond : (numFields block == 19 || numFields block == 20) = false := by
          simp only [not_or] at h19
          simp [h19.1, h19.2]
        rw [if_neg h19] at hlen ⊢
        unfold removeMM
        rw [decode_enc _ hlen]
        have h1718 : numFields block = 17 ∨ numFields block = 18 := by
          simp only [not_or] at h19
          rcases hn with ((h' | h') | h') | h'
          · exact Or.inl h'
          · exact Or.inr h'
          · exact absurd h' h19.1
          · exact absurd h' h19.2
        rcases h1718 with h' | h' <;> simp [h']

end Block
end PowHsm
