/-
  C04 / C05: the block operations report success (`true`) only with the total / partial success code.
-/
import PowHsm.Proofs.Monad
import PowHsm.Dongle.Blocks
namespace PowHsm
namespace Dongle
open M Generated Tbl

theorem blockLoop_success (h : Hashes) (c : BlockCfg) :
    ∀ (blocks : List (Option Bytes)) (brothers : List (List (Option Bytes))) (w : World) (code : Int),
      (blockLoop h c blocks brothers w).val = .ok (true, code) →
      code = c.respOkTotal ∨ (c.advance = true ∧ code = c.respOkPartial) := by
  intro blocks
  induction blocks with
  | nil => intro brothers w code hv; simp [blockLoop, M.throw'] at hv
  | cons b rest ih =>
    intro brothers w code hv
    unfold blockLoop at hv
    obtain ⟨r1, _, w1, _, hv, _, _⟩ := M.bind_ok_inv hv
    cases r1 with
    | fail code1 => simp [M.pure_apply] at hv
    | ok resp0 =>
      simp only at hv
      obtain ⟨r2, _, w2, _, hv, _, _⟩ := M.bind_ok_inv hv
      cases r2 with
      | fail code2 => simp [M.pure_apply] at hv
      | ok resp =>
        simp only at hv
        obtain ⟨rop, _, w3, _, hv, _, _⟩ := M.bind_ok_inv hv
        split at hv
        · rename_i hp
          simp only [M.pure_apply] at hv
          injection hv with hv
          injection hv with _ hc
          exact Or.inr ⟨by simp only [Bool.and_eq_true] at hp; exact hp.1, hc.symm⟩
        · split at hv
          · simp only [M.pure_apply] at hv
            injection hv with hv
            injection hv with _ hc
            exact Or.inl hc.symm
          · exact ih _ _ _ hv

theorem doBlockOperation_success (h : Hashes) (c : BlockCfg) (blocks : List (Option Bytes))
    (brothers : List (List (Option Bytes))) (w : World) (code : Int)
    (hv : (doBlockOperation h c blocks brothers w).val = .ok (true, code)) :
    code = c.respOkTotal ∨ (c.advance = true ∧ code = c.respOkPartial) := by
  unfold doBlockOperation at hv
  split at hv
  · simp [M.throw'] at hv
  · obtain ⟨r, _, w1, _, hv, _, _⟩ := M.bind_ok_inv hv
    cases r with
    | some code1 => simp [M.pure_apply] at hv
    | none => exact blockLoop_success h c _ _ _ _ hv

/-- `advance_blockchain` reports success only with OK_TOTAL or OK_PARTIAL -/
theorem advanceBlockchain_success (h : Hashes) (blocks : List (Option Bytes))
    (brothers : List (List (Option Bytes))) (w : World) (code : Int)
    (hv : (advanceBlockchain h blocks brothers w).val = .ok (true, code)) :
    code = AdvanceResponse_OK_TOTAL ∨ code = AdvanceResponse_OK_PARTIAL := by
  unfold advanceBlockchain at hv
  simp only at hv
  generalize (brothers.mapM fun bl => bl.mapM fun b => do
      let raw ← b
      if h.tooDeep raw then none
      let k ← Block.blockHash h.keccak raw
      pure (k, raw)) = keyed at hv
  cases keyed with
  | none => simp [M.pure_apply] at hv
  | some ks =>
    rcases doBlockOperation_success h advCfg _ _ _ _ hv with h1 | ⟨_, h2⟩
    · exact Or.inl h1
    · exact Or.inr h2

/-- `update_ancestor` reports success only with OK_TOTAL -/
theorem updateAncestor_success (h : Hashes) (blocks : List (Option Bytes)) (w : World) (code : Int)
    (hv : (updateAncestor h blocks w).val = .ok (true, code)) : code = UpdateAncestorResponse_OK_TOTAL := by
  unfold updateAncestor at hv
  generalize (blocks.mapM fun b => b.bind fun raw => if h.tooDeep raw then none else Block.removeMM raw true) = opt at hv
  cases opt with
  | none => simp [M.pure_apply] at hv
  | some o =>
    rcases doBlockOperation_success h updCfg _ _ _ _ hv with h1 | ⟨h2, _⟩
    · exact h1
    · exact absurd h2 (by decide)

theorem dictGet_eq_iff (d : List (Int × Int)) (dflt v k k0 : Int) (hd : dflt ≠ v)
    (huniq : ∀ p ∈ d, p.2 = v → p.1 = k0) (hk0 : dictGet d k0 dflt = v) :
    dictGet d k dflt = v ↔ k = k0 := by
  constructor
  · intro hg
    unfold dictGet at hg
    cases hf : d.find? (fun p => p.1 == k) with
    | none => rw [hf] at hg; exact absurd hg hd
    | some p =>
      rw [hf] at hg
      have hm := List.mem_of_find?_eq_some hf
      have hk := List.find?_some hf
      simp only [beq_iff_eq] at hk
      rw [← hk]
      exact huniq p hm hg
  · intro hk; subst hk; exact hk0

/-- the reply codes 0 and 1 of advanceBlockchain stand for OK_TOTAL and OK_PARTIAL and for nothing else -/
theorem advance_zero_one (code : Int) :
    (dictGet translateAdvance code translateAdvanceDefault = 0 ↔ code = AdvanceResponse_OK_TOTAL) ∧
    (dictGet translateAdvance code translateAdvanceDefault = 1 ↔ code = AdvanceResponse_OK_PARTIAL) :=
  ⟨dictGet_eq_iff _ _ _ _ _ (by decide) (by decide) (by decide),
   dictGet_eq_iff _ _ _ _ _ (by decide) (by decide) (by decide)⟩

/-- the reply code 0 of updateAncestorBlock stands for OK_TOTAL and for nothing else; 1 is never answered -/
theorem update_zero_one (code : Int) :
    (dictGet translateUpdate code translateUpdateDefault = 0 ↔ code = UpdateAncestorResponse_OK_TOTAL) ∧
    dictGet translateUpdate code translateUpdateDefault ≠ 1 := by
  refine ⟨dictGet_eq_iff _ _ _ _ _ (by decide) (by decide) (by decide), ?_⟩
  intro hg
  unfold dictGet at hg
  cases hf : translateUpdate.find? (fun p => p.1 == code) with
  | none => rw [hf] at hg; revert hg; decide
  | some p =>
    rw [hf] at hg
    have hm := List.mem_of_find?_eq_some hf
    have : ∀ q ∈ translateUpdate, q.2 ≠ 1 := by decide
    exact this p hm hg

end Dongle
end PowHsm
