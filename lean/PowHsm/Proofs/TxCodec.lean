/-
  Round trip of the transaction codec (`Btc.serialize` / `Btc.deserialize`), used by Props/C14
  for idempotence at byte level.
-/
import PowHsm.Btc.Tx
import PowHsm.Proofs.Script
namespace PowHsm
namespace Btc

def MAXSZ : Nat := 0x02000000

theorem readN_append (a rest : Bytes) (h : a.length ≤ MAXSZ) :
    readN a.length (a ++ rest) = some (a, rest) := by
  unfold readN
  simp only [MAXSZ] at h
  simp [h]

theorem readN_append' (n : Nat) (a rest : Bytes) (hn : a.length = n) (h : n ≤ MAXSZ) :
    readN n (a ++ rest) = some (a, rest) := by
  subst hn; exact readN_append a rest h

theorem readVarint_varint (n : Nat) (rest : Bytes) (h : n < 2 ^ 64) :
    readVarint (varint n ++ rest) = some (n, rest) := by
  unfold varint
  by_cases h1 : n < 0xfd
  · simp only [h1, if_true, List.cons_append, List.nil_append, readVarint]
    have : (UInt8.ofNat n).toNat = n := ofNat_toNat (by omega)
    simp [this, h1]
  · simp only [h1, if_false]
    by_cases h2 : n ≤ 0xffff
    · simp only [h2, if_true, List.cons_append, readVarint]
      have c : (0xfd : UInt8).toNat = 0xfd := by decide
      simp only [c, Nat.lt_irrefl, if_false, if_true]
      rw [readN_append' 2 (Bytes.le 2 n) rest (by simp) (by simp [MAXSZ])]
      simp [Bytes.leVal_le_of_lt (show n < 256 ^ 2 by omega)]
    · simp only [h2, if_false]
      by_cases h3 : n ≤ 0xffffffff
      · simp only [h3, if_true, List.cons_append, readVarint]
        have c : (0xfe : UInt8).toNat = 0xfe := by decide
        simp only [c]
        rw [readN_append' 4 (Bytes.le 4 n) rest (by simp) (by simp [MAXSZ])]
        simp [Bytes.leVal_le_of_lt (show n < 256 ^ 4 by omega)]
      · simp only [h3, if_false, List.cons_append, readVarint]
        have c : (0xff : UInt8).toNat = 0xff := by decide
        simp only [c]
        rw [readN_append' 8 (Bytes.le 8 n) rest (by simp) (by simp [MAXSZ])]
        simp [Bytes.leVal_le_of_lt (show n < 256 ^ 8 by omega)]

theorem readVarBytes_varBytes (b rest : Bytes) (h : b.length ≤ MAXSZ) :
    readVarBytes (varBytes b ++ rest) = some (b, rest) := by
  unfold readVarBytes varBytes
  rw [List.append_assoc, readVarint_varint _ _ (by simp only [MAXSZ] at h; omega)]
  exact readN_append b rest h

theorem readMany_flatten {α : Type} (p : P α) (ser : α → Bytes) :
    ∀ (xs : List α) (rest : Bytes), (∀ x ∈ xs, ∀ r, p (ser x ++ r) = some (x, r)) →
      readMany p xs.length ((xs.map ser).flatten ++ rest) = some (xs, rest) := by
  intro xs
  induction xs with
  | nil => intro rest _; simp [readMany]
  | cons x xs ih =>
    intro rest h
    simp only [List.length_cons, List.map_cons, List.flatten_cons, List.append_assoc, readMany]
    rw [h x List.mem_cons_self]
    simp only
    rw [ih rest fun y hy => h y (List.mem_cons_of_mem _ hy)]

theorem readVector_serVector {α : Type} (p : P α) (ser : α → Bytes) (xs : List α) (rest : Bytes)
    (hl : xs.length < 2 ^ 64) (h : ∀ x ∈ xs, ∀ r, p (ser x ++ r) = some (x, r)) :
    readVector p (serVector ser xs ++ rest) = some (xs, rest) := by
  unfold readVector serVector
  rw [List.append_assoc, readVarint_varint _ _ hl]
  exact readMany_flatten p ser xs rest h

structure TxIn.WF (i : TxIn) : Prop where
  h : i.prevHash.length = 32
  n : i.prevN.length = 4
  q : i.seq.length = 4
  s : i.script.length ≤ MAXSZ

structure TxOut.WF (o : TxOut) : Prop where
  v : o.value.length = 8
  s : o.script.length ≤ MAXSZ

theorem readTxIn_ser (i : TxIn) (hw : i.WF) (rest : Bytes) : readTxIn (serTxIn i ++ rest) = some (i, rest) := by
  unfold readTxIn serTxIn
  simp only [List.append_assoc]
  rw [readN_append' 32 _ _ hw.h (by simp [MAXSZ])]
  simp only [Option.bind_eq_bind, Option.bind_some]
  rw [readN_append' 4 _ _ hw.n (by simp [MAXSZ])]
  simp only [Option.bind_some]
  rw [readVarBytes_varBytes _ _ hw.s]
  simp only [Option.bind_some]
  rw [readN_append' 4 _ _ hw.q (by simp [MAXSZ])]
  rfl

theorem readTxOut_ser (o : TxOut) (hw : o.WF) (rest : Bytes) : readTxOut (serTxOut o ++ rest) = some (o, rest) := by
  unfold readTxOut serTxOut
  simp only [List.append_assoc]
  rw [readN_append' 8 _ _ hw.v (by simp [MAXSZ])]
  simp only [Option.bind_eq_bind, Option.bind_some]
  rw [readVarBytes_varBytes _ _ hw.s]
  rfl

structure Tx.WF (t : Tx) : Prop where
  ver : t.version.length = 4
  lock : t.lock.length = 4
  vin : ∀ i ∈ t.vin, i.WF
  vout : ∀ o ∈ t.vout, o.WF
  nin : t.vin.length < 2 ^ 64
  nout : t.vout.length < 2 ^ 64
  vinNe : t.vin ≠ []

theorem varint_head (n : Nat) (h0 : 0 < n) : ∃ c t, varint n = c :: t ∧ c ≠ 0 := by
  unfold varint
  by_cases h1 : n < 0xfd
  · refine ⟨UInt8.ofNat n, [], by simp [h1], ?_⟩
    intro hc
    have := congrArg UInt8.toNat hc
    rw [ofNat_toNat (by omega)] at this
    simp at this; omega
  · simp only [h1, if_false]
    split
    · exact ⟨0xfd, _, rfl, by decide⟩
    · split
      · exact ⟨0xfe, _, rfl, by decide⟩
      · exact ⟨0xff, _, rfl, by decide⟩

theorem serTxIn_length (i : TxIn) (hw : i.WF) : 41 ≤ (serTxIn i).length := by
  unfold serTxIn varBytes varint
  simp only [List.length_append, hw.h, hw.n, hw.q]
  split <;> (try split) <;> (try split) <;> simp <;> omega

/-- the legacy serialization of a transaction with at least one input does not start (after the
    version) with the segwit marker, and has the two bytes the marker test reads -/
theorem legacy_no_marker (t : Tx) (hw : t.WF) (rest : Bytes) :
    ∃ mf b1, readN 2 (serVector serTxIn t.vin ++ rest) = some (mf, b1) ∧ mf ≠ [0, 1] := by
  obtain ⟨i, is, hvin⟩ := List.exists_cons_of_ne_nil hw.vinNe
  have hlen : 0 < t.vin.length := by rw [hvin]; simp
  obtain ⟨c, tl, hc, hne⟩ := varint_head t.vin.length hlen
  have h41 := serTxIn_length i (hw.vin i (by rw [hvin]; exact List.mem_cons_self))
  have hlong : 2 ≤ (serVector serTxIn t.vin ++ rest).length := by
    unfold serVector
    rw [hvin]
    simp only [List.map_cons, List.flatten_cons, List.length_append]
    omega
  refine ⟨(serVector serTxIn t.vin ++ rest).take 2, (serVector serTxIn t.vin ++ rest).drop 2, ?_, ?_⟩
  · unfold readN
    rw [if_pos ⟨hlong, by decide⟩]
  · unfold serVector
    rw [hc]
    intro h
    simp only [List.cons_append, List.take_succ_cons] at h
    injection h with h1 _
    exact hne h1

theorem readTx_legacy (t : Tx) (hw : t.WF) :
    readTx (t.version ++ serVector serTxIn t.vin ++ serVector serTxOut t.vout ++ t.lock)
      = some ({ t with wit := [] }, []) := by
  unfold readTx
  simp only [List.append_assoc]
  rw [readN_append' 4 _ _ hw.ver (by simp [MAXSZ])]
  simp only [Option.bind_eq_bind, Option.bind_some]
  obtain ⟨mf, b1, hr, hne⟩ := legacy_no_marker t hw (serVector serTxOut t.vout ++ t.lock)
  rw [hr]
  simp only [Option.bind_some, hne, if_false]
  rw [readVector_serVector readTxIn serTxIn t.vin _ hw.nin (fun x hx r => readTxIn_ser x (hw.vin x hx) r)]
  simp only [Option.bind_some]
  rw [readVector_serVector readTxOut serTxOut t.vout _ hw.nout (fun x hx r => readTxOut_ser x (hw.vout x hx) r)]
  simp only [Option.bind_some]
  have := readN_append' 4 t.lock [] hw.lock (by simp [MAXSZ])
  rw [List.append_nil] at this
  rw [this]
  rfl

/-- a transaction whose witness is absent or all-empty is written in the legacy form and read
    back as itself (without witness) -/
theorem deserialize_serialize_legacy (t : Tx) (hw : t.WF) (hnull : witIsNull t.wit = true) :
    deserialize (serialize t) = some { t with wit := [] } := by
  unfold deserialize serialize
  simp only [hnull, if_true]
  rw [readTx_legacy t hw]

structure WitWF (t : Tx) : Prop where
  len : t.wit.length = t.vin.length
  stacks : ∀ st ∈ t.wit, st.length < 2 ^ 64 ∧ ∀ it ∈ st, it.length ≤ MAXSZ

theorem readTx_segwit (t : Tx) (hw : t.WF) (hwit : WitWF t) :
    readTx (t.version ++ [0, 1] ++ serVector serTxIn t.vin ++ serVector serTxOut t.vout
      ++ (t.wit.map (serVector varBytes)).flatten ++ t.lock) = some (t, []) := by
  unfold readTx
  simp only [List.append_assoc]
  rw [readN_append' 4 _ _ hw.ver (by simp [MAXSZ])]
  simp only [Option.bind_eq_bind, Option.bind_some]
  rw [readN_append' 2 [0, 1] _ rfl (by simp [MAXSZ])]
  simp only [Option.bind_some, if_true]
  rw [readVector_serVector readTxIn serTxIn t.vin _ hw.nin (fun x hx r => readTxIn_ser x (hw.vin x hx) r)]
  simp only [Option.bind_some]
  rw [readVector_serVector readTxOut serTxOut t.vout _ hw.nout (fun x hx r => readTxOut_ser x (hw.vout x hx) r)]
  simp only [Option.bind_some]
  rw [← hwit.len]
  rw [readMany_flatten (readVector readVarBytes) (serVector varBytes) t.wit t.lock
    (fun st hst r => readVector_serVector readVarBytes varBytes st r (hwit.stacks st hst).1
      (fun it hit r' => readVarBytes_varBytes it r' ((hwit.stacks st hst).2 it hit)))]
  simp only [Option.bind_some]
  have := readN_append' 4 t.lock [] hw.lock (by simp [MAXSZ])
  rw [List.append_nil] at this
  rw [this]
  rfl

theorem deserialize_serialize_segwit (t : Tx) (hw : t.WF) (hwit : WitWF t) (hnn : witIsNull t.wit = false) :
    deserialize (serialize t) = some t := by
  unfold deserialize serialize
  simp only [hnn, Bool.false_eq_true, if_false]
  rw [readTx_segwit t hw hwit]

/-! ### what a successful parse guarantees -/

theorem readN_some {n : Nat} {b a r : Bytes} (h : readN n b = some (a, r)) : a.length = n ∧ n ≤ MAXSZ := by
  unfold readN at h
  split at h
  · rename_i hc
    injection h with h; injection h with h1 h2
    subst h1
    simp only [MAXSZ]
    refine ⟨?_, hc.2⟩
    simp only [List.length_take]; omega
  · cases h

theorem leVal_lt' (b : Bytes) (k : Nat) (h : b.length = k) : Bytes.leVal b < 256 ^ k := by
  rw [← h]; exact leVal_lt b

theorem readVarint_some {b r : Bytes} {n : Nat} (h : readVarint b = some (n, r)) : n < 2 ^ 64 := by
  unfold readVarint at h
  cases b with
  | nil => cases h
  | cons c rest =>
    simp only at h
    split at h
    · injection h with h; injection h with h1 _; subst h1
      have := c.toNat_lt; omega
    · split at h
      · cases hr : readN 2 rest with
        | none => simp [hr] at h
        | some p =>
          obtain ⟨x, t⟩ := p
          simp [hr] at h
          have := leVal_lt' x 2 (readN_some hr).1
          omega
      · split at h
        · cases hr : readN 4 rest with
          | none => simp [hr] at h
          | some p =>
            obtain ⟨x, t⟩ := p
            simp [hr] at h
            have := leVal_lt' x 4 (readN_some hr).1
            omega
        · cases hr : readN 8 rest with
          | none => simp [hr] at h
          | some p =>
            obtain ⟨x, t⟩ := p
            simp [hr] at h
            have := leVal_lt' x 8 (readN_some hr).1
            omega

theorem readVarBytes_some {b a r : Bytes} (h : readVarBytes b = some (a, r)) : a.length ≤ MAXSZ := by
  unfold readVarBytes at h
  cases hv : readVarint b with
  | none => simp [hv] at h
  | some p =>
    obtain ⟨l, rest⟩ := p
    simp only [hv] at h
    have := readN_some h
    omega

theorem readMany_some {α : Type} {p : P α} {Q : α → Prop} (hp : ∀ b x r, p b = some (x, r) → Q x) :
    ∀ (n : Nat) (b : Bytes) (xs : List α) (r : Bytes), readMany p n b = some (xs, r) →
      xs.length = n ∧ ∀ x ∈ xs, Q x := by
  intro n
  induction n with
  | zero => intro b xs r h; simp [readMany] at h; obtain ⟨h1, _⟩ := h; subst h1; simp
  | succ n ih =>
    intro b xs r h
    simp only [readMany] at h
    cases hx : p b with
    | none => simp [hx] at h
    | some pr =>
      obtain ⟨x, rest⟩ := pr
      simp only [hx] at h
      cases hm : readMany p n rest with
      | none => simp [hm] at h
      | some pr2 =>
        obtain ⟨ys, r2⟩ := pr2
        simp only [hm] at h
        injection h with h; injection h with h1 _
        subst h1
        obtain ⟨hl, hq⟩ := ih rest ys r2 hm
        refine ⟨by simp [hl], ?_⟩
        intro y hy
        rcases List.mem_cons.mp hy with rfl | hy
        · exact hp b _ rest hx
        · exact hq y hy

theorem readVector_some {α : Type} {p : P α} {Q : α → Prop} (hp : ∀ b x r, p b = some (x, r) → Q x)
    {b : Bytes} {xs : List α} {r : Bytes} (h : readVector p b = some (xs, r)) :
    xs.length < 2 ^ 64 ∧ ∀ x ∈ xs, Q x := by
  unfold readVector at h
  cases hv : readVarint b with
  | none => simp [hv] at h
  | some pr =>
    obtain ⟨n, rest⟩ := pr
    simp only [hv] at h
    obtain ⟨hl, hq⟩ := readMany_some hp n rest xs r h
    exact ⟨by rw [hl]; exact readVarint_some hv, hq⟩

theorem readTxIn_some {b r : Bytes} {i : TxIn} (h : readTxIn b = some (i, r)) : i.WF := by
  unfold readTxIn at h
  simp only [Option.bind_eq_bind] at h
  cases h1 : readN 32 b with
  | none => simp [h1] at h
  | some p1 =>
    obtain ⟨a1, r1⟩ := p1
    simp only [h1, Option.bind_some] at h
    cases h2 : readN 4 r1 with
    | none => simp [h2] at h
    | some p2 =>
      obtain ⟨a2, r2⟩ := p2
      simp only [h2, Option.bind_some] at h
      cases h3 : readVarBytes r2 with
      | none => simp [h3] at h
      | some p3 =>
        obtain ⟨a3, r3⟩ := p3
        simp only [h3, Option.bind_some] at h
        cases h4 : readN 4 r3 with
        | none => simp [h4] at h
        | some p4 =>
          obtain ⟨a4, r4⟩ := p4
          simp only [h4, Option.bind_some] at h
          injection h with h; injection h with hi _
          subst hi
          exact ⟨(readN_some h1).1, (readN_some h2).1, (readN_some h4).1, readVarBytes_some h3⟩

theorem readTxOut_some {b r : Bytes} {o : TxOut} (h : readTxOut b = some (o, r)) : o.WF := by
  unfold readTxOut at h
  simp only [Option.bind_eq_bind] at h
  cases h1 : readN 8 b with
  | none => simp [h1] at h
  | some p1 =>
    obtain ⟨a1, r1⟩ := p1
    simp only [h1, Option.bind_some] at h
    cases h3 : readVarBytes r1 with
    | none => simp [h3] at h
    | some p3 =>
      obtain ⟨a3, r3⟩ := p3
      simp only [h3, Option.bind_some] at h
      injection h with h; injection h with hi _
      subst hi
      exact ⟨(readN_some h1).1, readVarBytes_some h3⟩

/-- everything `Tx.WF` asks except "at least one input" -/
structure Tx.WF0 (t : Tx) : Prop where
  ver : t.version.length = 4
  lock : t.lock.length = 4
  vin : ∀ i ∈ t.vin, i.WF
  vout : ∀ o ∈ t.vout, o.WF
  nin : t.vin.length < 2 ^ 64
  nout : t.vout.length < 2 ^ 64
  wit : t.wit = [] ∨ WitWF t

theorem readTx_some {b r : Bytes} {t : Tx} (h : readTx b = some (t, r)) : t.WF0 := by
  unfold readTx at h
  simp only [Option.bind_eq_bind] at h
  cases h1 : readN 4 b with
  | none => simp [h1] at h
  | some p1 =>
    obtain ⟨ver, b0⟩ := p1
    simp only [h1, Option.bind_some] at h
    cases h2 : readN 2 b0 with
    | none => simp [h2] at h
    | some p2 =>
      obtain ⟨mf, b1⟩ := p2
      simp only [h2, Option.bind_some] at h
      split at h
      · cases h3 : readVector readTxIn b1 with
        | none => simp [h3] at h
        | some p3 =>
          obtain ⟨vin, r3⟩ := p3
          simp only [h3, Option.bind_some] at h
          cases h4 : readVector readTxOut r3 with
          | none => simp [h4] at h
          | some p4 =>
            obtain ⟨vout, r4⟩ := p4
            simp only [h4, Option.bind_some] at h
            cases h5 : readMany (readVector readVarBytes) vin.length r4 with
            | none => simp [h5] at h
            | some p5 =>
              obtain ⟨wit, r5⟩ := p5
              simp only [h5, Option.bind_some] at h
              cases h6 : readN 4 r5 with
              | none => simp [h6] at h
              | some p6 =>
                obtain ⟨lock, r6⟩ := p6
                simp only [h6, Option.bind_some] at h
                injection h with h; injection h with ht _
                subst ht
                obtain ⟨hin1, hin2⟩ := readVector_some (Q := TxIn.WF) (fun _ _ _ => readTxIn_some) h3
                obtain ⟨hout1, hout2⟩ := readVector_some (Q := TxOut.WF) (fun _ _ _ => readTxOut_some) h4
                obtain ⟨hw1, hw2⟩ := readMany_some
                  (Q := fun st : List Bytes => st.length < 2 ^ 64 ∧ ∀ it ∈ st, it.length ≤ MAXSZ)
                  (fun _ _ _ hh => readVector_some (Q := fun it : Bytes => it.length ≤ MAXSZ)
                    (fun _ _ _ => readVarBytes_some) hh) _ _ _ _ h5
                exact ⟨(readN_some h1).1, (readN_some h6).1, hin2, hout2, hin1, hout1, Or.inr ⟨hw1, hw2⟩⟩
      · cases h3 : readVector readTxIn b0 with
        | none => simp [h3] at h
        | some p3 =>
          obtain ⟨vin, r3⟩ := p3
          simp only [h3, Option.bind_some] at h
          cases h4 : readVector readTxOut r3 with
          | none => simp [h4] at h
          | some p4 =>
            obtain ⟨vout, r4⟩ := p4
            simp only [h4, Option.bind_some] at h
            cases h6 : readN 4 r4 with
            | none => simp [h6] at h
            | some p6 =>
              obtain ⟨lock, r6⟩ := p6
              simp only [h6, Option.bind_some] at h
              injection h with h; injection h with ht _
              subst ht
              obtain ⟨hin1, hin2⟩ := readVector_some (Q := TxIn.WF) (fun _ _ _ => readTxIn_some) h3
              obtain ⟨hout1, hout2⟩ := readVector_some (Q := TxOut.WF) (fun _ _ _ => readTxOut_some) h4
              exact ⟨(readN_some h1).1, (readN_some h6).1, hin2, hout2, hin1, hout1, Or.inl rfl⟩

/-! ### list helpers used by Props/C14 -/

/-- position-wise relation between two lists of the same length -/
def AllPairs {α β : Type} (R : α → β → Prop) : List α → List β → Prop
  | [], [] => True
  | a :: as, b :: bs => R a b ∧ AllPairs R as bs
  | _, _ => False

theorem AllPairs.imp {α β : Type} {R S : α → β → Prop} (hRS : ∀ a b, R a b → S a b) :
    ∀ {xs : List α} {ys : List β}, AllPairs R xs ys → AllPairs S xs ys
  | [], [], _ => trivial
  | _ :: _, _ :: _, h => ⟨hRS _ _ h.1, AllPairs.imp hRS h.2⟩
  | [], _ :: _, h => h.elim
  | _ :: _, [], h => h.elim

theorem AllPairs.length_eq {α β : Type} {R : α → β → Prop} :
    ∀ {xs : List α} {ys : List β}, AllPairs R xs ys → xs.length = ys.length
  | [], [], _ => rfl
  | _ :: _, _ :: _, h => by simp [AllPairs.length_eq h.2]
  | [], _ :: _, h => h.elim
  | _ :: _, [], h => h.elim

theorem AllPairs.right_mem {α β : Type} {R : α → β → Prop} :
    ∀ {xs : List α} {ys : List β}, AllPairs R xs ys → ∀ y ∈ ys, ∃ x ∈ xs, R x y
  | [], [], _, y, hy => by simp at hy
  | a :: as, b :: bs, h, y, hy => by
    rcases List.mem_cons.mp hy with rfl | hm
    · exact ⟨a, List.mem_cons_self, h.1⟩
    · obtain ⟨x, hx, hr⟩ := AllPairs.right_mem h.2 y hm
      exact ⟨x, List.mem_cons_of_mem _ hx, hr⟩
  | [], _ :: _, h, _, _ => h.elim
  | _ :: _, [], h, _, _ => h.elim

theorem mapM_forall2 {α β : Type} {f : α → Option β} : ∀ {xs : List α} {ys : List β},
    xs.mapM f = some ys → AllPairs (fun x y => f x = some y) xs ys := by
  intro xs
  induction xs with
  | nil => intro ys h; simp at h; subst h; exact trivial
  | cons x xs ih =>
    intro ys h
    rw [List.mapM_cons] at h
    cases hx : f x with
    | none => simp [hx] at h
    | some y =>
      cases hxs : xs.mapM f with
      | none => simp [hx, hxs] at h
      | some ys' =>
        simp [hx, hxs] at h
        subst h
        exact ⟨hx, ih hxs⟩

theorem canon_encode (l : Elem) : (canon l).encode = l.encode := by
  cases l with
  | zero => rfl
  | op c => rfl
  | push d => cases d <;> rfl

theorem mapM_none_iff {α β : Type} {f : α → Option β} : ∀ {xs : List α},
    xs.mapM f = none ↔ ∃ x ∈ xs, f x = none := by
  intro xs
  induction xs with
  | nil => simp
  | cons x xs ih =>
    rw [List.mapM_cons]
    cases hx : f x with
    | none => simp [hx]
    | some y =>
      cases hxs : xs.mapM f with
      | none =>
        have := ih.mp hxs
        obtain ⟨z, hz, hfz⟩ := this
        simp only [Option.bind_eq_bind, Option.bind_some, Option.bind_none, List.mem_cons, true_iff]
        exact ⟨z, Or.inr hz, hfz⟩
      | some ys =>
        simp only [Option.bind_eq_bind, Option.bind_some, Option.pure_def, List.mem_cons]
        constructor
        · intro h; cases h
        · rintro ⟨z, hz | hz, hfz⟩
          · subst hz; rw [hx] at hfz; cases hfz
          · have := ih.mpr ⟨z, hz, hfz⟩
            rw [hxs] at this; cases this

theorem mapM_self {α : Type} {f : α → Option α} : ∀ {xs : List α},
    (∀ x ∈ xs, f x = some x) → xs.mapM f = some xs := by
  intro xs
  induction xs with
  | nil => intro _; simp
  | cons x xs ih =>
    intro h
    rw [List.mapM_cons, h x List.mem_cons_self, ih fun y hy => h y (List.mem_cons_of_mem _ hy)]
    rfl

theorem unsignTx_wit (t : Tx) (w : List (List Bytes)) :
    unsignTx { t with wit := w } = (unsignTx t).map fun x => { x with wit := w } := by
  unfold unsignTx
  cases t.vin.mapM clearIn <;> rfl

theorem deserialize_wf0 {raw : Bytes} {t : Tx} (h : deserialize raw = some t) : t.WF0 := by
  unfold deserialize at h
  split at h
  · rename_i tx hr
    injection h with h; subst h
    exact readTx_some hr
  · cases h


end Btc
end PowHsm
