/-
  Trace predicates for the monad `M`: "every event a computation emits satisfies `P`, in every
  world", with closure lemmas for the combinators the models use.
-/
import PowHsm.Proofs.Monad
import PowHsm.Dongle.Exchange
namespace PowHsm
namespace M

/-- every event emitted by `m`, in every world, whatever it returns or raises, satisfies `P` -/
def Emits (P : Ev → Bool) (m : M α) : Prop := ∀ w, (m w).evs.all P = true

theorem Emits.pure {P : Ev → Bool} (a : α) : Emits P (Pure.pure a : M α) := by
  intro w; rfl

theorem Emits.throw {P : Ev → Bool} (e : Exc) : Emits P (throw' e : M α) := by
  intro w; rfl

theorem Emits.bind {P : Ev → Bool} {m : M α} {f : α → M β} (h1 : Emits P m) (h2 : ∀ a, Emits P (f a)) :
    Emits P (m >>= f) := by
  intro w
  rw [bind_apply]
  have := h1 w
  split
  · rename_i a e1 w1 heq
    rw [heq] at this
    simp only [List.all_append, Bool.and_eq_true]
    exact ⟨this, h2 a w1⟩
  · rename_i e e1 w1 heq
    rw [heq] at this
    exact this

theorem Emits.seq {P : Ev → Bool} {m : M α} {k : M β} (h1 : Emits P m) (h2 : Emits P k) :
    Emits P (m >>= fun _ => k) := Emits.bind h1 fun _ => h2

theorem Emits.tryCatchIf {P : Ev → Bool} {m : M α} {p : Exc → Bool} {h : Exc → M α}
    (h1 : Emits P m) (h2 : ∀ e, Emits P (h e)) : Emits P (tryCatchIf m p h) := by
  intro w
  unfold M.tryCatchIf
  have := h1 w
  split
  · rename_i e e1 w1 heq
    rw [heq] at this
    split
    · simp only [List.all_append, Bool.and_eq_true]
      exact ⟨this, h2 e w1⟩
    · exact this
  · exact this

theorem Emits.attempt {P : Ev → Bool} {m : M α} (h1 : Emits P m) : Emits P (attempt m) := by
  intro w; exact h1 w

theorem Emits.emit {P : Ev → Bool} {e : Ev} (h : P e = true) : Emits P (emit e) := by
  intro w; simp [M.emit, h]

theorem Emits.ite {P : Ev → Bool} {c : Prop} [Decidable c] {a b : M α} (ha : Emits P a) (hb : Emits P b) :
    Emits P (if c then a else b) := by
  split <;> assumption

theorem Emits.liftExcept {P : Ev → Bool} (x : Except Exc α) : Emits P (liftExcept x) := by
  cases x <;> intro w <;> rfl

theorem Emits.mono {P Q : Ev → Bool} {m : M α} (h : Emits P m) (hpq : ∀ e, P e = true → Q e = true) : Emits Q m := by
  intro w
  have := h w
  rw [List.all_eq_true] at this ⊢
  exact fun e he => hpq e (this e he)

/-- stepping through a bind: if `m` itself emits only `P`-events but `m >>= f` emits some other
    event, then `m` returned and the offending event comes from the continuation -/
theorem Emits.bind_split {P : Ev → Bool} {m : M α} {f : α → M β} (hm : Emits P m) {w : World}
    (h : ((m >>= f) w).evs.all P = false) :
    ∃ a e1 w1, m w = ⟨.ok a, e1, w1⟩ ∧ (f a w1).evs.all P = false := by
  have h0 := hm w
  cases hr : m w with
  | mk val e1 w1 =>
    rw [hr] at h0
    cases val with
    | error e => rw [bind_error hr] at h; simp only at h h0; rw [h0] at h; cases h
    | ok a =>
      rw [bind_ok hr] at h
      simp only [List.all_append] at h h0
      rw [h0] at h
      exact ⟨a, e1, w1, rfl, by simpa using h⟩

/-- …and the other way round: if the continuation emits only `P`-events, the offending event
    comes from `m` -/
theorem Emits.bind_left {P : Ev → Bool} {m : M α} {f : α → M β} (hf : ∀ a, Emits P (f a)) {w : World}
    (h : ((m >>= f) w).evs.all P = false) : (m w).evs.all P = false := by
  cases hr : m w with
  | mk val e1 w1 =>
    cases val with
    | error e => rw [bind_error hr] at h; exact h
    | ok a =>
      rw [bind_ok hr] at h
      simp only [List.all_append, hf a w1, Bool.and_true] at h
      exact h

/-- number of events satisfying `Q` is bounded, in every world -/
def CountLe (Q : Ev → Bool) (n : Nat) (m : M α) : Prop := ∀ w, (m w).evs.countP Q ≤ n

theorem CountLe.of_emits {Q : Ev → Bool} {m : M α} (h : Emits (fun e => !Q e) m) : CountLe Q 0 m := by
  intro w
  have := h w
  rw [List.all_eq_true] at this
  have : (m w).evs.countP Q = 0 := by
    rw [List.countP_eq_zero]
    intro e he
    have := this e he
    simpa using this
  omega

theorem CountLe.mono {Q : Ev → Bool} {m : M α} {a b : Nat} (h : CountLe Q a m) (hab : a ≤ b) : CountLe Q b m :=
  fun w => Nat.le_trans (h w) hab

theorem CountLe.bind {Q : Ev → Bool} {m : M α} {f : α → M β} {a b : Nat}
    (h1 : CountLe Q a m) (h2 : ∀ x, CountLe Q b (f x)) : CountLe Q (a + b) (m >>= f) := by
  intro w
  rw [bind_apply]
  have := h1 w
  split
  · rename_i x e1 w1 heq
    rw [heq] at this
    simp only [List.countP_append]
    have h3 := h2 x w1
    simp only at this
    omega
  · rename_i e e1 w1 heq
    rw [heq] at this
    simp only at this ⊢
    omega

theorem CountLe.ite {Q : Ev → Bool} {c : Prop} [Decidable c] {a b : M α} {n : Nat}
    (ha : CountLe Q n a) (hb : CountLe Q n b) : CountLe Q n (if c then a else b) := by
  split <;> assumption

/-- emits nothing at all -/
abbrev Silent (m : M α) : Prop := Emits (fun _ => false) m

theorem Silent.evs {m : M α} (h : Silent m) (w : World) : (m w).evs = [] := by
  have := h w
  cases hm : (m w).evs with
  | nil => rfl
  | cons e es => rw [hm] at this; simp at this

theorem tryCatchIf_evs_silent {m : M α} {p : Exc → Bool} {h : Exc → M α} (hh : ∀ e, Silent (h e)) (w : World) :
    (tryCatchIf m p h w).evs = (m w).evs := by
  unfold M.tryCatchIf
  split
  · rename_i e e1 w1 heq
    split
    · simp [(hh e).evs w1, heq]
    · simp [heq]
  · rfl

theorem bind_evs_silent {m : M α} {f : α → M β} (hf : ∀ a, Silent (f a)) (w : World) :
    ((m >>= f) w).evs = (m w).evs := by
  rw [bind_apply]
  split
  · rename_i a e1 w1 heq
    simp [(hf a).evs w1, heq]
  · rename_i e e1 w1 heq
    simp [heq]

theorem bind_evs_prefix (m : M α) (f : α → M β) (w : World) : ∃ t, ((m >>= f) w).evs = (m w).evs ++ t := by
  rw [bind_apply]
  split
  · rename_i a e1 w1 heq
    exact ⟨(f a w1).evs, by simp [heq]⟩
  · rename_i e e1 w1 heq
    exact ⟨[], by simp [heq]⟩

theorem tryCatchIf_evs_prefix (m : M α) (p : Exc → Bool) (h : Exc → M α) (w : World) :
    ∃ t, (tryCatchIf m p h w).evs = (m w).evs ++ t := by
  unfold M.tryCatchIf
  split
  · rename_i e e1 w1 heq
    split
    · exact ⟨(h e w1).evs, by simp [heq]⟩
    · exact ⟨[], by simp [heq]⟩
  · exact ⟨[], by simp⟩

end M

namespace Dongle

theorem exchange_emits {P : Ev → Bool} (apdu : Bytes) (h : P (.apdu apdu) = true) : M.Emits P (exchange apdu) := by
  intro w
  unfold exchange
  split <;> simp [h]

theorem sendCommand_emits {P : Ev → Bool} (cmd : UInt8) (data : Bytes) (h : P (.apdu (CLA :: cmd :: data)) = true) :
    M.Emits P (sendCommand cmd data) := exchange_emits _ h

theorem sendCommand_evs (cmd : UInt8) (data : Bytes) (w : World) :
    (sendCommand cmd data w).evs = [.apdu (CLA :: cmd :: data)] := by
  unfold sendCommand exchange
  split <;> rfl

theorem sendCommand_ok_inv {cmd : UInt8} {data r : Bytes} {w w1 : World} {e : List Ev}
    (h : sendCommand cmd data w = ⟨.ok r, e, w1⟩) :
    ∃ rest, w.script = .data r :: rest ∧ e = [.apdu (CLA :: cmd :: data)] ∧ w1 = { w with script := rest } := by
  unfold sendCommand exchange at h
  cases hs : w.script with
  | nil => simp [hs] at h
  | cons r0 rest =>
    simp only [hs] at h
    cases r0 with
    | data b =>
      simp only [classify] at h
      injection h with h1 h2 h3
      injection h1 with h1
      subst h1
      exact ⟨rest, rfl, h2.symm, h3.symm⟩
    | sw x => simp only [classify] at h; split at h <;> (injection h with h1; cases h1)
    | timeout => simp only [classify] at h; injection h with h1; cases h1
    | writeErr => simp only [classify] at h; injection h with h1; cases h1
    | readErr => simp only [classify] at h; injection h with h1; cases h1
    | other => simp only [classify] at h; injection h with h1; cases h1

theorem idx_ok_inv {b : Bytes} {i : Nat} {x : UInt8} {w w1 : World} {e : List Ev}
    (h : idx b i w = ⟨.ok x, e, w1⟩) : b[i]? = some x ∧ e = [] ∧ w1 = w := by
  unfold idx at h
  cases hb : b[i]? with
  | none => simp [hb, M.throw'] at h
  | some y =>
    simp only [hb, M.pure_apply] at h
    injection h with h1 h2 h3
    injection h1 with h1
    subst h1
    exact ⟨rfl, h2.symm, h3.symm⟩

theorem idx_emits {P : Ev → Bool} (b : Bytes) (i : Nat) : M.Emits P (idx b i) := by
  unfold idx
  split
  · exact M.Emits.pure _
  · exact M.Emits.throw _

theorem connect_emits {P : Ev → Bool} (h : ∀ ok, P (.connect ok) = true) : M.Emits P connect := by
  intro w
  unfold connect
  split <;> simp [h]

theorem disconnect_emits {P : Ev → Bool} (h : P .disconnect = true) : M.Emits P disconnect :=
  M.Emits.emit h

end Dongle
end PowHsm
